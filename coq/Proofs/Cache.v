(* C17 -- proofs about the cache protocol state machine (Model/Cache.v). *)
From Coq Require Import List Arith Bool Lia.
From OV Require Import Model.Cache.
Import ListNotations.

(* ------------------------------------------------------------------ equality tests *)
Lemma data_eqb_eq a b : data_eqb a b = true -> a = b.
Proof.
  destruct a, b; unfold data_eqb; simpl; intro H.
  apply andb_prop in H; destruct H as [H H3]; apply andb_prop in H; destruct H as [H1 H2].
  apply Nat.eqb_eq in H1, H2, H3; subst; reflexivity.
Qed.
Lemma data_eqb_refl a : data_eqb a a = true.
Proof. destruct a; unfold data_eqb; simpl; rewrite !Nat.eqb_refl; reflexivity. Qed.

Lemma loc_eqb_eq a b : loc_eqb a b = true <-> a = b.
Proof.
  split.
  - destruct a, b; simpl; intro H; try discriminate;
      repeat (apply andb_prop in H; destruct H as [H ?]);
      repeat match goal with X : (_ =? _) = true |- _ => apply Nat.eqb_eq in X end; subst; reflexivity.
  - intros ->; destruct b; simpl; rewrite ?Nat.eqb_refl; reflexivity.
Qed.
Lemma loc_eqb_refl a : loc_eqb a a = true.
Proof. apply loc_eqb_eq; reflexivity. Qed.
Lemma loc_eqb_neq a b : a <> b -> loc_eqb a b = false.
Proof. intro H; destruct (loc_eqb a b) eqn:E; auto; apply loc_eqb_eq in E; contradiction. Qed.

Lemma path_eqb_eq a b : path_eqb a b = true <-> a = b.
Proof.
  destruct a, b; unfold path_eqb; simpl; split.
  - intro H; apply andb_prop in H; destruct H as [H1 H2]; apply Nat.eqb_eq in H1, H2; subst; reflexivity.
  - intro H; inversion H; subst; rewrite !Nat.eqb_refl; reflexivity.
Qed.

Lemma updf_same f l v : updf f l v l = v.
Proof. unfold updf; rewrite loc_eqb_refl; reflexivity. Qed.
Lemma updf_other f l v l' : l <> l' -> updf f l v l' = f l'.
Proof. intro H; unfold updf; rewrite loc_eqb_neq; auto. Qed.
Lemma updp_same f i v : updp f i v i = v.
Proof. unfold updp; rewrite Nat.eqb_refl; reflexivity. Qed.
Lemma updp_other f i v j : i <> j -> updp f i v j = f j.
Proof. intro H; unfold updp; destruct (i =? j) eqn:E; auto; apply Nat.eqb_eq in E; contradiction. Qed.

(* ------------------------------------------------------------------ pickles *)
Lemma decode_some n b d : decode n b = Some d -> exists r, b = Some d :: r /\ length b = n.
Proof.
  unfold decode; destruct b as [|[x|] r]; try discriminate.
  destruct ((length (Some x :: r) =? n) && forallb (chunk_is x) (Some x :: r)) eqn:E; try discriminate.
  intro H; inversion H; subst. apply andb_prop in E; destruct E as [E _]; apply Nat.eqb_eq in E.
  exists r; auto.
Qed.

Lemma forallb_repeat d k : forallb (chunk_is d) (repeat (Some d) k) = true.
Proof. induction k; simpl; auto; rewrite data_eqb_refl; auto. Qed.

Lemma decode_repeat n d : 0 < n -> decode n (repeat (Some d) n) = Some d.
Proof.
  destruct n; [lia|]; intros _. unfold decode; cbn [repeat].
  change (Some d :: repeat (Some d) n) with (repeat (Some d) (S n)).
  rewrite repeat_length, Nat.eqb_refl, forallb_repeat; reflexivity.
Qed.

(* a proper prefix of a pickle never decodes: decode (prefix b) = None *)
Lemma decode_prefix n d k : k <> n -> decode n (repeat (Some d) k) = None.
Proof.
  intro H; unfold decode; destruct k; [reflexivity|]. cbn [repeat].
  change (Some d :: repeat (Some d) k) with (repeat (Some d) (S k)).
  rewrite repeat_length. destruct (S k =? n) eqn:E; [|reflexivity].
  apply Nat.eqb_eq in E; contradiction.
Qed.

Lemma put_repeat (d : data) i : put i (Some d) (repeat (Some d) i) = repeat (Some d) (S i).
Proof. induction i; simpl; auto; rewrite IHi; reflexivity. Qed.

Lemma put_Forall (P : option data -> Prop) i v b : P None -> P v -> Forall P b -> Forall P (put i v b).
Proof.
  intros HN Hv; revert b; induction i; intros b Hb; destruct b; simpl.
  - constructor; auto.
  - inversion Hb; subst; constructor; auto.
  - constructor; auto.
  - inversion Hb; subst; constructor; auto.
Qed.

(* ------------------------------------------------------------------ the invariant *)
Section Invariant.
Variable w : setup.
Let g := w_cfg w.
Let nch := w_nch w.
(* the shipped rule for the in-process cache: a hit is never served *)
Hypothesis rt_ignored : w_rt w = RtIgnored.

(* every chunk stored under key h that belongs to a pickle of the current format version is a chunk of the pickle of
   parse g (the content with hash h) *)
Definition chunk_ok (h : content) (x : option data) : Prop :=
  forall d, x = Some d -> d_iv d = c_iv g -> d = parse g h.

Definition InvF (s : state) : Prop :=
  forall l b h, files s l = Some b -> keyed l = Some h -> Forall (chunk_ok h) b.

Definition wr_ok (tgt : loc) (d : data) (src : content) : Prop := keyed tgt = Some src /\ d = parse g src.

Definition procI (s : state) (pid : nat) (p : proc) : Prop :=
  (pr_raced p = false -> pr_src p = yaml s (pr_path p)) /\
  match pr_pc p with
  | PProbe hm h => pr_raced p = false -> h = yaml s (pr_path p)
  | PRead hm h => files s (probe_loc (pr_path p) hm h) <> None /\ (pr_raced p = false -> h = yaml s (pr_path p))
  | PWHash d => d = parse g (pr_src p) /\ (w_rehash w = true -> pr_src p = yaml s (pr_path p))
  | PTrunc tgt d => wr_ok tgt d (pr_src p)
  | PWrite tgt d i => wr_ok tgt d (pr_src p) /\ i <= nch /\
                      (w_disc w = AtomicRename -> files s (Tmp pid) = Some (repeat (Some d) i))
  | PRename tgt d => wr_ok tgt d (pr_src p) /\ files s (Tmp pid) = Some (repeat (Some d) nch) /\
                     w_disc w = AtomicRename
  | PDone d => d = parse g (pr_src p)
  | _ => True
  end.

Definition Inv (s : state) : Prop :=
  InvF s /\ forall pid p, procs s pid = Some p -> procI s pid p.

(* the design's form of the invariant: a complete pickle of the current version under key h is the pickle of parse g h *)
Definition Keyed (s : state) : Prop :=
  forall l b h d, files s l = Some b -> keyed l = Some h -> decode nch b = Some d -> d_iv d = c_iv g -> d = parse g h.

Lemma InvF_Keyed s : InvF s -> Keyed s.
Proof.
  intros HF l b h d Hl Hk Hd Hv. apply decode_some in Hd; destruct Hd as [r [-> _]].
  specialize (HF _ _ _ Hl Hk). inversion HF; subst. apply H1; auto.
Qed.

Lemma chunk_ok_none h : chunk_ok h None.
Proof. intros d H; discriminate. Qed.
Lemma chunk_ok_parse h : chunk_ok h (Some (parse g h)).
Proof. intros d H _; inversion H; reflexivity. Qed.

Lemma probe_loc_keyed pa hm h : keyed (probe_loc pa hm h) = Some h.
Proof. destruct hm; reflexivity. Qed.
Lemma probe_loc_not_tmp pa hm h q : probe_loc pa hm h <> Tmp q.
Proof. destruct hm; discriminate. Qed.
Lemma target_keyed e pa h l : target e pa h = Some l -> keyed l = Some h.
Proof. unfold target; destruct (e_dirw e (p_dir pa)); [|destruct (e_homew e)]; intro H; inversion H; reflexivity. Qed.

(* frame: a change of the files that only touches the temp of pid0 and keeps keyed files present leaves the
   clauses of the other processes intact *)
Lemma procI_frame s s' pid0 pid p :
  yaml s' = yaml s ->
  (forall l, keyed l <> None -> files s l <> None -> files s' l <> None) ->
  (forall q, q <> pid0 -> files s' (Tmp q) = files s (Tmp q)) ->
  pid <> pid0 -> procI s pid p -> procI s' pid p.
Proof.
  intros Hy Hk Ht Hne [H1 H2]; unfold procI; rewrite Hy; split; auto.
  destruct (pr_pc p); auto.
  - destruct H2 as [A B]; split; auto. apply Hk; auto. rewrite probe_loc_keyed; discriminate.
  - destruct H2 as [A [B C]]; split; [|split]; auto. intro D; rewrite Ht; auto.
  - destruct H2 as [A [B C]]; split; [|split]; auto. rewrite Ht; auto.
Qed.

(* same clause when only the process table changed *)
Lemma procI_same_files s s' pid p :
  yaml s' = yaml s -> files s' = files s -> procI s pid p -> procI s' pid p.
Proof. intros Hy Hf H; unfold procI in *; rewrite Hy, Hf; exact H. Qed.

Definition guard (s : state) (l : label) : Prop :=
  match l with LEdit pa _ => w_rehash w = true -> edit_ok s pa | _ => True end.

Ltac inv_some := match goal with H : Some _ = Some _ |- _ => inversion H; subst; clear H end.

(* a process-table-only step: files and yaml unchanged, process pid gets p' *)
Lemma inv_set_proc s pid p' :
  Inv s -> procI s pid p' ->
  Inv (mkState (yaml s) (files s) (updp (procs s) pid (Some p'))).
Proof.
  intros [HF HP] Hp'; split; [exact HF|].
  intros q pq; simpl. destruct (Nat.eq_dec pid q) as [->|Hne].
  - rewrite updp_same; intro H; inversion H; subst. eapply procI_same_files; [| |exact Hp']; reflexivity.
  - rewrite updp_other by auto. intro H. eapply procI_same_files; [| |apply HP; exact H]; reflexivity.
Qed.

(* a step that writes file l (keyed or the own temp) *)
Lemma inv_set_file s pid p' l v :
  Inv s ->
  (forall h, keyed l = Some h -> Forall (chunk_ok h) v) ->
  (keyed l = None -> l = Tmp pid) ->
  procI (mkState (yaml s) (updf (files s) l (Some v)) (updp (procs s) pid (Some p'))) pid p' ->
  Inv (mkState (yaml s) (updf (files s) l (Some v)) (updp (procs s) pid (Some p'))).
Proof.
  intros [HF HP] Hv Hl Hp'; split.
  - intros l' b h; simpl. destruct (loc_eqb l l') eqn:E.
    + apply loc_eqb_eq in E; subst l'. rewrite updf_same. intros H Hk; inversion H; subst; auto.
    + unfold updf; rewrite E. apply HF.
  - intros q pq; simpl. destruct (Nat.eq_dec pid q) as [->|Hne].
    + rewrite updp_same; intro H; inversion H; subst; exact Hp'.
    + rewrite updp_other by auto. intro H. eapply (procI_frame s _ pid); try (apply HP; exact H); auto.
      * intros l' Hk' Hs; simpl. destruct (loc_eqb l l') eqn:E; unfold updf; rewrite E; auto; discriminate.
      * intros q' Hq'; simpl. apply updf_other. intro E; subst l. specialize (Hl eq_refl). inversion Hl; subst; auto.
Qed.

Lemma step_inv s l s' : Inv s -> guard s l -> step w s l = Some s' -> Inv s'.
Proof.
  intros HI HG Hs. destruct l as [pid|pid|pa c|pid pa lz prev]; simpl in Hs.
  - (* LStep *)
    destruct (procs s pid) as [p|] eqn:Hp; [|discriminate].
    pose proof HI as [HF HP]. pose proof (HP _ _ Hp) as [Hsrc Hpc].
    unfold pstep in Hs. destruct (pr_pc p) eqn:Epc.
    + (* PStart *)
      rewrite rt_ignored in Hs. cbv iota in Hs. destruct (pr_lazy p); inv_some.
      * apply inv_set_proc; auto. split; simpl; auto.
      * apply inv_set_proc; auto. split; simpl; auto.
    + (* PProbe *)
      destruct (files s (probe_loc (pr_path p) home h)) eqn:Ef; inv_some; apply inv_set_proc; auto; split; simpl; auto.
      * split; auto. rewrite Ef; discriminate.
      * destruct home; simpl; auto.
    + (* PRead *)
      destruct Hpc as [Hex Hh].
      destruct (files s (probe_loc (pr_path p) home h)) as [b|] eqn:Ef; [|contradiction].
      destruct (decode (w_nch w) b) as [d|] eqn:Ed.
      * destruct (d_iv d =? c_iv (w_cfg w)) eqn:Ev; inv_some; apply inv_set_proc; auto; split; simpl; auto.
        -- apply Nat.eqb_eq in Ev. eapply (InvF_Keyed s HF); eauto. apply probe_loc_keyed.
        -- destruct home; simpl; auto.
      * destruct (w_disc w); inv_some; apply inv_set_proc; auto; split; simpl; auto.
        destruct home; simpl; auto.
    + (* PParse *)
      inv_some; apply inv_set_proc; auto; split; simpl; auto.
    + (* PWHash *)
      destruct Hpc as [Hd Hsy].
      assert (Hkey : (if w_rehash w then yaml s (pr_path p) else pr_src p) = pr_src p)
        by (destruct (w_rehash w); auto; symmetry; auto).
      rewrite Hkey in Hs.
      destruct (target (w_env w) (pr_path p) (pr_src p)) as [t|] eqn:Et; inv_some;
        apply inv_set_proc; auto; split; simpl; auto.
      split; [eapply target_keyed; eauto | auto].
    + (* PTrunc *)
      inv_some. destruct Hpc as [Hk Hd]. unfold set_file_pc. apply inv_set_file; [exact HI| | |].
      * intros; constructor.
      * intro Hn; unfold wloc in *; destruct (w_disc w); auto; rewrite Hk in Hn; discriminate.
      * split; simpl; auto. split; [split; auto|]. split; [lia|]. intros Hdisc.
        unfold wloc; rewrite Hdisc, updf_same; reflexivity.
    + (* PWrite *)
      destruct Hpc as [[Hk Hd] [Hi Ht]].
      destruct (i <? w_nch w) eqn:Ei.
      * inv_some. apply Nat.ltb_lt in Ei. unfold set_file_pc. apply inv_set_file; [exact HI| | |].
        -- intros h Hkh. apply put_Forall; [apply chunk_ok_none| |].
           ++ unfold wloc in Hkh; destruct (w_disc w); [|discriminate].
              rewrite Hk in Hkh; inversion Hkh; subst h. apply chunk_ok_parse.
           ++ unfold cur. destruct (files s (wloc w pid tgt)) eqn:Ef; [eapply HF; eauto | constructor].
        -- intro Hn; unfold wloc in *; destruct (w_disc w); auto; rewrite Hk in Hn; discriminate.
        -- split; simpl; auto. split; [split; auto|]. split; [fold nch; lia|]. intros Hdisc.
           unfold wloc, cur; rewrite Hdisc, updf_same. unfold wloc in Ht. rewrite (Ht Hdisc), put_repeat; reflexivity.
      * apply Nat.ltb_ge in Ei. assert (i = nch) by (unfold nch in *; lia). subst i.
        destruct (w_disc w) eqn:Edisc; inv_some; apply inv_set_proc; auto; split; simpl; auto.
        split; [split; auto|]. split; auto.
    + (* PRename *)
      destruct Hpc as [[Hk Hd] [Ht Hdisc]]. rewrite Ht in Hs. inv_some.
      split.
      * intros l' b h; simpl. destruct (loc_eqb (Tmp pid) l') eqn:E1.
        { apply loc_eqb_eq in E1; subst l'. rewrite updf_same; discriminate. }
        unfold updf at 1; rewrite E1. destruct (loc_eqb tgt l') eqn:E2.
        { apply loc_eqb_eq in E2; subst l'. rewrite updf_same. intros H Hk'; inversion H; subst.
          rewrite Hk in Hk'; inversion Hk'; subst h.
          clear. induction nch; simpl; constructor; auto. apply chunk_ok_parse. }
        unfold updf; rewrite E2; apply HF.
      * intros q pq; simpl. destruct (Nat.eq_dec pid q) as [->|Hne].
        { rewrite updp_same; intro H; inversion H; subst. split; simpl; auto. }
        rewrite updp_other by auto. intro H. eapply (procI_frame s _ pid); try (apply HP; exact H); auto.
        -- intros l' Hk' Hs'; simpl. destruct (loc_eqb (Tmp pid) l') eqn:E1.
           { apply loc_eqb_eq in E1; subst l'. simpl in Hk'; contradiction. }
           unfold updf at 1; rewrite E1. destruct (loc_eqb tgt l') eqn:E2; unfold updf; rewrite E2; auto; discriminate.
        -- intros q' Hq'; simpl. rewrite updf_other by (intro E; inversion E; subst; auto).
           apply updf_other. intro E; subst tgt; discriminate.
    + discriminate.
    + discriminate.
    + discriminate.
    + discriminate.
  - (* LCrash *)
    destruct (procs s pid) as [p|] eqn:Hp; [|discriminate].
    destruct (terminal (pr_pc p)); [discriminate|]. inv_some.
    apply inv_set_proc; auto. destruct HI as [_ HP]. destruct (HP _ _ Hp) as [A _]. split; simpl; auto.
  - (* LEdit *)
    inv_some. destruct HI as [HF HP]. split; [exact HF|].
    intros q pq; simpl. unfold mark_raced. destruct (procs s q) as [p|] eqn:Hp; [|discriminate].
    specialize (HP _ _ Hp). simpl in HG.
    destruct (path_eqb pa (pr_path p)) eqn:E; intro H; inversion H; subst; clear H.
    + (* same file: now raced *)
      apply path_eqb_eq in E. destruct HP as [A B]. split; simpl; [discriminate|].
      destruct (pr_pc p) eqn:Epc; auto.
      * intro; discriminate.
      * destruct B; split; auto. intro; discriminate.
      * destruct B as [B1 B2]. split; auto. intro Hr.
        specialize (HG Hr _ _ Hp (eq_sym E)). rewrite Epc in HG; discriminate.
    + (* other file: its content did not change *)
      assert (Hy : updy (yaml s) pa c (pr_path pq) = yaml s (pr_path pq)) by (unfold updy; rewrite E; reflexivity).
      destruct HP as [A B]. unfold procI; simpl. rewrite Hy. split; auto.
  - (* LSpawn *)
    destruct (procs s pid) eqn:Hp; [discriminate|].
    destruct prev as [q|].
    + destruct (procs s q) as [pq|]; [|discriminate]. destruct (pr_pc pq); try discriminate.
      destruct (path_eqb pa (pr_path pq)); [|discriminate]. inv_some.
      apply inv_set_proc; auto. split; simpl; auto.
    + inv_some. apply inv_set_proc; auto. split; simpl; auto.
Qed.

Lemma run_inv ls : forall s s', Inv s -> quiet w s ls -> run w s ls = Some s' -> Inv s'.
Proof.
  induction ls as [|l r IH]; simpl; intros s s' HI HQ HR.
  - inversion HR; subst; auto.
  - destruct HQ as [HG HQ]. destruct (step w s l) as [s1|] eqn:Es; [|discriminate].
    eapply IH; [eapply step_inv; eauto | exact HQ | exact HR].
Qed.

(* ------------------------------------------------------------------ refinement *)
Lemma done_is_parse s pid p d :
  Inv s -> procs s pid = Some p -> pr_pc p = PDone d ->
  d = parse g (pr_src p) /\ (pr_raced p = false -> d = parse g (yaml s (pr_path p))).
Proof.
  intros [_ HP] Hp Hd. destruct (HP _ _ Hp) as [A B]. rewrite Hd in B. split; auto.
  intro Hr; rewrite <- (A Hr); auto.
Qed.

(* ------------------------------------------------------------------ AtomicRename: nothing partial at a final name,
   nobody raises *)
Definition NoPartial (s : state) : Prop :=
  forall l b h, files s l = Some b -> keyed l = Some h -> decode nch b <> None.

Definition NoRaise (s : state) : Prop :=
  forall pid p, procs s pid = Some p -> pr_pc p <> PRaised.

Hypothesis atomic : w_disc w = AtomicRename.

Lemma step_noraise s l s' : Inv s -> NoRaise s -> step w s l = Some s' -> NoRaise s'.
Proof.
  intros HI HN Hs. destruct l as [pid|pid|pa c|pid pa lz prev]; simpl in Hs.
  - destruct (procs s pid) as [p|] eqn:Hp; [|discriminate].
    destruct HI as [HF HP]. pose proof (HP _ _ Hp) as [Hsrc Hpc].
    assert (K : forall f c, c <> PRaised ->
                NoRaise (mkState (yaml s) f (updp (procs s) pid (Some (with_pc p c))))).
    { intros f c Hc q pq; simpl. destruct (Nat.eq_dec pid q) as [->|Hne].
      - rewrite updp_same; intro H; inversion H; subst; simpl; auto.
      - rewrite updp_other by auto; apply HN. }
    assert (K2 : forall f c x, c <> PRaised ->
                NoRaise (mkState (yaml s) f (updp (procs s) pid (Some (with_pc_src p c x))))).
    { intros f c x Hc q pq; simpl. destruct (Nat.eq_dec pid q) as [->|Hne].
      - rewrite updp_same; intro H; inversion H; subst; simpl; auto.
      - rewrite updp_other by auto; apply HN. }
    unfold pstep in Hs. destruct (pr_pc p) eqn:Epc; try discriminate.
    + rewrite rt_ignored in Hs. cbv iota in Hs. destruct (pr_lazy p); inv_some; [apply K2|apply K]; discriminate.
    + destruct (files s (probe_loc (pr_path p) home h)); inv_some; apply K; try discriminate.
      destruct home; discriminate.
    + destruct Hpc as [Hex _].
      destruct (files s (probe_loc (pr_path p) home h)) as [b|]; [|contradiction].
      destruct (decode (w_nch w) b).
      * destruct (d_iv d =? c_iv (w_cfg w)); inv_some; [apply K2|apply K]; try discriminate.
        destruct home; discriminate.
      * rewrite atomic in Hs; inv_some; apply K. destruct home; discriminate.
    + inv_some; apply K2; discriminate.
    + destruct (target (w_env w) (pr_path p) (if w_rehash w then yaml s (pr_path p) else pr_src p)); inv_some; apply K; discriminate.
    + inv_some; apply K; discriminate.
    + destruct (i <? w_nch w); [|rewrite atomic in Hs]; inv_some; apply K; discriminate.
    + destruct Hpc as [_ [Ht _]]. rewrite Ht in Hs. inv_some. apply K; discriminate.
  - destruct (procs s pid) as [p|] eqn:Hp; [|discriminate].
    destruct (terminal (pr_pc p)); [discriminate|]. inv_some.
    intros q pq; simpl. destruct (Nat.eq_dec pid q) as [->|Hne].
    + rewrite updp_same; intro H; inversion H; subst; simpl; discriminate.
    + rewrite updp_other by auto; apply HN.
  - inv_some. intros q pq; simpl. unfold mark_raced. destruct (procs s q) as [p|] eqn:Hp; [|discriminate].
    specialize (HN _ _ Hp). destruct (path_eqb pa (pr_path p)); intro H; inversion H; subst; simpl; auto.
  - destruct (procs s pid) eqn:Hp; [discriminate|].
    assert (K : forall x, NoRaise (mkState (yaml s) (files s)
                 (updp (procs s) pid (Some (mkProc pa lz PStart (yaml s pa) false x))))).
    { intros x q pq; simpl. destruct (Nat.eq_dec pid q) as [->|Hne].
      - rewrite updp_same; intro H; inversion H; subst; simpl; discriminate.
      - rewrite updp_other by auto; apply HN. }
    destruct prev as [q|].
    + destruct (procs s q) as [pq|]; [|discriminate]. destruct (pr_pc pq); try discriminate.
      destruct (path_eqb pa (pr_path pq)); [|discriminate]. inv_some. apply K.
    + inv_some. apply K.
Qed.

Hypothesis nch_pos : 0 < nch.

Lemma step_nopartial s l s' : Inv s -> NoPartial s -> step w s l = Some s' -> NoPartial s'.
Proof.
  intros HI HN Hs. destruct l as [pid|pid|pa c|pid pa lz prev]; simpl in Hs.
  - destruct (procs s pid) as [p|] eqn:Hp; [|discriminate].
    destruct HI as [HF HP]. pose proof (HP _ _ Hp) as [Hsrc Hpc].
    unfold pstep in Hs. destruct (pr_pc p) eqn:Epc; try discriminate.
    + rewrite rt_ignored in Hs. cbv iota in Hs. destruct (pr_lazy p); inv_some; exact HN.
    + destruct (files s (probe_loc (pr_path p) home h)); inv_some; exact HN.
    + destruct (files s (probe_loc (pr_path p) home h)) as [b|]; [|inv_some; exact HN].
      destruct (decode (w_nch w) b); [destruct (d_iv d =? c_iv (w_cfg w))|destruct (w_disc w)]; inv_some; exact HN.
    + inv_some; exact HN.
    + destruct (target (w_env w) (pr_path p) (if w_rehash w then yaml s (pr_path p) else pr_src p)); inv_some; exact HN.
    + inv_some. intros l b h; simpl. unfold wloc; rewrite atomic.
      destruct (loc_eqb (Tmp pid) l) eqn:E.
      * apply loc_eqb_eq in E; subst l; discriminate.
      * unfold updf; rewrite E; apply HN.
    + destruct (i <? w_nch w).
      * inv_some. intros l b h; simpl. unfold wloc; rewrite atomic.
        destruct (loc_eqb (Tmp pid) l) eqn:E.
        -- apply loc_eqb_eq in E; subst l; discriminate.
        -- unfold updf; rewrite E; apply HN.
      * rewrite atomic in Hs; inv_some; exact HN.
    + destruct Hpc as [[Hk Hd] [Ht _]]. rewrite Ht in Hs. inv_some.
      intros l b h; simpl. destruct (loc_eqb (Tmp pid) l) eqn:E1.
      { apply loc_eqb_eq in E1; subst l; discriminate. }
      unfold updf at 1; rewrite E1. destruct (loc_eqb tgt l) eqn:E2.
      { unfold updf; rewrite E2. intros H _; inversion H; subst. fold nch. rewrite decode_repeat; auto; discriminate. }
      unfold updf; rewrite E2; apply HN.
  - destruct (procs s pid) as [p|]; [|discriminate]. destruct (terminal (pr_pc p)); [discriminate|]. inv_some; exact HN.
  - inv_some; exact HN.
  - destruct (procs s pid); [discriminate|]. destruct prev as [q|]; [|inv_some; exact HN].
    destruct (procs s q) as [pq|]; [|discriminate]. destruct (pr_pc pq); try discriminate.
    destruct (path_eqb pa (pr_path pq)); [|discriminate]. inv_some; exact HN.
Qed.

Lemma run_atomic ls : forall s s', Inv s -> quiet w s ls -> run w s ls = Some s' ->
  (NoRaise s -> NoRaise s') /\ (NoPartial s -> NoPartial s').
Proof.
  induction ls as [|l r IH]; simpl; intros s s' HI HQ HR.
  - inversion HR; subst; auto.
  - destruct HQ as [HG HQ]. destruct (step w s l) as [s1|] eqn:Es; [|discriminate].
    assert (HI1 : Inv s1) by (eapply step_inv; eauto; destruct l; simpl; auto).
    destruct (IH _ _ HI1 HQ HR) as [A B]. split; intro H.
    + apply A; apply (step_noraise s l s1); auto.
    + apply B; apply (step_nopartial s l s1); auto.
Qed.

(* ------------------------------------------------------------------ AtomicRename: a later run always completes *)
Definition measure (c : pc) : nat :=
  match c with
  | PStart => nch + 11
  | PProbe false _ => nch + 10
  | PRead false _ => nch + 9
  | PProbe true _ => nch + 8
  | PRead true _ => nch + 7
  | PParse => nch + 6
  | PWHash _ => nch + 5
  | PTrunc _ _ => nch + 4
  | PWrite _ _ i => (nch - i) + 2
  | PRename _ _ => 1
  | _ => 0
  end.

Definition goodpc (lz : bool) (c : pc) : Prop :=
  c <> PRaised /\ c <> PCrashed /\ (lz = false -> forall x, c <> PDoneLazy x).

(* one step of a live process under AtomicRename: enabled, measure decreases, stays good, path/lazy/raced unchanged *)
Lemma pstep_progress s pid p :
  Inv s -> procs s pid = Some p -> terminal (pr_pc p) = false -> goodpc (pr_lazy p) (pr_pc p) ->
  exists s' p', step w s (LStep pid) = Some s' /\ procs s' pid = Some p' /\
    measure (pr_pc p') < measure (pr_pc p) /\ goodpc (pr_lazy p') (pr_pc p') /\
    pr_path p' = pr_path p /\ pr_lazy p' = pr_lazy p /\ pr_raced p' = pr_raced p /\ yaml s' = yaml s.
Proof.
  intros HI Hp Ht Hg. simpl. rewrite Hp. destruct HI as [HF HP]. pose proof (HP _ _ Hp) as [Hsrc Hpc].
  unfold pstep.
  assert (G : forall c, c <> PRaised -> c <> PCrashed -> (forall x, c <> PDoneLazy x) -> goodpc (pr_lazy p) c)
    by (intros; repeat split; auto).
  destruct (pr_pc p) eqn:Epc; try discriminate; simpl in Ht.
  - rewrite rt_ignored. cbv iota. destruct (pr_lazy p) eqn:El.
    + eexists; eexists; split; [reflexivity|]; simpl; rewrite updp_same; split; [reflexivity|]; simpl.
      repeat split; auto; try lia; try discriminate. rewrite El; discriminate.
    + eexists; eexists; split; [reflexivity|]; simpl; rewrite updp_same; split; [reflexivity|]; simpl.
      repeat split; auto; try lia; try discriminate.
  - destruct (files s (probe_loc (pr_path p) home h));
      (eexists; eexists; split; [reflexivity|]; simpl; rewrite updp_same; split; [reflexivity|]; simpl);
      destruct home; simpl; repeat split; auto; try lia; try discriminate.
  - destruct Hpc as [Hex _].
    destruct (files s (probe_loc (pr_path p) home h)) as [b|]; [|contradiction].
    destruct (decode (w_nch w) b); [destruct (d_iv d =? c_iv (w_cfg w))|rewrite atomic];
      (eexists; eexists; split; [reflexivity|]; simpl; rewrite updp_same; split; [reflexivity|]; simpl);
      destruct home; simpl; repeat split; auto; try lia; try discriminate.
  - eexists; eexists; split; [reflexivity|]; simpl; rewrite updp_same; split; [reflexivity|]; simpl.
    repeat split; auto; try lia; try discriminate.
  - destruct (target (w_env w) (pr_path p) (if w_rehash w then yaml s (pr_path p) else pr_src p));
      (eexists; eexists; split; [reflexivity|]; simpl; rewrite updp_same; split; [reflexivity|]; simpl);
      repeat split; auto; try lia; try discriminate.
  - eexists; eexists; split; [reflexivity|]; simpl; rewrite updp_same; split; [reflexivity|]; simpl.
    repeat split; auto; try lia; try discriminate.
  - destruct Hpc as [_ [Hi _]]. destruct (i <? w_nch w) eqn:Ei; [|rewrite atomic];
      (eexists; eexists; split; [reflexivity|]; simpl; rewrite updp_same; split; [reflexivity|]; simpl).
    + apply Nat.ltb_lt in Ei. fold nch in Ei. repeat split; auto; try lia; try discriminate.
    + repeat split; auto; try lia; try discriminate.
  - destruct Hpc as [_ [Htmp _]]. rewrite Htmp.
    eexists; eexists; split; [reflexivity|]; simpl; rewrite updp_same; split; [reflexivity|]; simpl.
    repeat split; auto; try lia; try discriminate.
Qed.

Lemma solo_terminates fuel : forall s pid p,
  Inv s -> procs s pid = Some p -> goodpc (pr_lazy p) (pr_pc p) -> measure (pr_pc p) <= fuel ->
  exists p', procs (solo w fuel s pid) pid = Some p' /\ Inv (solo w fuel s pid) /\
    terminal (pr_pc p') = true /\ goodpc (pr_lazy p') (pr_pc p') /\
    pr_path p' = pr_path p /\ pr_lazy p' = pr_lazy p /\ pr_raced p' = pr_raced p /\
    yaml (solo w fuel s pid) = yaml s.
Proof.
  induction fuel as [|f IH]; intros s pid p HI Hp Hg Hm.
  - simpl. exists p. split; [exact Hp|]. split; [exact HI|]. split; [|split; [exact Hg|repeat split; auto]].
    destruct (pr_pc p); simpl in *; auto; try lia; destruct home; lia.
  - destruct (terminal (pr_pc p)) eqn:Et.
    + assert (E : step w s (LStep pid) = None).
      { simpl; rewrite Hp. unfold pstep. destruct (pr_pc p); simpl in Et; try discriminate; reflexivity. }
      cbn [solo]. rewrite E. exists p. split; [exact Hp|]. split; [exact HI|]. split; [exact Et|].
      split; [exact Hg|repeat split; auto].
    + destruct (pstep_progress s pid p HI Hp Et Hg) as [s' [p' [Hs [Hp' [Hlt [Hg' [Hpa [Hlz [Hra Hy]]]]]]]]].
      cbn [solo]. rewrite Hs.
      assert (HI' : Inv s') by (eapply step_inv; eauto; simpl; auto).
      destruct (IH s' pid p' HI' Hp' Hg' ltac:(lia)) as [p'' [A [B [C [D [E [F [G' H]]]]]]]].
      exists p''. split; [exact A|]. split; [exact B|]. split; [exact C|]. split; [exact D|].
      repeat split; congruence.
Qed.

(* a fresh non-lazy load, run alone from any reachable state, ends in PDone (parse g <current content>) *)
Lemma later_load_ok s pid pa :
  Inv s -> procs s pid = None ->
  outcome_of (load w s pid pa false) pid = ODone (parse g (yaml s pa)) /\ Inv (load w s pid pa false).
Proof.
  intros HI Hn. unfold load, spawn. simpl run_skip. rewrite Hn.
  set (s1 := mkState (yaml s) (files s) (updp (procs s) pid (Some (mkProc pa false PStart (yaml s pa) false None)))).
  assert (HI1 : Inv s1).
  { assert (E : step w s (LSpawn pid pa false None) = Some s1) by (simpl; rewrite Hn; reflexivity).
    eapply step_inv; eauto. simpl; auto. }
  assert (Hp1 : procs s1 pid = Some (mkProc pa false PStart (yaml s pa) false None)) by (simpl; apply updp_same).
  destruct (solo_terminates (fuel_of w) s1 pid _ HI1 Hp1) as [p' [A [B [C [D [E [F [G' H]]]]]]]].
  - simpl. repeat split; discriminate.
  - simpl. unfold fuel_of. fold nch. lia.
  - split; auto. unfold outcome_of, pc_of. rewrite A.
    simpl in E, F, G'. destruct D as [D1 [D2 D3]].
    destruct (pr_pc p') eqn:Epc; simpl in C; try discriminate; try contradiction.
    + destruct (done_is_parse _ _ _ _ B A Epc) as [_ K]. rewrite (K G'), E, H. reflexivity.
    + exfalso; eapply D3; eauto.
Qed.

End Invariant.

(* ------------------------------------------------------------------ statements and witnesses *)
Lemma Inv_empty w y : Inv w (empty_state y).
Proof. split; intros *; simpl; discriminate. Qed.

(* "a later run completes and returns the parse of the current content", whatever happened before *)
Definition later_run_ok_stmt (disc : discipline) : Prop :=
  forall nch g e rh s0 ls s pid pa, 0 < nch ->
    let w := mkSetup nch g disc e rh RtIgnored in
    Inv w s0 -> quiet w s0 ls -> run w s0 ls = Some s -> procs s pid = None ->
    outcome_of (load w s pid pa false) pid = ODone (parse g (yaml s pa)).

Lemma atomic_later_run_ok : later_run_ok_stmt AtomicRename.
Proof.
  intros nch g e rh s0 ls s pid pa Hn w HI HQ HR Hp.
  assert (HIs : Inv w s) by (eapply run_inv; eauto).
  destruct (later_load_ok w eq_refl eq_refl Hn s pid pa HIs Hp) as [A _]. exact A.
Qed.

Definition gI := mkCfg 1 0.
Definition eI := mkEnv (fun _ => true) true.
Definition wI := mkSetup 4 gI InPlace eI true RtIgnored.
Definition wA := mkSetup 4 gI AtomicRename eI true RtIgnored.
Definition pa0 := mkPath 0 0.
Definition y0 : path -> content := fun _ => 7.

(* writer 0 dies right after open(..., 'wb') *)
Definition hist_crash : list label := [LSpawn 0 pa0 false None] ++ repeat (LStep 0) 6 ++ [LCrash 0].
(* no crash at all: reader 1 probes and reads while writer 0 sits between truncate and close *)
Definition hist_race : list label :=
  [LSpawn 0 pa0 false None] ++ repeat (LStep 0) 8 ++ [LSpawn 1 pa0 false None] ++ repeat (LStep 1) 3.

Lemma quiet_no_edit w ls : forallb (fun l => match l with LEdit _ _ => false | _ => true end) ls = true ->
  forall s, quiet w s ls.
Proof.
  induction ls as [|l r IH]; simpl; intros H s; auto.
  apply andb_prop in H; destruct H as [H1 H2]. split.
  - destruct l; auto; discriminate.
  - destruct (step w s l); auto.
Qed.

Lemma inplace_later_run_fails : ~ later_run_ok_stmt InPlace.
Proof.
  intro H.
  assert (E : run wI (empty_state y0) hist_crash = Some (run_skip wI (empty_state y0) hist_crash)) by (vm_compute; reflexivity).
  assert (Q : quiet wI (empty_state y0) hist_crash) by (apply quiet_no_edit; reflexivity).
  specialize (H 4 gI eI true (empty_state y0) hist_crash _ 1 pa0 ltac:(lia) (Inv_empty _ _) Q E eq_refl).
  vm_compute in H. discriminate.
Qed.

Lemma inplace_raises_after_crash :
  exists s, run wI (empty_state y0) hist_crash = Some s /\
            outcome_of (load wI s 1 pa0 false) 1 = ORaised /\
            observe wI s (Comp 0 0 7) = OPartial 0.
Proof. eexists; split; [vm_compute; reflexivity|]. split; vm_compute; reflexivity. Qed.

Lemma inplace_raises_in_race :
  exists s, run wI (empty_state y0) hist_race = Some s /\ no_crash hist_race = true /\
            outcome_of s 1 = ORaised.
Proof. eexists; split; [vm_compute; reflexivity|]. split; vm_compute; reflexivity. Qed.

(* the same two histories under AtomicRename: nobody raises, nothing partial is visible *)
Lemma atomic_same_histories :
  (exists s, run wA (empty_state y0) hist_crash = Some s /\
             outcome_of (load wA s 1 pa0 false) 1 = ODone (parse gI 7) /\
             observe wA s (Comp 0 0 7) = OAbsent /\ observe wA s (Tmp 0) = OPartial 0) /\
  (exists s, run wA (empty_state y0) hist_race = Some s /\ outcome_of s 1 = ORunning /\
             outcome_of (solo wA 20 (solo wA 20 s 1) 0) 1 = ODone (parse gI 7) /\
             outcome_of (solo wA 20 (solo wA 20 s 1) 0) 0 = ODone (parse gI 7)).
Proof.
  split; eexists; (split; [vm_compute; reflexivity|]); repeat split; vm_compute; reflexivity.
Qed.

(* an edit between a load's parse and the hash it takes for the write poisons the cache under either discipline *)
Definition wA1 := mkSetup 1 gI AtomicRename eI true RtIgnored.
Definition hist_edit_race : list label :=
  [LSpawn 0 pa0 false None] ++ repeat (LStep 0) 4 ++ [LEdit pa0 8] ++ repeat (LStep 0) 5 ++
  [LSpawn 1 pa0 false None] ++ repeat (LStep 1) 3.

Definition refines_stmt (guarded : bool) : Prop :=
  forall w s0 ls s pid p d, w_rt w = RtIgnored ->
    Inv w s0 -> (if guarded then quiet w s0 ls else True) -> run w s0 ls = Some s ->
    procs s pid = Some p -> pr_pc p = PDone d ->
    d = parse (w_cfg w) (pr_src p) /\ (pr_raced p = false -> d = parse (w_cfg w) (yaml s (pr_path p))).

Lemma refines_guarded : refines_stmt true.
Proof.
  intros w s0 ls s pid p d Hrt HI HQ HR Hp Hd. eapply done_is_parse; eauto. eapply run_inv; eauto.
Qed.

Lemma refines_unguarded_refuted : ~ refines_stmt false.
Proof.
  intro H.
  assert (E : run wA1 (empty_state y0) hist_edit_race = Some (run_skip wA1 (empty_state y0) hist_edit_race))
    by (vm_compute; reflexivity).
  set (p1 := mkProc pa0 false (PDone (mkData 1 0 7)) 8 false None).
  assert (Hp : procs (run_skip wA1 (empty_state y0) hist_edit_race) 1 = Some p1) by (vm_compute; reflexivity).
  destruct (H wA1 (empty_state y0) hist_edit_race _ 1 p1 (mkData 1 0 7) eq_refl (Inv_empty _ _) I E Hp eq_refl) as [_ K].
  specialize (K eq_refl). vm_compute in K. discriminate.
Qed.

(* without Inv on the initial state (a pickle built by other loader code with the same INTERNAL_VERSION) the
   refinement fails: the hypothesis same_ver is needed *)
Definition stale_state : state :=
  mkState y0 (updf (fun _ => None) (Comp 0 0 7) (Some (repeat (Some (mkData 1 99 7)) 4))) (fun _ => None).
Lemma same_ver_needed :
  exists d, outcome_of (load wA stale_state 0 pa0 false) 0 = ODone d /\ d <> parse gI (yaml stale_state pa0).
Proof. eexists; split; [vm_compute; reflexivity|]. vm_compute; discriminate. Qed.

(* the lazy (header only) load touches no cache file and does not depend on any *)
Lemma lazy_step w s pid p :
  procs s pid = Some p -> pr_lazy p = true -> pr_pc p = PStart ->
  exists s', step w s (LStep pid) = Some s' /\ files s' = files s /\ yaml s' = yaml s /\
             pc_of s' pid = PDoneLazy (yaml s (pr_path p)).
Proof.
  intros Hp Hl Hc. simpl. rewrite Hp. unfold pstep. rewrite Hc, Hl.
  eexists; split; [reflexivity|]. simpl. unfold pc_of; simpl. rewrite updp_same. auto.
Qed.

Lemma solo_terminal w f s pid : terminal (pc_of s pid) = true -> solo w f s pid = s.
Proof.
  destruct f; simpl; auto. unfold pc_of. destruct (procs s pid) as [p|]; auto.
  unfold pstep. destruct (pr_pc p); simpl; try discriminate; auto.
Qed.

Lemma lazy_load w s pid pa :
  procs s pid = None ->
  files (load w s pid pa true) = files s /\ outcome_of (load w s pid pa true) pid = OLazy (yaml s pa).
Proof.
  intro Hn. unfold load, spawn. cbn [run_skip step]. rewrite Hn.
  set (s1 := mkState (yaml s) (files s) (updp (procs s) pid (Some (mkProc pa true PStart (yaml s pa) false None)))).
  destruct (lazy_step w s1 pid (mkProc pa true PStart (yaml s pa) false None)) as [s' [A [B [C D]]]];
    [simpl; apply updp_same | reflexivity | reflexivity |].
  unfold fuel_of. change (12 + w_nch w) with (S (11 + w_nch w)). cbn [solo]. rewrite A. rewrite solo_terminal by (rewrite D; reflexivity).
  split; [rewrite B; reflexivity|]. unfold outcome_of; rewrite D. reflexivity.
Qed.

(* non-vacuity: a guarded history with a cold load, a warm load served from the cache, an edit and a reload *)
Definition hist_demo : list label :=
  [LSpawn 0 pa0 false None] ++ repeat (LStep 0) 12 ++ [LSpawn 1 pa0 false None] ++ repeat (LStep 1) 3 ++
  [LEdit pa0 8; LSpawn 2 pa0 false None] ++ repeat (LStep 2) 12.

Lemma demo_history :
  exists s, Inv wA (empty_state y0) /\ quiet wA (empty_state y0) hist_demo /\
            run wA (empty_state y0) hist_demo = Some s /\
            outcome_of s 0 = ODone (parse gI 7) /\ outcome_of s 1 = ODone (parse gI 7) /\
            outcome_of s 2 = ODone (parse gI 8) /\
            observe wA s (Comp 0 0 7) = OComplete (parse gI 7) /\ observe wA s (Comp 0 0 8) = OComplete (parse gI 8).
Proof.
  eexists. split; [apply Inv_empty|]. split; [|split; [vm_compute; reflexivity|repeat split; vm_compute; reflexivity]].
  vm_compute. repeat split.
  intros _ pid q H. destruct pid as [|[|pid]]; inversion H; subst; reflexivity.
Qed.

(* ------------------------------------------------------------------ code that keys the cache by the parsed bytes
   (w_rehash = false, no third read): no restriction on edits is needed *)
Lemma quiet_no_rehash w ls : w_rehash w = false -> forall s, quiet w s ls.
Proof.
  intro H; induction ls as [|l r IH]; simpl; intro s; auto. split.
  - destruct l; auto. intro K; congruence.
  - destruct (step w s l); auto.
Qed.

Definition refines_full_stmt : Prop :=
  forall w s0 ls s pid p d, w_rt w = RtIgnored -> w_rehash w = false ->
    Inv w s0 -> run w s0 ls = Some s -> procs s pid = Some p -> pr_pc p = PDone d ->
    d = parse (w_cfg w) (pr_src p) /\ (pr_raced p = false -> d = parse (w_cfg w) (yaml s (pr_path p))).

Lemma refines_full : refines_full_stmt.
Proof.
  intros w s0 ls s pid p d Hrt Hr HI HR Hp Hd. eapply refines_guarded; eauto. simpl. apply quiet_no_rehash; auto.
Qed.

(* the repaired code: temp file + rename, unreadable = miss, key = hash of the parsed bytes *)
Lemma current_code_later_run_ok :
  forall nch g e s0 ls s pid pa, 0 < nch ->
    let w := mkSetup nch g AtomicRename e false RtIgnored in
    Inv w s0 -> run w s0 ls = Some s -> procs s pid = None ->
    outcome_of (load w s pid pa false) pid = ODone (parse g (yaml s pa)).
Proof.
  intros nch g e s0 ls s pid pa Hn w HI HR Hp.
  apply (atomic_later_run_ok nch g e false s0 ls s pid pa Hn HI (quiet_no_rehash w ls eq_refl s0) HR Hp).
Qed.

Lemma current_code_safe :
  forall nch g e s0 ls s, 0 < nch ->
    let w := mkSetup nch g AtomicRename e false RtIgnored in
    Inv w s0 -> run w s0 ls = Some s ->
    Inv w s /\ (NoRaise s0 -> NoRaise s) /\ (NoPartial w s0 -> NoPartial w s).
Proof.
  intros nch g e s0 ls s Hn w HI HR.
  pose proof (quiet_no_rehash w ls eq_refl s0) as HQ.
  split; [eapply run_inv; eauto|]. exact (run_atomic w eq_refl eq_refl Hn ls s0 s HI HQ HR).
Qed.

(* the history that poisons the cache of re-hashing code is harmless here: the racing load stores parse 7 under key 7,
   the later load of the edited file parses content 8 *)
Definition wA1n := mkSetup 1 gI AtomicRename eI false RtIgnored.
Lemma edit_race_harmless_without_rehash :
  let s := run_skip wA1n (empty_state y0) (hist_edit_race ++ repeat (LStep 1) 12) in
  outcome_of s 0 = ODone (parse gI 7) /\ outcome_of s 1 = ODone (parse gI 8) /\
  observe wA1n s (Comp 0 0 7) = OComplete (parse gI 7) /\ observe wA1n s (Comp 0 0 8) = OComplete (parse gI 8).
Proof. repeat split; vm_compute; reflexivity. Qed.

(* ------------------------------------------------------------------ the in-process cache *)
Lemma spawn_shape w s pid pa lz prev s1 :
  step w s (LSpawn pid pa lz prev) = Some s1 ->
  exists x, s1 = mkState (yaml s) (files s) (updp (procs s) pid (Some (mkProc pa lz PStart (yaml s pa) false x))).
Proof.
  simpl. destruct (procs s pid); [discriminate|]. destruct prev as [q|].
  - destruct (procs s q) as [pq|]; [|discriminate]. destruct (pr_pc pq); try discriminate.
    destruct (path_eqb pa (pr_path pq)); [|discriminate]. intro H; inversion H; eexists; reflexivity.
  - intro H; inversion H; eexists; reflexivity.
Qed.

Lemma spawned_load_ok w s pid pa prev s1 :
  w_rt w = RtIgnored -> w_disc w = AtomicRename -> 0 < w_nch w ->
  Inv w s -> step w s (LSpawn pid pa false prev) = Some s1 ->
  outcome_of (solo w (fuel_of w) s1 pid) pid = ODone (parse (w_cfg w) (yaml s pa)).
Proof.
  intros Hrt Ha Hn HI Hs.
  assert (HI1 : Inv w s1) by (eapply step_inv; eauto; simpl; auto).
  destruct (spawn_shape _ _ _ _ _ _ _ Hs) as [x ->].
  set (s1 := mkState (yaml s) (files s) (updp (procs s) pid (Some (mkProc pa false PStart (yaml s pa) false x)))) in *.
  assert (Hp1 : procs s1 pid = Some (mkProc pa false PStart (yaml s pa) false x)) by (simpl; apply updp_same).
  destruct (solo_terminates w Hrt Ha Hn (fuel_of w) s1 pid _ HI1 Hp1) as [p' [A [B [C [D [E [F [G' H]]]]]]]].
  - simpl. repeat split; discriminate.
  - simpl. unfold fuel_of. lia.
  - unfold outcome_of, pc_of. rewrite A.
    simpl in E, F, G'. destruct D as [D1 [D2 D3]].
    destruct (pr_pc p') eqn:Epc; simpl in C; try discriminate; try contradiction.
    + destruct (done_is_parse w _ _ _ _ B A Epc) as [_ K]. rewrite (K G'), E, H. reflexivity.
    + exfalso; eapply D3; eauto.
Qed.

(* a load in an OS process that already loaded the same path -- its _runtime_cache holds the data dq of that earlier
   load, which may belong to an older content of the file -- returns the parse of the CURRENT content *)
Definition inproc_stmt (rt : rtmode) : Prop :=
  forall nch g e rh s0 ls s pid pa q pq dq, 0 < nch ->
    let w := mkSetup nch g AtomicRename e rh rt in
    Inv w s0 -> quiet w s0 ls -> run w s0 ls = Some s ->
    procs s pid = None -> procs s q = Some pq -> pr_pc pq = PDone dq -> pr_path pq = pa ->
    outcome_of (loadp w s pid pa false (Some q)) pid = ODone (parse g (yaml s pa)).

Lemma inproc_ignored : inproc_stmt RtIgnored.
Proof.
  intros nch g e rh s0 ls s pid pa q pq dq Hn w HI HQ HR Hp Hq Hd Hpa.
  assert (HIs : Inv w s) by (eapply run_inv; eauto).
  assert (Hpe : path_eqb pa (pr_path pq) = true) by (apply path_eqb_eq; auto).
  unfold loadp. cbn [run_skip].
  assert (E : step w s (LSpawn pid pa false (Some q)) =
              Some (mkState (yaml s) (files s) (updp (procs s) pid (Some (mkProc pa false PStart (yaml s pa) false (Some dq)))))).
  { simpl. rewrite Hp, Hq, Hd, Hpe. reflexivity. }
  rewrite E. apply (spawned_load_ok w s pid pa (Some q) _ eq_refl eq_refl Hn HIs E).
Qed.

(* the variant that serves _runtime_cache[path]: load, edit, load again in the same process returns the old data *)
Definition wS := mkSetup 4 gI AtomicRename eI false RtServed.
Definition hist_inproc : list label := [LSpawn 0 pa0 false None] ++ repeat (LStep 0) 12 ++ [LEdit pa0 8].

Lemma inproc_served_refuted : ~ inproc_stmt RtServed.
Proof.
  intro H.
  assert (E : run wS (empty_state y0) hist_inproc = Some (run_skip wS (empty_state y0) hist_inproc))
    by (vm_compute; reflexivity).
  set (p0 := mkProc pa0 false (PDone (mkData 1 0 7)) 7 true None).
  assert (Hq : procs (run_skip wS (empty_state y0) hist_inproc) 0 = Some p0) by (vm_compute; reflexivity).
  specialize (H 4 gI eI false (empty_state y0) hist_inproc _ 1 pa0 0 p0 (mkData 1 0 7) ltac:(lia)
                (Inv_empty _ _) (quiet_no_rehash wS _ eq_refl _) E eq_refl Hq eq_refl eq_refl).
  vm_compute in H. discriminate.
Qed.

(* the same history under the shipped rule *)
Lemma inproc_demo :
  let wN := mkSetup 4 gI AtomicRename eI false RtIgnored in
  let s := run_skip wN (empty_state y0) hist_inproc in
  outcome_of s 0 = ODone (parse gI 7) /\ yaml s pa0 = 8 /\
  outcome_of (loadp wN s 1 pa0 false (Some 0)) 1 = ODone (parse gI 8) /\
  outcome_of (loadp wS s 1 pa0 false (Some 0)) 1 = ODone (parse gI 7).
Proof. repeat split; vm_compute; reflexivity. Qed.
