(* Finite sweeps (vm_compute, bit-exact binary64 model, exact rational comparisons) over the second bounded family:
   every kernel of length <= 2 over forms with one or two 1-cycle micro-ops on non-empty subsets of 3 ports. *)
From Coq Require Import ZArith QArith List Bool String Lia PrimFloat.
From OV Require Import Model.Num Model.Pressure Model.Family Model.Family2 Proofs.Family.
Import ListNotations.

Lemma family2_size : List.length family2 = 3192%nat.
Proof. vm_compute. reflexivity. Qed.

Lemma family2_complete : forall w,
  (forall f, In f w -> In f all_forms2) -> (List.length w = 1%nat \/ List.length w = 2%nat) -> In w family2.
Proof.
  intros w HF HL. unfold family2. apply in_or_app.
  destruct HL as [L|L]; [left | right]; apply words_complete; auto.
Qed.

Lemma family2_sweep : forallb (fun w => andb (uniform_ok w) (once_ok w)) family2 = true.
Proof. vm_compute. reflexivity. Qed.

Lemma family2_twice_count : List.length (filter (fun w => negb (twice_ok w)) family2) = 798%nat.
Proof. vm_compute. reflexivity. Qed.
