(* Register / flag dependency scan (Model/Deps.v) = the read-after-write relation (DESIGN.md C03):
   for a register destination d of instruction A the scan over the following instructions reports exactly the
   instructions B that read d such that no instruction strictly between A and B writes d.
   Generic in the numeric instance and in the register alias test. *)
From Coq Require Import ZArith List Bool String Lia.
From OV Require Import Model.Num Model.Pressure Model.Deps.
Import ListNotations.

Section Scan.
  Context {T : Type} (N : NumOps T) (dep : regop -> regop -> bool).
  Notation line := (line (T:=T)).

  Definition flag_of_reg (r : regop) : dflag := if r_pidx r then FPIndexed else FPlain.

  (* B = l is reached: it is preceded (within rest) only by lines that do not write d *)
  Definition reached (d : opnd) (rest : list line) (l : line) : Prop :=
    exists pre post, rest = pre ++ l :: post /\ Forall (fun x => is_written dep d x = false) pre.

  Lemma scan_reg_spec flagdeps r : forall rest s n f,
    In (n, f) (scan dep flagdeps (OReg r) rest s) <->
    exists l, reached (OReg r) rest l /\ l_no l = n /\ is_read dep (OReg r) l = true /\ f = flag_of_reg r.
  Proof.
    induction rest as [|l more IH]; intros s n f.
    - simpl. split; [tauto|]. intros (l & (pre & post & E & _) & _). destruct pre; discriminate.
    - cbn [scan]. set (s2 := update_changes (update_changes s (l_chg l)) (l_chg_post l)).
      split.
      + intros H.
        assert (Hcase : In (n, f) (if is_read dep (OReg r) l then [(l_no l, flag_of_reg r)] else []) \/
                        (is_written dep (OReg r) l = false /\ In (n, f) (scan dep flagdeps (OReg r) more s2))).
        { unfold flag_of_reg. destruct (is_written dep (OReg r) l) eqn:W.
          - left. exact H.
          - apply in_app_or in H. destruct H as [H|H]; [left; exact H | right; split; [reflexivity | exact H]]. }
        destruct Hcase as [H1|[W H2]].
        * destruct (is_read dep (OReg r) l) eqn:R; [|contradiction].
          destruct H1 as [E|[]]. inversion E; subst. exists l. repeat split; auto.
          exists [], more. split; [reflexivity | constructor].
        * apply IH in H2. destruct H2 as (l' & (pre & post & E & F) & A & B & C).
          exists l'. repeat split; auto. exists (l :: pre), post. split; [rewrite E; reflexivity | constructor; assumption].
      + intros (l' & (pre & post & E & F) & A & B & C).
        destruct pre as [|p pre].
        * cbn [app] in E. inversion E; subst l'. clear E.
          assert (Hin : In (n, f) (if is_read dep (OReg r) l then [(l_no l, flag_of_reg r)] else [])).
          { rewrite B. left. subst. reflexivity. }
          unfold flag_of_reg in Hin. destruct (is_written dep (OReg r) l); [exact Hin | apply in_or_app; left; exact Hin].
        * cbn [app] in E. inversion E; subst p more. clear E. inversion F as [|? ? W F']; subst.
          rewrite W. apply in_or_app. right. apply IH. exists l'. repeat split; auto. exists pre, post. split; [reflexivity | exact F'].
  Qed.

  Lemma scan_flag_spec n0f : forall rest s n f,
    In (n, f) (scan dep true (OFlag n0f) rest s) <->
    exists l, reached (OFlag n0f) rest l /\ l_no l = n /\ is_read dep (OFlag n0f) l = true /\ f = FPlain.
  Proof.
    induction rest as [|l more IH]; intros s n f.
    - simpl. split; [tauto|]. intros (l & (pre & post & E & _) & _). destruct pre; discriminate.
    - cbn [scan]. set (s2 := update_changes (update_changes s (l_chg l)) (l_chg_post l)).
      split.
      + intros H.
        assert (Hcase : In (n, f) (if is_read dep (OFlag n0f) l then [(l_no l, FPlain)] else []) \/
                        (is_written dep (OFlag n0f) l = false /\ In (n, f) (scan dep true (OFlag n0f) more s2))).
        { destruct (is_written dep (OFlag n0f) l) eqn:W.
          - left. exact H.
          - apply in_app_or in H. destruct H as [H|H]; [left; exact H | right; split; [reflexivity | exact H]]. }
        destruct Hcase as [H1|[W H2]].
        * destruct (is_read dep (OFlag n0f) l) eqn:R; [|contradiction].
          destruct H1 as [E|[]]. inversion E; subst. exists l. repeat split; auto.
          exists [], more. split; [reflexivity | constructor].
        * apply IH in H2. destruct H2 as (l' & (pre & post & E & F) & A & B & C).
          exists l'. repeat split; auto. exists (l :: pre), post. split; [rewrite E; reflexivity | constructor; assumption].
      + intros (l' & (pre & post & E & F) & A & B & C).
        destruct pre as [|p pre].
        * cbn [app] in E. inversion E; subst l'. clear E.
          assert (Hin : In (n, f) (if is_read dep (OFlag n0f) l then [(l_no l, FPlain)] else [])).
          { rewrite B. left. subst. reflexivity. }
          destruct (is_written dep (OFlag n0f) l); [exact Hin | apply in_or_app; left; exact Hin].
        * cbn [app] in E. inversion E; subst p more. clear E. inversion F as [|? ? W F']; subst.
          rewrite W. apply in_or_app. right. apply IH. exists l'. repeat split; auto. exists pre, post. split; [reflexivity | exact F'].
  Qed.

  (* flags are ignored unless flag dependencies are requested *)
  Lemma scan_flag_off n0f : forall (rest : list line) s, scan dep false (OFlag n0f) rest s = [].
  Proof. induction rest as [|l more IH]; intros s; cbn [scan]; [reflexivity | apply IH]. Qed.

  Lemma scan_other : forall fd (rest : list line) s, scan dep fd OOther rest s = [].
  Proof. induction rest as [|l more IH]; intros s; cbn [scan]; [reflexivity | apply IH]. Qed.

  (* every reported target is a line of `rest` (edges point forward) *)
  Lemma scan_targets fd d : forall (rest : list line) s n f, In (n, f) (scan dep fd d rest s) -> exists l, In l rest /\ l_no l = n.
  Proof.
    induction rest as [|l more IH]; intros s n f H; [contradiction|]. cbn [scan] in H.
    set (s1 := update_changes s (l_chg l)) in *. set (s2 := update_changes s1 (l_chg_post l)) in *.
    assert (Step : forall out, In (n, f) out -> (forall x, In x out -> fst x = l_no l) -> exists l0, In l0 (l :: more) /\ l_no l0 = n).
    { intros out Hin Hall. exists l. split; [left; reflexivity|]. symmetry. exact (Hall _ Hin). }
    assert (Rec : In (n, f) (scan dep fd d more s2) -> exists l0, In l0 (l :: more) /\ l_no l0 = n).
    { intros Hr. destruct (IH _ _ _ Hr) as (l0 & A & B). exists l0. split; [right; exact A | exact B]. }
    destruct d as [r|fl|m|].
    - destruct (is_written dep (OReg r) l).
      + destruct (is_read dep (OReg r) l); [|contradiction]. destruct H as [E|[]]. inversion E. exists l. split; [left|]; reflexivity.
      + apply in_app_or in H. destruct H as [H|H]; [|auto].
        destruct (is_read dep (OReg r) l); [|contradiction]. destruct H as [E|[]]. inversion E. exists l. split; [left|]; reflexivity.
    - destruct fd; [|auto].
      destruct (is_written dep (OFlag fl) l).
      + destruct (is_read dep (OFlag fl) l); [|contradiction]. destruct H as [E|[]]. inversion E. exists l. split; [left|]; reflexivity.
      + apply in_app_or in H. destruct H as [H|H]; [|auto].
        destruct (is_read dep (OFlag fl) l); [|contradiction]. destruct H as [E|[]]. inversion E. exists l. split; [left|]; reflexivity.
    - destruct (is_memstore m l).
      + destruct (is_memload m l s1); [|contradiction]. destruct H as [E|[]]. inversion E. exists l. split; [left|]; reflexivity.
      + apply in_app_or in H. destruct H as [H|H]; [|auto].
        destruct (is_memload m l s1); [|contradiction]. destruct H as [E|[]]. inversion E. exists l. split; [left|]; reflexivity.
    - auto.
  Qed.
End Scan.

Section Kernel.
  Context {T : Type} (dep : regop -> regop -> bool).
  Notation line := (line (T:=T)).

  Lemma scan_mem_storeload fd m : forall (rest : list line) s n f, In (n, f) (scan dep fd (OMem m) rest s) -> f = FStoreLoad.
  Proof.
    induction rest as [|l more IH]; intros s n f H; [contradiction|]. cbn [scan] in H.
    destruct (is_memstore m l).
    - destruct (is_memload m l _); [|contradiction]. destruct H as [E|[]]. inversion E. reflexivity.
    - apply in_app_or in H. destruct H as [H|H]; [|eapply IH; exact H].
      destruct (is_memload m l _); [|contradiction]. destruct H as [E|[]]. inversion E. reflexivity.
  Qed.

  Definition is_regflag (fd : bool) (d : opnd) : Prop :=
    match d with OReg _ => True | OFlag _ => fd = true | _ => False end.

  (* the register/flag edges leaving instruction A are exactly the read-after-write relation *)
  Theorem raw_iff_edge fd (A : line) (rest : list line) n :
    (exists f, In (n, f) (find_depending dep fd A rest) /\ f <> FStoreLoad) <->
    (exists d B, In d (dsts A) /\ is_regflag fd d /\ reached dep d rest B /\ l_no B = n /\ is_read dep d B = true).
  Proof.
    unfold find_depending. split.
    - intros (f & Hin & Hf). apply in_flat_map in Hin. destruct Hin as (d & Hd & Hs).
      destruct d as [r|fl|m|].
      + apply (scan_reg_spec (T:=T)) in Hs. destruct Hs as (B & R & E & Rd & _). exists (OReg r), B. repeat split; auto.
      + destruct fd.
        * apply (scan_flag_spec (T:=T)) in Hs. destruct Hs as (B & R & E & Rd & _). exists (OFlag fl), B. repeat split; auto.
        * rewrite scan_flag_off in Hs. contradiction.
      + apply scan_mem_storeload in Hs. contradiction.
      + rewrite scan_other in Hs. contradiction.
    - intros (d & B & Hd & Hk & R & E & Rd).
      destruct d as [r|fl|m|]; cbn in Hk; try contradiction.
      + exists (flag_of_reg r). split.
        * apply in_flat_map. exists (OReg r). split; [exact Hd|]. apply (scan_reg_spec (T:=T)). exists B. repeat split; auto.
        * unfold flag_of_reg. destruct (r_pidx r); discriminate.
      + subst fd. exists FPlain. split; [|discriminate].
        apply in_flat_map. exists (OFlag fl). split; [exact Hd|]. apply (scan_flag_spec (T:=T)). exists B. repeat split; auto.
  Qed.

  (* edges point forward: every target is one of the following instructions *)
  Theorem find_depending_forward fd (A : line) (rest : list line) n f :
    In (n, f) (find_depending dep fd A rest) -> exists B, In B rest /\ l_no B = n.
  Proof.
    unfold find_depending. intros H. apply in_flat_map in H. destruct H as (d & _ & Hs).
    eapply scan_targets; eassumption.
  Qed.
End Kernel.
