(* C07 -- proofs about Model/Match.v (lookup: list inductions, unbounded in the table size) *)
From Coq Require Import String Ascii List Bool Arith ZArith Lia.
From OV Require Import Model.PyString Model.Match Model.MatchSpec.
Import ListNotations.
Open Scope string_scope.

(* ------------------------------------------------------------------ _match_operands *)
Definition op_ok (a : isa) (p : pattern) (o : operand) : Prop := check_operand a p o = Some true.

Lemma match_all_true_iff : forall a pats ops,
  match_all a pats ops = Some true <-> Forall2 (op_ok a) pats ops.
Proof.
  induction pats as [|p ps IH]; destruct ops as [|o os]; simpl; split; intro H;
    try constructor; try discriminate; try (inversion H; fail).
  - destruct (check_operand a p o) as [[|]|] eqn:E; try discriminate. exact E.
  - destruct (check_operand a p o) as [[|]|] eqn:E; try discriminate. apply IH. exact H.
  - inversion H; subst. unfold op_ok in *. rewrite H3. apply IH. assumption.
Qed.

Lemma Forall2_length' : forall {A B} (R : A -> B -> Prop) l1 l2, Forall2 R l1 l2 -> length l1 = length l2.
Proof. induction 1; simpl; congruence. Qed.

Lemma match_operands_true_iff : forall a pats ops,
  match_operands a pats ops = Some true <-> (length ops = length pats /\ Forall2 (op_ok a) pats ops).
Proof.
  intros. unfold match_operands. destruct (Nat.eqb (length ops) (length pats)) eqn:E.
  - apply Nat.eqb_eq in E. rewrite match_all_true_iff. tauto.
  - apply Nat.eqb_neq in E. split; [discriminate | tauto].
Qed.

(* an entry is never applied to an instruction with a different operand count *)
Lemma match_operands_count : forall a pats ops,
  length ops <> length pats -> match_operands a pats ops = Some false.
Proof.
  intros. unfold match_operands. apply Nat.eqb_neq in H. rewrite H. reflexivity.
Qed.

(* no raise when every operand test is defined *)
Lemma match_all_total : forall a pats ops,
  (forall p o, In o ops -> check_operand a p o <> None) -> match_all a pats ops <> None.
Proof.
  induction pats as [|p ps IH]; destruct ops as [|o os]; simpl; intros H; try discriminate.
  destruct (check_operand a p o) as [[|]|] eqn:E; try discriminate.
  - apply IH. intros. apply H. right. assumption.
  - exfalso. apply (H p o); auto.
Qed.

Lemma match_operands_total : forall a pats ops,
  (forall p o, In o ops -> check_operand a p o <> None) -> match_operands a pats ops <> None.
Proof.
  intros. unfold match_operands. destruct (Nat.eqb _ _); [apply match_all_total; assumption | discriminate].
Qed.

(* ------------------------------------------------------------------ find_first *)
Definition hit (a : isa) (key : string) (ops : list operand) (e : entry) : Prop :=
  e_name e = key /\ match_operands a (e_pats e) ops = Some true.
Definition miss (a : isa) (key : string) (ops : list operand) (e : entry) : Prop :=
  e_name e = key -> match_operands a (e_pats e) ops = Some false.

Lemma find_first_found : forall a key ops tbl i j,
  find_first a tbl key ops i = Found j ->
  exists k e, j = i + k /\ nth_error tbl k = Some e /\ hit a key ops e /\
              (forall k' e', k' < k -> nth_error tbl k' = Some e' -> miss a key ops e').
Proof.
  induction tbl as [|e t IH]; simpl; intros i j H; [discriminate|].
  destruct (String.eqb (e_name e) key) eqn:En.
  - destruct (match_operands a (e_pats e) ops) as [[|]|] eqn:Em; try discriminate.
    + inversion H; subst. exists 0, e.
      split; [lia|]. split; [reflexivity|]. split.
      * split; [apply String.eqb_eq; assumption | assumption].
      * intros; lia.
    + apply IH in H. destruct H as (k & e0 & -> & Hn & Hh & Hm).
      exists (S k), e0. split; [lia|]. split; [exact Hn|]. split; [exact Hh|].
      intros k' e' Hlt Hnth. destruct k'; simpl in Hnth.
      * inversion Hnth; subst. intro. assumption.
      * apply (Hm k'); [lia | assumption].
  - apply IH in H. destruct H as (k & e0 & -> & Hn & Hh & Hm).
    exists (S k), e0. split; [lia|]. split; [exact Hn|]. split; [exact Hh|].
    intros k' e' Hlt Hnth. destruct k'; simpl in Hnth.
    + inversion Hnth; subst. intro Hk. apply String.eqb_neq in En. contradiction.
    + apply (Hm k'); [lia | assumption].
Qed.

Lemma find_first_notfound : forall a key ops tbl i,
  find_first a tbl key ops i = NotFound -> forall e, In e tbl -> miss a key ops e.
Proof.
  induction tbl as [|e t IH]; simpl; intros i H e0 Hin; [contradiction|].
  destruct (String.eqb (e_name e) key) eqn:En.
  - destruct (match_operands a (e_pats e) ops) as [[|]|] eqn:Em; try discriminate.
    destruct Hin as [<-|Hin]; [intro; assumption | eapply IH; eauto].
  - destruct Hin as [<-|Hin]; [| eapply IH; eauto].
    intro Hk. apply String.eqb_neq in En. contradiction.
Qed.

Lemma find_first_complete : forall a key ops tbl i,
  (forall e, In e tbl -> match_operands a (e_pats e) ops <> None) ->
  (exists e, In e tbl /\ hit a key ops e) ->
  exists j, find_first a tbl key ops i = Found j.
Proof.
  induction tbl as [|e t IH]; simpl; intros i Ht (e0 & Hin & Hh); [contradiction|].
  destruct (String.eqb (e_name e) key) eqn:En.
  - destruct (match_operands a (e_pats e) ops) as [[|]|] eqn:Em.
    + eauto.
    + destruct Hin as [<-|Hin].
      * destruct Hh as [_ Hh]. congruence.
      * apply IH; eauto.
    + exfalso. apply (Ht e); auto.
  - destruct Hin as [<-|Hin].
    + destruct Hh as [Hk _]. apply String.eqb_neq in En. contradiction.
    + apply IH; eauto.
Qed.

Lemma find_first_no_raise : forall a key ops tbl i,
  (forall e, In e tbl -> match_operands a (e_pats e) ops <> None) ->
  find_first a tbl key ops i <> Raised.
Proof.
  induction tbl as [|e t IH]; simpl; intros i Ht; [discriminate|].
  destruct (String.eqb (e_name e) key).
  - destruct (match_operands a (e_pats e) ops) as [[|]|] eqn:Em; try discriminate.
    + apply IH. intros; apply Ht; auto.
    + exfalso. apply (Ht e); auto.
  - apply IH. intros; apply Ht; auto.
Qed.

(* ------------------------------------------------------------------ get_instruction *)
Lemma get_instruction_found : forall a tbl n ops j,
  get_instruction a tbl (Some n) ops = Found j ->
  exists e, nth_error tbl j = Some e /\ hit a (py_upper n) ops e /\
            (forall k' e', k' < j -> nth_error tbl k' = Some e' -> miss a (py_upper n) ops e').
Proof.
  unfold get_instruction. intros. apply find_first_found in H.
  destruct H as (k & e & -> & Hn & Hh & Hm). exists e. simpl. auto.
Qed.

(* the names under which the lookup with fall-back finds an entry *)
Definition name_agrees (a : isa) (mn : string) (key : string) : Prop :=
  key = py_upper mn \/ exists mn', fallback_name a mn = Some (Some mn') /\ key = py_upper mn'.

Lemma lookup_with_suffix_found : forall a tbl mn ops j,
  lookup_with_suffix a tbl mn ops = Found j ->
  exists e, nth_error tbl j = Some e /\ name_agrees a mn (e_name e)
            /\ match_operands a (e_pats e) ops = Some true
            /\ (forall k' e', k' < j -> nth_error tbl k' = Some e' -> miss a (e_name e) ops e').
Proof.
  unfold lookup_with_suffix. intros a tbl mn ops j H.
  destruct (get_instruction a tbl (Some mn) ops) eqn:E1.
  - inversion H; subst. apply get_instruction_found in E1. destruct E1 as (e & Hn & (Hk & Hm) & Hf).
    exists e. repeat split; auto. left. assumption. rewrite Hk. assumption.
  - destruct (fallback_name a mn) as [[mn'|]|] eqn:Ef; try discriminate.
    apply get_instruction_found in H. destruct H as (e & Hn & (Hk & Hm) & Hf).
    exists e. repeat split; auto. right. exists mn'. auto. rewrite Hk. assumption.
  - discriminate.
Qed.

(* completeness of the whole lookup: if nothing raises and some entry under the mnemonic's own key or
   its fall-back key matches, an entry is returned *)
Lemma lookup_with_suffix_complete : forall a tbl mn ops,
  (forall e, In e tbl -> match_operands a (e_pats e) ops <> None) ->
  mn <> "" ->
  (exists e, In e tbl /\ name_agrees a mn (e_name e) /\ match_operands a (e_pats e) ops = Some true) ->
  exists j, lookup_with_suffix a tbl mn ops = Found j.
Proof.
  intros a tbl mn ops Ht Hne (e & Hin & Hna & Hm). unfold lookup_with_suffix.
  destruct (get_instruction a tbl (Some mn) ops) eqn:E1; eauto.
  - destruct Hna as [Hk | (mn' & Hf & Hk)].
    + exfalso. unfold get_instruction in E1.
      pose proof (find_first_notfound _ _ _ _ _ E1 e Hin Hk). congruence.
    + rewrite Hf. unfold get_instruction. apply find_first_complete; auto.
      exists e. split; auto. split; auto.
  - exfalso. unfold get_instruction in E1. revert E1. apply find_first_no_raise. assumption.
Qed.
