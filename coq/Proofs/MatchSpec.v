(* C07 -- check_operand (Model/Match.v) against admits/kind (Model/MatchSpec.v) on the documented vocabulary *)
From Coq Require Import String Ascii List Bool Arith ZArith Lia.
From OV Require Import Model.PyString Model.Match Model.MatchSpec.
Import ListNotations.
Open Scope string_scope.

Lemma seqb_sym : forall a b, String.eqb a b = String.eqb b a.
Proof. intros. destruct (String.eqb a b) eqn:E.
  - apply String.eqb_eq in E. subst. symmetry. apply String.eqb_refl.
  - symmetry. apply String.eqb_neq. apply String.eqb_neq in E. congruence. Qed.

Lemma opt_str_eqb_sym : forall a b, opt_str_eqb a b = opt_str_eqb b a.
Proof. destruct a, b; simpl; auto. apply seqb_sym. Qed.

(* membership in a literal list -> one of its elements *)
Ltac enum H :=
  unfold opt_in, py_in_list in H; simpl in H;
  repeat (apply orb_prop in H; destruct H as [H|H]); try discriminate;
  apply String.eqb_eq in H; subst.

(* ------------------------------------------------------------------ scale *)
Lemma scale_ok_spec : forall s i scaled,
  scaled = negb (Z.eqb s 1) ->
  (match i with SInt z => Z.leb 1 z | SStr t => String.eqb t "*" | SNone => false end) = true ->
  scale_ok s i = (match i with
                  | SStr t => String.eqb t "*"
                  | SInt z => Bool.eqb (negb (Z.eqb z 1)) scaled
                  | SNone => negb scaled end).
Proof.
  intros s i scaled -> Hwf. unfold scale_ok. destruct i as [|z|t]; try discriminate.
  - destruct (Z.eqb s z) eqn:E1, (Z.eqb s 1) eqn:E2, (Z.eqb z 1) eqn:E3; simpl; try reflexivity;
      try apply Z.eqb_eq in E1; try apply Z.eqb_eq in E2; try apply Z.eqb_eq in E3;
      try apply Z.eqb_neq in E1; try apply Z.eqb_neq in E2; try apply Z.eqb_neq in E3; subst; try lia.
  - simpl. unfold WILDCARD. rewrite Hwf. reflexivity.
Qed.

(* ------------------------------------------------------------------ x86 registers *)
Lemma vec_lists : forall b, py_in_list b ["xmm"; "ymm"; "zmm"; "mm"] = py_in_list b vec_names.
Proof. intros. unfold py_in_list, vec_names. simpl.
  destruct (String.eqb b "xmm"), (String.eqb b "ymm"), (String.eqb b "zmm"), (String.eqb b "mm"); reflexivity. Qed.

Lemma x86_class_eq : forall n,
  x86_class n = if py_in_list (strip_lower n) vec_names then strip_lower n
                else if String.eqb (strip_lower n) "k" then "k" else "gpr".
Proof. intros. unfold x86_class. rewrite vec_lists. reflexivity. Qed.

Lemma is_x86_reg_type_unfold : forall i n,
  is_x86_reg_type i (Some (R (Some n) None None None)) =
  if is_none (mreg_name i) && false then pure true
  else if opt_is (mreg_name i) "*" || String.eqb n "*" then pure true
  else if py_in_list (strip_lower n) vec_names then pure (opt_str_eqb (Some (strip_lower n)) (mreg_name i))
  else pure (opt_str_eqb (Some (strip_lower n)) (mreg_name i) || opt_is (mreg_name i) "gpr").
Proof. intros. reflexivity. Qed.

(* the register test of _is_x86_reg_type for an entry field whose name is c *)
Lemma x86_reg_core : forall i c n,
  mreg_name i = Some c ->
  py_in_list c ("*" :: x86_classes) = true ->
  String.eqb n "*" = false ->
  (String.eqb c "gpr" && String.eqb (x86_class n) "k") = false ->
  is_x86_reg_type i (Some (R (Some n) None None None)) = Some (String.eqb c "*" || String.eqb c (x86_class n)).
Proof.
  intros i c n Hi Hc Hn Hl. rewrite is_x86_reg_type_unfold, Hi, Hn. rewrite x86_class_eq in *.
  remember (strip_lower n) as b. clear Heqb.
  change (is_none (Some c)) with false. change (opt_is (Some c) "*") with (String.eqb c "*").
  change (opt_is (Some c) "gpr") with (String.eqb c "gpr").
  change (opt_str_eqb (Some b) (Some c)) with (String.eqb b c).
  cbv beta iota. rewrite andb_false_l, orb_false_r.
  destruct (String.eqb c "*") eqn:Ew; [reflexivity|]. rewrite orb_false_l.
  assert (Hcc : In c x86_classes).
  { unfold py_in_list in Hc. apply existsb_exists in Hc. destruct Hc as (x & Hx & He).
    apply String.eqb_eq in He. subst x. destruct Hx as [Hx|Hx]; [subst c; discriminate | exact Hx]. }
  destruct (py_in_list b vec_names) eqn:Ev.
  - unfold pure. rewrite seqb_sym. reflexivity.
  - assert (Hnv : forall v, In v vec_names -> String.eqb b v = false).
    { intros v Hv. unfold py_in_list in Ev. destruct (String.eqb b v) eqn:E; auto.
      assert (existsb (String.eqb b) vec_names = true) by (apply existsb_exists; eauto). congruence. }
    unfold pure. f_equal.
    destruct (String.eqb b "k") eqn:Ek.
    + apply String.eqb_eq in Ek. subst b.
      unfold x86_classes in Hcc. simpl in Hcc.
      destruct Hcc as [<-|[<-|[<-|[<-|[<-|[<-|[]]]]]]]; try reflexivity. discriminate.
    + unfold x86_classes in Hcc. simpl in Hcc.
      destruct Hcc as [<-|[<-|[<-|[<-|[<-|[<-|[]]]]]]]; cbn [String.eqb]; try reflexivity.
      * rewrite orb_true_r. reflexivity.
      * rewrite (Hnv "xmm"); [reflexivity | unfold vec_names; simpl; auto].
      * rewrite (Hnv "ymm"); [reflexivity | unfold vec_names; simpl; auto].
      * rewrite (Hnv "zmm"); [reflexivity | unfold vec_names; simpl; auto].
      * rewrite (Hnv "mm"); [reflexivity | unfold vec_names; simpl; auto].
      * rewrite Ek. reflexivity.
Qed.

Lemma is_x86_reg_type_name : forall i r n,
  r_name r = Some n -> is_x86_reg_type i (Some r) = is_x86_reg_type i (Some (R (Some n) None None None)).
Proof. intros i [nm pf sh ln] n H. simpl in H. subst. reflexivity. Qed.

Lemma wf_reg_x86_name : forall r, wf_reg X86 r = true -> exists n, r_name r = Some n /\ String.eqb n "*" = false.
Proof. intros r H. unfold wf_reg in H. destruct (r_name r) as [n|]; [|discriminate].
  exists n. split; auto. apply negb_true_iff in H. exact H. Qed.

Lemma x86_reg_ok : forall ir r,
  wf_pattern X86 (PReg ir) = true -> wf_reg X86 r = true -> lenient X86 (PReg ir) (OReg r) = false ->
  check_operand X86 (PReg ir) (OReg r) = Some (admits X86 (PReg ir) (kind X86 (OReg r))).
Proof.
  intros ir r Hp Hr Hl. destruct (wf_reg_x86_name r Hr) as (n & Hn & Hs).
  simpl in Hp. destruct (r_name ir) as [c|] eqn:Hc; [|discriminate].
  change (check_operand X86 (PReg ir) (OReg r)) with (is_x86_reg_type (MReg ir) (Some r)).
  rewrite (is_x86_reg_type_name _ _ _ Hn).
  rewrite (x86_reg_core (MReg ir) c n); auto.
  - unfold kind. rewrite Hn. unfold admits, wild, opt_is. rewrite Hc. reflexivity.
  - unfold lenient, reg_class, opt_is in Hl. rewrite Hc, Hn in Hl. exact Hl.
Qed.

Lemma x86_field : forall i r n,
  wf_mreg X86 true i = true -> r_name r = Some n -> String.eqb n "*" = false ->
  String.eqb (x86_class n) "k" = false ->
  is_x86_reg_type i (Some r) = Some (regfield_admits X86 i (Some (x86_class n))).
Proof.
  intros i r n Hi Hn Hs Hk. rewrite (is_x86_reg_type_name _ _ _ Hn).
  destruct i as [|c|ir]; simpl in Hi; try discriminate.
  - rewrite is_x86_reg_type_unfold. cbn [mreg_name is_none opt_is opt_str_eqb andb orb]. rewrite Hs.
    destruct (py_in_list (strip_lower n) vec_names); reflexivity.
  - rewrite (x86_reg_core (MStr c) c n); auto.
    rewrite Hk. apply andb_false_r.
Qed.

Lemma pure_inj_and : forall a b c d x y z w,
  a = Some x -> b = Some y -> c = Some z -> d = Some w ->
  pand a (pand b (pand c d)) = Some (x && y && z && w).
Proof. intros; subst. destruct x, y, z, w; reflexivity. Qed.

Lemma opt_class_k : forall r n, r_name r = Some n ->
  opt_str_eqb (reg_class X86 r) (Some "k") = String.eqb (x86_class n) "k".
Proof. intros. unfold reg_class. rewrite H. reflexivity. Qed.

Lemma x86_mem_ok : forall im m,
  wf_pattern X86 (PMem im) = true -> wf_operand X86 (OMem m) = true ->
  check_operand X86 (PMem im) (OMem m) = Some (admits X86 (PMem im) (kind X86 (OMem m))).
Proof.
  intros im m Hp Ho. simpl in Hp, Ho.
  repeat (apply andb_prop in Hp; destruct Hp as [Hp ?]).
  repeat (apply andb_prop in Ho; destruct Ho as [Ho ?]).
  rename H into Hx, H0 into Hscale, H1 into Hoff, H2 into Hidx.
  rename H3 into Hprepost, H4 into Hs1, H5 into Hooff, H6 into Hoidx.
  simpl. unfold is_x86_mem_type. rewrite andb_true_r.
  apply pure_inj_and.
  - (* base *)
    destruct (m_base m) as [b|] eqn:Hb.
    + apply andb_prop in Ho. destruct Ho as [Hwb Hcl].
      destruct (wf_reg_x86_name b Hwb) as (n & Hn & Hs).
      unfold reg_class in Hcl. rewrite Hn in Hcl. simpl in Hcl.
      assert (Hk : String.eqb (x86_class n) "k" = false).
      { apply String.eqb_eq in Hcl. rewrite Hcl. reflexivity. }
      rewrite (x86_field _ _ _ Hp Hn Hs Hk). unfold reg_class. rewrite Hn. simpl.
      destruct (mp_base im) as [|c|]; simpl in *; try discriminate; unfold regfield_admits, wild, WILDCARD; simpl.
      * reflexivity.
      * destruct (String.eqb c "*"); reflexivity.
    + simpl. destruct (mp_base im) as [|c|]; simpl in *; try discriminate; unfold regfield_admits, wild, WILDCARD; simpl.
      * reflexivity.
      * unfold opt_is. simpl. destruct (String.eqb c "*"); reflexivity.
  - (* offset *)
    unfold pure. f_equal.
    destruct (mp_offset im) as [|s|]; try discriminate.
    + destruct (m_offset m) as [|v|]; simpl; try reflexivity.
      destruct v; try discriminate; reflexivity.
    + enum Hoff; destruct (m_offset m) as [|v|]; try reflexivity; destruct v; try discriminate; reflexivity.
  - (* index *)
    destruct (m_index m) as [x|] eqn:Hi.
    + apply andb_prop in Hoidx. destruct Hoidx as [Hwx Hcl].
      destruct (wf_reg_x86_name x Hwx) as (n & Hn & Hs).
      rewrite Hn in Hcl. cbn [option_map opt_str_eqb] in Hcl. apply negb_true_iff in Hcl.
      rewrite (x86_field _ _ _ Hidx Hn Hs Hcl). unfold reg_class. rewrite Hn. simpl.
      destruct (mp_index im) as [|c|]; simpl in *; try discriminate; unfold regfield_admits, wild, WILDCARD; simpl.
      * reflexivity.
      * destruct (String.eqb c "*"); reflexivity.
    + simpl. destruct (mp_index im) as [|c|]; simpl in *; try discriminate; unfold regfield_admits, wild, WILDCARD; simpl.
      * reflexivity.
      * unfold opt_is. simpl. destruct (String.eqb c "*"); reflexivity.
  - (* scale *)
    unfold pure. f_equal. apply scale_ok_spec; auto.
Qed.

(* ------------------------------------------------------------------ AArch64 *)
Lemma a64_prefix_not_wild : forall p, py_in_list p a64_prefixes = true -> String.eqb p "*" = false.
Proof. intros p H. enum H; reflexivity. Qed.

Lemma a64_reg_ok : forall ir r,
  wf_pattern A64 (PReg ir) = true -> wf_reg A64 r = true -> lenient A64 (PReg ir) (OReg r) = false ->
  is_a64_reg_type ir r = admits A64 (PReg ir) (kind A64 (OReg r)).
Proof.
  intros [inm ipf ish iln] [nm pf sh ln] Hp Hr Hl. simpl in Hp, Hr, Hl.
  destruct ipf as [pc|]; [|discriminate]. destruct pf as [p|]; [|discriminate].
  destruct iln; [rewrite andb_false_r in Hp; discriminate|].
  rewrite andb_true_r in Hp.
  apply andb_prop in Hp. destruct Hp as [Hpc Hish].
  apply andb_prop in Hr. destruct Hr as [Hr Hln]. apply andb_prop in Hr. destruct Hr as [Hpp Hsh].
  assert (Hpw : String.eqb p "*" = false) by (apply a64_prefix_not_wild; exact Hpp).
  unfold is_a64_reg_type, kind, admits, wild, opt_is. cbn [r_prefix r_shape r_lanes opt_str_eqb].
  unfold WILDCARD. rewrite Hpw. rewrite orb_false_l. rewrite (seqb_sym p pc).
  destruct sh as [s|].
  - (* the operand has a shape *)
    simpl in Hsh. enum Hsh;
      (destruct ish as [b|]; [simpl in Hish; enum Hish|]);
      cbn; destruct (String.eqb pc "*"), (String.eqb pc p); reflexivity.
  - (* no shape: then no lanes; the pattern has no shape or the wildcard (not lenient) *)
    destruct ln; [discriminate|].
    destruct ish as [b|].
    + simpl in Hish. simpl in Hl. unfold wild, opt_is in Hl. simpl in Hl.
      rewrite andb_true_r in Hl. apply negb_false_iff in Hl. apply String.eqb_eq in Hl. subst b.
      cbn. destruct (String.eqb pc "*"), (String.eqb pc p); reflexivity.
    + cbn. destruct (String.eqb pc "*"), (String.eqb pc p); reflexivity.
Qed.

Lemma wf_reg_a64_prefix : forall r, wf_reg A64 r = true ->
  exists p, r_prefix r = Some p /\ String.eqb p "*" = false.
Proof.
  intros r H. unfold wf_reg in H. apply andb_prop in H. destruct H as [H _]. apply andb_prop in H. destruct H as [H _].
  destruct (r_prefix r) as [p|]; [|discriminate]. exists p. split; auto. apply a64_prefix_not_wild. exact H.
Qed.

Lemma a64_mem_ok : forall im m,
  wf_pattern A64 (PMem im) = true -> wf_operand A64 (OMem m) = true ->
  is_a64_mem_type im m = admits A64 (PMem im) (kind A64 (OMem m)).
Proof.
  intros im m Hp Ho. simpl in Hp, Ho.
  repeat (apply andb_prop in Hp; destruct Hp as [Hp ?]).
  repeat (apply andb_prop in Ho; destruct Ho as [Ho ?]).
  rename H2 into Hidx, H1 into Hoff, H0 into Hscale, H6 into Hoidx, H5 into Hooff, H4 into Hs1.
  apply andb_prop in H. destruct H as [Hpre Hpost].
  unfold is_a64_mem_type, admits, kind.
  destruct (m_base m) as [b|] eqn:Hb; [|discriminate].
  rewrite andb_true_r in Ho.
  destruct (wf_reg_a64_prefix b Ho) as (p & Hpb & Hpw).
  rewrite !andb_assoc.
  f_equal; [f_equal; [f_equal; [f_equal; [f_equal|]|]|]|].
  - (* base *)
    cbn [is_none andb orb reg_class]. rewrite Hpb.
    destruct (mp_base im) as [|c|]; simpl in Hp; try discriminate.
    unfold regfield_admits, wild, opt_is, mreg_class, mreg_is, optstr_eq_mreg, WILDCARD. cbn [opt_str_eqb].
    rewrite (seqb_sym p c). reflexivity.
  - (* offset *)
    destruct (mp_offset im) as [|s|]; try discriminate.
    + destruct (m_offset m) as [|v|]; reflexivity.
    + enum Hoff; destruct (m_offset m) as [|v|]; reflexivity.
  - (* index *)
    destruct (m_index m) as [x|] eqn:Hi.
    + rewrite andb_true_r in Hoidx. destruct (wf_reg_a64_prefix x Hoidx) as (q & Hq & Hqw).
      cbn [reg_class]. rewrite Hq.
      destruct (mp_index im) as [|c|]; simpl in Hidx; try discriminate.
      * reflexivity.
      * unfold regfield_admits, wild, opt_is, mreg_class, mreg_is, optstr_eq_mreg, reg_eq_mreg, WILDCARD. cbn [opt_str_eqb orb].
        rewrite (seqb_sym q c). reflexivity.
    + destruct (mp_index im) as [|c|]; simpl in Hidx; try discriminate.
      * reflexivity.
      * unfold regfield_admits, wild, opt_is, mreg_class, mreg_is, optstr_eq_mreg, reg_eq_mreg, WILDCARD. cbn [opt_str_eqb orb].
        rewrite orb_false_r. reflexivity.
  - (* scale *)
    apply scale_ok_spec; auto.
  - (* pre *)
    destruct (mp_pre im) as [x|s]; simpl.
    + destruct x, (m_pre m); reflexivity.
    + unfold WILDCARD. rewrite orb_false_r. reflexivity.
  - (* post *)
    destruct (mp_post im) as [x|s]; simpl.
    + destruct x, (m_post m); reflexivity.
    + simpl in Hpost. unfold WILDCARD. rewrite Hpost. reflexivity.
Qed.

(* ------------------------------------------------------------------ the theorem *)
Theorem check_iff_admits_partial : forall a p o,
  wf_pattern a p = true -> wf_operand a o = true -> lenient a p o = false ->
  check_operand a p o = Some (admits a p (kind a o)).
Proof.
  intros a p o Hp Ho Hl. destruct o as [r|m|ty v id| |cc| | |k|]; try (simpl in Ho; destruct a; discriminate).
  - (* register *)
    destruct p as [ir|im|t| |c| | |k];
      try (destruct a; simpl in Hp; try discriminate; simpl; try reflexivity; destruct (r_name r); reflexivity).
    destruct a.
    + apply x86_reg_ok; auto.
    + change (check_operand A64 (PReg ir) (OReg r)) with (Some (is_a64_reg_type ir r)).
      f_equal. apply a64_reg_ok; auto.
  - (* memory *)
    destruct p as [ir|im|t| |c| | |k]; try (destruct a; simpl in Hp; try discriminate; reflexivity).
    destruct a.
    + apply x86_mem_ok; auto.
    + change (check_operand A64 (PMem im) (OMem m)) with (Some (is_a64_mem_type im m)).
      f_equal. apply a64_mem_ok; auto.
  - (* immediate *)
    simpl in Ho. destruct id; [discriminate|]. simpl in Ho.
    destruct a.
    + rewrite andb_true_r in Ho.
      destruct p as [ir|im|t| |c| | |k]; simpl in Hp; try discriminate; try reflexivity.
      destruct t as [t|]; [|discriminate]. enum Hp. destruct v; try discriminate; reflexivity.
    + apply andb_prop in Ho. destruct Ho as [Hv Hty].
      destruct ty as [ty|]; [|discriminate]. 
      destruct p as [ir|im|t| |c| | |k]; simpl in Hp; try discriminate;
        try (enum Hty; destruct v; try discriminate; reflexivity).
      destruct t as [t|]; [|discriminate].
      enum Hp; enum Hty; destruct v; try discriminate; reflexivity.
  - (* identifier *)
    destruct p as [ir|im|t| |c| | |k]; destruct a; simpl in Hp; try discriminate; try reflexivity;
      destruct t as [t|]; try discriminate; enum Hp; reflexivity.
  - (* condition *)
    destruct a; [discriminate|].
    destruct p as [ir|im|t| |c| | |k]; simpl in Hp; try discriminate; try reflexivity.
    destruct t as [t|]; try discriminate; enum Hp; reflexivity.
  - (* prefetch *)
    destruct a; [discriminate|].
    destruct p as [ir|im|t| |c| | |k]; simpl in Hp; try discriminate; try reflexivity.
    destruct t as [t|]; try discriminate; enum Hp; reflexivity.
  - (* the register wildcard of the composition path *)
    destruct p; destruct a; reflexivity.
Qed.

(* the two families excluded above are real: the matcher accepts, `admits` does not *)
Theorem check_iff_admits_refuted :
  (exists p o, wf_pattern X86 p = true /\ wf_operand X86 o = true /\
               check_operand X86 p o = Some true /\ admits X86 p (kind X86 o) = false)
  /\ (exists p o, wf_pattern A64 p = true /\ wf_operand A64 o = true /\
                  check_operand A64 p o = Some true /\ admits A64 p (kind A64 o) = false).
Proof.
  split.
  - exists (PReg (R (Some "gpr") None None None)), (OReg (R (Some "k1") None None None)).
    repeat split; reflexivity.
  - exists (PReg (R None (Some "z") (Some "d") None)), (OReg (R (Some "0") (Some "z") None None)).
    repeat split; reflexivity.
Qed.

(* on well-formed operands nothing raises *)
Lemma check_total : forall a p o, wf_operand a o = true -> check_operand a p o <> None.
Proof.
  intros a p o Ho. destruct a; [|destruct o; simpl; discriminate].
  destruct o as [r|m|ty v id| |cc| | |k|]; try (simpl; discriminate); try (simpl in Ho; discriminate).
  - destruct p; try (simpl; discriminate).
    simpl in Ho. destruct (wf_reg_x86_name r Ho) as (n & Hn & Hs).
    change (check_operand X86 (PReg r0) (OReg r)) with (is_x86_reg_type (MReg r0) (Some r)).
    rewrite (is_x86_reg_type_name _ _ _ Hn), is_x86_reg_type_unfold.
    repeat match goal with |- context [if ?c then _ else _] => destruct c end; discriminate.
  - destruct p; try (simpl; discriminate).
    simpl in Ho. repeat (apply andb_prop in Ho; destruct Ho as [Ho ?]).
    change (check_operand X86 (PMem m0) (OMem m)) with (is_x86_mem_type m0 m). unfold is_x86_mem_type.
    assert (Hreg : forall i x, wf_reg X86 x = true -> is_x86_reg_type i (Some x) <> None).
    { intros i x Hx. destruct (wf_reg_x86_name x Hx) as (n & Hn & Hs).
      rewrite (is_x86_reg_type_name _ _ _ Hn), is_x86_reg_type_unfold.
      repeat match goal with |- context [if ?c then _ else _] => destruct c end; discriminate. }
    assert (Hb : forall i, is_x86_reg_type i (m_base m) <> None).
    { intro i. destruct (m_base m) as [b|]; [|simpl; discriminate].
      apply andb_prop in Ho. destruct Ho. apply Hreg. assumption. }
    assert (Hx : forall i, match m_index m with None => pure false | Some _ => is_x86_reg_type i (m_index m) end <> None).
    { intro i. destruct (m_index m) as [x|]; [|discriminate].
      apply andb_prop in H2. destruct H2. apply Hreg. assumption. }
    specialize (Hb (mp_base m0)). specialize (Hx (mp_index m0)).
    destruct (is_x86_reg_type (mp_base m0) (m_base m)) as [[|]|]; try congruence;
    destruct (match m_index m with None => pure false | Some _ => is_x86_reg_type (mp_index m0) (m_index m) end) as [[|]|]; try congruence;
    unfold pure, por, pand;
    repeat match goal with |- context [if ?c then _ else _] => destruct c end;
    repeat match goal with |- context [match ?c with true => _ | false => _ end] => destruct c end; discriminate.
Qed.

Lemma lenient_not_admitted : forall a p o, lenient a p o = true -> admits a p (kind a o) = false.
Proof.
  intros a p o H. destruct a, p, o; simpl in H; try discriminate.
  - apply andb_prop in H. destruct H as [H1 H2].
    unfold reg_class in H2. destruct (r_name r0) as [n|] eqn:Hn; [|discriminate]. simpl in H2.
    unfold kind. rewrite Hn. unfold admits, wild, opt_is in *.
    destruct (r_name r) as [c|]; [|discriminate]. simpl in *.
    apply String.eqb_eq in H1. apply String.eqb_eq in H2. subst c. rewrite H2. reflexivity.
  - apply andb_prop in H. destruct H as [H H3]. apply andb_prop in H. destruct H as [H1 H2].
    unfold kind, admits. destruct (r_shape r0); [discriminate|].
    destruct (r_shape r) as [s|]; [|discriminate].
    unfold wild in *. rewrite (proj1 (negb_true_iff _) H2). simpl. apply andb_false_r.
Qed.

(* from the operand-wise statement to operand lists *)
Lemma forall2_check_admits : forall a pats ops,
  Forall (fun p => wf_pattern a p = true) pats -> Forall (fun o => wf_operand a o = true) ops ->
  Forall2 (fun p o => check_operand a p o = Some true) pats ops ->
  Forall2 (fun p o => admits a p (kind a o) = true \/ lenient a p o = true) pats ops.
Proof.
  intros a pats ops Hp Ho H. induction H; constructor.
  - inversion Hp; inversion Ho; subst.
    destruct (lenient a x y) eqn:El; [right; reflexivity|left].
    rewrite (check_iff_admits_partial a x y) in H; auto. congruence.
  - inversion Hp; inversion Ho; subst. apply IHForall2; assumption.
Qed.

Lemma forall2_admits_check : forall a pats ops,
  Forall (fun p => wf_pattern a p = true) pats -> Forall (fun o => wf_operand a o = true) ops ->
  Forall2 (fun p o => admits a p (kind a o) = true) pats ops ->
  Forall2 (fun p o => check_operand a p o = Some true) pats ops.
Proof.
  intros a pats ops Hp Ho H. induction H; constructor.
  - inversion Hp; inversion Ho; subst.
    rewrite (check_iff_admits_partial a x y); auto; [congruence|].
    destruct (lenient a x y) eqn:El; auto. apply lenient_not_admitted in El. congruence.
  - inversion Hp; inversion Ho; subst. apply IHForall2; assumption.
Qed.
