(* The share hypothesis of instr_okb on the BIT-EXACT binary64 model (repaired rule 1, the model that the correspondence
   check ties to the implementation): the 3-port kernel of BalanceRefute.share_hypothesis_refuted in doubles. *)
From Coq Require Import List Bool String ZArith PrimFloat.
From OV Require Import Model.Num Model.Pressure.
Import ListNotations.
Open Scope float_scope.

Definition sh64_ports : list string := ["P0"; "P1"; "P2"]%string.
Definition sh64_uops : list (uop (T:=float)) :=
  [(0x1.ae7d566cf41f2p-3, ["P2"; "P0"]%string); (0x1.89374bc6a7efap-6, ["P0"; "P2"; "P1"]%string)].
Definition sh64_ins (us : list (uop (T:=float))) : instr (T:=float) :=
  mkinstr 1 (match avg_pressure_list FNum sh64_ports us with Ok v => v | Err _ => [] end) (UList us).
Definition sh64_kernel : list (instr (T:=float)) :=
  [sh64_ins sh64_uops; sh64_ins [(3, ["P1"]%string)]; sh64_ins [(2, ["P2"]%string)]].

(* one pass: [0.2102 on P2|P0 ; 0.024 on P0|P2|P1] ends as [0.2342000000000001; -0.002; 0.0]: negative pressure on P1 and
   0.002 cycles of the 0.2342 lost (the implementation returns exactly these doubles) *)
Theorem share_hypothesis_binary64_refuted :
  exists k' row, balance FNum sh64_ports sh64_kernel = Ok (k', 0%nat) /\
    nth_error k' 0 = Some row /\
    f_list_biteq (i_pp row) [0x1.dfa43fe5c91d5p-3; -0x1.0624dd2f1a9fcp-9; 0] = true /\
    PrimFloat.ltb (nth 1 (i_pp row) 0) 0 = true.
Proof.
  eexists. eexists. split; [vm_compute; reflexivity|]. split; [reflexivity|]. split; vm_compute; reflexivity.
Qed.
