(* TOTALITY of one optimisation pass, exact rationals, repaired rule 1: under the hypotheses of
   Proofs/BalanceMulti.v / BalancePass.v the balancer never raises -- every Python list operation of the loop finds its
   index, every itemgetter gets at least one index.  Together with balance_pass_feasible: the pass RETURNS a kernel
   whose rows are feasible splits. *)
From Coq Require Import QArith Qround Qfield Lqa Lia List Bool Arith String ZArith.
From OV Require Import Model.Num Model.Pressure Proofs.ListSpec Proofs.Feasible Proofs.PressureQ Proofs.BalanceFrame
  Proofs.BalanceSingle Proofs.BalanceMulti Proofs.BalancePass.
Import ListNotations.
Open Scope Q_scope.
Local Notation length := List.length (only parsing).

(* ================================================================ list operations succeed *)
Lemma add_at_total l i d : (i < length l)%nat -> exists l', add_at QNum l i d = Ok l'.
Proof.
  intros H. unfold add_at. rewrite (nth_res_nth l i 0 H). cbn [bind]. apply set_nth_total. exact H.
Qed.

Lemma sub_at_total l i d : (i < length l)%nat -> exists l', sub_at QNum l i d = Ok l'.
Proof.
  intros H. unfold sub_at. rewrite (nth_res_nth l i 0 H). cbn [bind]. apply set_nth_total. exact H.
Qed.

Lemma del_nth_total {A} : forall (l : list A) i, (i < length l)%nat -> exists l', del_nth l i = Ok l'.
Proof.
  induction l as [|x l IH]; intros i H; [simpl in H; lia|].
  destruct i as [|i]; simpl; [eauto|].
  destruct (IH i ltac:(simpl in H; lia)) as (l' & E). rewrite E. cbn [bind]. eauto.
Qed.

Lemma del_nth_length {A} : forall (l : list A) i l', del_nth l i = Ok l' -> length l = S (length l').
Proof.
  induction l as [|x l IH]; intros i l' H; [destruct i; discriminate|].
  destruct i as [|i]; simpl in H.
  - inversion H; subst. reflexivity.
  - destruct (del_nth l i) as [r|] eqn:E; cbn [bind] in H; [|discriminate].
    inversion H; subst. simpl. f_equal. eapply IH. exact E.
Qed.

Lemma list_max_total (l : list Q) : l <> [] -> exists m, list_max QNum l = Ok m.
Proof. destruct l; [congruence|]. intros _. unfold list_max. eauto. Qed.

Lemma list_min_total (l : list Q) : l <> [] -> exists m, list_min QNum l = Ok m.
Proof. destruct l; [congruence|]. intros _. unfold list_min. eauto. Qed.

Lemma list_max_In l m : list_max QNum l = Ok m -> In m l.
Proof.
  unfold list_max. destruct l as [|a r]; [discriminate|]. intros H. inversion H as [Hm]. clear H.
  assert (G : forall r a, let m := fold_left (fun m y => if nltb QNum m y then y else m) r a in m = a \/ In m r).
  { clear. induction r as [|y r IH]; intros a; cbn [fold_left]; [left; reflexivity|].
    destruct (nltb QNum a y).
    - destruct (IH y) as [I|I]; [right; left; symmetry; exact I | right; right; exact I].
    - destruct (IH a) as [I|I]; [left; exact I | right; right; exact I]. }
  destruct (G r a) as [I|I]; [left; symmetry; exact I | right; exact I].
Qed.

Lemma find_index_total (f : Q -> bool) : forall l k x, In x l -> f x = true -> exists i, find_index f l k = Some i.
Proof.
  induction l as [|y l IH]; intros k x I F; [destruct I|]. simpl.
  destruct (f y) eqn:Fy; [eauto|]. destruct I as [E|I]; [subst; congruence|]. eapply IH; eassumption.
Qed.

Lemma index_of_total l v : In v l -> exists i, index_of QNum l v = Ok i.
Proof.
  intros I. unfold index_of.
  destruct (find_index_total (fun x => neqb QNum x v) l 0 v I) as (i & E).
  - apply qeqb_true. reflexivity.
  - rewrite E. eauto.
Qed.

Lemma setzip_total : forall idx (vals l : list Q),
  (forall p, In p idx -> (p < length l)%nat) -> exists l', setzip l idx vals = Ok l'.
Proof.
  induction idx as [|i idx IH]; intros vals l R; [simpl; eauto|].
  destruct vals as [|v vals]; [simpl; eauto|]. simpl.
  destruct (set_nth_total l i v (R i (or_introl eq_refl))) as (l1 & E). rewrite E. cbn [bind].
  apply IH. intros p Hp. destruct (set_nth_ok _ _ _ _ 0 E) as (L & _). rewrite L. apply R. right. exact Hp.
Qed.

Lemma setmany_total idx (vals l : list Q) :
  (forall p, In p idx -> (p < length l)%nat) -> length vals = length idx -> exists l', setmany l idx vals = Ok l'.
Proof.
  intros R LV. rewrite (setmany_setzip l idx vals LV). apply setzip_total. exact R.
Qed.

Lemma filter_res_total (f : nat -> res bool) : forall l,
  (forall p, In p l -> exists b, f p = Ok b) -> exists l', filter_res f l = Ok l'.
Proof.
  induction l as [|p l IH]; intros H; [simpl; eauto|]. simpl.
  destruct (H p (or_introl eq_refl)) as (b & E). rewrite E. cbn [bind].
  destruct (IH (fun q Hq => H q (or_intror Hq))) as (r & E'). rewrite E'. cbn [bind]. eauto.
Qed.

Lemma filter_res_keeps (f : nat -> res bool) : forall l l' p,
  filter_res f l = Ok l' -> In p l -> f p = Ok true -> In p l'.
Proof.
  induction l as [|q l IH]; intros l' p H I F; [destruct I|]. simpl in H.
  destruct (f q) as [b|] eqn:Fq; cbn [bind] in H; [|discriminate].
  destruct (filter_res f l) as [r|] eqn:E; cbn [bind] in H; [|discriminate].
  inversion H; subst. destruct I as [I|I].
  - subst q. rewrite F in Fq. inversion Fq; subst. left. reflexivity.
  - specialize (IH r p eq_refl I F). destruct b; [right|]; exact IH.
Qed.

Lemma zipfilter_res_total (f : nat -> res bool) : forall l (d : list Q),
  (forall p, In p l -> exists b, f p = Ok b) -> exists d', zipfilter_res f l d = Ok d'.
Proof.
  induction l as [|p l IH]; intros d H; [simpl; eauto|]. destruct d as [|x d]; [simpl; eauto|].
  cbn [zipfilter_res]. destruct (H p (or_introl eq_refl)) as (b & E). rewrite E. cbn [bind].
  destruct (IH d (fun q Hq => H q (or_intror Hq))) as (r & E'). rewrite E'. cbn [bind]. eauto.
Qed.

Lemma cellpred_total (g : Q -> bool) pp ind :
  (forall p, In p ind -> (p < length pp)%nat) ->
  forall p, In p ind -> exists b, (v <- nth_res pp p ;; Ok (g v)) = Ok b.
Proof. intros R p Hp. rewrite (nth_res_nth pp p 0 (R p Hp)). cbn [bind]. eauto. Qed.

(* a list with two or more pairwise different entries has an entry other than a given one *)
Lemma other_index (ind : list nat) maxi : (2 <= length ind)%nat -> exists j, (j < length ind)%nat /\ j <> maxi.
Proof. intros H. destruct maxi as [|m]; [exists 1%nat | exists 0%nat]; split; lia. Qed.

(* ================================================================ rule 1 and rule 2 return *)
Lemma rule1_total ps mn pp1 ind ip2 df2 mini maxi :
  NoDup ind -> (forall p, In p ind -> (p < length pp1)%nat) ->
  vals_at pp1 ind = ip2 -> length df2 = length ind -> (2 <= length ind)%nat ->
  index_of QNum ps mn = Ok mini -> (mini < length ind)%nat -> (maxi < length ind)%nat ->
  (forall j, (j < length ind)%nat -> j <> maxi -> 1 # 200 < nth j ip2 0) ->
  (mini <> maxi -> (1 # 200) + (1 # 100) < nth mini ip2 0) ->
  (mini = maxi -> 1 # 200 < nth maxi ip2 0) ->
  - (1 # 200) < nth maxi ip2 0 ->
  exists r, rule1 QNum ps mn pp1 ind ip2 df2 = Ok r.
Proof.
  intros ND RG VA LDF L2 IM Lmini Lmaxi Both Bmini Bsame Bmax.
  assert (Lip : length ip2 = length ind) by (rewrite <- VA; apply vals_at_length).
  assert (NEip : ip2 <> []) by (intros C; rewrite C in Lip; simpl in Lip; lia).
  unfold rule1.
  destruct (list_min_total ip2 NEip) as (m & E0). rewrite E0. cbn [bind].
  destruct (list_min_spec _ _ E0) as (Min & Mle).
  destruct (nleb QNum (nround2 QNum m) (zero QNum)) eqn:Fire; [|eauto].
  assert (Hm : m <= 1 # 200) by (apply Qround2_le0; apply qleb_true; exact Fire).
  apply (In_nth _ _ 0) in Min. destruct Min as (jm & Hjm & Ejm).
  assert (jm = maxi).
  { destruct (Nat.eq_dec jm maxi) as [e|n]; [exact e|]. exfalso.
    specialize (Both jm ltac:(lia) n). rewrite Ejm in Both. lra. }
  subst jm.
  assert (NE2 : mini <> maxi).
  { intros C. specialize (Bsame C). rewrite Ejm in Bsame. lra. }
  specialize (Bmini NE2).
  set (pmax := nth maxi ind 0%nat).
  assert (Ipmax : In pmax ind) by (apply nth_In; exact Lmaxi).
  (* some other index keeps a cell > 1/200, so the comprehension over the positive cells is not empty *)
  destruct (other_index ind maxi L2) as (jo & Ljo & Njo).
  set (po := nth jo ind 0%nat).
  assert (Ipo : In po ind) by (apply nth_In; exact Ljo).
  change (zero QNum) with 0.
  destruct (negb (neqb QNum m 0)) eqn:NZ.
  - rewrite IM. cbn [bind].
    destruct (add_at_total ip2 mini m ltac:(lia)) as (ipa & AA). rewrite AA. cbn [bind].
    destruct (add_at_spec _ _ _ _ AA) as (_ & LA & Vmini & Voth & _).
    assert (NEipa : ipa <> []) by (intros C; rewrite C in LA; simpl in LA; lia).
    destruct (list_min_total ipa NEipa) as (m2 & E2). rewrite E2. cbn [bind].
    destruct (add_at_total df2 mini m2 ltac:(lia)) as (dfa & AD). rewrite AD. cbn [bind].
    destruct (list_min_spec _ _ E2) as (Min2 & _).
    destruct (index_of_total ipa m2 Min2) as (kk & IK). rewrite IK. cbn [bind].
    destruct (add_at_spec _ _ _ _ AD) as (_ & LAD & _).
    pose proof (index_of_lt _ _ _ _ IK) as Lkk.
    destruct (del_nth_total dfa kk ltac:(lia)) as (dfb & DD). rewrite DD. cbn [bind].
    destruct (setmany_total ind ipa pp1 RG ltac:(lia)) as (ppa & SM). rewrite SM. cbn [bind].
    destruct (setmany_spec _ _ _ _ SM ND ltac:(lia)) as (Lppa & VAa & Fa & _).
    assert (RGa : forall p, In p ind -> (p < length ppa)%nat) by (intros p Hp; rewrite Lppa; apply RG; exact Hp).
    match goal with |- context [filter_res ?f ind] =>
      destruct (filter_res_total f ind (cellpred_total _ ppa ind RGa)) as (zs & FZ); rewrite FZ end.
    cbn [bind].
    assert (Amax : nth maxi ipa 0 = m) by (rewrite Voth by (intros C; apply NE2; symmetry; exact C); exact Ejm).
    assert (Pmax : nth pmax ppa 0 = m).
    { unfold pmax. rewrite <- (vals_at_nth ppa ind maxi Lmaxi), VAa. exact Amax. }
    assert (Izs : In pmax zs).
    { apply (filter_res_keeps _ _ _ _ FZ Ipmax).
      rewrite (nth_res_nth ppa pmax 0 (RGa pmax Ipmax)). cbn [bind]. f_equal. rewrite Pmax.
      apply orb_true_iff. destruct (Qlt_le_dec m 0) as [Lt|Ge].
      - right. apply qltb_true. exact Lt.
      - left. apply qeqb_true. cbn [nround2 QNum]. apply Qround2_eq0; lra. }
    destruct zs as [|zi zs]; [destruct Izs|].
    assert (Izi : In zi ind).
    { destruct (filter_res_spec _ _ _ FZ) as (IZ & _). apply (IZ zi (or_introl eq_refl)). }
    destruct (set_nth_total ppa zi 0 (RGa zi Izi)) as (ppb & SZ). rewrite SZ. cbn [bind].
    destruct (set_nth_ok _ _ _ _ 0 SZ) as (Lppb & Nb & Ob).
    assert (RGb : forall p, In p ind -> (p < length ppb)%nat) by (intros p Hp; rewrite Lppb; apply RGa; exact Hp).
    match goal with |- context [filter_res ?f ind] =>
      destruct (filter_res_total f ind (cellpred_total _ ppb ind RGb)) as (ind2' & F2); rewrite F2 end.
    cbn [bind].
    (* the zeroed cell is the one of pmax (all others are > 1/200), so po survives *)
    assert (Aoth : forall j, (j < length ind)%nat -> j <> maxi -> 1 # 200 < nth j ipa 0).
    { intros j Hj Hne. destruct (Nat.eq_dec j mini) as [e|n].
      - subst j. rewrite Vmini. rewrite Ejm in Bmax. lra.
      - rewrite (Voth j n). apply Both; assumption. }
    pose proof (port_view (fun x => 1 # 200 < x) ppa ind ipa maxi VAa Aoth) as Poth. cbv beta in Poth.
    fold pmax in Poth.
    assert (zi = pmax).
    { destruct (Nat.eq_dec zi pmax) as [e|n]; [exact e|]. exfalso.
      specialize (Poth zi Izi n).
      destruct (filter_res_spec _ _ _ FZ) as (IZ & _). destruct (IZ zi (or_introl eq_refl)) as (_ & Fzi).
      apply fres_nth in Fzi; [|apply RGa; exact Izi].
      apply orb_true_iff in Fzi. destruct Fzi as [Fz|Fz].
      - apply qeqb_true in Fz. cbn [nround2 QNum] in Fz. pose proof (Qround2_pos _ Poth) as R. lra.
      - apply qltb_true in Fz. lra. }
    subst zi.
    assert (Npo : po <> pmax).
    { unfold po, pmax. intros C. apply Njo. apply (proj1 (NoDup_nth ind 0%nat) ND jo maxi Ljo Lmaxi C). }
    assert (Ipo2 : In po ind2').
    { apply (filter_res_keeps _ _ _ _ F2 Ipo).
      rewrite (nth_res_nth ppb po 0 (RGb po Ipo)). cbn [bind]. f_equal. apply qltb_true.
      rewrite (Ob po Npo). specialize (Poth po Ipo Npo). lra. }
    assert (R2 : forall p, In p ind2' -> (p < length ppb)%nat).
    { intros p Hp. apply RGb. destruct (filter_res_spec _ _ _ F2) as (I2 & _). apply (I2 p Hp). }
    rewrite (getmany_intro ppb ind2') by (try exact R2; intros C; rewrite C in Ipo2; destruct Ipo2).
    cbn [bind]. eauto.
  - cbn [bind].
    match goal with |- context [zipfilter_res ?f ind df2] =>
      destruct (zipfilter_res_total f ind df2 (cellpred_total _ pp1 ind RG)) as (dfz & ZF); rewrite ZF end.
    cbn [bind].
    match goal with |- context [filter_res ?f ind] =>
      destruct (filter_res_total f ind (cellpred_total _ pp1 ind RG)) as (ind2' & F2); rewrite F2 end.
    cbn [bind].
    pose proof (port_view (fun x => 1 # 200 < x) pp1 ind ip2 maxi VA Both) as Poth. cbv beta in Poth.
    fold pmax in Poth.
    assert (Npo : po <> pmax).
    { unfold po, pmax. intros C. apply Njo. apply (proj1 (NoDup_nth ind 0%nat) ND jo maxi Ljo Lmaxi C). }
    assert (Ipo2 : In po ind2').
    { apply (filter_res_keeps _ _ _ _ F2 Ipo).
      rewrite (nth_res_nth pp1 po 0 (RG po Ipo)). cbn [bind]. f_equal. apply qltb_true.
      specialize (Poth po Ipo Npo). lra. }
    assert (R2 : forall p, In p ind2' -> (p < length pp1)%nat).
    { intros p Hp. apply RG. destruct (filter_res_spec _ _ _ F2) as (I2 & _). apply (I2 p Hp). }
    rewrite (getmany_intro pp1 ind2') by (try exact R2; intros C; rewrite C in Ipo2; destruct Ipo2).
    cbn [bind]. eauto.
Qed.

Lemma rule2_total pp2 ind df ip3 :
  length df = length ind -> ind <> [] -> (forall p, In p ind -> (p < length pp2)%nat) ->
  ((2 <= length ind)%nat \/ (forall j, (j < length ind)%nat -> 1 # 200 < nth j df 0)) ->
  exists r, rule2 QNum pp2 ind ip3 df = Ok r.
Proof.
  intros L NE RG C. unfold rule2.
  assert (NEdf : df <> []) by (intros E; rewrite E in L; destruct ind; [congruence | simpl in L; lia]).
  destruct (list_min_total df NEdf) as (md & E0). rewrite E0. cbn [bind].
  destruct (list_min_spec _ _ E0) as (Min & Mle).
  destruct (nleb QNum (nround2 QNum md) (zero QNum)) eqn:Fire; [|eauto].
  assert (Hm : md <= 1 # 200) by (apply Qround2_le0; apply qleb_true; exact Fire).
  destruct C as [L2|All].
  2:{ exfalso. apply (In_nth _ _ 0) in Min. destruct Min as (j & Hj & Ej). specialize (All j ltac:(lia)). rewrite Ej in All. lra. }
  destruct (index_of_total df md Min) as (kd & IK). rewrite IK. cbn [bind].
  pose proof (index_of_lt _ _ _ _ IK) as Lkd.
  destruct (del_nth_total ind kd ltac:(lia)) as (ind' & DI). rewrite DI. cbn [bind].
  pose proof (del_nth_length _ _ _ DI) as LL.
  rewrite (getmany_intro pp2 ind').
  - cbn [bind]. destruct (del_nth_total df kd Lkd) as (df' & DD). rewrite DD. cbn [bind]. eauto.
  - intros E. rewrite E in LL. simpl in LL. lia.
  - intros p Hp. apply RG. apply (del_nth_incl _ _ _ DI). exact Hp.
Qed.

Lemma rule2_ind pp2 ind2 ip3 df3 ind3 ip4 df4 :
  rule2 QNum pp2 ind2 ip3 df3 = Ok (ind3, ip4, df4) ->
  ind2 <> [] -> (forall p, In p ind2 -> (p < length pp2)%nat) ->
  ind3 <> [] /\ (forall p, In p ind3 -> (p < length pp2)%nat).
Proof.
  intros H NE RG. unfold rule2 in H.
  destruct (list_min QNum df3) as [md|]; cbn [bind] in H; [|discriminate].
  destruct (nleb QNum (nround2 QNum md) (zero QNum)).
  - destruct (index_of QNum df3 md) as [kd|]; cbn [bind] in H; [|discriminate].
    destruct (del_nth ind2 kd) as [i'|]; cbn [bind] in H; [|discriminate].
    destruct (getmany pp2 i') as [ipn|] eqn:GM; cbn [bind] in H; [|discriminate].
    destruct (del_nth df3 kd) as [dfn|]; cbn [bind] in H; [|discriminate].
    inversion H; subst. destruct (getmany_spec _ _ _ GM) as (A & B & _). split; assumption.
  - inversion H; subst. split; assumption.
Qed.

(* ================================================================ one iteration returns *)
Lemma bstep_total pp0 sh k idx s :
  MInv pp0 sh s -> (2 <= length (b_ind s))%nat ->
  (forall pp', length pp' = length (b_pp s) -> length (tp_sum QNum (set_pp k idx pp')) = length (b_pp s)) ->
  exists s', bstep QNum k idx s = Ok s'.
Proof.
  intros (I & (LD & AL) & BD) L2 TPS. destruct I as ((ND & NE & RG & V) & LPS). unfold bstep.
  assert (Lip : length (b_ip s) = length (b_ind s)) by (rewrite V; apply vals_at_length).
  assert (NEps : b_ps s <> []) by (intros C; rewrite C in LPS; simpl in LPS; lia).
  destruct (list_max_total _ NEps) as (mx & EMX). rewrite EMX. cbn [bind].
  destruct (index_of_total _ _ (list_max_In _ _ EMX)) as (maxi & IMX0). rewrite IMX0. cbn [bind].
  destruct (list_min_total _ NEps) as (mn & EMN). rewrite EMN. cbn [bind].
  destruct (index_of_total _ _ (proj1 (list_min_spec _ _ EMN))) as (mini & IMN0). rewrite IMN0. cbn [bind].
  pose proof (index_of_lt _ _ _ _ IMX0) as IMX. pose proof (index_of_lt _ _ _ _ IMN0) as IMN. rewrite LPS in IMX, IMN.
  destruct (sub_at_total (b_ip s) maxi (INC QNum) ltac:(lia)) as (ip1 & S1). rewrite S1. cbn [bind].
  destruct (sub_at_spec _ _ _ _ S1) as (_ & Lip1 & _).
  destruct (add_at_total ip1 mini (INC QNum) ltac:(lia)) as (ip2 & A2). rewrite A2. cbn [bind].
  destruct (sub_at_total (b_df s) maxi (INC QNum) ltac:(lia)) as (df1 & D1). rewrite D1. cbn [bind].
  destruct (sub_at_spec _ _ _ _ D1) as (_ & Ldf1 & _).
  destruct (add_at_total df1 mini (INC QNum) ltac:(lia)) as (df2 & D2). rewrite D2. cbn [bind].
  rewrite INC_Q in *.
  destruct (move_spec _ _ _ _ _ S1 A2) as (L2' & _ & _ & Vip).
  destruct (move_spec _ _ _ _ _ D1 D2) as (LD2 & _ & _ & Vdf).
  assert (RG0 : forall p, In p (b_ind s) -> (p < length (b_pp s))%nat) by (intros p Hp; apply RG; exact Hp).
  destruct (setmany_total (b_ind s) ip2 (b_pp s) RG0 ltac:(lia)) as (pp1 & SM). rewrite SM. cbn [bind].
  assert (Hip : forall j, (j < length (b_ind s))%nat -> 1 # 200 < nth j (b_ip s) 0).
  { intros j Hj. rewrite V, vals_at_nth by exact Hj. apply RG. apply nth_In. exact Hj. }
  destruct (move_bounds _ _ _ _ _ Vip IMX IMN Hip) as (Bmax & Both & Bmini & Bsame).
  destruct (move_bounds _ _ _ _ _ Vdf IMX IMN BD) as (Dmax & Doth & Dmini & _).
  destruct (setmany_spec _ _ _ _ SM ND ltac:(lia)) as (Lpp1 & VA1 & F1 & _).
  assert (RG1 : forall p, In p (b_ind s) -> (p < length pp1)%nat).
  { intros p Hp. rewrite Lpp1. apply RG. exact Hp. }
  assert (Ldf2' : length df2 = length (b_ind s)) by lia.
  destruct (rule1_total _ _ _ _ _ _ _ _ ND RG1 VA1 Ldf2' L2 IMN0 IMN IMX Both Bmini Bsame Bmax) as (r1 & R1).
  rewrite R1. cbn [bind]. destruct r1 as [[[[pp2 ind2] ip3] df3] ex].
  assert (STEP2 : length pp2 = length pp1 /\ ind2 <> [] /\ (forall p, In p ind2 -> (p < length pp2)%nat) /\
                  exists r2, rule2 QNum pp2 ind2 ip3 df3 = Ok r2).
  { destruct (rule1_shape _ _ _ _ _ _ _ _ _ _ _ _ _ ND RG1 VA1 Ldf2' IMN0 IMN IMX Both Bmini Bsame Bmax R1)
      as [(E1 & E2 & E3 & E4 & _ & Ball)|(NE2 & Hm & DI & (dfa & Lda0 & Wmini & Woth & DD) & Lpp2 & Zmax & Vpmini & Vrest)].
    - subst pp2 ind2 ip3 df3. split; [reflexivity|]. split; [exact NE|]. split; [exact RG1|].
      apply rule2_total; [exact Ldf2' | exact NE | exact RG1 | left; exact L2].
    - pose proof (del_nth_length _ _ _ DI) as LI. pose proof (del_nth_length _ _ _ DD) as LDD.
      assert (NE2' : ind2 <> []) by (intros C; rewrite C in LI; simpl in LI; lia).
      assert (RG2 : forall p, In p ind2 -> (p < length pp2)%nat).
      { intros p Hp. rewrite Lpp2. apply RG1. apply (del_nth_incl _ _ _ DI). exact Hp. }
      split; [exact Lpp2|]. split; [exact NE2'|]. split; [exact RG2|].
      apply rule2_total; [lia | exact NE2' | exact RG2 | right].
      assert (E : length ind2 = length df3) by lia. rewrite E.
      apply (del_nth_forall 0 (fun x => 1 # 200 < x) _ _ _ DD). intros j Hj Hne.
      destruct (Nat.eq_dec j mini) as [e|n].
      + subst j. rewrite Wmini. specialize (Dmini NE2). lra.
      + rewrite (Woth j n). apply Doth; [lia | exact Hne]. }
  destruct STEP2 as (Lpp2 & NE2' & RG2 & (r2 & R2)). rewrite R2. cbn [bind]. destruct r2 as [[ind3 ip4] df4].
  destruct (rule2_ind _ _ _ _ _ _ _ R2 NE2' RG2) as (NE3 & RG3).
  rewrite (getmany_intro _ ind3).
  - cbn [bind]. eauto.
  - exact NE3.
  - intros p Hp. rewrite (TPS pp2) by lia. specialize (RG3 p Hp). lia.
Qed.

(* ================================================================ the loop returns *)
Definition tps_ok (k : list (instr (T:=Q))) (idx n : nat) : Prop :=
  forall pp', length pp' = n -> length (tp_sum QNum (set_pp k idx pp')) = n.

Lemma bloop_total pp0 sh k idx : forall n s,
  MInv pp0 sh s -> tps_ok k idx (length (b_pp s)) -> exists s', bloop QNum n k idx s = Ok s'.
Proof.
  induction n as [|n IH]; intros s I TPS; [simpl; eauto|].
  pose proof I as (((ND & NE & RG & V) & LPS) & _).
  assert (Lip : length (b_ip s) = length (b_ind s)) by (rewrite V; apply vals_at_length).
  cbn [bloop]. destruct (b_ip s) as [|x [|y r]] eqn:EIP.
  - exfalso. destruct (b_ind s); [congruence | simpl in Lip; lia].
  - eauto.
  - assert (L2 : (2 <= length (b_ind s))%nat) by (simpl in Lip; lia).
    destruct (bstep_total pp0 sh k idx s I L2 TPS) as (s1 & B). rewrite B. cbn [bind].
    destruct (bstep_minv pp0 sh _ _ _ _ I B) as (I1 & _ & L1 & _).
    apply IH; [exact I1|]. rewrite L1. exact TPS.
Qed.

(* ================================================================ one micro-op returns *)
Lemma balance_uop_total ports k idx pp c ps ind :
  indices_of ports ps = Ok ind -> NoDup ind -> ps <> [] ->
  (forall p, In p ind -> (p < length pp)%nat) ->
  ((2 <= length ps)%nat ->
     1 # 200 < c / inject_Z (Z.of_nat (length ps)) /\ forall p, In p ind -> 1 # 200 < nth p pp 0) ->
  tps_ok k idx (length pp) ->
  exists r, balance_uop QNum ports k idx pp (c, ps) = Ok r.
Proof.
  intros IO ND NEps RG MULTI TPS.
  destruct (indices_of_resolve QNum _ _ _ IO) as (_ & LI).
  assert (NEI : ind <> []) by (intros C; rewrite C in LI; destruct ps; [congruence | simpl in LI; lia]).
  unfold balance_uop. rewrite IO. cbn [bind].
  rewrite (getmany_intro _ ind NEI) by (intros p Hp; rewrite (TPS pp eq_refl); apply RG; exact Hp). cbn [bind].
  rewrite (getmany_intro pp ind NEI RG). cbn [bind].
  destruct (all_equal QNum _); [eauto|].
  set (psums := vals_at (tp_sum QNum (set_pp k idx pp)) ind).
  destruct (Nat.le_gt_cases 2 (length ps)) as [L2|L1].
  - destruct (MULTI L2) as (SH & GT).
    set (sh := c / inject_Z (Z.of_nat (length ps))) in *.
    match goal with |- context [bloop QNum ?n k idx ?s0] =>
      destruct (bloop_total pp sh k idx n s0) as (s' & B); [| exact TPS | rewrite B; cbn [bind]; eauto] end.
    unfold MInv. cbn [b_pp b_ind b_ip b_df b_ps]. split; [|split].
    + split; [|unfold psums; apply vals_at_length]. split; [exact ND|]. split; [exact NEI|]. split; [|reflexivity].
      intros p Hp. split; [apply RG; exact Hp | apply GT; exact Hp].
    + split; [rewrite map_length; lia|]. intros j Hj. rewrite nth_map_const by lia.
      unfold dcell. cbn [ndiv nofZ QNum]. rewrite Qred_correct. fold sh. ring.
    + intros j Hj. rewrite nth_map_const by lia. cbn [ndiv nofZ QNum]. rewrite Qred_correct. exact SH.
  - (* one port: the loop stops at once *)
    destruct ind as [|p [|q r]]; [congruence | | simpl in LI; lia].
    match goal with |- context [bloop QNum ?n k idx ?s0] => destruct n; cbn [bloop vals_at map b_ip bind]; eauto end.
Qed.

(* ================================================================ one micro-op of the instruction: the row invariant
   (the induction step of BalanceMulti.balance_uops_rinv as a lemma of its own) *)
Lemma rinv_step ports idx k done c ps rest pp pp1 e1 :
  (forall u, In u ((c, ps) :: rest) -> wf_names ports u) ->
  (forall c' ps', In (c', ps') ((c, ps) :: rest) -> (2 <= length ps')%nat ->
     qn (length done + length ((c, ps) :: rest)) * (1 # 200) < c' / inject_Z (Z.of_nat (length ps'))) ->
  (forall c' ps', In (c', ps') ((c, ps) :: rest) -> exists ind, indices_of ports ps' = Ok ind) ->
  length pp = length ports ->
  (forall p, 0 <= nth p pp 0) ->
  RInv (length ports) done (map (toU ports) ((c, ps) :: rest)) (qnth pp) ->
  balance_uop QNum ports k idx pp (c, ps) = Ok (pp1, e1) ->
  RInv (length ports) (done ++ [toU ports (c, ps)]) (map (toU ports) rest) (qnth pp1) /\ length pp1 = length pp /\
  (forall p, 0 <= nth p pp1 0).
Proof.
  intros WF SHR RES LP NN RI B.
  destruct (RES c ps (or_introl eq_refl)) as (ind & IO).
  destruct (indices_of_resolve QNum _ _ _ IO) as (RS & LI).
  destruct (WF (c, ps) (or_introl eq_refl)) as (Hc & ND & Hne). cbn [fst snd] in Hc, ND, Hne. rewrite RS in ND.
  set (u := toU ports (c, ps)) in *.
  assert (UP : up u = ind) by (unfold u, toU; cbn [up snd]; exact RS).
  assert (UC : uc u = c) by reflexivity.
  assert (RGI : forall p, In p ind -> (p < length ports)%nat) by (intros p Hp; rewrite <- RS in Hp; eapply resolve_lt; eassumption).
  assert (NEI : ind <> []) by (intros C; rewrite C in LI; destruct ps; [congruence | simpl in LI; lia]).
  assert (WFrest : forall x, In x (map (toU ports) rest) -> 0 <= uc x).
  { intros x Hx. apply in_map_iff in Hx. destruct Hx as (y & E & Hy). subst x.
    destruct (WF y (or_intror Hy)) as (Hy0 & _). exact Hy0. }
  destruct RI as (A & RA). cbn [map] in RA. fold u in RA.
  assert (STEP : forall a,
    RInvA (length ports) (done ++ [u]) (map (toU ports) rest) (qnth pp1)
          (fun i p => if Nat.eqb i (length done) then a p else A i p) ->
    length pp1 = length pp -> (forall p, 0 <= nth p pp1 0) ->
    RInv (length ports) (done ++ [u]) (map (toU ports) rest) (qnth pp1) /\ length pp1 = length pp /\
    (forall p, 0 <= nth p pp1 0)).
  { intros a RA' L1 NN1. split; [eexists; exact RA' | split; assumption]. }
  destruct ps as [|q1 [|q2 ps']]; [congruence| |].
  + (* one port: nothing is balanced *)
    destruct (balance_uop_one_port _ _ _ _ _ _ _ _ _ B) as (E & _). subst pp1.
    apply (STEP (ushare u)); [|reflexivity | exact NN].
    apply (rinv_extend _ _ _ _ _ _ _ _ RA).
    * intros p _. pose proof (ushare_nonneg u p Hc). lra.
    * intros p _ Hn. unfold ushare. destruct (memb p (up u)) eqn:M; [apply memb_In in M; contradiction | reflexivity].
    * apply sumn_ushare; rewrite UP; assumption.
    * intros p _. ring.
    * intros p _ _. left. pose proof (ushare_nonneg u p Hc). lra.
  + (* two or more ports *)
    set (ps := q1 :: q2 :: ps') in *.
    assert (L2 : (2 <= length ps)%nat) by (unfold ps; simpl; lia).
    set (sh := c / inject_Z (Z.of_nat (length ps))) in *.
    pose proof (SHR c ps (or_introl eq_refl) L2) as SH0. fold sh in SH0.
    cbn [length] in SH0. rewrite qn_add, qn_S in SH0.
    pose proof (qn_nonneg (length rest)) as QR. pose proof (qn_nonneg (length done)) as QD.
    assert (USH : forall p, In p ind -> ushare u p == sh).
    { intros p Hp. unfold ushare. rewrite UP. apply memb_In in Hp. rewrite Hp. rewrite UC, LI. reflexivity. }
    assert (USH0 : forall p, ~ In p ind -> ushare u p == 0).
    { intros p Hp. unfold ushare. rewrite UP. destruct (memb p ind) eqn:M; [apply memb_In in M; contradiction | reflexivity]. }
    destruct RA as (R1 & R2 & R3 & R4 & R5).
    assert (PS : forall p, In p ind -> - (qn (length done) * (1 # 200)) <= sumn (length done) (fun i => A i p)).
    { intros p Hp. destruct (R5 p (RGI p Hp)) as [J|J]; [exact J|]. exfalso.
      assert (E : length (up u) = 1%nat) by (apply J; [left; reflexivity | rewrite UP; exact Hp]).
      rewrite UP, LI in E. lia. }
    assert (CELL : forall p, In p ind ->
              qnth pp p == sumn (length done) (fun i => A i p) + sh + uniform (map (toU ports) rest) p).
    { intros p Hp. rewrite (R4 p (RGI p Hp)), uniform_cons, (USH p Hp). ring. }
    assert (GT : forall p, In p ind -> 1 # 200 < nth p pp 0).
    { intros p Hp. pose proof (CELL p Hp) as C. unfold qnth in C. rewrite C.
      pose proof (PS p Hp). pose proof (uniform_nonneg (map (toU ports) rest) p WFrest). lra. }
    assert (SH1 : 1 # 200 < sh) by lra.
    destruct (balance_uop_multi _ _ _ _ _ _ _ _ _ IO ND SH1 GT B) as (S1 & L1 & O1 & PO). fold sh in PO.
    set (a := fun p => ushare u p + qnth pp1 p - qnth pp p).
    apply (STEP a); [|exact L1|].
    * apply (rinv_extend _ _ _ _ _ _ _ _ (conj R1 (conj R2 (conj R3 (conj R4 R5))))).
      -- intros p Hp. unfold a, qnth. destruct (in_dec Nat.eq_dec p ind) as [i|ni].
         ++ rewrite (USH p i). destruct (PO p i) as [(Z1 & Z2)|(Z1 & Z2)]; [rewrite Z1; lra | unfold dcell in Z2; lra].
         ++ rewrite (USH0 p ni), (O1 p ni). lra.
      -- intros p Hp Hn. rewrite UP in Hn. unfold a, qnth. rewrite (USH0 p Hn), (O1 p Hn). ring.
      -- unfold a. rewrite sumn_minus, sumn_plus.
         rewrite (sumn_ushare (length ports) u) by (rewrite UP; assumption).
         assert (E : sumn (length ports) (qnth pp1) == sumn (length ports) (qnth pp)).
         { rewrite <- LP at 2. replace (length ports) with (length pp1) by congruence.
           rewrite <- !lsum_sumn. exact S1. }
         rewrite E, UC. ring.
      -- intros p _. unfold a. ring.
      -- intros p Hp Hi. rewrite UP in Hi. unfold a, qnth. rewrite (USH p Hi).
         destruct (PO p Hi) as [(Z1 & Z2)|(Z1 & Z2)]; [|left; unfold dcell in Z2; lra].
         right. intros u' Hu' Hp'.
         apply in_map_iff in Hu'. destruct Hu' as ([c' qs] & E & Hy). subst u'.
         destruct (WF (c', qs) (or_intror Hy)) as (Hc' & ND' & Hne'). cbn [fst snd] in Hc', ND', Hne'.
         destruct (RES c' qs (or_intror Hy)) as (ind' & IO').
         destruct (indices_of_resolve QNum _ _ _ IO') as (RS' & LI').
         unfold toU in *. cbn [up uc fst snd] in *. rewrite RS' in *.
         destruct (Nat.eq_dec (length ind') 1) as [e1x|n]; [exact e1x|]. exfalso.
         assert (L2' : (2 <= length qs)%nat).
         { destruct qs as [|? [|? ?]]; [congruence | simpl in LI'; lia | simpl; lia]. }
         pose proof (SHR c' qs (or_intror Hy) L2') as SH'.
         destruct rest as [|r0 rest']; [destruct Hy|].
         cbn [length] in SH'. rewrite qn_add, !qn_S in SH'.
         pose proof (qn_nonneg (length rest')) as QR'.
         assert (GE : c' / inject_Z (Z.of_nat (length qs)) <= uniform (map (fun x => mkU (fst x) (resolve ports (snd x))) (r0 :: rest')) p).
         { assert (U' : ushare (mkU c' ind') p == c' / inject_Z (Z.of_nat (length qs))).
           { unfold ushare. cbn [up uc]. apply memb_In in Hp'. rewrite Hp', LI'. reflexivity. }
           rewrite <- U'. apply uniform_ge_member; [exact WFrest|].
           apply in_map_iff. exists (c', qs). split; [cbn [fst snd]; rewrite RS'; reflexivity | exact Hy]. }
         pose proof (CELL p Hi) as C. unfold qnth in C. pose proof (PS p Hi) as H0.
         set (U := uniform _ p) in C. change (c' / inject_Z (Z.of_nat (length qs)) <= U) in GE.
         clearbody U. lra.
    * intros p. destruct (in_dec Nat.eq_dec p ind) as [i|ni]; [|rewrite (O1 p ni); apply NN].
      destruct (PO p i) as [(Z1 & _)|(Z1 & _)]; lra.
Qed.
(* what the row invariant gives BEFORE a multi-port micro-op is balanced: share and cells at its ports are > 1/200 *)
Lemma rinv_gt ports done c ps rest pp ind :
  (forall u, In u ((c, ps) :: rest) -> wf_names ports u) ->
  (forall c' ps', In (c', ps') ((c, ps) :: rest) -> (2 <= length ps')%nat ->
     qn (length done + length ((c, ps) :: rest)) * (1 # 200) < c' / inject_Z (Z.of_nat (length ps'))) ->
  length pp = length ports ->
  RInv (length ports) done (map (toU ports) ((c, ps) :: rest)) (qnth pp) ->
  indices_of ports ps = Ok ind -> (2 <= length ps)%nat ->
  1 # 200 < c / inject_Z (Z.of_nat (length ps)) /\ forall p, In p ind -> 1 # 200 < nth p pp 0.
Proof.
  intros WF SHR LP RI IO L2.
  destruct (indices_of_resolve QNum _ _ _ IO) as (RS & LI).
  destruct (WF (c, ps) (or_introl eq_refl)) as (Hc & ND & Hne). cbn [fst snd] in Hc, ND, Hne. rewrite RS in ND.
  set (u := toU ports (c, ps)) in *.
  assert (UP : up u = ind) by (unfold u, toU; cbn [up snd]; exact RS).
  assert (UC : uc u = c) by reflexivity.
  assert (RGI : forall p, In p ind -> (p < length ports)%nat) by (intros p Hp; rewrite <- RS in Hp; eapply resolve_lt; eassumption).
  assert (NEI : ind <> []) by (intros C; rewrite C in LI; destruct ps; [congruence | simpl in LI; lia]).
  assert (WFrest : forall x, In x (map (toU ports) rest) -> 0 <= uc x).
  { intros x Hx. apply in_map_iff in Hx. destruct Hx as (y & E & Hy). subst x.
    destruct (WF y (or_intror Hy)) as (Hy0 & _). exact Hy0. }
  destruct RI as (A & RA). cbn [map] in RA. fold u in RA.
  set (sh := c / inject_Z (Z.of_nat (length ps))) in *.
  pose proof (SHR c ps (or_introl eq_refl) L2) as SH0. fold sh in SH0.
  cbn [length] in SH0. rewrite qn_add, qn_S in SH0.
  pose proof (qn_nonneg (length rest)) as QR. pose proof (qn_nonneg (length done)) as QD.
  assert (USH : forall p, In p ind -> ushare u p == sh).
  { intros p Hp. unfold ushare. rewrite UP. apply memb_In in Hp. rewrite Hp. rewrite UC, LI. reflexivity. }
  assert (USH0 : forall p, ~ In p ind -> ushare u p == 0).
  { intros p Hp. unfold ushare. rewrite UP. destruct (memb p ind) eqn:M; [apply memb_In in M; contradiction | reflexivity]. }
  destruct RA as (R1 & R2 & R3 & R4 & R5).
  assert (PS : forall p, In p ind -> - (qn (length done) * (1 # 200)) <= sumn (length done) (fun i => A i p)).
  { intros p Hp. destruct (R5 p (RGI p Hp)) as [J|J]; [exact J|]. exfalso.
    assert (E : length (up u) = 1%nat) by (apply J; [left; reflexivity | rewrite UP; exact Hp]).
    rewrite UP, LI in E. lia. }
  assert (CELL : forall p, In p ind ->
            qnth pp p == sumn (length done) (fun i => A i p) + sh + uniform (map (toU ports) rest) p).
  { intros p Hp. rewrite (R4 p (RGI p Hp)), uniform_cons, (USH p Hp). ring. }
  assert (GT : forall p, In p ind -> 1 # 200 < nth p pp 0).
  { intros p Hp. pose proof (CELL p Hp) as C. unfold qnth in C. rewrite C.
    pose proof (PS p Hp). pose proof (uniform_nonneg (map (toU ports) rest) p WFrest). lra. }
  assert (SH1 : 1 # 200 < sh) by lra.
  split; [exact SH1 | exact GT].
Qed.

(* ================================================================ all micro-ops of one instruction return *)
Lemma set_nth_set_nth {A} : forall (l : list A) i a b l1, set_nth l i a = Ok l1 -> set_nth l1 i b = set_nth l i b.
Proof.
  induction l as [|x l IH]; intros i a b l1 H; [destruct i; discriminate|].
  destruct i as [|i]; simpl in H.
  - inversion H; subst. reflexivity.
  - destruct (set_nth l i a) as [r|] eqn:E; cbn [bind] in H; [|discriminate].
    inversion H; subst. simpl. rewrite (IH i a b r E). reflexivity.
Qed.

Lemma set_pp_idem (k : list (instr (T:=Q))) idx a b : set_pp (set_pp k idx a) idx b = set_pp k idx b.
Proof.
  unfold set_pp at 2. destruct (nth_error k idx) as [i|] eqn:E.
  - assert (L : (idx < length k)%nat) by (apply nth_error_Some; congruence).
    destruct (set_nth_total k idx (mkinstr (i_tp i) a (i_uops i)) L) as (k1 & S1). rewrite S1.
    unfold set_pp. rewrite E.
    destruct (set_nth_ok _ _ _ _ dins S1) as (L1 & N1 & _).
    assert (E1 : nth_error k1 idx = Some (mkinstr (i_tp i) a (i_uops i))).
    { rewrite (nth_error_nth' k1 dins) by lia. rewrite N1. reflexivity. }
    rewrite E1. cbn [i_tp i_uops]. rewrite (set_nth_set_nth _ _ _ _ _ S1).
    destruct (set_nth_total k idx (mkinstr (i_tp i) b (i_uops i)) L) as (k2 & S2). rewrite S2. reflexivity.
  - reflexivity.
Qed.

Lemma balance_uops_total ports idx : forall todo k done pp ex,
  (forall u, In u todo -> wf_names ports u) ->
  (forall c ps, In (c, ps) todo -> (2 <= length ps)%nat ->
     qn (length done + length todo) * (1 # 200) < c / inject_Z (Z.of_nat (length ps))) ->
  (forall c ps, In (c, ps) todo -> exists ind, indices_of ports ps = Ok ind) ->
  length pp = length ports ->
  (forall p, 0 <= nth p pp 0) ->
  RInv (length ports) done (map (toU ports) todo) (qnth pp) ->
  tps_ok k idx (length ports) ->
  exists r, balance_uops QNum ports k idx pp todo ex = Ok r.
Proof.
  induction todo as [|[c ps] rest IH]; intros k done pp ex WF SHR RES LP NN RI TPS; [simpl; eauto|].
  cbn [balance_uops].
  destruct (RES c ps (or_introl eq_refl)) as (ind & IO).
  destruct (indices_of_resolve QNum _ _ _ IO) as (RS & LI).
  destruct (WF (c, ps) (or_introl eq_refl)) as (Hc & ND & Hne). cbn [fst snd] in Hc, ND, Hne. rewrite RS in ND.
  assert (RGI : forall p, In p ind -> (p < length pp)%nat).
  { intros p Hp. rewrite LP. rewrite <- RS in Hp. eapply resolve_lt; eassumption. }
  destruct (balance_uop_total ports k idx pp c ps ind IO ND Hne RGI) as ([pp1 e1] & B).
  - intros L2. apply (rinv_gt ports done c ps rest pp ind WF SHR LP RI IO L2).
  - rewrite LP. exact TPS.
  - rewrite B. cbn [bind].
    destruct (rinv_step ports idx k done c ps rest pp pp1 e1 WF SHR RES LP NN RI B) as (RI1 & L1 & NN1).
    apply (IH (set_pp k idx pp1) (done ++ [toU ports (c, ps)]) pp1 (ex + e1)%nat).
    + intros x Hx. apply WF. right. exact Hx.
    + intros c' ps' I' L2. rewrite app_length. cbn [length].
      replace (length done + 1 + length rest)%nat with (length done + S (length rest))%nat by lia.
      pose proof (SHR c' ps' (or_intror I') L2) as Q0. cbn [length] in Q0. exact Q0.
    + intros c' ps' I'. apply (RES c' ps'). right. exact I'.
    + congruence.
    + exact NN1.
    + exact RI1.
    + intros pp' Lp. rewrite set_pp_idem. apply TPS. exact Lp.
Qed.

(* one instruction, from the model's uniform row: the per-instruction loop RETURNS, and (balance_instr_feasible) what it
   returns is feasible.  tps_ok: the port sums of the kernel with this row replaced cover all ports (true in a kernel
   whose rows all have the length of the port list and that has a line with a throughput). *)
Theorem balance_instr_total ports k idx us pp ex :
  instr_okb ports us = true ->
  avg_pressure_list QNum ports us = Ok pp ->
  tps_ok k idx (length ports) ->
  exists pp' e, balance_uops QNum ports k idx pp us ex = Ok (pp', e) /\
    Feasible (length ports) (1 # 100) (map (toU ports) us) (qnth pp') /\
    length pp' = length ports /\ (forall p, 0 <= nth p pp' 0).
Proof.
  intros OK AV TPS.
  assert (SPEC : forall u, In u us -> wf_names ports u /\
            ((2 <= length (snd u))%nat -> qn (length us) * (1 # 200) < fst u / inject_Z (Z.of_nat (length (snd u))))).
  { intros u Hu. apply uop_okb_spec. unfold instr_okb in OK. rewrite forallb_forall in OK. apply OK. exact Hu. }
  assert (WF : forall u, In u us -> wf_names ports u) by (intros u Hu; apply SPEC; exact Hu).
  destruct (avg_pressure_is_uniform _ _ _ AV WF) as (L & V).
  assert (NN : forall p, 0 <= nth p pp 0).
  { intros p. pose proof (V p) as E. unfold qnth in E. rewrite E. apply uniform_nonneg.
    intros x Hx. apply in_map_iff in Hx. destruct Hx as (y & E' & Hy). subst x. destruct (WF y Hy) as (Hy0 & _). exact Hy0. }
  assert (RES : forall c ps, In (c, ps) us -> exists ind, indices_of ports ps = Ok ind).
  { unfold avg_pressure_list in AV. revert AV. generalize (map (fun _ : string => zero QNum) ports). clear.
    induction us as [|[c0 ps0] us IH]; intros acc AV c ps I; [destruct I|].
    cbn [avg_go] in AV.
    destruct (avg_add_ports QNum ports acc _ ps0) as [acc1|] eqn:A; cbn [bind] in AV; [|discriminate].
    destruct I as [E|I]; [|eapply IH; eassumption].
    inversion E; subst. clear - A. revert acc A.
    generalize (ndiv QNum c (nofZ QNum (Z.of_nat (length ps)))) as share.
    induction ps as [|p ps IHp]; intros share acc A; [simpl; eauto|].
    cbn [avg_add_ports] in A. cbn [indices_of].
    destruct (port_index ports p) as [i|]; [|discriminate].
    destruct (nth_res acc i) as [x|]; cbn [bind] in A; [|discriminate].
    destruct (set_nth acc i (nadd QNum x share)) as [acc'|]; cbn [bind] in A; [|discriminate].
    destruct (IHp share acc' A) as (r & E). rewrite E. cbn [bind]. eauto. }
  destruct (balance_uops_total ports idx us k [] pp ex WF) as ([pp' e] & H).
  - intros c ps I L2. cbn [length Nat.add]. exact (proj2 (SPEC (c, ps) I) L2).
  - exact RES.
  - exact L.
  - exact NN.
  - apply rinv_start. intros p _. apply V.
  - exact TPS.
  - exists pp', e. split; [exact H|]. apply (balance_instr_feasible ports k idx us pp ex pp' e OK AV H).
Qed.

(* ================================================================ the whole pass returns *)
(* the kernel's rows all have the length of the port list, and some line has a throughput *)
Definition KT (ports : list string) (kk : list (instr (T:=Q))) : Prop :=
  (forall ins, In ins kk -> length (i_pp ins) = length ports) /\
  (exists ins, In ins kk /\ counted QNum ins = true).

Lemma tp_sum_length ports kk : KT ports kk -> length (tp_sum QNum kk) = length ports.
Proof.
  intros (LEN & (w & Iw & Cw)). unfold tp_sum, columns. rewrite !map_length, seq_length.
  assert (Iw' : In w (filter (counted QNum) kk)) by (apply filter_In; split; assumption).
  destruct (filter (counted QNum) kk) as [|a r] eqn:EF; [destruct Iw'|].
  cbn [map]. apply min_len_const.
  - apply LEN. apply (proj1 (filter_In (counted QNum) a kk)). rewrite EF. left. reflexivity.
  - intros x Hx. apply in_map_iff in Hx. destruct Hx as (y & E & Hy). subst x.
    apply LEN. apply (proj1 (filter_In (counted QNum) y kk)). rewrite EF. right. exact Hy.
Qed.

Lemma KT_set_pp ports kk idx pp' : KT ports kk -> length pp' = length ports -> KT ports (set_pp kk idx pp').
Proof.
  intros (LEN & (w & Iw & Cw)) Lp.
  destruct (Nat.lt_ge_cases idx (length kk)) as [Li|Li].
  2:{ unfold set_pp. rewrite (proj2 (nth_error_None kk idx) Li). split; [exact LEN | eauto]. }
  destruct (set_pp_spec kk idx pp' Li) as (L & N & O). split.
  - intros ins Hi. apply (In_nth _ _ dins) in Hi. destruct Hi as (j & Hj & E). subst ins.
    destruct (Nat.eq_dec j idx) as [e|n].
    + subst j. rewrite N. exact Lp.
    + rewrite (O j n). apply LEN. apply nth_In. lia.
  - apply (In_nth _ _ dins) in Iw. destruct Iw as (j & Hj & E). subst w.
    exists (nth j (set_pp kk idx pp') dins). split; [apply nth_In; lia|].
    destruct (Nat.eq_dec j idx) as [e|n].
    + subst j. rewrite N. unfold counted in *. cbn [i_tp]. exact Cw.
    + rewrite (O j n). exact Cw.
Qed.

Lemma KT_tps ports kk idx : KT ports kk -> tps_ok kk idx (length ports).
Proof. intros K pp' Lp. apply tp_sum_length. apply KT_set_pp; assumption. Qed.

Lemma avg_ok_resolves ports : forall us acc v,
  avg_go QNum ports acc us = Ok v -> forall c ps, In (c, ps) us -> exists ind, indices_of ports ps = Ok ind.
Proof.
  induction us as [|[c0 ps0] us IH]; intros acc v AV c ps I; [destruct I|].
  cbn [avg_go] in AV.
  destruct (avg_add_ports QNum ports acc _ ps0) as [acc1|] eqn:A; cbn [bind] in AV; [|discriminate].
  destruct I as [E|I]; [|eapply IH; eassumption].
  inversion E; subst. clear - A. revert acc A.
  generalize (ndiv QNum c (nofZ QNum (Z.of_nat (length ps)))) as share.
  induction ps as [|p ps IHp]; intros share acc A; [simpl; eauto|].
  cbn [avg_add_ports] in A. cbn [indices_of].
  destruct (port_index ports p) as [i|]; [|discriminate].
  destruct (nth_res acc i) as [x|]; cbn [bind] in A; [|discriminate].
  destruct (set_nth acc i (nadd QNum x share)) as [acc'|]; cbn [bind] in A; [|discriminate].
  destruct (IHp share acc' A) as (r & E). rewrite E. cbn [bind]. eauto.
Qed.

Lemma go_total ports
  (go : list nat -> list (instr (T:=Q)) -> bool -> option (list (instr (T:=Q)) * Q) -> nat ->
        res (list (instr (T:=Q)) * bool * option (list (instr (T:=Q)) * Q) * nat)) :
  (forall kk m b e, go [] kk m b e = Ok (kk, m, b, e)) ->
  (forall idx rest kk m b e us,
     (idx < length kk)%nat -> i_uops (nth idx kk dins) = UList us ->
     go (idx :: rest) kk m b e =
     bind (balance_uops QNum ports kk idx (i_pp (nth idx kk dins)) us e)
          (fun r => go rest (set_pp kk idx (fst r)) false b (snd r))) ->
  forall todo kk m b e, NoDup todo -> todo_ok ports todo kk -> KT ports kk -> exists r, go todo kk m b e = Ok r.
Proof.
  intros GN GC. induction todo as [|idx rest IH]; intros kk m b e ND T K; [rewrite GN; eauto|].
  destruct (T idx (or_introl eq_refl)) as (Li & (us & v & EU & OK & AV & LV & EV)).
  destruct (start_ok_uniform ports _ us v OK AV LV EV) as (WF & LP0 & UN0).
  rewrite (GC idx rest kk m b e us Li EU).
  assert (SPEC : forall u, In u us -> wf_names ports u /\
            ((2 <= length (snd u))%nat -> qn (length us) * (1 # 200) < fst u / inject_Z (Z.of_nat (length (snd u))))).
  { intros u Hu. apply uop_okb_spec. unfold instr_okb in OK. rewrite forallb_forall in OK. apply OK. exact Hu. }
  assert (NN : forall p, 0 <= nth p (i_pp (nth idx kk dins)) 0).
  { intros p. pose proof (UN0 p) as E. unfold qnth in E. rewrite E. apply uniform_nonneg.
    intros x Hx. apply in_map_iff in Hx. destruct Hx as (y & E' & Hy). subst x. destruct (WF y Hy) as (Hy0 & _). exact Hy0. }
  destruct (balance_uops_total ports idx us kk [] (i_pp (nth idx kk dins)) e WF) as ([pp' e2] & B).
  - intros c ps I L2. cbn [length Nat.add]. exact (proj2 (SPEC (c, ps) I) L2).
  - unfold avg_pressure_list in AV. apply (avg_ok_resolves ports us _ v AV).
  - exact LP0.
  - exact NN.
  - apply rinv_start. intros p _. apply UN0.
  - apply KT_tps. exact K.
  - rewrite B. cbn [bind fst snd].
    destruct (balance_instr_feasible_gen ports kk idx us _ e pp' e2 OK LP0 (fun p _ => UN0 p) B) as (_ & LP & _).
    apply IH.
    + inversion ND; assumption.
    + eapply todo_ok_step; eassumption.
    + apply KT_set_pp; assumption.
Qed.

(* The pass never raises on a kernel that meets all_start_ok ... *)
Theorem balance_pass_total ports (k : list (instr (T:=Q))) :
  all_start_ok ports k -> exists k' e, balance QNum ports k = Ok (k', e).
Proof.
  intros ST. unfold balance.
  lazy beta iota fix delta [balance_from].
  destruct (tp_sum QNum k) as [|t0 ts] eqn:TP; [eauto|].
  lazy zeta.
  match goal with |- context [?f (seq 0 _) (rev k) false None 0%nat] => set (go := f) end.
  assert (GN : forall kk m b e, go [] kk m b e = Ok (kk, m, b, e)) by reflexivity.
  assert (GC : forall idx rest kk m b e us,
    (idx < length kk)%nat -> i_uops (nth idx kk dins) = UList us ->
    go (idx :: rest) kk m b e =
    bind (balance_uops QNum ports kk idx (i_pp (nth idx kk dins)) us e)
         (fun r => go rest (set_pp kk idx (fst r)) false b (snd r))).
  { intros idx rest kk m b e1 us Li EU. unfold go at 1. lazy beta iota fix.
    rewrite (nth_error_nth' kk dins Li). lazy beta iota. rewrite EU. cbn [bind].
    rewrite (nth_error_nth' kk dins Li).
    destruct (balance_uops QNum ports kk idx (i_pp (nth idx kk dins)) us e1) as [[pp' e2]|]; reflexivity. }
  assert (ND : NoDup (seq 0 (length (rev k) - 0))) by apply seq_NoDup.
  assert (T : todo_ok ports (seq 0 (length (rev k) - 0)) (rev k)).
  { intros j Hj. apply in_seq in Hj. split; [lia|]. apply ST. apply in_rev. apply nth_In. lia. }
  assert (K : KT ports (rev k)).
  { split.
    - intros ins Hi. apply in_rev in Hi. destruct (ST ins Hi) as (us & v & EU & OK & AV & LV & EV).
      apply (start_ok_uniform ports ins us v OK AV LV EV).
    - destruct (filter (counted QNum) k) as [|w r] eqn:EF.
      + exfalso. unfold tp_sum, columns in TP. rewrite EF in TP. cbn in TP. discriminate.
      + exists w. assert (Iw : In w (filter (counted QNum) k)) by (rewrite EF; left; reflexivity).
        apply filter_In in Iw. destruct Iw as (Iw & Cw). split; [apply in_rev in Iw; exact Iw | exact Cw]. }
  destruct (go_total ports go GN GC _ (rev k) false None 0%nat ND T K) as ([[[kfin multi] best] ex] & G).
  rewrite G. cbn [bind].
  destruct (go_inv ports go GN GC _ _ _ _ _ _ _ _ _ ND T G) as (_ & MF & _).
  rewrite (MF eq_refl). eauto.
Qed.

(* ... and returns a kernel whose rows are feasible splits (balance_pass_feasible) *)
Theorem balance_pass_total_feasible ports (k : list (instr (T:=Q))) :
  all_start_ok ports k ->
  exists k' e, balance QNum ports k = Ok (k', e) /\
    length k' = length k /\
    forall j, (j < length k)%nat ->
      i_tp (nth j k' dins) = i_tp (nth j k dins) /\ i_uops (nth j k' dins) = i_uops (nth j k dins) /\
      done_ok ports (nth j k' dins).
Proof.
  intros ST. destruct (balance_pass_total ports k ST) as (k' & e & H).
  exists k', e. split; [exact H|]. exact (balance_pass_feasible ports k k' e ST H).
Qed.
