(* TOTALITY of one optimisation pass, exact rationals, repaired rule 1: under the hypotheses of
   Proofs/BalanceMulti.v / BalancePass.v the balancer never raises -- every Python list operation of the loop finds its
   index, every itemgetter gets at least one index.  Together with balance_pass_feasible: the pass RETURNS a kernel
   whose rows are feasible splits. *)
From Coq Require Import QArith Qround Qfield Lqa Lia List Bool Arith String ZArith.
From OV Require Import Model.Num Model.Pressure Proofs.ListSpec Proofs.Feasible Proofs.PressureQ Proofs.BalanceFrame
  Proofs.BalanceSingle Proofs.BalanceMulti Proofs.BalancePass.
Import ListNotations.
Open Scope Q_scope.
Local Notation length := List.length (only parsing).

(* ================================================================ list operations succeed *)
Lemma add_at_total l i d : (i < length l)%nat -> exists l', add_at QNum l i d = Ok l'.
Proof.
  intros H. unfold add_at. rewrite (nth_res_nth l i 0 H). cbn [bind]. apply set_nth_total. exact H.
Qed.

Lemma sub_at_total l i d : (i < length l)%nat -> exists l', sub_at QNum l i d = Ok l'.
Proof.
  intros H. unfold sub_at. rewrite (nth_res_nth l i 0 H). cbn [bind]. apply set_nth_total. exact H.
Qed.

Lemma del_nth_total {A} : forall (l : list A) i, (i < length l)%nat -> exists l', del_nth l i = Ok l'.
Proof.
  induction l as [|x l IH]; intros i H; [simpl in H; lia|].
  destruct i as [|i]; simpl; [eauto|].
  destruct (IH i ltac:(simpl in H; lia)) as (l' & E). rewrite E. cbn [bind]. eauto.
Qed.

Lemma del_nth_length {A} : forall (l : list A) i l', del_nth l i = Ok l' -> length l = S (length l').
Proof.
  induction l as [|x l IH]; intros i l' H; [destruct i; discriminate|].
  destruct i as [|i]; simpl in H.
  - inversion H; subst. reflexivity.
  - destruct (del_nth l i) as [r|] eqn:E; cbn [bind] in H; [|discriminate].
    inversion H; subst. simpl. f_equal. eapply IH. exact E.
Qed.

Lemma list_max_total (l : list Q) : l <> [] -> exists m, list_max QNum l = Ok m.
Proof. destruct l; [congruence|]. intros _. unfold list_max. eauto. Qed.

Lemma list_min_total (l : list Q) : l <> [] -> exists m, list_min QNum l = Ok m.
Proof. destruct l; [congruence|]. intros _. unfold list_min. eauto. Qed.

Lemma list_max_In l m : list_max QNum l = Ok m -> In m l.
Proof.
  unfold list_max. destruct l as [|a r]; [discriminate|]. intros H. inversion H as [Hm]. clear H.
  assert (G : forall r a, let m := fold_left (fun m y => if nltb QNum m y then y else m) r a in m = a \/ In m r).
  { clear. induction r as [|y r IH]; intros a; cbn [fold_left]; [left; reflexivity|].
    destruct (nltb QNum a y).
    - destruct (IH y) as [I|I]; [right; left; symmetry; exact I | right; right; exact I].
    - destruct (IH a) as [I|I]; [left; exact I | right; right; exact I]. }
  destruct (G r a) as [I|I]; [left; symmetry; exact I | right; exact I].
Qed.

Lemma find_index_total (f : Q -> bool) : forall l k x, In x l -> f x = true -> exists i, find_index f l k = Some i.
Proof.
  induction l as [|y l IH]; intros k x I F; [destruct I|]. simpl.
  destruct (f y) eqn:Fy; [eauto|]. destruct I as [E|I]; [subst; congruence|]. eapply IH; eassumption.
Qed.

Lemma index_of_total l v : In v l -> exists i, index_of QNum l v = Ok i.
Proof.
  intros I. unfold index_of.
  destruct (find_index_total (fun x => neqb QNum x v) l 0 v I) as (i & E).
  - apply qeqb_true. reflexivity.
  - rewrite E. eauto.
Qed.

Lemma setzip_total : forall idx (vals l : list Q),
  (forall p, In p idx -> (p < length l)%nat) -> exists l', setzip l idx vals = Ok l'.
Proof.
  induction idx as [|i idx IH]; intros vals l R; [simpl; eauto|].
  destruct vals as [|v vals]; [simpl; eauto|]. simpl.
  destruct (set_nth_total l i v (R i (or_introl eq_refl))) as (l1 & E). rewrite E. cbn [bind].
  apply IH. intros p Hp. destruct (set_nth_ok _ _ _ _ 0 E) as (L & _). rewrite L. apply R. right. exact Hp.
Qed.

Lemma setmany_total idx (vals l : list Q) :
  (forall p, In p idx -> (p < length l)%nat) -> length vals = length idx -> exists l', setmany l idx vals = Ok l'.
Proof.
  intros R LV. rewrite (setmany_setzip l idx vals LV). apply setzip_total. exact R.
Qed.

Lemma filter_res_total (f : nat -> res bool) : forall l,
  (forall p, In p l -> exists b, f p = Ok b) -> exists l', filter_res f l = Ok l'.
Proof.
  induction l as [|p l IH]; intros H; [simpl; eauto|]. simpl.
  destruct (H p (or_introl eq_refl)) as (b & E). rewrite E. cbn [bind].
  destruct (IH (fun q Hq => H q (or_intror Hq))) as (r & E'). rewrite E'. cbn [bind]. eauto.
Qed.

Lemma filter_res_keeps (f : nat -> res bool) : forall l l' p,
  filter_res f l = Ok l' -> In p l -> f p = Ok true -> In p l'.
Proof.
  induction l as [|q l IH]; intros l' p H I F; [destruct I|]. simpl in H.
  destruct (f q) as [b|] eqn:Fq; cbn [bind] in H; [|discriminate].
  destruct (filter_res f l) as [r|] eqn:E; cbn [bind] in H; [|discriminate].
  inversion H; subst. destruct I as [I|I].
  - subst q. rewrite F in Fq. inversion Fq; subst. left. reflexivity.
  - specialize (IH r p eq_refl I F). destruct b; [right|]; exact IH.
Qed.

Lemma zipfilter_res_total (f : nat -> res bool) : forall l (d : list Q),
  (forall p, In p l -> exists b, f p = Ok b) -> exists d', zipfilter_res f l d = Ok d'.
Proof.
  induction l as [|p l IH]; intros d H; [simpl; eauto|]. destruct d as [|x d]; [simpl; eauto|].
  cbn [zipfilter_res]. destruct (H p (or_introl eq_refl)) as (b & E). rewrite E. cbn [bind].
  destruct (IH d (fun q Hq => H q (or_intror Hq))) as (r & E'). rewrite E'. cbn [bind]. eauto.
Qed.

Lemma cellpred_total (g : Q -> bool) pp ind :
  (forall p, In p ind -> (p < length pp)%nat) ->
  forall p, In p ind -> exists b, (v <- nth_res pp p ;; Ok (g v)) = Ok b.
Proof. intros R p Hp. rewrite (nth_res_nth pp p 0 (R p Hp)). cbn [bind]. eauto. Qed.

(* a list with two or more pairwise different entries has an entry other than a given one *)
Lemma other_index (ind : list nat) maxi : (2 <= length ind)%nat -> exists j, (j < length ind)%nat /\ j <> maxi.
Proof. intros H. destruct maxi as [|m]; [exists 1%nat | exists 0%nat]; split; lia. Qed.

(* ================================================================ rule 1 and rule 2 return *)
Lemma rule1_total ps mn pp1 ind ip2 df2 mini maxi :
  NoDup ind -> (forall p, In p ind -> (p < length pp1)%nat) ->
  vals_at pp1 ind = ip2 -> length df2 = length ind -> (2 <= length ind)%nat ->
  index_of QNum ps mn = Ok mini -> (mini < length ind)%nat -> (maxi < length ind)%nat ->
  (forall j, (j < length ind)%nat -> j <> maxi -> 1 # 200 < nth j ip2 0) ->
  (mini <> maxi -> (1 # 200) + (1 # 100) < nth mini ip2 0) ->
  (mini = maxi -> 1 # 200 < nth maxi ip2 0) ->
  - (1 # 200) < nth maxi ip2 0 ->
  exists r, rule1 QNum ps mn pp1 ind ip2 df2 = Ok r.
Proof.
  intros ND RG VA LDF L2 IM Lmini Lmaxi Both Bmini Bsame Bmax.
  assert (Lip : length ip2 = length ind) by (rewrite <- VA; apply vals_at_length).
  assert (NEip : ip2 <> []) by (intros C; rewrite C in Lip; simpl in Lip; lia).
  unfold rule1.
  destruct (list_min_total ip2 NEip) as (m & E0). rewrite E0. cbn [bind].
  destruct (list_min_spec _ _ E0) as (Min & Mle).
  destruct (nleb QNum (nround2 QNum m) (zero QNum)) eqn:Fire; [|eauto].
  assert (Hm : m <= 1 # 200) by (apply Qround2_le0; apply qleb_true; exact Fire).
  apply (In_nth _ _ 0) in Min. destruct Min as (jm & Hjm & Ejm).
  assert (jm = maxi).
  { destruct (Nat.eq_dec jm maxi) as [e|n]; [exact e|]. exfalso.
    specialize (Both jm ltac:(lia) n). rewrite Ejm in Both. lra. }
  subst jm.
  assert (NE2 : mini <> maxi).
  { intros C. specialize (Bsame C). rewrite Ejm in Bsame. lra. }
  specialize (Bmini NE2).
  set (pmax := nth maxi ind 0%nat).
  assert (Ipmax : In pmax ind) by (apply nth_In; exact Lmaxi).
  (* some other index keeps a cell > 1/200, so the comprehension over the positive cells is not empty *)
  destruct (other_index ind maxi L2) as (jo & Ljo & Njo).
  set (po := nth jo ind 0%nat).
  assert (Ipo : In po ind) by (apply nth_In; exact Ljo).
  change (zero QNum) with 0.
  destruct (negb (neqb QNum m 0)) eqn:NZ.
  - rewrite IM. cbn [bind].
    destruct (add_at_total ip2 mini m ltac:(lia)) as (ipa & AA). rewrite AA. cbn [bind].
    destruct (add_at_spec _ _ _ _ AA) as (_ & LA & Vmini & Voth & _).
    assert (NEipa : ipa <> []) by (intros C; rewrite C in LA; simpl in LA; lia).
    destruct (list_min_total ipa NEipa) as (m2 & E2). rewrite E2. cbn [bind].
    destruct (add_at_total df2 mini m2 ltac:(lia)) as (dfa & AD). rewrite AD. cbn [bind].
    destruct (list_min_spec _ _ E2) as (Min2 & _).
    destruct (index_of_total ipa m2 Min2) as (kk & IK). rewrite IK. cbn [bind].
    destruct (add_at_spec _ _ _ _ AD) as (_ & LAD & _).
    pose proof (index_of_lt _ _ _ _ IK) as Lkk.
    destruct (del_nth_total dfa kk ltac:(lia)) as (dfb & DD). rewrite DD. cbn [bind].
    destruct (setmany_total ind ipa pp1 RG ltac:(lia)) as (ppa & SM). rewrite SM. cbn [bind].
    destruct (setmany_spec _ _ _ _ SM ND ltac:(lia)) as (Lppa & VAa & Fa & _).
    assert (RGa : forall p, In p ind -> (p < length ppa)%nat) by (intros p Hp; rewrite Lppa; apply RG; exact Hp).
    match goal with |- context [filter_res ?f ind] =>
      destruct (filter_res_total f ind (cellpred_total _ ppa ind RGa)) as (zs & FZ); rewrite FZ end.
    cbn [bind].
    assert (Amax : nth maxi ipa 0 = m) by (rewrite Voth by (intros C; apply NE2; symmetry; exact C); exact Ejm).
    assert (Pmax : nth pmax ppa 0 = m).
    { unfold pmax. rewrite <- (vals_at_nth ppa ind maxi Lmaxi), VAa. exact Amax. }
    assert (Izs : In pmax zs).
    { apply (filter_res_keeps _ _ _ _ FZ Ipmax).
      rewrite (nth_res_nth ppa pmax 0 (RGa pmax Ipmax)). cbn [bind]. f_equal. rewrite Pmax.
      apply orb_true_iff. destruct (Qlt_le_dec m 0) as [Lt|Ge].
      - right. apply qltb_true. exact Lt.
      - left. apply qeqb_true. cbn [nround2 QNum]. apply Qround2_eq0; lra. }
    destruct zs as [|zi zs]; [destruct Izs|].
    assert (Izi : In zi ind).
    { destruct (filter_res_spec _ _ _ FZ) as (IZ & _). apply (IZ zi (or_introl eq_refl)). }
    destruct (set_nth_total ppa zi 0 (RGa zi Izi)) as (ppb & SZ). rewrite SZ. cbn [bind].
    destruct (set_nth_ok _ _ _ _ 0 SZ) as (Lppb & Nb & Ob).
    assert (RGb : forall p, In p ind -> (p < length ppb)%nat) by (intros p Hp; rewrite Lppb; apply RGa; exact Hp).
    match goal with |- context [filter_res ?f ind] =>
      destruct (filter_res_total f ind (cellpred_total _ ppb ind RGb)) as (ind2' & F2); rewrite F2 end.
    cbn [bind].
    (* the zeroed cell is the one of pmax (all others are > 1/200), so po survives *)
    assert (Aoth : forall j, (j < length ind)%nat -> j <> maxi -> 1 # 200 < nth j ipa 0).
    { intros j Hj Hne. destruct (Nat.eq_dec j mini) as [e|n].
      - subst j. rewrite Vmini. rewrite Ejm in Bmax. lra.
      - rewrite (Voth j n). apply Both; assumption. }
    pose proof (port_view (fun x => 1 # 200 < x) ppa ind ipa maxi VAa Aoth) as Poth. cbv beta in Poth.
    fold pmax in Poth.
    assert (zi = pmax).
    { destruct (Nat.eq_dec zi pmax) as [e|n]; [exact e|]. exfalso.
      specialize (Poth zi Izi n).
      destruct (filter_res_spec _ _ _ FZ) as (IZ & _). destruct (IZ zi (or_introl eq_refl)) as (_ & Fzi).
      apply fres_nth in Fzi; [|apply RGa; exact Izi].
      apply orb_true_iff in Fzi. destruct Fzi as [Fz|Fz].
      - apply qeqb_true in Fz. cbn [nround2 QNum] in Fz. pose proof (Qround2_pos _ Poth) as R. lra.
      - apply qltb_true in Fz. lra. }
    subst zi.
    assert (Npo : po <> pmax).
    { unfold po, pmax. intros C. apply Njo. apply (proj1 (NoDup_nth ind 0%nat) ND jo maxi Ljo Lmaxi C). }
    assert (Ipo2 : In po ind2').
    { apply (filter_res_keeps _ _ _ _ F2 Ipo).
      rewrite (nth_res_nth ppb po 0 (RGb po Ipo)). cbn [bind]. f_equal. apply qltb_true.
      rewrite (Ob po Npo). specialize (Poth po Ipo Npo). lra. }
    assert (R2 : forall p, In p ind2' -> (p < length ppb)%nat).
    { intros p Hp. apply RGb. destruct (filter_res_spec _ _ _ F2) as (I2 & _). apply (I2 p Hp). }
    rewrite (getmany_intro ppb ind2') by (try exact R2; intros C; rewrite C in Ipo2; destruct Ipo2).
    cbn [bind]. eauto.
  - cbn [bind].
    match goal with |- context [zipfilter_res ?f ind df2] =>
      destruct (zipfilter_res_total f ind df2 (cellpred_total _ pp1 ind RG)) as (dfz & ZF); rewrite ZF end.
    cbn [bind].
    match goal with |- context [filter_res ?f ind] =>
      destruct (filter_res_total f ind (cellpred_total _ pp1 ind RG)) as (ind2' & F2); rewrite F2 end.
    cbn [bind].
    pose proof (port_view (fun x => 1 # 200 < x) pp1 ind ip2 maxi VA Both) as Poth. cbv beta in Poth.
    fold pmax in Poth.
    assert (Npo : po <> pmax).
    { unfold po, pmax. intros C. apply Njo. apply (proj1 (NoDup_nth ind 0%nat) ND jo maxi Ljo Lmaxi C). }
    assert (Ipo2 : In po ind2').
    { apply (filter_res_keeps _ _ _ _ F2 Ipo).
      rewrite (nth_res_nth pp1 po 0 (RG po Ipo)). cbn [bind]. f_equal. apply qltb_true.
      specialize (Poth po Ipo Npo). lra. }
    assert (R2 : forall p, In p ind2' -> (p < length pp1)%nat).
    { intros p Hp. apply RG. destruct (filter_res_spec _ _ _ F2) as (I2 & _). apply (I2 p Hp). }
    rewrite (getmany_intro pp1 ind2') by (try exact R2; intros C; rewrite C in Ipo2; destruct Ipo2).
    cbn [bind]. eauto.
Qed.

Lemma rule2_total pp2 ind df ip3 :
  length df = length ind -> ind <> [] -> (forall p, In p ind -> (p < length pp2)%nat) ->
  ((2 <= length ind)%nat \/ (forall j, (j < length ind)%nat -> 1 # 200 < nth j df 0)) ->
  exists r, rule2 QNum pp2 ind ip3 df = Ok r.
Proof.
  intros L NE RG C. unfold rule2.
  assert (NEdf : df <> []) by (intros E; rewrite E in L; destruct ind; [congruence | simpl in L; lia]).
  destruct (list_min_total df NEdf) as (md & E0). rewrite E0. cbn [bind].
  destruct (list_min_spec _ _ E0) as (Min & Mle).
  destruct (nleb QNum (nround2 QNum md) (zero QNum)) eqn:Fire; [|eauto].
  assert (Hm : md <= 1 # 200) by (apply Qround2_le0; apply qleb_true; exact Fire).
  destruct C as [L2|All].
  2:{ exfalso. apply (In_nth _ _ 0) in Min. destruct Min as (j & Hj & Ej). specialize (All j ltac:(lia)). rewrite Ej in All. lra. }
  destruct (index_of_total df md Min) as (kd & IK). rewrite IK. cbn [bind].
  pose proof (index_of_lt _ _ _ _ IK) as Lkd.
  destruct (del_nth_total ind kd ltac:(lia)) as (ind' & DI). rewrite DI. cbn [bind].
  pose proof (del_nth_length _ _ _ DI) as LL.
  rewrite (getmany_intro pp2 ind').
  - cbn [bind]. destruct (del_nth_total df kd Lkd) as (df' & DD). rewrite DD. cbn [bind]. eauto.
  - intros E. rewrite E in LL. simpl in LL. lia.
  - intros p Hp. apply RG. apply (del_nth_incl _ _ _ DI). exact Hp.
Qed.
