(* Weak duality for fractional scheduling (DESIGN.md C02): whatever feasible split each
   instruction receives, the kernel's bottleneck port carries at least the cycles confined to any
   port set S divided by |S| (minus the slack granted to the splits). *)
From Coq Require Import QArith Qfield Lqa Lia List Bool Arith.
From OV Require Import Proofs.Feasible.
Import ListNotations.
Open Scope Q_scope.

Definition kinstr := (list uopQ * (nat -> Q))%type.
Definition dk : kinstr := ([], fun _ => 0).
Definition kget (ks : list kinstr) (i : nat) : kinstr := nth i ks dk.
Definition kload (ks : list kinstr) (p : nat) : Q := sumn (length ks) (fun i => snd (kget ks i) p).
Definition kconfined (S : nat -> bool) (ks : list kinstr) : Q :=
  sumn (length ks) (fun i => confined_cycles S (fst (kget ks i))).
Definition kslack (P : nat) (eps : Q) (S : nat -> bool) (ks : list kinstr) : Q :=
  sumn (length ks) (fun i => eps * card P S * nonconfined S (fst (kget ks i))).

Lemma load_sum P S n (f : nat -> nat -> Q) :
  load P S (fun p => sumn n (fun i => f i p)) == sumn n (fun i => load P S (f i)).
Proof.
  unfold load.
  rewrite (sumn_ext P _ (fun p => sumn n (fun i => if S p then f i p else 0))).
  - apply sumn_swap.
  - intros p _. destruct (S p); [reflexivity|]. symmetry. apply sumn_zero. intros; reflexivity.
Qed.

Theorem kernel_hall P eps ks S :
  0 <= eps ->
  (forall i, (i < length ks)%nat -> Feasible P eps (fst (kget ks i)) (snd (kget ks i))) ->
  kconfined S ks - kslack P eps S ks <= load P S (kload ks).
Proof.
  intros He HF. unfold kload. rewrite load_sum. unfold kconfined, kslack.
  assert (G : forall n, (n <= length ks)%nat ->
    sumn n (fun i => confined_cycles S (fst (kget ks i))) - sumn n (fun i => eps * card P S * nonconfined S (fst (kget ks i)))
    <= sumn n (fun i => load P S (snd (kget ks i)))).
  { induction n as [|n IH]; intros Hn; simpl; [lra|].
    specialize (IH ltac:(lia)).
    pose proof (feasible_hall P eps _ _ S He (HF n ltac:(lia))). lra. }
  apply G. lia.
Qed.

Lemma load_le_card P S L B : (forall p, (p < P)%nat -> L p <= B) -> load P S L <= card P S * B.
Proof.
  intros H. unfold load, card. induction P as [|n IH]; simpl; [lra|].
  assert (sumn n (fun p => if S p then L p else 0) <= sumn n (fun p => if S p then 1 else 0) * B)
    by (apply IH; intros; apply H; lia).
  specialize (H n ltac:(lia)). destruct (S n); lra.
Qed.

(* the bottleneck B (any upper bound of all per-port totals) is at least confined(S)/|S| - slack/|S| *)
Theorem opt_is_lower_bound P eps ks S B :
  0 <= eps ->
  (forall i, (i < length ks)%nat -> Feasible P eps (fst (kget ks i)) (snd (kget ks i))) ->
  (forall p, (p < P)%nat -> kload ks p <= B) ->
  kconfined S ks - kslack P eps S ks <= card P S * B.
Proof.
  intros He HF HB. pose proof (kernel_hall P eps ks S He HF). pose proof (load_le_card P S _ B HB). lra.
Qed.

(* with exact splits (eps = 0): B >= confined(S) / |S| for every non-empty S *)
Corollary bottleneck_ge_exact_optimum P ks S B :
  (forall i, (i < length ks)%nat -> Feasible P 0 (fst (kget ks i)) (snd (kget ks i))) ->
  (forall p, (p < P)%nat -> kload ks p <= B) ->
  0 < card P S -> kconfined S ks / card P S <= B.
Proof.
  intros HF HB Hc. pose proof (opt_is_lower_bound P 0 ks S B ltac:(lra) HF HB) as H.
  assert (E : kslack P 0 S ks == 0).
  { unfold kslack. apply sumn_zero. intros. ring. }
  rewrite E in H. apply Qle_shift_div_r; [exact Hc | lra].
Qed.
