(* C13: proofs about the report-structure model (Model/Report.v). *)
From Coq Require Import ZArith QArith List Bool String Ascii Arith Lia.
From Coq Require Import PrimFloat SpecFloat FloatOps.
From OV Require Import Model.Num Model.Fmt Model.Report Proofs.Fmt.
Import ListNotations.

(* ------------------------------------------------------------------ generic list facts *)
Lemma Forall2_map_same : forall {A B C} (f : A -> B) (g : A -> C) (R : B -> C -> Prop) (l : list A),
  (forall x, In x l -> R (f x) (g x)) -> Forall2 R (map f l) (map g l).
Proof.
  intros A B C f g R l. induction l as [|x l IH]; intros H; simpl; constructor.
  - apply H. left. reflexivity.
  - apply IH. intros y Hy. apply H. right. exact Hy.
Qed.

Lemma existsb_Zeqb_In : forall n l, existsb (Z.eqb n) l = true <-> In n l.
Proof.
  intros n l. rewrite existsb_exists. split.
  - intros [x [Hx E]]. apply Z.eqb_eq in E. subst. exact Hx.
  - intros H. exists n. split; [exact H|apply Z.eqb_refl].
Qed.

Lemma nodupb_inj : forall (k : list aline) l1 l2, nodupb (map l_num k) = true ->
  In l1 k -> In l2 k -> l_num l1 = l_num l2 -> l1 = l2.
Proof.
  induction k as [|h k IH]; intros l1 l2 Hn H1 H2 E; [destruct H1|].
  simpl in Hn. apply andb_prop in Hn. destruct Hn as [Hh Hk].
  apply negb_true_iff in Hh.
  assert (Hnot : forall l, In l k -> l_num l <> l_num h).
  { intros l Hl Eq. assert (X : existsb (Z.eqb (l_num h)) (map l_num k) = true).
    { apply existsb_Zeqb_In. rewrite <- Eq. apply in_map. exact Hl. }
    congruence. }
  destruct H1 as [->|H1], H2 as [->|H2].
  - reflexivity.
  - exfalso. apply (Hnot l2 H2). symmetry. exact E.
  - exfalso. apply (Hnot l1 H1). exact E.
  - apply IH; assumption.
Qed.

(* ------------------------------------------------------------------ first maximum *)
Definition leQ (a b : float) : Prop := (f_to_Q a <= f_to_Q b)%Q.

Lemma first_max_from_spec : forall l best,
  let m := first_max_from best l in
  (m = best \/ In m l) /\ leQ (lcd_lat best) (lcd_lat m) /\ (forall e, In e l -> leQ (lcd_lat e) (lcd_lat m)).
Proof.
  induction l as [|e r IH]; intros best; simpl.
  - split; [left; reflexivity|]. split; [apply Qle_refl|]. intros e [].
  - set (best' := if f_ltb_exact (lcd_lat best) (lcd_lat e) then e else best).
    destruct (IH best') as [Hin [Hle Hall]].
    assert (Hb : leQ (lcd_lat best) (lcd_lat best') /\ leQ (lcd_lat e) (lcd_lat best')).
    { unfold best', f_ltb_exact. destruct (Qle_bool (f_to_Q (lcd_lat e)) (f_to_Q (lcd_lat best))) eqn:Q; simpl.
      - apply Qle_bool_iff in Q. split; [apply Qle_refl|exact Q].
      - split; [|apply Qle_refl]. unfold leQ.
        destruct (Qlt_le_dec (f_to_Q (lcd_lat best)) (f_to_Q (lcd_lat e))) as [L|L].
        + apply Qlt_le_weak. exact L.
        + apply Qle_bool_iff in L. congruence. }
    destruct Hb as [Hb1 Hb2].
    split.
    + destruct Hin as [->|Hin]; [|right; right; exact Hin].
      unfold best'. destruct (f_ltb_exact _ _); [right; left; reflexivity|left; reflexivity].
    + split; [eapply Qle_trans; eassumption|].
      intros x [<-|Hx]; [eapply Qle_trans; eassumption|apply Hall; exact Hx].
Qed.

Lemma longest_lcd_spec : forall l,
  match longest_lcd l with
  | None => l = []
  | Some m => In m l /\ forall e, In e l -> leQ (lcd_lat e) (lcd_lat m)
  end.
Proof.
  intros [|e r]; simpl; [reflexivity|].
  destruct (first_max_from_spec r e) as [Hin [Hle Hall]]. split.
  - destruct Hin as [->|H]; [left; reflexivity|right; exact H].
  - intros x [<-|Hx]; [exact Hle|apply Hall; exact Hx].
Qed.

(* ------------------------------------------------------------------ sorting the LCD dict by key *)
Lemma insert_by_key_In : forall e x l, In x (insert_by_key e l) <-> x = e \/ In x l.
Proof.
  intros e x. induction l as [|h t IH]; simpl.
  - split; [intros [<-|[]]; left; reflexivity|intros [->|[]]; left; reflexivity].
  - destruct (str_leb (lcd_key e) (lcd_key h)); simpl.
    + split; [intros [<-|H]; [left; reflexivity|right; exact H]|intros [->|H]; [left; reflexivity|right; exact H]].
    + rewrite IH. split.
      * intros [<-|[->|H]]; [right; left; reflexivity|left; reflexivity|right; right; exact H].
      * intros [->|[<-|H]]; [right; left; reflexivity|left; reflexivity|right; right; exact H].
Qed.

Lemma insert_by_key_length : forall e l, List.length (insert_by_key e l) = S (List.length l).
Proof.
  intros e. induction l as [|h t IH]; simpl; [reflexivity|].
  destruct (str_leb _ _); simpl; [reflexivity|rewrite IH; reflexivity].
Qed.

Lemma sort_by_key_In : forall x l, In x (sort_by_key l) <-> In x l.
Proof.
  intros x. induction l as [|h t IH]; simpl; [tauto|].
  rewrite insert_by_key_In, IH. split; intros [H|H]; auto.
Qed.

Lemma sort_by_key_length : forall l, List.length (sort_by_key l) = List.length l.
Proof. induction l as [|h t IH]; simpl; [reflexivity|]. rewrite insert_by_key_length, IH. reflexivity. Qed.

(* ------------------------------------------------------------------ cells *)
Definition cell_shows (c : cell) (v : float) : Prop :=
  (c = Blank /\ f_is_zero v = true) \/ (exists d, c = Shown d v /\ (1 <= d)%nat).

Lemma press_cell_shows : forall plen used v, cell_shows (press_cell plen used v) v.
Proof.
  intros plen used v. unfold press_cell.
  destruct (andb (f_is_zero v) (negb used)) eqn:E.
  - left. apply andb_prop in E. split; [reflexivity|exact (proj1 E)].
  - right. destruct (plen - left_len v - 1)%nat as [|d'] eqn:D.
    + exists 1%nat. split; [reflexivity|lia].
    + exists (S d'). split; [reflexivity|lia].
Qed.

Lemma press_cell_blank_iff : forall plen used v,
  press_cell plen used v = Blank <-> (f_is_zero v = true /\ used = false).
Proof.
  intros plen used v. unfold press_cell. destruct (f_is_zero v), used; simpl; split; try tauto; try discriminate;
    try (intros [? ?]; discriminate).
  all: destruct (plen - left_len v - 1)%nat; discriminate.
Qed.

Lemma press_cells_shows : forall ports plens used vs,
  List.length ports = List.length vs -> List.length plens = List.length vs ->
  Forall2 cell_shows (press_cells ports plens used vs) vs.
Proof.
  induction ports as [|p ps IH]; intros plens used vs H1 H2.
  - destruct vs; [|discriminate]. simpl. constructor.
  - destruct vs as [|v r]; [discriminate|]. destruct plens as [|n ns]; [discriminate|].
    simpl. constructor; [apply press_cell_shows|]. apply IH; simpl in *; lia.
Qed.

Lemma port_lens_length : forall a, List.length (port_lens a) = List.length (a_ports a).
Proof. intros a. unfold port_lens. rewrite map_length, seq_length. reflexivity. Qed.

(* ------------------------------------------------------------------ critical-path cells *)
Lemma sublist_cp_nums : forall k cp, sublist_cp cp k = true ->
  forall e, In e cp -> exists l, In l k /\ cp_num e = l_num l /\ f_biteq (cp_lat e) (l_lat_cp l) = true.
Proof.
  induction k as [|l k IH]; intros cp H e He.
  - destruct cp; [destruct He|discriminate].
  - destruct cp as [|e0 cp']; [destruct He|].
    simpl in H.
    destruct (andb (Z.eqb (cp_num e0) (l_num l)) (f_biteq (cp_lat e0) (l_lat_cp l))) eqn:M.
    + apply andb_prop in M. destruct M as [M1 M2]. apply Z.eqb_eq in M1.
      destruct He as [<-|He].
      * exists l. split; [left; reflexivity|]. split; assumption.
      * destruct (IH cp' H e He) as [l' [A B]]. exists l'. split; [right; exact A|exact B].
    + destruct (IH (e0 :: cp') H e He) as [l' [A B]]. exists l'. split; [right; exact A|exact B].
Qed.

Lemma cp_cell_none : forall cp n, (forall e, In e cp -> cp_num e <> n) -> cp_cell cp n = None.
Proof.
  intros cp n H. unfold cp_cell. destruct (find _ cp) as [e|] eqn:F; [|reflexivity].
  apply find_some in F. destruct F as [F1 F2]. apply Z.eqb_eq in F2. exfalso. exact (H e F1 F2).
Qed.

Lemma cp_cell_some : forall cp n v, cp_cell cp n = Some v -> exists e, In e cp /\ cp_num e = n /\ cp_lat e = v.
Proof.
  intros cp n v. unfold cp_cell. destruct (find _ cp) as [e|] eqn:F; [|discriminate].
  intros H. injection H as <-. apply find_some in F. destruct F as [F1 F2]. apply Z.eqb_eq in F2.
  exists e. repeat split; assumption.
Qed.

Lemma sublist_cp_nil : forall k, sublist_cp [] k = true.
Proof. destruct k; reflexivity. Qed.

Lemma flat_map_ext_in' : forall {A B} (f g : A -> list B) (l : list A),
  (forall x, In x l -> f x = g x) -> flat_map f l = flat_map g l.
Proof.
  intros A B f g. induction l as [|x l IH]; intros H; simpl; [reflexivity|].
  rewrite (H x (or_introl eq_refl)), IH; [reflexivity|]. intros y Hy. apply H. right. exact Hy.
Qed.

Definition opt_list {A} (o : option A) : list A := match o with Some v => [v] | None => [] end.

Lemma shown_cp_cells : forall k cp, sublist_cp cp k = true -> nodupb (map l_num k) = true ->
  flat_map (fun l => opt_list (cp_cell cp (l_num l))) k = map cp_lat cp.
Proof.
  induction k as [|l k IH]; intros cp H N.
  - destruct cp; [reflexivity|discriminate].
  - simpl in N. apply andb_prop in N. destruct N as [Nh Nk]. apply negb_true_iff in Nh.
    assert (Hfresh : forall l', In l' k -> l_num l' <> l_num l).
    { intros l' Hl' Eq. assert (X : existsb (Z.eqb (l_num l)) (map l_num k) = true).
      { apply existsb_Zeqb_In. rewrite <- Eq. apply in_map. exact Hl'. }
      congruence. }
    destruct cp as [|e0 cp'].
    + cbn [flat_map map]. rewrite (IH [] (sublist_cp_nil k) Nk). reflexivity.
    + simpl in H.
      destruct (andb (Z.eqb (cp_num e0) (l_num l)) (f_biteq (cp_lat e0) (l_lat_cp l))) eqn:M.
      * apply andb_prop in M. destruct M as [M1 M2].
        simpl flat_map. unfold cp_cell at 1. simpl find. rewrite M1. simpl opt_list. simpl app.
        simpl map. f_equal.
        rewrite <- (IH cp' H Nk).
        apply flat_map_ext_in'.
        intros l' Hl'. unfold cp_cell. simpl find.
        apply Z.eqb_eq in M1.
        destruct (Z.eqb_spec (cp_num e0) (l_num l')) as [E|E]; [|reflexivity].
        exfalso. apply (Hfresh l' Hl'). congruence.
      * simpl flat_map.
        rewrite cp_cell_none.
        -- simpl. apply IH; assumption.
        -- intros e He Eq. destruct (sublist_cp_nums k (e0 :: cp') H e He) as [l' [A [B _]]].
           apply (Hfresh l' A). congruence.
Qed.

(* ------------------------------------------------------------------ flag symbols *)
Definition has_X (s : string) : bool :=
  (fix go (s : string) : bool := match s with EmptyString => false | String c r => orb (Ascii.eqb c "X"%char) (go r) end) s.

Lemma flag_symbols_X : forall f, has_X (flag_symbols f) = fl_tp_unkwn f.
Proof. intros [tp lt nb hl ld hld hst]. destruct tp, nb, hl; reflexivity. Qed.

(* ------------------------------------------------------------------ totals of the dict's own kernel lines *)
Definition d_summed (k : list dline) : list dline := filter (fun l => negb (f_is_zero (d_tp l))) k.
Definition d_totals (k : list dline) : list float :=
  match map (fun col => f_round2 (f_sum col)) (zip_cols (map d_press (d_summed k))) with
  | [] => match k with l :: _ => d_press l | [] => [] end
  | s => s
  end.

Definition dline_of (a : analysis) (l : aline) : dline :=
  {| d_num := l_num l; d_press := l_press l; d_lat_cp := l_lat_cp l;
     d_lat_lcd := match dict_get (l_num l) (lcd_lines a) with Some v => v | None => 0%float end;
     d_flags := l_flags l; d_tp := l_tp l |}.

Lemma filter_map_comm : forall {A B} (f : A -> B) (p : B -> bool) (l : list A),
  filter p (map f l) = map f (filter (fun x => p (f x)) l).
Proof.
  intros A B f p. induction l as [|x l IH]; simpl; [reflexivity|].
  destruct (p (f x)); simpl; rewrite IH; reflexivity.
Qed.

Lemma d_totals_model : forall a, d_totals (map (dline_of a) (a_kernel a)) = tp_sum (a_kernel a).
Proof.
  intros a. unfold d_totals, tp_sum, throughput_sum, d_summed, summed_lines.
  rewrite filter_map_comm. simpl. rewrite map_map. simpl.
  destruct (map (fun col => f_round2 (f_sum col)) (zip_cols (map (fun x => l_press x) (filter (fun x => negb (f_is_zero (l_tp x))) (a_kernel a))))) eqn:E.
  - destruct (a_kernel a); reflexivity.
  - reflexivity.
Qed.
