(* C10 -- token-level parser lemma, operand by operand:
     p_operand first (toks_wop o ++ rest) = OpGot (den_wop o) rest
   for every well-formed written operand o and every admissible continuation rest. *)
From Coq Require Import String Ascii List Bool Arith NArith ZArith Lia.
From OV Require Import Model.LexA64 Model.ParseA64 Model.SyntaxA64 Proofs.ParseA64Round Proofs.ParseA64Regs.
Import ListNotations.
Open Scope string_scope.

Local Arguments classify : simpl never.
Local Arguments has_shift_prefix : simpl never.
Local Arguments shift_split : simpl never.
Local Arguments reg_word : simpl never.
Local Arguments den_wreg : simpl never.
Local Arguments num_word : simpl never.
Local Arguments num_value : simpl never.
Local Arguments lower : simpl never.
Local Arguments String.eqb : simpl never.

(* what may follow an operand: the end of the operands, or a comma and an operand that does not
   start with a word spelled like a shift operator *)
Inductive safe (fx : fixes) : list tok -> Prop :=
| safe_nil : safe fx []
| safe_c : forall raw, safe fx [TC raw]
| safe_w : forall w r, has_shift_prefix fx w = false -> safe fx (TP "," :: TW w :: r)
| safe_p : forall c r, safe fx (TP "," :: TP c :: r).
Definition ends (rest : list tok) : Prop := rest = [] \/ exists raw, rest = [TC raw].
Lemma ends_safe : forall fx rest, ends rest -> safe fx rest.
Proof. intros fx rest [->|[raw ->]]; constructor. Qed.

Lemma hsp_false : forall fx w, has_shift_prefix fx w = false ->
  shift_split fx w = None /\ String.eqb (lower w) "mul" = false.
Proof.
  intros fx w H. unfold has_shift_prefix in H. apply orb_false_iff in H. destruct H as [H1 H2]. split; auto.
  destruct (shift_split fx w); [discriminate|reflexivity].
Qed.

Lemma p_shift_safe : forall fx rest, safe fx rest -> p_shift fx rest = ShNone.
Proof.
  intros fx rest H. inversion H; subst; try reflexivity.
  destruct (hsp_false fx w H0) as [E1 E2]. unfold p_shift. rewrite E2, E1. reflexivity.
Qed.
Lemma arith_safe : forall fx rest, safe fx rest -> arith_follows fx rest = false.
Proof.
  intros fx rest H. inversion H; subst; try reflexivity.
  destruct (hsp_false fx w H0) as [E1 E2]. unfold arith_follows. rewrite E2, E1. reflexivity.
Qed.
Lemma fpf_safe : forall fx rest, safe fx rest -> float_piece_follows rest = false.
Proof. intros fx rest H. inversion H; subst; reflexivity. Qed.
Lemma guard_safe : forall fx k r rest, safe fx rest -> guard_piece k r rest = false.
Proof. intros fx k r rest H. inversion H; subst; reflexivity. Qed.
Lemma p_reg_ext_safe : forall fx d k rest, safe fx rest -> p_reg_ext d k rest = Some (d, rest).
Proof.
  intros fx d k rest H. unfold p_reg_ext. rewrite (guard_safe fx k d rest H).
  destruct k; inversion H; subst; try reflexivity; destruct (r_shape d); reflexivity.
Qed.

(* ---------------------------------------------------------------- registers *)
Lemma op_regword : forall fx w d k first rest,
  classify w = CReg d k -> safe fx rest -> p_operand fx first (TW w :: rest) = OpGot [OReg d] rest.
Proof.
  intros fx w d k first rest Hc Hs. unfold p_operand. rewrite Hc, (p_reg_ext_safe fx d k rest Hs), (p_shift_safe fx rest Hs).
  reflexivity.
Qed.

Lemma vec_not_pred : forall c, memb c vec_pres = true -> memb c pred_pres = false.
Proof. intros c; destruct c as [[|] [|] [|] [|] [|] [|] [|] [|]]; vm_compute; intros; try reflexivity; discriminate. Qed.

Lemma den_wreg_fields : forall r, r_index (den_wreg r) = None /\ r_pred (den_wreg r) = None.
Proof. intros r. split; reflexivity. Qed.

Lemma op_wregop : forall fx o first rest, wregop_okb o = true -> safe fx rest ->
  p_operand fx first (toks_wregop o ++ rest)%list = OpGot [OReg (den_wregop o)] rest.
Proof.
  intros fx o first rest Hok Hs. destruct o as [r|r i|r m|w|w]; simpl in Hok; simpl app.
  - apply (op_regword fx _ _ _ _ _ (classify_reg r Hok) Hs).
  - apply andb_true_iff in Hok. destruct Hok as [Hr Hok]. apply andb_true_iff in Hok. destruct Hok as [Hv Hi].
    unfold p_operand. rewrite (classify_reg r Hr). unfold kind_of. unfold is_pred. unfold is_vec in Hv.
    rewrite (vec_not_pred _ Hv). unfold is_vec. rewrite Hv.
    unfold p_reg_ext. simpl guard_piece. cbv iota. rewrite Hi. rewrite (p_shift_safe fx rest Hs). reflexivity.
  - apply andb_true_iff in Hok. destruct Hok as [Hr Hok]. apply andb_true_iff in Hok. destruct Hok as [Hp Hok].
    apply andb_true_iff in Hok. destruct Hok as [Ha Hm].
    unfold p_operand. rewrite (classify_reg r Hr). unfold kind_of. rewrite Hp.
    assert (Hsh : r_shape (den_wreg r) = None).
    { unfold den_wreg. destruct (w_arr r); [discriminate|reflexivity]. }
    unfold p_reg_ext. simpl guard_piece. cbv iota. rewrite Hsh.
    repeat (apply orb_true_iff in Hm; destruct Hm as [Hm|Hm];
            [apply Ascii.eqb_eq in Hm; subst m; simpl; rewrite (p_shift_safe fx rest Hs); reflexivity|]).
    discriminate.
  - pose proof (sp_facts w Hok) as F. unfold sp_fact in F. apply andb_true_iff in F. destruct F as [F _].
    apply wcls_eqb_eq in F. apply (op_regword fx _ _ _ _ _ F Hs).
  - pose proof (zr_facts w Hok) as F. unfold zr_fact in F. apply andb_true_iff in F. destruct F as [F _].
    apply wcls_eqb_eq in F. apply (op_regword fx _ _ _ _ _ F Hs).
Qed.

(* ---------------------------------------------------------------- integer immediates, identifiers, condition codes *)
Lemma op_int : forall fx h n first rest, num_okb n = true -> safe fx rest ->
  p_operand fx first (num_toks h n ++ rest)%list = OpGot [OImmInt (num_value n)] rest.
Proof.
  intros fx h n first rest Hn Hs. destruct h; unfold num_toks, hash_toks; simpl app; unfold p_operand;
    rewrite (numeral_roundtrip n Hn), (arith_safe fx rest Hs); reflexivity.
Qed.

Lemma plain_ident_classify : forall w, plain_ident w = true -> classify w = CIdent.
Proof. intros w H. unfold plain_ident in H. destruct (classify w); try discriminate. reflexivity. Qed.

Lemma op_ident : forall fx h w first rest, plain_ident w = true -> (first = true -> prefetch_word w = false) -> safe fx rest ->
  p_operand fx first (hash_toks h ++ TW w :: rest)%list = OpGot [OIdent w] rest.
Proof.
  intros fx h w first rest Hw Hf Hs. destruct h; unfold hash_toks; simpl app; unfold p_operand;
    rewrite (plain_ident_classify w Hw), (arith_safe fx rest Hs); [reflexivity|].
  assert (E : andb first (prefetch_word w) = false).
  { destruct first; [rewrite (Hf eq_refl)|]; reflexivity. }
  rewrite E. inversion Hs; subst; rewrite ?andb_false_r; reflexivity.
Qed.

Lemma op_cond : forall fx w rest, mem_str w cond_words = true -> safe fx rest ->
  p_operand fx false (TW w :: rest) = OpGot [OCond (upper w)] rest.
Proof.
  intros fx w rest Hw Hs. pose proof (cond_facts w Hw) as F. unfold cond_fact in F.
  apply andb_true_iff in F. destruct F as [F _]. apply wcls_eqb_eq in F.
  unfold p_operand. rewrite F, (arith_safe fx rest Hs). reflexivity.
Qed.

(* ---------------------------------------------------------------- register lists and ranges *)
Lemma scalar_not_pred : forall c, memb c scalar_pres = true -> memb c pred_pres = false.
Proof. intros c; destruct c as [[|] [|] [|] [|] [|] [|] [|] [|]]; vm_compute; intros; try reflexivity; discriminate. Qed.
Lemma scalar_not_vec : forall c, memb c scalar_pres = true -> memb c vec_pres = false.
Proof. intros c; destruct c as [[|] [|] [|] [|] [|] [|] [|] [|]]; vm_compute; intros; try reflexivity; discriminate. Qed.

Lemma list_elem_ok : forall e, elem_okb e = true -> list_elem (reg_word e) = Some (den_wreg e).
Proof.
  intros e H. unfold elem_okb in H. apply andb_true_iff in H. destruct H as [Hr Hk].
  unfold list_elem. rewrite (classify_reg e Hr). unfold kind_of, is_pred, is_vec.
  apply orb_true_iff in Hk. destruct Hk as [Hv|Hsc].
  - unfold is_vec in Hv. rewrite (vec_not_pred _ Hv), Hv. reflexivity.
  - unfold is_scalar in Hsc. rewrite (scalar_not_pred _ Hsc), (scalar_not_vec _ Hsc). reflexivity.
Qed.

Definition elem_toks (els : list wreg) : list tok := sep_by (TP ",") (map (fun e => TW (reg_word e)) els).

Lemma p_list_elems_ok : forall els fuel rest,
  els <> [] -> length els <= fuel -> forallb elem_okb els = true ->
  p_list_elems fuel (elem_toks els ++ TP "}" :: rest)%list = Some (map den_wreg els, rest).
Proof.
  induction els as [|e els IH]; intros fuel rest Hne Hlen Hok; [congruence|].
  destruct fuel as [|f]; [simpl in Hlen; lia|].
  simpl in Hok. apply andb_true_iff in Hok. destruct Hok as [He Hels].
  destruct els as [|e2 els'].
  - unfold elem_toks. simpl. rewrite (list_elem_ok e He). reflexivity.
  - assert (IH' := IH f rest ltac:(discriminate) ltac:(simpl in *; lia) Hels).
    unfold elem_toks in *. simpl map. simpl sep_by. simpl app.
    simpl p_list_elems. rewrite (list_elem_ok e He).
    simpl map in IH'. simpl sep_by in IH'. rewrite IH'. reflexivity.
Qed.

Lemma sep_by_length : forall (s : tok) l, length l <= length (sep_by s l).
Proof.
  intros s l. induction l as [|x l IH]; [simpl; lia|].
  destruct l as [|y l']; [simpl; lia|]. simpl sep_by. simpl length in *. lia.
Qed.

Lemma list_index_ok : forall fx i rest, idx_okb i = true -> safe fx rest ->
  list_index (idx_toks i ++ rest)%list = Some (den_idx i, rest).
Proof.
  intros fx i rest Hi Hs. destruct i as [d|]; simpl in *.
  - rewrite Hi. reflexivity.
  - inversion Hs; subst; reflexivity.
Qed.

Lemma op_list : forall fx els i first rest,
  nonempty_l els = true -> forallb elem_okb els = true -> idx_okb i = true -> safe fx rest ->
  p_operand fx first (toks_wop (WList els i) ++ rest)%list = OpGot (den_wop (WList els i)) rest.
Proof.
  intros fx els i first rest Hne Hok Hi Hs.
  assert (Hne' : els <> []) by (destruct els; [discriminate|congruence]).
  simpl toks_wop. fold (elem_toks els).
  change ((TP "{" :: elem_toks els ++ TP "}" :: idx_toks i) ++ rest)%list
    with (TP "{" :: (elem_toks els ++ TP "}" :: idx_toks i) ++ rest)%list.
  rewrite <- app_assoc. simpl app at 2.
  unfold p_operand.
  assert (E : p_reglist (elem_toks els ++ TP "}" :: idx_toks i ++ rest)%list =
              Some (map (set_index (den_idx i)) (map den_wreg els), rest)).
  { unfold p_reglist.
    assert (P : p_list_elems (S (length (elem_toks els ++ TP "}" :: idx_toks i ++ rest)%list))
                  (elem_toks els ++ TP "}" :: idx_toks i ++ rest)%list = Some (map den_wreg els, (idx_toks i ++ rest)%list)).
    { apply p_list_elems_ok; auto. rewrite app_length. unfold elem_toks.
      pose proof (sep_by_length (TP ",") (map (fun e => TW (reg_word e)) els)) as L. rewrite map_length in L. lia. }
    destruct els as [|e els']; [congruence|].
    destruct els' as [|e2 els'']; unfold elem_toks in *; simpl map in *; simpl sep_by in *; simpl app in *;
      rewrite P, (list_index_ok fx i rest Hi Hs); reflexivity. }
  rewrite E, (p_shift_safe fx rest Hs). simpl den_wop. rewrite !map_map. reflexivity.
Qed.

Lemma op_range : forall fx a b i first rest,
  elem_okb a = true -> elem_okb b = true -> idx_okb i = true -> safe fx rest ->
  p_operand fx first (toks_wop (WRange a b i) ++ rest)%list = OpGot (den_wop (WRange a b i)) rest.
Proof.
  intros fx a b i first rest Ha Hb Hi Hs. simpl toks_wop. simpl app. unfold p_operand, p_reglist.
  rewrite (list_elem_ok a Ha), (list_elem_ok b Hb), (list_index_ok fx i rest Hi Hs).
  assert (Ra : wreg_okb a = true) by (unfold elem_okb in Ha; apply andb_true_iff in Ha; tauto).
  assert (Rb : wreg_okb b = true) by (unfold elem_okb in Hb; apply andb_true_iff in Hb; tauto).
  rewrite (reg_num_val a Ra), (reg_num_val b Rb), (p_shift_safe fx rest Hs). simpl den_wop. rewrite !map_map. reflexivity.
Qed.

(* ---------------------------------------------------------------- memory operands *)
Lemma app_nil_r_str : forall s : string, s ++ "" = s.
Proof. induction s; simpl; congruence. Qed.

Definition close_toks (c : wmemclose) : list tok :=
  match c with MCNone => [] | MCPre => [TP "!"] | MCPost h n => TP "," :: num_toks h n end.
Definition close_okb (c : wmemclose) : bool := match c with MCPost _ n => num_okb n | _ => true end.

Lemma p_mem_close_ok : forall off bp bn ix sc c rest, close_okb c = true -> ends rest ->
  p_mem_close off bp bn ix sc (TP "]" :: close_toks c ++ rest)%list =
  MemGot (OMem off bp bn ix sc (match c with MCPre => true | _ => false end)
               (match c with MCPost _ n => Some (num_value n) | _ => None end)) rest.
Proof.
  intros off bp bn ix sc c rest Hc He. destruct c as [| |h n]; simpl close_toks.
  - destruct He as [->|[raw ->]]; reflexivity.
  - reflexivity.
  - simpl app. unfold p_mem_close. rewrite (p_imm_num h n rest Hc). reflexivity.
Qed.

(* the base register word: xN (either case) or a spelling of sp *)
Lemma base_facts : forall b, wbase_okb b = true ->
  exists rb kb, classify (base_word b) = CReg rb kb /\ mem_prefix rb kb = "x" /\
                mem_base_name rb kb (base_word b) = den_base_name b.
Proof.
  intros [up n|w] H; simpl in H.
  - set (c := (if up then "X" else "x")%char).
    assert (Hr : wreg_okb (mkwreg c n None) = true).
    { unfold wreg_okb. cbn [w_num w_pre w_arr]. rewrite H. destruct up; reflexivity. }
    assert (E : reg_word (mkwreg c n None) = base_word (BX up n)).
    { unfold reg_word, base_word. cbn [w_num w_pre w_arr]. rewrite app_nil_r_str. reflexivity. }
    pose proof (classify_reg _ Hr) as C. rewrite E in C.
    exists (den_wreg (mkwreg c n None)), (kind_of (mkwreg c n None)). split; [exact C|].
    destruct up; split; reflexivity.
  - pose proof (sp_facts w H) as F. unfold sp_fact in F. apply andb_true_iff in F. destruct F as [F1 F].
    apply andb_true_iff in F. destruct F as [_ F3]. apply wcls_eqb_eq in F1. apply String.eqb_eq in F3.
    exists (plain "x" "sp"), KSp. split; [exact F1|]. split; [reflexivity|exact F3].
Qed.

Definition idx_word (p : ascii) (n : nat) : string := String p (nat_str n).
Lemma idx_facts : forall fx (p : ascii) (n : nat), memb p ["x";"w";"X";"W"]%char = true -> Nat.ltb n 32 = true ->
  classify (idx_word p n) = CReg (plain (s1 (low p)) (nat_str n)) KScalar /\ has_shift_prefix fx (idx_word p n) = false.
Proof.
  intros fx p n Hp Hn.
  assert (Hr : wreg_okb (mkwreg p n None) = true).
  { unfold wreg_okb. cbn [w_num w_pre w_arr]. rewrite Hn.
    repeat (apply orb_true_iff in Hp; destruct Hp as [Hp|Hp]; [apply Ascii.eqb_eq in Hp; subst p; reflexivity|]). discriminate. }
  assert (E : reg_word (mkwreg p n None) = idx_word p n).
  { unfold reg_word, idx_word. cbn [w_num w_pre w_arr]. rewrite app_nil_r_str. reflexivity. }
  pose proof (classify_reg _ Hr) as C. pose proof (reg_no_shift fx _ Hr) as S. rewrite E in C, S. split; [|exact S].
  rewrite C. f_equal.
  repeat (apply orb_true_iff in Hp; destruct Hp as [Hp|Hp]; [apply Ascii.eqb_eq in Hp; subst p; reflexivity|]). discriminate.
Qed.

(* a numeral word is not spelled like a shift operator *)
Lemma numhead_low : forall c, orb (is_digit c) (ceq c "-") = true ->
  (ceq "l" (low c) || ceq "a" (low c) || ceq "r" (low c) || ceq "s" (low c) || ceq "u" (low c) || ceq "m" (low c))%bool = false.
Proof. intros c; destruct c as [[|] [|] [|] [|] [|] [|] [|] [|]]; vm_compute; intros; try reflexivity; discriminate. Qed.
Lemma filter_nil : forall {A} (f : A -> bool) l, (forall x, In x l -> f x = false) -> filter f l = [].
Proof.
  induction l as [|x l IH]; intros H; [reflexivity|]. simpl. rewrite (H x (or_introl eq_refl)).
  apply IH. intros y Hy. apply H. right. exact Hy.
Qed.
Lemma numhead_no_shift : forall fx w, head_is (fun c => orb (is_digit c) (ceq c "-")) w = true -> has_shift_prefix fx w = false.
Proof.
  intros fx w H. apply hsp_mono. revert H. destruct w as [|c r]; intros H; [discriminate|]. simpl in H. pose proof (numhead_low c H) as F.
  repeat (apply orb_false_iff in F; destruct F as [F ?]).
  assert (L : lower (String c r) = String (low c) (lower r)) by reflexivity.
  assert (P : forall k op' , ceq k (low c) = false -> prefix_of (String k op') (lower (String c r)) = false).
  { intros k op' E. rewrite L. change (prefix_of (String k op') (String (low c) (lower r)))
      with (andb (ceq k (low c)) (prefix_of op' (lower r))). rewrite E. reflexivity. }
  unfold has_shift_prefix, shift_split.
  rewrite (filter_nil (fun op => prefix_of op (lower (String c r))) (shift_ops fx_pre)).
  - destruct (String.eqb (lower (String c r)) "mul") eqn:E; [|reflexivity].
    apply String.eqb_eq in E. rewrite L in E. injection E as E1 _. rewrite E1 in H0. discriminate.
  - intros op Hin. unfold shift_ops in Hin. simpl in Hin.
    repeat (destruct Hin as [<-|Hin]; [apply P; assumption|]). destruct Hin.
Qed.

Lemma num_word_head : forall n, num_okb n = true ->
  head_is (fun c => orb (is_digit c) (ceq c "-")) (num_word n) = true.
Proof.
  intros [neg hex d] H. unfold num_okb in H. cbn [n_hex n_digits] in H. unfold num_word. cbn [n_neg n_hex n_digits].
  destruct neg; [reflexivity|]. destruct hex; [reflexivity|].
  destruct (dec_parts d H) as (_ & _ & Hh & _). exact Hh.
Qed.
Lemma num_no_shift : forall fx n, num_okb n = true ->
  shift_split fx (num_word n) = None /\ String.eqb (lower (num_word n)) "mul" = false.
Proof. intros fx n H. apply hsp_false. apply numhead_no_shift. apply num_word_head. exact H. Qed.

Definition tail_toks (t : wmemtail) : list tok :=
  match t with
  | MTNone => []
  | MTOff h n => TP "," :: num_toks h n
  | MTIdx p n e => TP "," :: TW (idx_word p n) ::
                   match e with
                   | None => []
                   | Some (mkwext op am) => TP "," :: TW op :: match am with None => [] | Some (h, k) => num_toks h k end
                   end
  end.
Definition tail_okb (fx : fixes) (t : wmemtail) : bool :=
  match t with
  | MTNone => true
  | MTOff _ n => num_okb n
  | MTIdx p n e => andb (memb p ["x";"w";"X";"W"]%char)
                        (andb (Nat.ltb n 32) (match e with None => true | Some e' => wext_okb fx e' end))
  end.
Definition mem_off (t : wmemtail) : moff := match t with MTOff _ n => MOffImm (num_value n) | _ => MOffNone end.
Definition mem_ix (t : wmemtail) : option mindex :=
  match t with
  | MTIdx p n e => Some (mkmindex (s1 (low p)) (nat_str n)
                                  (match e with Some (mkwext op _) => Some (lower op) | None => None end)
                                  (match e with Some (mkwext _ (Some (_, k))) => Some (num_word k) | _ => None end))
  | _ => None
  end.
Definition mem_scale (t : wmemtail) : Z :=
  match t with MTIdx _ _ (Some (mkwext _ (Some (_, k)))) => Z.pow 2 (num_value k) | _ => 1%Z end.

Lemma toks_mem_shape : forall b t c rest,
  (toks_wop (WMem b t c) ++ rest)%list =
  TP "[" :: TW (base_word b) :: (tail_toks t ++ TP "]" :: close_toks c ++ rest)%list.
Proof.
  intros b t c rest. unfold toks_wop.
  assert (E : forall (X Y : list tok), ((TP "[" :: TW (base_word b) :: X ++ TP "]" :: Y) ++ rest)%list =
              TP "[" :: TW (base_word b) :: (X ++ TP "]" :: Y ++ rest)%list).
  { intros X Y. simpl. rewrite <- app_assoc. reflexivity. }
  destruct t as [|h n|p n [[op [[h k]|]]|]]; destruct c as [| |h' n']; apply E.
Qed.

Local Arguments prefix_of : simpl never.
Local Arguments mem_str : simpl never.
Lemma p_mem_tail : forall fx b t cl, wbase_okb b = true -> tail_okb fx t = true ->
  p_mem fx (TW (base_word b) :: tail_toks t ++ TP "]" :: cl)%list =
  p_mem_close (mem_off t) "x" (den_base_name b) (mem_ix t) (mem_scale t) (TP "]" :: cl).
Proof.
  intros fx b t cl Hb Ht. destruct (base_facts b Hb) as (rb & kb & Cb & Pb & Nb).
  unfold p_mem. rewrite Cb.
  destruct t as [|h n|p n e]; simpl tail_toks; simpl app.
  - (* [base] *)
    simpl. rewrite Pb, Nb. reflexivity.
  - (* [base, #imm] *)
    simpl in Ht. destruct (num_no_shift fx n Ht) as [S1 S2].
    destruct h; unfold num_toks, hash_toks; simpl app; simpl.
    + rewrite (numeral_roundtrip n Ht), Pb, Nb. reflexivity.
    + rewrite S2, S1, (numeral_roundtrip n Ht), Pb, Nb. reflexivity.
  - (* [base, xN ...] *)
    unfold tail_okb in Ht. apply andb_true_iff in Ht. destruct Ht as [Hp Ht]. apply andb_true_iff in Ht. destruct Ht as [Hn He].
    destruct (idx_facts fx p n Hp Hn) as [Ci Si]. destruct (hsp_false fx _ Si) as [S1 S2].
    destruct e as [[op am]|].
    + unfold wext_okb in He. apply andb_true_iff in He. destruct He as [Hop Ham].
      pose proof (ext_facts fx op Hop) as F. unfold ext_fact in F. apply andb_true_iff in F. destruct F as [F1 F2].
      apply negb_true_iff in F2.
      destruct (shift_split fx op) as [[o tl]|] eqn:Eo; [|discriminate]. destruct tl; [|discriminate].
      apply andb_true_iff in F1. destruct F1 as [F1 F3]. apply String.eqb_eq in F1. subst o.
      destruct am as [[h k]|].
      * apply andb_true_iff in Ham. destruct Ham as [Hk Ham]. apply andb_true_iff in Ham. destruct Ham as [Hneg Hhex].
        apply negb_true_iff in Hneg, Hhex.
        simpl. rewrite S2, S1, Ci. simpl. rewrite F2, Eo, (p_imm_num h k _ Hk).
        assert (W : num_word k = n_digits k) by (unfold num_word; rewrite Hneg, Hhex; reflexivity).
        assert (Hd : dec_ok (n_digits k) = true) by (unfold num_okb in Hk; rewrite Hhex in Hk; exact Hk).
        destruct (dec_parts _ Hd) as (_ & Hdig & _ & Hm).
        rewrite W, Hm, (digits_not_0x _ Hdig), F3. simpl. rewrite Pb, Nb. reflexivity.
      * simpl. rewrite S2, S1, Ci. simpl. rewrite F2, Eo. simpl. rewrite Pb, Nb. reflexivity.
    + simpl. rewrite S2, S1, Ci. simpl. rewrite Pb, Nb. reflexivity.
Qed.

Lemma op_mem : forall fx b t c first rest,
  wbase_okb b = true -> tail_okb fx t = true -> close_okb c = true -> ends rest ->
  p_operand fx first (toks_wop (WMem b t c) ++ rest)%list = OpGot (den_wop (WMem b t c)) rest.
Proof.
  intros fx b t c first rest Hb Ht Hc He. rewrite toks_mem_shape. unfold p_operand.
  rewrite (p_mem_tail fx b t _ Hb Ht), (p_mem_close_ok _ _ _ _ _ c rest Hc He).
  destruct t as [|h n|p n [[op [[h k]|]]|]]; reflexivity.
Qed.

(* ---------------------------------------------------------------- floating-point immediates *)
Lemma span_app : forall f a b, sall f a = true -> head_is f b = false -> span f (a ++ b) = (a, b).
Proof.
  induction a as [|c r IH]; intros b Ha Hb.
  - simpl. destruct b as [|c' b']; [reflexivity|]. simpl in *. rewrite Hb. reflexivity.
  - simpl in Ha. apply andb_true_iff in Ha. destruct Ha as [Hc Hr]. simpl. rewrite Hc, (IH b Hr Hb). reflexivity.
Qed.
Lemma digits_dot_not_0x : forall d r, all_digits d = true -> prefix_of "0x" (d ++ String "." r) = false.
Proof.
  intros d r H. unfold all_digits in H. apply andb_true_iff in H. destruct H as [Hne Hd].
  destruct d as [|a [|b d']]; [discriminate| |].
  - change (prefix_of "0x" (String a "" ++ String "." r)) with (andb (ceq "0" a) (andb (ceq "x" ".") (prefix_of "" r))).
    change (ceq "x" ".") with false. apply andb_false_r.
  - change (prefix_of "0x" (String a (String b d') ++ String "." r))
      with (andb (ceq "0" a) (andb (ceq "x" b) (prefix_of "" (d' ++ String "." r)))).
    simpl in Hd. apply andb_true_iff in Hd. destruct Hd as [_ Hd]. apply andb_true_iff in Hd. destruct Hd as [Hb _].
    rewrite (digit_not_x b Hb). apply andb_false_r.
Qed.
Lemma digits_head : forall d, all_digits d = true ->
  head_is (fun c => orb (is_digit c) (ceq c "-")) d = true /\ head_is (ceq "-") d = false.
Proof.
  intros d H. unfold all_digits in H. apply andb_true_iff in H. destruct H as [Hne Hd].
  destruct d as [|a d']; [discriminate|]. simpl in *. apply andb_true_iff in Hd. destruct Hd as [Ha _].
  rewrite Ha. split; [reflexivity|]. apply digit_not_minus. exact Ha.
Qed.

Definition float_tail (f : wfloat) : string :=
  (match f_exp f with None => "" | Some (e, sg, d) => String e (String sg d) end)
  ++ (match f_suffix f with None => "" | Some c => s1 c end).

Lemma number_word_float : forall (neg : bool) (ip fp tail : string),
  all_digits ip = true -> all_digits fp = true -> head_is is_digit tail = false ->
  number_word ((if neg then "-" else "") ++ ip ++ "." ++ fp ++ tail) =
  let mant := (if neg then "-" else "") ++ ip ++ "." ++ fp in
  match tail with
  | EmptyString => CFlt false mant None
  | String e t3 =>
    if andb (orb (ceq e "f") (ceq e "F")) (negb (nonempty t3)) then CFlt true mant None
    else if negb (is_e e) then CBad
    else match t3 with
         | String sg t4 =>
           if negb (is_sign sg) then CBad
           else let (ex, t5) := span is_digit t4 in
                if negb (nonempty ex) then CBad
                else match t5 with
                     | EmptyString => CFlt false mant (Some (s1 sg, ex))
                     | String f EmptyString => if orb (ceq f "f") (ceq f "F") then CFlt true mant (Some (s1 sg, ex)) else CBad
                     | _ => CBad
                     end
         | EmptyString => CBad
         end
  end.
Proof.
  intros neg ip fp tail Hip Hfp Ht.
  destruct (digits_head ip Hip) as [_ Hm].
  assert (Sip : sall is_digit ip = true) by (unfold all_digits in Hip; apply andb_true_iff in Hip; tauto).
  assert (Sfp : sall is_digit fp = true) by (unfold all_digits in Hfp; apply andb_true_iff in Hfp; tauto).
  assert (Nip : nonempty ip = true) by (unfold all_digits in Hip; apply andb_true_iff in Hip; tauto).
  assert (Nfp : nonempty fp = true) by (unfold all_digits in Hfp; apply andb_true_iff in Hfp; tauto).
  assert (U : forall u, u = ip ++ "." ++ fp ++ tail ->
              prefix_of "0x" u = false /\ span is_digit u = (ip, "." ++ fp ++ tail)).
  { intros u ->. split; [apply digits_dot_not_0x; exact Hip|]. apply span_app; [exact Sip|reflexivity]. }
  destruct (U _ eq_refl) as [P0 S0].
  assert (S1 : span is_digit (fp ++ tail) = (fp, tail)) by (apply span_app; assumption).
  unfold number_word.
  destruct neg.
  - change ("-" ++ ip ++ "." ++ fp ++ tail) with (String "-" (ip ++ "." ++ fp ++ tail)).
    change (head_is (ceq "-") (String "-" (ip ++ "." ++ fp ++ tail))) with true. cbv iota.
    change (drop 1 (String "-" (ip ++ "." ++ fp ++ tail))) with (ip ++ "." ++ fp ++ tail).
    rewrite P0, S0, Nip. simpl negb. cbv iota.
    change ("." ++ fp ++ tail) with (String "." (fp ++ tail)). cbv iota.
    change (ceq "." ".") with true. simpl negb. cbv iota. rewrite S1, Nfp. reflexivity.
  - change ("" ++ ip ++ "." ++ fp ++ tail) with (ip ++ "." ++ fp ++ tail).
    assert (Hm' : head_is (ceq "-") (ip ++ "." ++ fp ++ tail) = false).
    { destruct ip; [discriminate|]. exact Hm. }
    rewrite Hm', P0, S0, Nip. simpl negb. cbv iota.
    change ("." ++ fp ++ tail) with (String "." (fp ++ tail)). cbv iota.
    change (ceq "." ".") with true. simpl negb. cbv iota. rewrite S1, Nfp. reflexivity.
Qed.

Lemma app_assoc_str : forall a b c : string, (a ++ b) ++ c = a ++ (b ++ c).
Proof. induction a; simpl; intros; congruence. Qed.

Lemma classify_float : forall f, wfloat_okb f = true ->
  classify (float_word f) =
  CFlt (match f_suffix f with Some _ => true | None => false end) (float_mant f)
       (match f_exp f with None => None | Some (_, sg, d) => Some (s1 sg, d) end).
Proof.
  intros [neg ip fp ex suf] H. unfold wfloat_okb in H. cbn [f_int f_frac f_exp f_suffix] in H.
  apply andb_true_iff in H. destruct H as [Hip H]. apply andb_true_iff in H. destruct H as [Hfp H].
  apply andb_true_iff in H. destruct H as [Hex Hsuf].
  set (tail := float_tail (mkwfloat neg ip fp ex suf)).
  assert (W : float_word (mkwfloat neg ip fp ex suf) = (if neg then "-" else "") ++ ip ++ "." ++ fp ++ tail).
  { unfold float_word, float_mant, tail, float_tail. cbn [f_neg f_int f_frac f_exp f_suffix].
    rewrite !app_assoc_str. reflexivity. }
  assert (M : float_mant (mkwfloat neg ip fp ex suf) = (if neg then "-" else "") ++ ip ++ "." ++ fp) by reflexivity.
  assert (Hd : head_is (fun c => orb (is_digit c) (ceq c "-")) ((if neg then "-" else "") ++ ip ++ "." ++ fp ++ tail) = true).
  { destruct neg; [reflexivity|]. destruct (digits_head ip Hip) as [Hh _]. destruct ip; [discriminate|]. exact Hh. }
  assert (Es : forall c, orb (ceq c "f") (ceq c "F") = true -> c = "f"%char \/ c = "F"%char).
  { intros c Hc. apply orb_true_iff in Hc. destruct Hc as [Hc|Hc]; apply Ascii.eqb_eq in Hc; auto. }
  assert (Ee : forall c, is_e c = true -> c = "e"%char \/ c = "E"%char).
  { intros c Hc. unfold is_e in Hc. apply orb_true_iff in Hc. destruct Hc as [Hc|Hc]; apply Ascii.eqb_eq in Hc; auto. }
  assert (Eg : forall c, is_sign c = true -> c = "+"%char \/ c = "-"%char).
  { intros c Hc. unfold is_sign in Hc. apply orb_true_iff in Hc. destruct Hc as [Hc|Hc]; apply Ascii.eqb_eq in Hc; auto. }
  assert (Ht : head_is is_digit tail = false).
  { unfold tail, float_tail. cbn [f_exp f_suffix]. destruct ex as [[[e sg] d]|].
    - apply andb_true_iff in Hex. destruct Hex as [He _]. destruct (Ee e He) as [->| ->]; reflexivity.
    - destruct suf as [c|]; [|reflexivity]. destruct (Es c Hsuf) as [->| ->]; reflexivity. }
  rewrite W, M. unfold classify. rewrite Hd. rewrite (number_word_float neg ip fp tail Hip Hfp Ht).
  unfold tail, float_tail. cbn [f_exp f_suffix]. cbv zeta.
  destruct ex as [[[e sg] d]|].
  - apply andb_true_iff in Hex. destruct Hex as [He Hex]. apply andb_true_iff in Hex. destruct Hex as [Hsg Hdd].
    assert (Sd : sall is_digit d = true) by (unfold all_digits in Hdd; apply andb_true_iff in Hdd; tauto).
    assert (Nd : nonempty d = true) by (unfold all_digits in Hdd; apply andb_true_iff in Hdd; tauto).
    destruct suf as [c|].
    + assert (Sp : span is_digit (d ++ s1 c) = (d, s1 c)).
      { apply span_app; [exact Sd|]. destruct (Es c Hsuf) as [->| ->]; reflexivity. }
      destruct (Ee e He) as [->| ->]; destruct (Eg sg Hsg) as [->| ->]; destruct (Es c Hsuf) as [->| ->];
        simpl; rewrite Sp, Nd; reflexivity.
    + assert (Sp : span is_digit (d ++ "") = (d, "")).
      { apply span_app; [exact Sd|reflexivity]. }
      destruct (Ee e He) as [->| ->]; destruct (Eg sg Hsg) as [->| ->]; simpl; rewrite Sp, Nd; reflexivity.
  - destruct suf as [c|]; [|reflexivity]. destruct (Es c Hsuf) as [->| ->]; reflexivity.
Qed.

Lemma op_flt : forall fx h f first rest, wfloat_okb f = true -> safe fx rest ->
  p_operand fx first (toks_wop (WFlt h f) ++ rest)%list = OpGot (den_wop (WFlt h f)) rest.
Proof.
  intros fx h f first rest Hf Hs. destruct h; simpl toks_wop; unfold hash_toks; simpl app; unfold p_operand;
    rewrite (classify_float f Hf), (arith_safe fx rest Hs), (fpf_safe fx rest Hs); reflexivity.
Qed.
