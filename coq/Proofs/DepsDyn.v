(* Lemmas about the dynamically typed prelude (Model/DepsDyn.v) on EMBEDDED values of the hand model (Model/Deps.v), the loop
   principles used to re-prove the regenerated functions (Gen/DepsGen.v) equal to the hand model in PropsGen/C03deps.v, and
   the step-function form of the dependency scan.  Nothing here depends on generated text. *)
From Coq Require Import ZArith List Bool String Lia.
From OV Require Import Model.Deps Model.DepsDyn.
Import ListNotations.
Open Scope string_scope. Open Scope list_scope.

(* ---------------------------------------------------------------- loops *)
(* is_x = f(x) or is_x   over the operands: the accumulator ends as the disjunction *)
Lemma loop_orb (f : opnd -> bool) body :
  (forall o b, body (emb_opnd o) (VBool b) = DOk (CNext (VBool (orb (f o) b)))) ->
  forall l b, py_loop (map emb_opnd l) (VBool b) body = DOk (inl (VBool (orb (existsb f l) b))).
Proof.
  intros H. induction l as [|x l IH]; intros b; [reflexivity|].
  cbn [map py_loop]. rewrite H. cbn [dbind]. rewrite IH. cbn [existsb].
  do 3 f_equal. destruct (f x), (existsb f l), b; reflexivity.
Qed.

(* the same when the body equation needs a side condition P on the operand *)
Lemma loop_orb_P (P : opnd -> Prop) (f : opnd -> bool) body :
  (forall o b, P o -> body (emb_opnd o) (VBool b) = DOk (CNext (VBool (orb (f o) b)))) ->
  forall l b, Forall P l -> py_loop (map emb_opnd l) (VBool b) body = DOk (inl (VBool (orb (existsb f l) b))).
Proof.
  intros H. induction l as [|x l IH]; intros b F; [reflexivity|]. inversion F as [|? ? Px Fl]; subst.
  cbn [map py_loop]. rewrite (H _ _ Px). cbn [dbind]. rewrite (IH _ Fl). cbn [existsb].
  do 3 f_equal. destruct (f x), (existsb f l), b; reflexivity.
Qed.

(* for x in l: ... continue ... return True *)
Lemma loop_find (f : opnd -> bool) (body : pv -> unit -> dres (ctl unit)) :
  (forall o, body (emb_opnd o) tt = DOk (if f o then CRet (VBool true) else CNext tt)) ->
  forall l, py_loop (map emb_opnd l) tt body = DOk (if existsb f l then inr (VBool true) else inl tt).
Proof.
  intros H. induction l as [|x l IH]; [reflexivity|].
  cbn [map py_loop existsb]. rewrite H. destruct (f x); cbn [dbind orb]; [reflexivity | exact IH].
Qed.

(* a loop without break/return whose body is a step function on an embedded state *)
Lemma loop_fold {A St} (g : A -> pv) (E : St -> pv) (F : St -> A -> St) (body : pv -> pv -> dres (ctl pv)) :
  (forall x st, body (g x) (E st) = DOk (CNext (E (F st x)))) ->
  forall l st, py_loop (map g l) (E st) body = DOk (inl (E (fold_left F l st))).
Proof.
  intros H. induction l as [|x l IH]; intros st; [reflexivity|].
  cbn [map py_loop fold_left]. rewrite H. cbn [dbind]. apply IH.
Qed.

(* ---------------------------------------------------------------- register prefix: None or a str *)
Lemma pfx p : (if negb (py_is_none (emb_prefix p)) then DOk (emb_prefix p) else DOk (VStr "")) = DOk (VStr p).
Proof. destruct p; reflexivity. Qed.

(* ---------------------------------------------------------------- register_changes dicts *)
Notation embkc := (fun kc : string * change => (fst kc, emb_change (snd kc))).
Lemma str_assoc_emb s k : str_assoc (map embkc s) k = option_map emb_change (rs_get s k).
Proof.
  induction s as [|[k' c] s IH]; [reflexivity|]. cbn [map str_assoc rs_get fst snd].
  destruct (String.eqb k k'); [reflexivity | exact IH].
Qed.
Lemma str_set_emb s k c : str_set (map embkc s) k (emb_change c) = map embkc (rs_set s k c).
Proof.
  induction s as [|[k' c'] s IH]; [reflexivity|]. cbn [map str_set rs_set fst snd].
  destruct (String.eqb k k'); cbn [map fst snd]; [reflexivity | rewrite IH; reflexivity].
Qed.
Lemma str_set_emb_none s k : str_set (map embkc s) k VNone = map embkc (rs_set s k None).
Proof. exact (str_set_emb s k None). Qed.
Lemma str_set_emb_some s k nm v :
  str_set (map embkc s) k (VDict [("name", VStr nm); ("value", VInt v)]) = map embkc (rs_set s k (Some (nm, v))).
Proof. exact (str_set_emb s k (Some (nm, v))). Qed.
Lemma rs_get_set_same s k v : rs_get (rs_set s k v) k = Some v.
Proof.
  induction s as [|[k' c] s IH]; cbn [rs_set rs_get].
  - rewrite String.eqb_refl. reflexivity.
  - destruct (String.eqb k k') eqn:E; cbn [rs_get]; [rewrite String.eqb_refl; reflexivity | rewrite E; exact IH].
Qed.
Lemma rs_get_set_other s k k2 v : String.eqb k2 k = false -> rs_get (rs_set s k v) k2 = rs_get s k2.
Proof.
  intros N. induction s as [|[k' c] s IH]; cbn [rs_set rs_get].
  - rewrite N. reflexivity.
  - destruct (String.eqb k k') eqn:E; cbn [rs_get].
    + apply String.eqb_eq in E. subst k'. rewrite N. reflexivity.
    + destruct (String.eqb k2 k'); [reflexivity | exact IH].
Qed.
Lemma rs_set_set s k a b : rs_set (rs_set s k a) k b = rs_set s k b.
Proof.
  induction s as [|[k' c] s IH]; cbn [rs_set].
  - rewrite String.eqb_refl. reflexivity.
  - destruct (String.eqb k k') eqn:E; cbn [rs_set]; [rewrite String.eqb_refl; reflexivity | rewrite E, IH; reflexivity].
Qed.

(* ---------------------------------------------------------------- the scan as a step function *)
Definition regflag (a : opnd) : Prop := match a with OReg _ | OFlag _ => True | _ => False end.

(* a memory operand with address write-back (pre-/post-indexed) has a base register: is_written asks the register alias test
   about `dst.base` of such an operand without testing it for None (the parsers only produce write-back with a base) *)
Definition wf_mem (m : memop) : Prop := orb (m_pre m) (m_post m) = true -> m_base m <> None.
Definition wf_opnd (o : opnd) : Prop := match o with OMem m => wf_mem m | _ => True end.
Definition wf_line {T} (l : line (T:=T)) : Prop :=
  match l_sem l with Some (s, d, sd) => Forall wf_opnd (s ++ d ++ sd) | None => True end.

Section Step.
  Context {T : Type} (dep : regop -> regop -> bool).
  Notation line := (line (T:=T)).

  Definition flag_of (r : regop) : dflag := if r_pidx r then FPIndexed else FPlain.

  (* one iteration of the inner loop of find_depending for destination d at line l under tracked changes s:
     (reports, does the loop break here?, state after the line's own changes, state after its post-index bump) *)
  Definition scan_step (fd : bool) (d : opnd) (l : line) (s : rstate) : list (line * dflag) * bool :=
    let s1 := update_changes s (l_chg l) in
    match d with
    | OReg r => ((if is_read dep d l then [(l, flag_of r)] else []), is_written dep d l)
    | OFlag _ => if fd then ((if is_read dep d l then [(l, FPlain)] else []), is_written dep d l) else ([], false)
    | OMem m => ((if is_memload m l s1 then [(l, FStoreLoad)] else []), is_memstore m l)
    | OOther => ([], false)
    end.

  Fixpoint scanL (fd : bool) (d : opnd) (rest : list line) (s : rstate) : list (line * dflag) :=
    match rest with
    | [] => []
    | l :: more =>
      let '(o, stop) := scan_step fd d l s in
      if stop then o else o ++ scanL fd d more (update_changes (update_changes s (l_chg l)) (l_chg_post l))
    end.

  Definition find_dependingL (fd : bool) (l : line) (rest : list line) : list (line * dflag) :=
    flat_map (fun d => scanL fd d rest (update_changes (update_changes [] (l_chg l)) (l_chg_post l))) (dsts l).

  Definition rep_no (p : line * dflag) : nat * dflag := (l_no (fst p), snd p).

  Lemma scanL_scan fd d : forall rest s, map rep_no (scanL fd d rest s) = scan dep fd d rest s.
  Proof.
    induction rest as [|l more IH]; intros s; [reflexivity|].
    cbn [scanL scan]. unfold scan_step, flag_of.
    destruct d as [r|n|m|].
    - destruct (is_written dep (OReg r) l), (is_read dep (OReg r) l); cbn [map app]; try reflexivity;
        rewrite ?IH; reflexivity.
    - destruct fd; [|cbn [map app]; apply IH].
      destruct (is_written dep (OFlag n) l), (is_read dep (OFlag n) l); cbn [map app]; try reflexivity; rewrite ?IH; reflexivity.
    - destruct (is_memstore m l), (is_memload m l _); cbn [map app]; try reflexivity; rewrite ?IH; reflexivity.
    - cbn [map app]. apply IH.
  Qed.

  Lemma find_dependingL_spec fd l rest : map rep_no (find_dependingL fd l rest) = find_depending dep fd l rest.
  Proof.
    unfold find_dependingL, find_depending. induction (dsts l) as [|d ds IH]; [reflexivity|].
    cbn [flat_map]. rewrite map_app, scanL_scan, IH. reflexivity.
  Qed.

  (* the inner loop of find_depending over the enumerated instructions, from its step *)
  Definition is_item (it : pv) (l : line) : Prop := exists i, it = VTuple [VInt i; emb_line l].

  Lemma loop_scan (P : line -> Prop) (fd : bool) (d : opnd) (body : pv -> pv * pv -> dres (ctl (pv * pv))) :
    (forall i l s out, P l ->
        body (VTuple [VInt i; emb_line l]) (emb_changes s, VList (map emb_report out)) =
        DOk (let '(o, stop) := scan_step fd d l s in
             if stop then CBreak (emb_changes (update_changes s (l_chg l)), VList (map emb_report (out ++ o)))
             else CNext (emb_changes (update_changes (update_changes s (l_chg l)) (l_chg_post l)), VList (map emb_report (out ++ o))))) ->
    forall its rest, Forall2 is_item its rest -> Forall P rest -> forall s out,
      exists s', py_loop its (emb_changes s, VList (map emb_report out)) body =
                 DOk (inl (emb_changes s', VList (map emb_report (out ++ scanL fd d rest s)))).
  Proof.
    intros H its rest F. induction F as [|it l its rest [i Hi] F IH]; intros FP s out.
    - exists s. cbn [py_loop scanL]. rewrite app_nil_r. reflexivity.
    - inversion FP as [|? ? Pl FP']; subst. cbn [py_loop scanL]. rewrite (H _ _ _ _ Pl).
      destruct (scan_step fd d l s) as [o stop]. destruct stop; cbn [dbind].
      + eexists. reflexivity.
      + destruct (IH FP' (update_changes (update_changes s (l_chg l)) (l_chg_post l)) (out ++ o)) as [s' Hs'].
        exists s'. rewrite Hs'. rewrite app_assoc. reflexivity.
  Qed.

  Lemma enumerate_items (rest : list line) :
    exists its, py_enumerate (VList (map emb_line rest)) = DOk (VList its) /\ Forall2 is_item its rest.
  Proof.
    unfold py_enumerate. cbn [py_iter dbind]. eexists. split; [reflexivity|].
    rewrite map_length. generalize 0%nat. induction rest as [|l rest IH]; intros k; cbn; constructor.
    - eexists. reflexivity.
    - apply IH.
  Qed.

  Lemma fold_flat_map {A B} (f : A -> list B) : forall l acc, fold_left (fun o d => o ++ f d) l acc = acc ++ flat_map f l.
  Proof.
    induction l as [|x l IH]; intros acc; cbn [fold_left flat_map]; [rewrite app_nil_r; reflexivity|].
    rewrite IH, app_assoc. reflexivity.
  Qed.
End Step.
