(* The dynamic programme cp_opt (Model/CritPath.v) over exact rationals is an upper bound of the length of
   EVERY dependency chain of the kernel (DESIGN.md C04): the reported critical path, once shown equal to
   cp_opt by the certificate check, is therefore never smaller than any chain and never smaller than the
   latency of any single instruction. *)
From Coq Require Import ZArith QArith Lqa List Bool String Lia.
From OV Require Import Model.Num Model.Pressure Model.Deps Model.CritPath.
Import ListNotations.
Open Scope Q_scope.

Definition qedge := (edge (T:=Q)).
Notation cpmax := (nmax QNum).
Notation cpadd := (nadd QNum).

Lemma cpadd_eq a b : cpadd a b == a + b.
Proof. cbn [nadd QNum]. apply Qred_correct. Qed.

Lemma cpmax_l a b : a <= cpmax a b.
Proof.
  unfold nmax. cbn [nltb QNum]. unfold Qltb. destruct (Qle_bool b a) eqn:E; cbn [negb].
  - lra.
  - assert (~ b <= a) by (intros H; apply Qle_bool_iff in H; congruence). lra.
Qed.
Lemma cpmax_r a b : b <= cpmax a b.
Proof.
  unfold nmax. cbn [nltb QNum]. unfold Qltb. destruct (Qle_bool b a) eqn:E; cbn [negb].
  - apply Qle_bool_iff in E. exact E.
  - lra.
Qed.

(* ---------------------------------------------------------------- chains *)
(* a chain is a non-empty list of line numbers; consecutive ones joined by a (non-load) edge of g *)
Definition has_edge (g : list qedge) (u v : nat) (w : Q) : Prop := In ((u, false), v, w) g.

Inductive chain (g : list qedge) : list nat -> Q -> Prop :=      (* chain c with edge-sum E(c), no load stage *)
| ch_one n : chain g [n] 0
| ch_snoc c n m w e : chain g (c ++ [n]) e -> has_edge g n m w -> chain g (c ++ [n; m]) (e + w).

Definition first_of (c : list nat) : nat := hd 0%nat c.
Definition last_of (c : list nat) : nat := last c 0%nat.

(* length of a chain: edge latencies + leading load stage (only when the chain has >= 2 instructions) + latency of the last *)
Definition chain_len (g : list qedge) (lat : nat -> Q) (c : list nat) (e : Q) : Q :=
  e + (match c with _ :: _ :: _ => loadw QNum g (first_of c) | _ => 0 end) + lat (last_of c).

(* ---------------------------------------------------------------- the fold computing A(m) *)
Definition arrive (g : list qedge) (thr : list (nat * Q)) (n : nat) : Q :=
  fold_left (fun m e => let '((s, isld), t, w) := e in
                        if andb (negb isld) (Nat.eqb t n)
                        then match lookup thr s with Some x => cpmax m (cpadd x w) | None => m end
                        else m) g (n0 QNum).

Lemma arrive_fold_ge (thr : list (nat * Q)) n : forall g a,
  a <= fold_left (fun m e => let '((s, isld), t, w) := e in
                        if andb (negb isld) (Nat.eqb t n)
                        then match lookup thr s with Some x => cpmax m (cpadd x w) | None => m end
                        else m) g a.
Proof.
  induction g as [|[[[s isld] t] w] g IH]; intros a; cbn [fold_left]; [lra|].
  eapply Qle_trans; [|apply IH].
  destruct (andb (negb isld) (Nat.eqb t n)); [|lra].
  destruct (lookup thr s); [apply cpmax_l | lra].
Qed.

Lemma arrive_nonneg g thr n : 0 <= arrive g thr n.
Proof. unfold arrive. apply (arrive_fold_ge thr n g (n0 QNum)). Qed.

Lemma arrive_edge thr n : forall g a s w x,
  In ((s, false), n, w) g -> lookup thr s = Some x ->
  x + w <= fold_left (fun m e => let '((s, isld), t, w) := e in
                        if andb (negb isld) (Nat.eqb t n)
                        then match lookup thr s with Some x => cpmax m (cpadd x w) | None => m end
                        else m) g a.
Proof.
  induction g as [|[[[s' isld] t] w'] g IH]; intros a s w x Hin Hl; [contradiction|].
  destruct Hin as [E|Hin].
  - inversion E; subst. cbn [fold_left]. rewrite Nat.eqb_refl. cbn [negb andb]. rewrite Hl.
    eapply Qle_trans; [|apply arrive_fold_ge].
    pose proof (cpmax_r a (cpadd x w)). pose proof (cpadd_eq x w). lra.
  - cbn [fold_left]. eapply IH; eassumption.
Qed.

(* ---------------------------------------------------------------- invariant of cp_go *)
(* thr is correct for the processed lines: for every chain (within g) ending in a processed line n,
   E(c) + (load stage of its first instruction) <= thr n ... and E(c) bounded likewise *)
Definition through_ok (g : list qedge) (thr : list (nat * Q)) : Prop :=
  forall c e, chain g c e -> forall x, lookup thr (last_of c) = Some x ->
    e + loadw QNum g (first_of c) <= x.

Lemma last_snoc2 (c : list nat) n m : last_of (c ++ [n; m]) = m.
Proof. unfold last_of. replace (c ++ [n; m]) with ((c ++ [n]) ++ [m]) by (rewrite <- app_assoc; reflexivity). apply last_last. Qed.
Lemma last_snoc1 (c : list nat) n : last_of (c ++ [n]) = n.
Proof. unfold last_of. apply last_last. Qed.
Lemma first_snoc (c : list nat) n m : first_of (c ++ [n; m]) = first_of (c ++ [n]).
Proof. destruct c; reflexivity. Qed.

Lemma loadw_nonneg_fold n : forall g a, 0 <= a ->
  (forall s isld t w, In ((s, isld), t, w) g -> 0 <= w) ->
  0 <= fold_left (fun m e => let '((s, isld), t, w) := e in
                          if andb isld (andb (Nat.eqb s n) (Nat.eqb t n)) then w else m) g a.
Proof.
  induction g as [|[[[s isld] t] w] g IH]; intros a Ha Hw; simpl; [exact Ha|].
  apply IH.
  - destruct (andb isld (andb (Nat.eqb s n) (Nat.eqb t n))); [eapply Hw; left; reflexivity | exact Ha].
  - intros; eapply Hw; right; eassumption.
Qed.

(* Main invariant: processing lines in order, with every edge pointing from an already processed line.
   `done` = processed line numbers (keys of thr), `todo` = remaining (n, lat) pairs. *)
Definition edges_from_done (g : list qedge) (thr : list (nat * Q)) (n : nat) : Prop :=
  forall s w, has_edge g s n w -> exists x, lookup thr s = Some x.

Lemma lookup_cons_neq (thr : list (nat * Q)) n v k : k <> n -> lookup ((n, v) :: thr) k = lookup thr k.
Proof. intros H. simpl. destruct (Nat.eqb k n) eqn:E; [apply Nat.eqb_eq in E; congruence | reflexivity]. Qed.
Lemma lookup_cons_eq (thr : list (nat * Q)) n v : lookup ((n, v) :: thr) n = Some v.
Proof. simpl. rewrite Nat.eqb_refl. reflexivity. Qed.

(* a chain ending in n splits into: the singleton, or a chain ending in some s plus an edge s -> n *)
Lemma chain_last_cases g c e : chain g c e ->
  (c = [last_of c] /\ e == 0) \/
  (exists c0 s w e0, c = c0 ++ [s; last_of c] /\ chain g (c0 ++ [s]) e0 /\ has_edge g s (last_of c) w /\ e == e0 + w).
Proof.
  intros H. destruct H.
  - left. split; reflexivity.
  - right. exists c, n, w, e. rewrite last_snoc2. split; [reflexivity|]. split; [assumption|]. split; [assumption|reflexivity].
Qed.

Lemma step_through_ok g thr n :
  (forall s isld t w, In ((s, isld), t, w) g -> 0 <= w) ->
  through_ok g thr -> lookup thr n = None -> edges_from_done g thr n ->
  (forall s w, has_edge g s n w -> s <> n) ->
  through_ok g ((n, cpmax (arrive g thr n) (loadw QNum g n)) :: thr).
Proof.
  intros Hw TO Hn ED Hself c e Hc x Hx.
  destruct (Nat.eq_dec (last_of c) n) as [El|Nl].
  - rewrite El, lookup_cons_eq in Hx. inversion Hx; subst x. clear Hx.
    destruct (chain_last_cases _ _ _ Hc) as [(Ec & Ee)|(c0 & s & w & e0 & Ec & Hc0 & He & Ee)].
    + rewrite Ec, El. unfold first_of. cbn [hd]. rewrite Ee.
      eapply Qle_trans; [|apply cpmax_r]. lra.
    + rewrite El in He, Ec. destruct (ED s w He) as (xs & Hxs).
      specialize (TO _ _ Hc0 xs). rewrite last_snoc1 in TO. specialize (TO Hxs).
      rewrite Ec, first_snoc, Ee.
      eapply Qle_trans; [|apply cpmax_l].
      pose proof (arrive_edge thr n g (n0 QNum) s w xs He Hxs) as A. unfold arrive. lra.
  - rewrite lookup_cons_neq in Hx by exact Nl. eapply TO; eassumption.
Qed.

(* chains ending in n: E(c) <= arrive (without load stage) *)
Lemma arrive_bounds_chain g thr n :
  through_ok g thr -> edges_from_done g thr n ->
  forall c e, chain g c e -> last_of c = n ->
  (match c with _ :: _ :: _ => e + loadw QNum g (first_of c) | _ => e end) <= arrive g thr n.
Proof.
  intros TO ED c e Hc El.
  destruct (chain_last_cases _ _ _ Hc) as [(Ec & Ee)|(c0 & s & w & e0 & Ec & Hc0 & He & Ee)].
  - rewrite Ec. rewrite Ee. apply arrive_nonneg.
  - rewrite El in He, Ec. destruct (ED s w He) as (xs & Hxs).
    specialize (TO _ _ Hc0 xs). rewrite last_snoc1 in TO. specialize (TO Hxs).
    pose proof (arrive_edge thr n g (n0 QNum) s w xs He Hxs) as A. fold (arrive g thr n) in A.
    assert (Sh : match c with _ :: _ :: _ => e + loadw QNum g (first_of c) | _ => e end == e + loadw QNum g (first_of c)).
    { rewrite Ec. destruct c0 as [|a [|b c0]]; cbn [app]; reflexivity. }
    rewrite Sh, Ec, first_snoc, Ee. lra.
Qed.

Lemma cp_go_ge_best g : forall k thr best, best <= cp_go QNum g k thr best.
Proof.
  induction k as [|[n lat] k IH]; intros thr best; cbn [cp_go]; [lra|].
  eapply Qle_trans; [|apply IH]. apply cpmax_l.
Qed.

(* ---------------------------------------------------------------- the theorem *)
(* well-formed input: line numbers distinct, edges weigh >= 0 and point from a line to a LATER line of k *)
Fixpoint forward_ok (g : list qedge) (done : list nat) (k : list (nat * Q)) : Prop :=
  match k with
  | [] => True
  | (n, _) :: r => ~ In n done /\ (forall s w, has_edge g s n w -> In s done) /\ forward_ok g (n :: done) r
  end.

Lemma cp_go_upper g : (forall s isld t w, In ((s, isld), t, w) g -> 0 <= w) ->
  forall k thr best done,
  forward_ok g done k ->
  (forall s, In s done <-> exists x, lookup thr s = Some x) ->
  through_ok g thr ->
  forall c e n lat, chain g c e -> last_of c = n -> In (n, lat) k ->
  (match c with _ :: _ :: _ => e + loadw QNum g (first_of c) | _ => e end) + lat <= cp_go QNum g k thr best.
Proof.
  intros Hw. induction k as [|[m latm] k IH]; intros thr best done FO Hdone TO c e n lat Hc El Hin; [contradiction|].
  destruct FO as (Hnot & Hed & FO'). cbn [cp_go].
  assert (Hm : lookup thr m = None).
  { destruct (lookup thr m) eqn:L; [|reflexivity]. exfalso. apply Hnot. apply Hdone. eauto. }
  assert (ED : edges_from_done g thr m).
  { intros s w He. apply Hdone. eapply Hed; eassumption. }
  assert (Hself : forall s w, has_edge g s m w -> s <> m).
  { intros s w He E. subst. apply Hnot. eapply Hed; eassumption. }
  fold (arrive g thr m).
  destruct Hin as [E|Hin].
  - inversion E; subst m latm. clear E.
    eapply Qle_trans; [|apply cp_go_ge_best].
    pose proof (cpmax_r best (cpadd (arrive g thr n) lat)). pose proof (cpadd_eq (arrive g thr n) lat).
    pose proof (arrive_bounds_chain g thr n TO ED c e Hc El). lra.
  - eapply (IH _ _ (m :: done)); try eassumption.
    + intros s. split.
      * intros [Es|Hs].
        -- subst. eexists. apply lookup_cons_eq.
        -- destruct (Nat.eq_dec s m) as [->|Ns]; [eexists; apply lookup_cons_eq|].
           rewrite lookup_cons_neq by exact Ns. apply Hdone. exact Hs.
      * intros (x & Hx). destruct (Nat.eq_dec s m) as [->|Ns]; [left; reflexivity|].
        right. rewrite lookup_cons_neq in Hx by exact Ns. apply Hdone. eauto.
    + apply step_through_ok; assumption.
Qed.

Theorem cp_opt_upper g k :
  (forall s isld t w, In ((s, isld), t, w) g -> 0 <= w) ->
  forward_ok g [] k ->
  forall c e n lat, chain g c e -> last_of c = n -> In (n, lat) k ->
  (match c with _ :: _ :: _ => e + loadw QNum g (first_of c) | _ => e end) + lat <= cp_opt QNum g k.
Proof.
  intros Hw FO c e n lat Hc El Hin. unfold cp_opt.
  eapply (cp_go_upper g Hw k [] 0 []); try eassumption.
  - intros s. split; [intros [] | intros (x & Hx); discriminate].
  - intros c0 e0 _ x Hx. discriminate.
Qed.

(* in particular: never smaller than the latency of any single instruction *)
Corollary cp_opt_ge_single g k n lat :
  (forall s isld t w, In ((s, isld), t, w) g -> 0 <= w) -> forward_ok g [] k -> In (n, lat) k ->
  lat <= cp_opt QNum g k.
Proof.
  intros Hw FO Hin. pose proof (cp_opt_upper g k Hw FO [n] 0 n lat (ch_one g n) eq_refl Hin) as H.
  cbn in H. lra.
Qed.

(* ---------------------------------------------------------------- attainment: cp_opt IS the length of some chain *)
Lemma cpmax_cases a b : cpmax a b = a \/ cpmax a b = b.
Proof. unfold nmax. destruct (nltb QNum a b); auto. Qed.

Lemma arrive_fold_cases (thr : list (nat * Q)) n : forall g a,
  let r := fold_left (fun m e => let '((s, isld), t, w) := e in
                        if andb (negb isld) (Nat.eqb t n)
                        then match lookup thr s with Some x => cpmax m (cpadd x w) | None => m end
                        else m) g a in
  r = a \/ exists s w x, In ((s, false), n, w) g /\ lookup thr s = Some x /\ r == x + w.
Proof.
  induction g as [|[[[s isld] t] w] g IH]; intros a; cbn [fold_left]; [left; reflexivity|].
  set (a' := if andb (negb isld) (Nat.eqb t n)
             then match lookup thr s with Some x => cpmax a (cpadd x w) | None => a end else a).
  destruct (IH a') as [E|(s0 & w0 & x0 & Hin & Hl & Hr)].
  - (* result = a' *)
    cbv zeta in E. rewrite E. subst a'.
    destruct isld; cbn [negb andb]; [left; reflexivity|].
    destruct (Nat.eqb t n) eqn:Et; [|left; reflexivity]. apply Nat.eqb_eq in Et. subst t.
    destruct (lookup thr s) as [x|] eqn:L; [|left; reflexivity].
    destruct (cpmax_cases a (cpadd x w)) as [C|C]; rewrite C; [left; reflexivity|].
    right. exists s, w, x. repeat split; auto. left. reflexivity. apply cpadd_eq.
  - right. exists s0, w0, x0. repeat split; auto. right. exact Hin.
Qed.

Definition through_attained (g : list qedge) (thr : list (nat * Q)) : Prop :=
  forall n x, lookup thr n = Some x -> exists c e, chain g c e /\ last_of c = n /\ e + loadw QNum g (first_of c) == x.

Lemma loadw_nonneg g n : (forall s isld t w, In ((s, isld), t, w) g -> 0 <= w) -> 0 <= loadw QNum g n.
Proof. intros Hw. unfold loadw. apply loadw_nonneg_fold; [cbn; lra | exact Hw]. Qed.

Lemma chain_snoc1 g c n m w e : chain g (c ++ [n]) e -> has_edge g n m w -> chain g ((c ++ [n]) ++ [m]) (e + w).
Proof. intros H He. rewrite <- app_assoc. cbn [app]. eapply ch_snoc; eassumption. Qed.

Lemma chain_nonempty_split g c e : chain g c e -> exists c0 n, c = c0 ++ [n].
Proof. intros H. destruct H; [exists [], n; reflexivity | exists (c ++ [n]), m; rewrite <- app_assoc; reflexivity]. Qed.

Lemma step_through_attained g thr n :
  (forall s isld t w, In ((s, isld), t, w) g -> 0 <= w) ->
  through_attained g thr ->
  through_attained g ((n, cpmax (arrive g thr n) (loadw QNum g n)) :: thr).
Proof.
  intros Hw TA m x Hx. destruct (Nat.eq_dec m n) as [->|Ne].
  - rewrite lookup_cons_eq in Hx. inversion Hx; subst x. clear Hx.
    destruct (cpmax_cases (arrive g thr n) (loadw QNum g n)) as [C|C]; rewrite C.
    + destruct (arrive_fold_cases thr n g (n0 QNum)) as [E|(s & w & xs & Hin & Hl & Hr)]; fold (arrive g thr n) in *.
      * (* arrive = 0: the singleton chain, and loadw <= 0 hence = 0 *)
        exists [n], 0. repeat split; [constructor|]. unfold first_of. cbn [hd].
        pose proof (cpmax_r (arrive g thr n) (loadw QNum g n)) as R. rewrite C, E in R. cbn [n0 QNum] in R.
        pose proof (loadw_nonneg g n Hw). rewrite E. cbn [n0 QNum]. lra.
      * destruct (TA s xs Hl) as (c & e & Hc & Hlast & Hval).
        destruct (chain_nonempty_split _ _ _ Hc) as (c0 & s' & Ec). subst c. rewrite last_snoc1 in Hlast. subst s'.
        exists ((c0 ++ [s]) ++ [n]), (e + w). repeat split.
        -- apply chain_snoc1; assumption.
        -- unfold last_of. apply last_last.
        -- rewrite <- app_assoc. cbn [app]. rewrite first_snoc. rewrite Hr. lra.
    + exists [n], 0. repeat split; [constructor|]. unfold first_of. cbn [hd]. lra.
  - rewrite lookup_cons_neq in Hx by exact Ne. apply TA. exact Hx.
Qed.

Lemma cp_go_attained g : (forall s isld t w, In ((s, isld), t, w) g -> 0 <= w) ->
  forall k thr best,
  through_attained g thr ->
  cp_go QNum g k thr best = best \/
  exists c e n lat, chain g c e /\ last_of c = n /\ In (n, lat) k /\
    (match c with _ :: _ :: _ => e + loadw QNum g (first_of c) | _ => e end) + lat == cp_go QNum g k thr best.
Proof.
  intros Hw. induction k as [|[m latm] k IH]; intros thr best TA; cbn [cp_go]; [left; reflexivity|].
  fold (arrive g thr m).
  set (best' := cpmax best (cpadd (arrive g thr m) latm)).
  destruct (IH ((m, cpmax (arrive g thr m) (loadw QNum g m)) :: thr) best' (step_through_attained g thr m Hw TA))
    as [E|(c & e & n & lat & Hc & Hl & Hin & Hv)].
  - rewrite E. subst best'. destruct (cpmax_cases best (cpadd (arrive g thr m) latm)) as [C|C]; rewrite C; [left; reflexivity|].
    right.
    destruct (arrive_fold_cases thr m g (n0 QNum)) as [E0|(s & w & xs & Hin & Hl & Hr)]; fold (arrive g thr m) in *.
    + exists [m], 0, m, latm. repeat split; [constructor | left; reflexivity|].
      pose proof (cpadd_eq (arrive g thr m) latm) as A. rewrite E0 in *. change (n0 QNum) with 0 in *. lra.
    + destruct (TA s xs Hl) as (c & e & Hc & Hlast & Hval).
      destruct (chain_nonempty_split _ _ _ Hc) as (c0 & s' & Ec). subst c. rewrite last_snoc1 in Hlast. subst s'.
      exists ((c0 ++ [s]) ++ [m]), (e + w), m, latm. repeat split.
      * apply chain_snoc1; assumption.
      * unfold last_of. apply last_last.
      * left. reflexivity.
      * pose proof (cpadd_eq (arrive g thr m) latm) as A.
        assert (Sh : match (c0 ++ [s]) ++ [m] with _ :: _ :: _ => e + w + loadw QNum g (first_of ((c0 ++ [s]) ++ [m])) | _ => e + w end
                     == e + w + loadw QNum g (first_of (c0 ++ [s]))).
        { rewrite <- app_assoc. cbn [app]. rewrite first_snoc. destruct c0 as [|a0 [|b0 c0]]; cbn [app]; reflexivity. }
        rewrite Sh. lra.
  - right. exists c, e, n, lat. repeat split; auto. right. exact Hin.
Qed.

(* the optimum is attained by a chain of the kernel (when some instruction has a positive latency or, in general,
   whenever cp_opt is not the initial 0) *)
Theorem cp_opt_attained g k :
  (forall s isld t w, In ((s, isld), t, w) g -> 0 <= w) ->
  cp_opt QNum g k = 0 \/
  exists c e n lat, chain g c e /\ last_of c = n /\ In (n, lat) k /\
    (match c with _ :: _ :: _ => e + loadw QNum g (first_of c) | _ => e end) + lat == cp_opt QNum g k.
Proof.
  intros Hw. unfold cp_opt. apply (cp_go_attained g Hw k [] (n0 QNum)).
  intros n x Hx. discriminate.
Qed.
