(* C08 translator tie: facts about the Python constructs of Model/CostPy.v that do not depend on the generated text *)
From Coq Require Import ZArith List Bool String Ascii Lia.
From OV Require Import Model.PyString Model.Match.
From OV Require Import Model.Num Model.Pressure Model.Costing Model.Rows Model.CostPy.
From OV Require Import Proofs.Costing Proofs.Rows.
Import ListNotations.

Lemma bind_ok_id {A} (r : res A) : bind r (fun x => Ok x) = r.
Proof. destruct r; reflexivity. Qed.

(* ------------------------------------------------------------------ comprehensions with a raising filter *)
Lemma py_filter_res_ext {A} (f g : A -> res bool) : forall l,
  (forall x, In x l -> f x = g x) -> py_filter_res f l = py_filter_res g l.
Proof.
  induction l as [|x l IH]; intros H; [reflexivity|]. cbn.
  rewrite (H x (or_introl eq_refl)). rewrite IH; [reflexivity|]. intros y Hy. apply H. right; exact Hy.
Qed.

Lemma py_filter_res_total {A} (f : A -> res bool) (h : A -> bool) : forall l,
  (forall x, In x l -> f x = Ok (h x)) -> py_filter_res f l = Ok (filter h l).
Proof.
  induction l as [|x l IH]; intros H; [reflexivity|]. cbn.
  rewrite (H x (or_introl eq_refl)). cbn. rewrite IH; [|intros y Hy; apply H; right; exact Hy]. cbn.
  destruct (h x); reflexivity.
Qed.

Lemma py_filter_res_lift {A} (f : A -> res bool) (g : A -> Match.res) : forall l,
  (forall x, In x l -> f x = lift (g x)) -> py_filter_res f l = lift (filter_opt g l).
Proof.
  induction l as [|x l IH]; intros H; [reflexivity|]. cbn.
  rewrite (H x (or_introl eq_refl)). destruct (g x) as [b|]; cbn; [|reflexivity].
  rewrite IH; [|intros y Hy; apply H; right; exact Hy]. destruct (filter_opt g l); reflexivity.
Qed.

(* [c for _ in range(len(l))] *)
Lemma map_const_seq {A B} (c : B) : forall (l : list A) s, map (fun _ => c) (seq s (List.length l)) = map (fun _ => c) l.
Proof. induction l as [|x l IH]; intros s; [reflexivity|]. cbn. f_equal. apply IH. Qed.

Lemma map_const_range {A B} (c : B) (l : list A) : map (fun _ : Z => c) (py_range (py_len l)) = map (fun _ => c) l.
Proof.
  unfold py_range, py_len. rewrite Nat2Z.id, map_map. apply map_const_seq.
Qed.

Lemma py_len_eqb {A B} (a : list A) (b : list B) : List.length a = List.length b -> Z.eqb (py_len a) (py_len b) = true.
Proof. intros H. unfold py_len. rewrite H. apply Z.eqb_refl. Qed.

Lemma py_len_lt1 {A} (l : list A) : Z.ltb (py_len l) 1 = match l with [] => true | _ => false end.
Proof. destruct l; [reflexivity|]. unfold py_len. cbn [List.length]. apply Z.ltb_ge. lia. Qed.

Lemma py_len_pos {A} (l : list A) : Z.ltb 0 (py_len l) = match l with [] => false | _ => true end.
Proof. destruct l; [reflexivity|]. unfold py_len. cbn [List.length]. apply Z.ltb_lt. lia. Qed.

(* ------------------------------------------------------------------ flags *)
Lemma flag_eqb_eq a b : flag_eqb a b = true <-> a = b.
Proof. destruct a, b; cbn; split; intros H; try reflexivity; try discriminate. Qed.

Lemma in_flag_In x l : py_in_flag x l = true <-> In x l.
Proof.
  unfold py_in_flag. rewrite existsb_exists. split.
  - intros [y [Hy E]]. apply flag_eqb_eq in E. subst. exact Hy.
  - intros H. exists x. split; [exact H|]. apply flag_eqb_eq. reflexivity.
Qed.

Lemma in_flag_app x a b : py_in_flag x (a ++ b) = orb (py_in_flag x a) (py_in_flag x b).
Proof. apply existsb_app. Qed.

Lemma canon_mkflags l :
  canon_flags l = mkflags (py_in_flag F_HAS_LD l) (py_in_flag F_HAS_ST l) (py_in_flag F_LD l)
                          (py_in_flag F_TP_UNKWN l) (py_in_flag F_LT_UNKWN l) (py_in_flag F_NOT_BOUND l).
Proof.
  unfold canon_flags, ALL_FLAGS, mkflags. cbn [filter].
  destruct (py_in_flag F_HAS_LD l), (py_in_flag F_HAS_ST l), (py_in_flag F_LD l), (py_in_flag F_TP_UNKWN l),
    (py_in_flag F_LT_UNKWN l), (py_in_flag F_NOT_BOUND l); reflexivity.
Qed.

Lemma in_flag_mkflags x a b c d e f :
  py_in_flag x (mkflags a b c d e f) =
  match x with F_HAS_LD => a | F_HAS_ST => b | F_LD => c | F_TP_UNKWN => d | F_LT_UNKWN => e | F_NOT_BOUND => f end.
Proof. destruct x, a, b, c, d, e, f; reflexivity. Qed.

Lemma in_flag_canon x l : py_in_flag x (canon_flags l) = py_in_flag x l.
Proof. rewrite canon_mkflags, in_flag_mkflags. destruct x; reflexivity. Qed.

(* two flag lists with the same members have the same canonical form *)
Lemma canon_ext l l' : (forall x, py_in_flag x l = py_in_flag x l') -> canon_flags l = canon_flags l'.
Proof. intros H. rewrite !canon_mkflags, !H. reflexivity. Qed.

Lemma remove_flag_spec x : forall l, NoDup l -> py_in_flag x l = true ->
  exists l', py_remove_flag l x = Ok l' /\ NoDup l' /\
             forall y, py_in_flag y l' = if flag_eqb y x then false else py_in_flag y l.
Proof.
  induction l as [|z l IH]; intros ND Hin; [discriminate|]. cbn [py_remove_flag].
  inversion ND as [|? ? Hnotin ND']; subst.
  destruct (flag_eqb z x) eqn:E.
  - apply flag_eqb_eq in E. subst z. exists l. split; [reflexivity|]. split; [exact ND'|]. intros y.
    destruct (flag_eqb y x) eqn:Ey.
    + apply flag_eqb_eq in Ey. subst y. destruct (py_in_flag x l) eqn:F; [|reflexivity].
      apply in_flag_In in F. contradiction.
    + unfold py_in_flag. cbn [existsb]. rewrite Ey. reflexivity.
  - unfold py_in_flag in Hin. cbn [existsb] in Hin.
    assert (Exz : flag_eqb x z = false).
    { destruct (flag_eqb x z) eqn:F; [|reflexivity]. apply flag_eqb_eq in F. subst. rewrite (proj2 (flag_eqb_eq z z) eq_refl) in E. discriminate. }
    rewrite Exz in Hin. cbn in Hin. destruct (IH ND' Hin) as [l' [R [ND'' S]]]. rewrite R. cbn [bind].
    exists (z :: l'). split; [reflexivity|]. split.
    + constructor; [|exact ND'']. intros Hz. apply in_flag_In in Hz. rewrite S in Hz. rewrite E in Hz.
      apply in_flag_In in Hz. contradiction.
    + intros y. unfold py_in_flag. cbn [existsb]. fold (py_in_flag y l'). fold (py_in_flag y l). rewrite S.
      destruct (flag_eqb y x) eqn:Ey; [|reflexivity].
      apply flag_eqb_eq in Ey. subst y. rewrite Exz. reflexivity.
Qed.

(* ------------------------------------------------------------------ strings: the suffix fall-backs *)
Lemma substr_dot_cons c r : py_substr "." (String c r) = orb (Ascii.eqb c ".") (py_substr "." r).
Proof.
  cbn [py_substr py_startswith]. destruct (Ascii.eqb c "."); cbn; [destruct r; reflexivity|reflexivity].
Qed.

Lemma str_index_dot : forall s k0, py_substr "." s = true ->
  exists k, py_str_index_from s "." k0 = Ok (k0 + k)%nat /\ py_str_prefix s k = cut_at_dot s.
Proof.
  induction s as [|c r IH]; intros k0 H; [discriminate|].
  rewrite substr_dot_cons in H. cbn [py_str_index_from cut_at_dot].
  destruct (Ascii.eqb c ".") eqn:E.
  - exists 0%nat. rewrite Nat.add_0_r. split; reflexivity.
  - cbn in H. destruct (IH (S k0) H) as [k [I P]]. exists (S k). split.
    + rewrite I. f_equal. lia.
    + cbn [py_str_prefix]. rewrite P. reflexivity.
Qed.

Lemma str_index_dot0 s : py_substr "." s = true ->
  exists k, py_str_index s "." = Ok k /\ py_str_prefix s k = cut_at_dot s.
Proof. intros H. destruct (str_index_dot s 0 H) as [k [I P]]. exists k. split; [exact I|exact P]. Qed.

(* ------------------------------------------------------------------ operands *)
Lemma substitute_map (w : operand) ops : w = OWild ->
  map (fun op => if is_mem op then w else op) ops = substitute ops.
Proof. intros ->. unfold substitute. apply map_ext. intros [ | | | | | | | | ]; reflexivity. Qed.

Lemma nth0_hd {A} (l : list A) : nth_res l 0 = match hd_error l with Some x => Ok x | None => Err EIndex end.
Proof. destruct l; reflexivity. Qed.

Lemma existsb_is_mem l : existsb (fun o => is_mem o) l = existsb is_mem l.
Proof. reflexivity. Qed.

Lemma forallb_wb l : forallb (fun m => orb (postix_truth (m_post m)) (m_pre m)) l = forallb (fun b => b) (map wb l).
Proof. induction l as [|x l IH]; [reflexivity|]. cbn. rewrite IH. reflexivity. Qed.

(* ------------------------------------------------------------------ the pressure vector has one cell per port *)
Lemma avg_pressure_len {T} (N : NumOps T) ports u pp :
  avg_pressure N ports u = Ok pp -> List.length pp = List.length ports.
Proof.
  destruct u as [l|[|a alts]]; cbn [avg_pressure]; intros H; try discriminate; eapply avg_list_length; eauto.
Qed.
