(* Store-to-load dependencies (Model/Deps.v is_memload + register-change tracking) are SOUND for a concrete
   semantics (DESIGN.md C06): if the model links a load to an earlier store, the two addresses are equal for
   every register file, provided the tracked register changes describe what the instructions in between did.
   Registers are identified by their full name (prefix + name), as the tracking does. *)
From Coq Require Import ZArith List Bool String Lia.
From OV Require Import Model.Num Model.Pressure Model.Deps.
Import ListNotations.
Open Scope Z_scope.

Definition regfile := string -> Z.

Definition addr (rho : regfile) (m : memop) : Z :=
  (match m_base m with Some b => rho (fullname b) | None => 0 end)
  + (match m_index m with Some i => rho (fullname i) * m_scale m | None => 0 end)
  + (match m_off m with OImm v => v | _ => 0 end).

(* the address a LOAD reads, evaluated in the register file AFTER the load's own register changes have been applied (the
   tracking state handed to is_memload includes them): a pre-indexed load reads from its already bumped base *)
Definition addr_load (rho : regfile) (m : memop) : Z :=
  (match m_base m with Some b => rho (fullname b) | None => 0 end)
  + (match m_index m with Some i => rho (fullname i) * m_scale m | None => 0 end)
  + (if m_pre m then 0 else match m_off m with OImm v => v | _ => 0 end).

(* s describes rho relative to rho0 (the register file when the store executed) *)
Definition describes (s : rstate) (rho0 rho : regfile) : Prop :=
  forall reg, match rs_get s reg with
              | Some (Some (nm, v)) => rho reg = rho0 nm + v
              | Some None => True
              | None => rho reg = rho0 reg
              end.

Lemma describes_lookup s rho0 rho r nm v :
  describes s rho0 rho -> lookup_change s r = Some (nm, v) -> rho (fullname r) = rho0 nm + v.
Proof.
  intros D L. unfold lookup_change in L. specialize (D (fullname r)).
  destruct (rs_get s (fullname r)) as [[[n' v']|]|].
  - inversion L; subst. exact D.
  - discriminate.
  - inversion L; subst. lia.
Qed.

(* the store's displacement must be a known immediate or absent, the load's likewise, for a link *)
Theorem memload_sound mem s src rho0 rho :
  describes s rho0 rho ->
  memload_one mem s src = true ->
  (match m_off src with OSym => False | _ => True end) ->
  addr_load rho src = addr rho0 mem.
Proof.
  intros D H Hsrc. unfold memload_one in H. unfold addr_load, addr.
  destruct (m_pre src) eqn:PRE.
  all: cycle 1.
  destruct (m_off mem) as [|vm|] eqn:OM; [| |discriminate].
  - (* store without displacement *)
    destruct (m_base mem) as [mb|] eqn:BM, (m_base src) as [sb|] eqn:BS; try discriminate.
    + destruct (lookup_change s sb) as [[nm v]|] eqn:LB; [|discriminate].
      destruct (String.eqb (fullname mb) nm) eqn:EN; [|discriminate]. apply String.eqb_eq in EN. subst nm.
      pose proof (describes_lookup _ _ _ _ _ _ D LB) as RB.
      destruct (m_index mem) as [mi|] eqn:IM, (m_index src) as [si|] eqn:IS; try discriminate.
      * destruct (lookup_change s si) as [[nmi vi]|] eqn:LI; [|discriminate].
        destruct (negb (Z.eqb (m_scale mem) (m_scale src))) eqn:SC; [discriminate|].
        apply negb_false_iff, Z.eqb_eq in SC.
        destruct (String.eqb (fullname mi) nmi) eqn:ENI; [|discriminate]. apply String.eqb_eq in ENI. subst nmi.
        pose proof (describes_lookup _ _ _ _ _ _ D LI) as RI.
        apply Z.eqb_eq in H. rewrite RB, RI, SC. destruct (m_off src); try contradiction; nia.
      * apply Z.eqb_eq in H. rewrite RB. destruct (m_off src); try contradiction; lia.
    + destruct (m_index mem) as [mi|] eqn:IM, (m_index src) as [si|] eqn:IS; try discriminate.
      * destruct (lookup_change s si) as [[nmi vi]|] eqn:LI; [|discriminate].
        destruct (negb (Z.eqb (m_scale mem) (m_scale src))) eqn:SC; [discriminate|].
        apply negb_false_iff, Z.eqb_eq in SC.
        destruct (String.eqb (fullname mi) nmi) eqn:ENI; [|discriminate]. apply String.eqb_eq in ENI. subst nmi.
        pose proof (describes_lookup _ _ _ _ _ _ D LI) as RI.
        apply Z.eqb_eq in H. rewrite RI, SC. destruct (m_off src); try contradiction; nia.
      * apply Z.eqb_eq in H. destruct (m_off src); try contradiction; lia.
  - (* store with immediate displacement vm *)
    destruct (m_base mem) as [mb|] eqn:BM, (m_base src) as [sb|] eqn:BS; try discriminate.
    + destruct (lookup_change s sb) as [[nm v]|] eqn:LB; [|discriminate].
      destruct (String.eqb (fullname mb) nm) eqn:EN; [|discriminate]. apply String.eqb_eq in EN. subst nm.
      pose proof (describes_lookup _ _ _ _ _ _ D LB) as RB.
      destruct (m_index mem) as [mi|] eqn:IM, (m_index src) as [si|] eqn:IS; try discriminate.
      * destruct (lookup_change s si) as [[nmi vi]|] eqn:LI; [|discriminate].
        destruct (negb (Z.eqb (m_scale mem) (m_scale src))) eqn:SC; [discriminate|].
        apply negb_false_iff, Z.eqb_eq in SC.
        destruct (String.eqb (fullname mi) nmi) eqn:ENI; [|discriminate]. apply String.eqb_eq in ENI. subst nmi.
        pose proof (describes_lookup _ _ _ _ _ _ D LI) as RI.
        apply Z.eqb_eq in H. rewrite RB, RI, SC. destruct (m_off src); try contradiction; nia.
      * apply Z.eqb_eq in H. rewrite RB. destruct (m_off src); try contradiction; lia.
    + destruct (m_index mem) as [mi|] eqn:IM, (m_index src) as [si|] eqn:IS; try discriminate.
      * destruct (lookup_change s si) as [[nmi vi]|] eqn:LI; [|discriminate].
        destruct (negb (Z.eqb (m_scale mem) (m_scale src))) eqn:SC; [discriminate|].
        apply negb_false_iff, Z.eqb_eq in SC.
        destruct (String.eqb (fullname mi) nmi) eqn:ENI; [|discriminate]. apply String.eqb_eq in ENI. subst nmi.
        pose proof (describes_lookup _ _ _ _ _ _ D LI) as RI.
        apply Z.eqb_eq in H. rewrite RI, SC. destruct (m_off src); try contradiction; nia.
      * apply Z.eqb_eq in H. destruct (m_off src); try contradiction; lia.
  - {
  destruct (m_off mem) as [|vm|] eqn:OM; [| |discriminate].
  - (* store without displacement *)
    destruct (m_base mem) as [mb|] eqn:BM, (m_base src) as [sb|] eqn:BS; try discriminate.
    + destruct (lookup_change s sb) as [[nm v]|] eqn:LB; [|discriminate].
      destruct (String.eqb (fullname mb) nm) eqn:EN; [|discriminate]. apply String.eqb_eq in EN. subst nm.
      pose proof (describes_lookup _ _ _ _ _ _ D LB) as RB.
      destruct (m_index mem) as [mi|] eqn:IM, (m_index src) as [si|] eqn:IS; try discriminate.
      * destruct (lookup_change s si) as [[nmi vi]|] eqn:LI; [|discriminate].
        destruct (negb (Z.eqb (m_scale mem) (m_scale src))) eqn:SC; [discriminate|].
        apply negb_false_iff, Z.eqb_eq in SC.
        destruct (String.eqb (fullname mi) nmi) eqn:ENI; [|discriminate]. apply String.eqb_eq in ENI. subst nmi.
        pose proof (describes_lookup _ _ _ _ _ _ D LI) as RI.
        apply Z.eqb_eq in H. rewrite RB, RI, SC. destruct (m_off src); try contradiction; nia.
      * apply Z.eqb_eq in H. rewrite RB. destruct (m_off src); try contradiction; lia.
    + destruct (m_index mem) as [mi|] eqn:IM, (m_index src) as [si|] eqn:IS; try discriminate.
      * destruct (lookup_change s si) as [[nmi vi]|] eqn:LI; [|discriminate].
        destruct (negb (Z.eqb (m_scale mem) (m_scale src))) eqn:SC; [discriminate|].
        apply negb_false_iff, Z.eqb_eq in SC.
        destruct (String.eqb (fullname mi) nmi) eqn:ENI; [|discriminate]. apply String.eqb_eq in ENI. subst nmi.
        pose proof (describes_lookup _ _ _ _ _ _ D LI) as RI.
        apply Z.eqb_eq in H. rewrite RI, SC. destruct (m_off src); try contradiction; nia.
      * apply Z.eqb_eq in H. destruct (m_off src); try contradiction; lia.
  - (* store with immediate displacement vm *)
    destruct (m_base mem) as [mb|] eqn:BM, (m_base src) as [sb|] eqn:BS; try discriminate.
    + destruct (lookup_change s sb) as [[nm v]|] eqn:LB; [|discriminate].
      destruct (String.eqb (fullname mb) nm) eqn:EN; [|discriminate]. apply String.eqb_eq in EN. subst nm.
      pose proof (describes_lookup _ _ _ _ _ _ D LB) as RB.
      destruct (m_index mem) as [mi|] eqn:IM, (m_index src) as [si|] eqn:IS; try discriminate.
      * destruct (lookup_change s si) as [[nmi vi]|] eqn:LI; [|discriminate].
        destruct (negb (Z.eqb (m_scale mem) (m_scale src))) eqn:SC; [discriminate|].
        apply negb_false_iff, Z.eqb_eq in SC.
        destruct (String.eqb (fullname mi) nmi) eqn:ENI; [|discriminate]. apply String.eqb_eq in ENI. subst nmi.
        pose proof (describes_lookup _ _ _ _ _ _ D LI) as RI.
        apply Z.eqb_eq in H. rewrite RB, RI, SC. destruct (m_off src); try contradiction; nia.
      * apply Z.eqb_eq in H. rewrite RB. destruct (m_off src); try contradiction; lia.
    + destruct (m_index mem) as [mi|] eqn:IM, (m_index src) as [si|] eqn:IS; try discriminate.
      * destruct (lookup_change s si) as [[nmi vi]|] eqn:LI; [|discriminate].
        destruct (negb (Z.eqb (m_scale mem) (m_scale src))) eqn:SC; [discriminate|].
        apply negb_false_iff, Z.eqb_eq in SC.
        destruct (String.eqb (fullname mi) nmi) eqn:ENI; [|discriminate]. apply String.eqb_eq in ENI. subst nmi.
        pose proof (describes_lookup _ _ _ _ _ _ D LI) as RI.
        apply Z.eqb_eq in H. rewrite RI, SC. destruct (m_off src); try contradiction; nia.
      * apply Z.eqb_eq in H. destruct (m_off src); try contradiction; lia.
  }
Qed.

(* no link when base/index presence differs or the store's displacement is symbolic *)
Theorem memload_none_shape mem s src :
  (match m_base mem, m_base src with Some _, None | None, Some _ => True | _, _ => False end \/
   match m_index mem, m_index src with Some _, None | None, Some _ => True | _, _ => False end \/
   m_off mem = OSym) ->
  memload_one mem s src = false.
Proof.
  intros H. unfold memload_one. destruct (m_off mem) eqn:OM; try reflexivity;
  destruct (m_base mem), (m_base src), (m_index mem), (m_index src); cbn;
    try reflexivity; try (destruct H as [H|[H|H]]; try contradiction; try discriminate);
    repeat match goal with |- context [match ?x with _ => _ end] => destruct x end; try reflexivity;
    try (destruct H as [H|[H|H]]; try contradiction; discriminate).
Qed.

(* ---- the tracking follows the instructions: update_one keeps `describes` ---- *)
(* semantics of one register change: reg := value-of(cname) + cval  (None: anything) *)
Definition apply_change (rho : regfile) (reg : string) (c : change) (rho' : regfile) : Prop :=
  (forall r, r <> reg -> rho' r = rho r) /\
  match c with Some (cname, cval) => rho' reg = rho cname + cval | None => True end.

Lemma rs_get_set s k v k' : rs_get (rs_set s k v) k' = if String.eqb k' k then Some v else rs_get s k'.
Proof.
  induction s as [|[k0 v0] s IH]; cbn [rs_set rs_get].
  - destruct (String.eqb k' k); reflexivity.
  - destruct (String.eqb k k0) eqn:E.
    + apply String.eqb_eq in E. subst k0. cbn [rs_get]. destruct (String.eqb k' k); reflexivity.
    + cbn [rs_get]. destruct (String.eqb k' k0) eqn:E2.
      * apply String.eqb_eq in E2. subst k0. rewrite String.eqb_sym in E. rewrite E. reflexivity.
      * exact IH.
Qed.

Theorem update_one_describes s rho0 rho rho' reg c :
  describes s rho0 rho -> apply_change rho reg c rho' -> describes (update_one s reg c) rho0 rho'.
Proof.
  intros D (Hother & Hreg) r. unfold update_one.
  assert (Keep : String.eqb r reg = false ->
            match rs_get s r with Some (Some (nm, v0)) => rho' r = rho0 nm + v0 | Some None => True | None => rho' r = rho0 r end).
  { intros Ne. specialize (D r). assert (r <> reg) by (intros E; subst; rewrite String.eqb_refl in Ne; discriminate).
    rewrite (Hother r H). exact D. }
  destruct c as [[cname cval]|].
  - destruct (String.eqb cname reg) eqn:EC.
    + apply String.eqb_eq in EC. subst cname. pose proof (D reg) as Dr.
      destruct (rs_get s reg) as [[[nm0 v0]|]|] eqn:G; rewrite rs_get_set; destruct (String.eqb r reg) eqn:ER;
        try exact (Keep eq_refl); try exact I; apply String.eqb_eq in ER; subst r; lia.
    + pose proof (D cname) as Dc.
      destruct (rs_get s cname) as [[[nmc vc]|]|] eqn:GC; rewrite rs_get_set; destruct (String.eqb r reg) eqn:ER;
        try exact (Keep eq_refl); try exact I; apply String.eqb_eq in ER; subst r; lia.
  - rewrite rs_get_set. destruct (String.eqb r reg) eqn:ER; [exact I | exact (Keep eq_refl)].
Qed.
