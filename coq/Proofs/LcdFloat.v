(* The latency of a loop-carried dependency is summed over the SORTED lat_path (kernel_dg.py: `lat_path.sort()` and then
   `lat_sum = 0.0; for _, lat in lat_path: lat_sum += lat`).  Consequences that hold for EVERY numeric instance -- no law about
   the addition is used, so binary64 with its non-associative `+` is included:
     * hand model (Model/Deps.v): two paths whose mapped-back (line, latency) lists are permutations of each other and visit no
       line twice -- in particular the rotations of one cycle -- have the SAME entry, latency included   [entry_of_perm, entry_of_rotation];
     * every entry of lcd_entries carries the left-to-right sum of its own member list               [lcd_entries_sum];
     * the de-duplication reports the same entries whatever the order of its input                    [dedup_order_independent];
     * functional reading of the translated code (Model/LcdPost.v): every value of the returned dictionary has
       latency = the left-to-right sum of the latencies of its own `dependencies` list, for any delivered paths
                                                                                                        [post_model_latency_is_sum_of_dependencies].
   Before the repair the sum was taken in PATH order, so which rotation of a cycle was delivered first (worker count, scheduling)
   decided the last bit of the reported latency (Props/C16float.v has the binary64 witness with 0.1, 0.3, 0.7). *)
From Coq Require Import ZArith List Bool String Lia Permutation Sorting.Sorted.
From OV Require Import Model.Num Model.Deps Proofs.LCD Proofs.RotationGlue Model.PyLcd Model.LcdPost Proofs.PyLcdFacts Proofs.LcdPost.
Import ListNotations.
Local Open Scope list_scope.
Local Open Scope nat_scope.

Section AnyNum.
  Context {T : Type} (N : NumOps T).
  Notation pairT := (nat * T)%type.

  (* ---------------------------------------------------------------- sorting lists without a repeated line *)
  Definition klt (a b : pairT) : Prop := fst a < fst b.

  Lemma pair_le_distinct (x y : pairT) : fst x <> fst y -> pair_le N x y = Nat.ltb (fst x) (fst y).
  Proof.
    intros H. unfold pair_le. destruct (Nat.eqb_spec (fst x) (fst y)) as [E|_]; [contradiction|]. cbn [andb]. apply orb_false_r.
  Qed.

  Lemma ins_sorted x : forall s, StronglySorted klt s -> ~ In (fst x) (map fst s) -> StronglySorted klt (ins N x s).
  Proof.
    induction s as [|y s IH]; intros Hs Hx.
    - cbn. constructor; constructor.
    - cbn [ins]. assert (Hxy : fst x <> fst y) by (intros E; apply Hx; left; symmetry; exact E).
      rewrite (pair_le_distinct x y Hxy). inversion Hs as [|y' s' Hs' Hall]; subst.
      destruct (Nat.ltb_spec (fst x) (fst y)) as [Lt|Ge].
      + constructor; [exact Hs|]. constructor; [exact Lt|].
        apply Forall_forall. intros z Hz. rewrite Forall_forall in Hall. specialize (Hall z Hz). unfold klt in *. lia.
      + constructor.
        * apply IH; [exact Hs'|]. intros C. apply Hx. right. exact C.
        * apply Forall_forall. intros z Hz. apply (Permutation_in _ (ins_perm N x s)) in Hz. destruct Hz as [<-|Hz].
          -- unfold klt. lia.
          -- rewrite Forall_forall in Hall. exact (Hall z Hz).
  Qed.

  Lemma sort_pairs_sorted : forall l : list pairT, NoDup (map fst l) -> StronglySorted klt (sort_pairs N l).
  Proof.
    induction l as [|x l IH]; intros ND; [constructor|]. cbn [map] in ND. inversion ND as [|a b Hnot ND']; subst.
    change (sort_pairs N (x :: l)) with (ins N x (sort_pairs N l)). apply ins_sorted; [apply IH; exact ND'|].
    intros C. apply Hnot. apply (Permutation_in _ (Permutation_map fst (sort_pairs_perm N l))). exact C.
  Qed.

  Lemma sorted_unique : forall a b : list pairT, Permutation a b -> StronglySorted klt a -> StronglySorted klt b -> a = b.
  Proof.
    induction a as [|x a IH]; intros b P Sa Sb.
    - apply Permutation_nil in P. subst. reflexivity.
    - destruct b as [|y b]; [apply Permutation_sym, Permutation_nil in P; discriminate|].
      inversion Sa as [|x' a' Sa' Ha]; subst. inversion Sb as [|y' b' Sb' Hb]; subst.
      rewrite Forall_forall in Ha, Hb.
      assert (Exy : x = y).
      { assert (Hx : In x (y :: b)) by (apply (Permutation_in _ P); left; reflexivity).
        assert (Hy : In y (x :: a)) by (apply (Permutation_in _ (Permutation_sym P)); left; reflexivity).
        destruct Hx as [->|Hx]; [reflexivity|]. destruct Hy as [->|Hy]; [reflexivity|].
        specialize (Ha _ Hy). specialize (Hb _ Hx). unfold klt in *. lia. }
      subst y. f_equal. apply IH; [exact (Permutation_cons_inv P) | exact Sa' | exact Sb'].
  Qed.

  (* the canonical form of a (line, latency) list without a repeated line does not depend on the order of the list *)
  Theorem sort_pairs_perm_eq (a b : list pairT) : Permutation a b -> NoDup (map fst a) -> sort_pairs N a = sort_pairs N b.
  Proof.
    intros P ND. assert (ND' : NoDup (map fst b)) by (apply (Permutation_NoDup (Permutation_map fst P)); exact ND).
    apply sorted_unique; [|apply sort_pairs_sorted; exact ND | apply sort_pairs_sorted; exact ND'].
    rewrite (sort_pairs_perm N a), P. symmetry. apply sort_pairs_perm.
  Qed.

  (* ---------------------------------------------------------------- entries *)
  Definition mapped (off : nat) (p : list pairT) : list pairT := map (fun sw => (back off (fst sw), snd sw)) p.

  Lemma entry_of_sum off p : fst (entry_of N off p) = sum_pairs N (snd (entry_of N off p)).
  Proof. reflexivity. Qed.

  Lemma entry_of_same_members off p q : snd (entry_of N off p) = snd (entry_of N off q) -> entry_of N off p = entry_of N off q.
  Proof. unfold entry_of. cbv zeta. cbn [snd]. intros ->. reflexivity. Qed.

  (* same lines with the same latencies, in any order: the same entry -- latency included, bit for bit *)
  Theorem entry_of_perm off p q : Permutation (mapped off p) (mapped off q) -> NoDup (map fst (mapped off p)) ->
    entry_of N off p = entry_of N off q.
  Proof. intros P ND. apply entry_of_same_members. unfold entry_of. cbv zeta. cbn [snd]. apply sort_pairs_perm_eq; assumption. Qed.

  (* the rotations of a cycle: the path found from another of its nodes lists the same (line, latency) pairs, starting i pairs later *)
  Theorem entry_of_rotation off p q i : mapped off q = skipn i (mapped off p) ++ firstn i (mapped off p) ->
    NoDup (map fst (mapped off p)) -> entry_of N off q = entry_of N off p.
  Proof.
    intros E ND. symmetry. apply entry_of_perm; [|exact ND]. rewrite E.
    rewrite <- (firstn_skipn i (mapped off p)) at 1. apply Permutation_app_comm.
  Qed.

  (* ---------------------------------------------------------------- de-duplication *)
  Lemma dedup_sub : forall es seen e, In e (dedup N seen es) -> In e es.
  Proof.
    induction es as [|x es IH]; intros seen e H; [contradiction|]. cbn [dedup] in H.
    destruct (existsb (pairs_eqb N (snd x)) seen).
    - right. eapply IH; eassumption.
    - destruct H as [H|H]; [left; exact H | right; eapply IH; eassumption].
  Qed.

  (* only the keys that occur need to be equal to themselves (a NaN latency is not) *)
  Lemma dedup_cov : forall es seen e, In e es -> pairs_eqb N (snd e) (snd e) = true ->
    existsb (pairs_eqb N (snd e)) seen = true \/ exists e', In e' (dedup N seen es) /\ pairs_eqb N (snd e) (snd e') = true.
  Proof.
    induction es as [|x es IH]; intros seen e H R; [contradiction|]. cbn [dedup].
    destruct (existsb (pairs_eqb N (snd x)) seen) eqn:S.
    - destruct H as [H|H]; [subst; left; exact S | apply IH; assumption].
    - destruct H as [H|H].
      + subst. right. exists e. split; [left; reflexivity | exact R].
      + destruct (IH (snd x :: seen) e H R) as [A|(e' & A & B)].
        * cbn [existsb] in A. apply orb_true_iff in A. destruct A as [A|A].
          -- right. exists x. split; [left; reflexivity | exact A].
          -- left. exact A.
        * right. exists e'. split; [right; exact A | exact B].
  Qed.

  Lemma dedup_order_incl (es es' : list (entry (T:=T))) : Permutation es es' ->
    (forall e, In e es -> pairs_eqb N (snd e) (snd e) = true) ->
    (forall a b, In a es -> In b es -> pairs_eqb N (snd a) (snd b) = true -> snd a = snd b) ->
    (forall e, In e es -> fst e = sum_pairs N (snd e)) ->
    forall e, In e (dedup N [] es) -> In e (dedup N [] es').
  Proof.
    intros P R K S e He. apply dedup_sub in He.
    assert (He' : In e es') by (apply (Permutation_in _ P); exact He).
    destruct (dedup_cov es' [] e He' (R e He)) as [A|(e' & A & B)]; [discriminate|].
    assert (Hin' : In e' es) by (apply (Permutation_in _ (Permutation_sym P)); eapply dedup_sub; exact A).
    pose proof (K e e' He Hin' B) as Ek. pose proof (S e He) as S1. pose proof (S e' Hin') as S2.
    destruct e as [s lp], e' as [s' lp']. cbn [fst snd] in *. subst. exact A.
  Qed.

  (* THE DE-DUPLICATION REPORTS THE SAME ENTRIES WHATEVER THE ORDER IN WHICH THE PATHS ARRIVED, for every numeric instance:
     each entry carries the sum of its own sorted member list, so it is irrelevant which representative of a class is kept.
     Hypotheses about the delivered entries only: their keys are equal to themselves (no NaN) and keys that compare equal are
     identical (no 0.0 against -0.0) *)
  Theorem dedup_order_independent (es es' : list (entry (T:=T))) : Permutation es es' ->
    (forall e, In e es -> pairs_eqb N (snd e) (snd e) = true) ->
    (forall a b, In a es -> In b es -> pairs_eqb N (snd a) (snd b) = true -> snd a = snd b) ->
    (forall e, In e es -> fst e = sum_pairs N (snd e)) ->
    forall e, In e (dedup N [] es) <-> In e (dedup N [] es').
  Proof.
    intros P R K S e. split; [apply dedup_order_incl; assumption|].
    apply dedup_order_incl.
    - symmetry. exact P.
    - intros x Hx. apply R. apply (Permutation_in _ (Permutation_sym P)). exact Hx.
    - intros a b Ha Hb. apply K; apply (Permutation_in _ (Permutation_sym P)); assumption.
    - intros x Hx. apply S. apply (Permutation_in _ (Permutation_sym P)). exact Hx.
  Qed.

  (* every entry the model reports carries the left-to-right sum of its own member list *)
  Theorem lcd_entries_sum dep fwd pidx fd (K : list (line (T:=T))) e :
    In e (lcd_entries N dep fwd pidx fd K) -> fst e = sum_pairs N (snd e).
  Proof.
    unfold lcd_entries. cbv zeta. intros H. apply dedup_sub in H. apply in_flat_map in H. destruct H as (l & _ & H).
    apply in_map_iff in H. destruct H as (p & <- & _). reflexivity.
  Qed.

  (* ---------------------------------------------------------------- the functional reading of the translated code *)
  Section Reading.
    Context {I : Type} (get : I -> Z) (heap : list I).
    Notation item := (item (T:=T)).

    Definition canonical (it : item) : Prop := fst it = sum_sorted N (snd it).

    Lemma step_path_items lat off path st st' : step_path N lat off path st = POk st' ->
      forall it, In it (snd st') -> In it (snd st) \/ canonical it.
    Proof.
      unfold step_path. destruct (py_for _ _ _) as [r|]; [|discriminate]. cbn [pbind].
      destruct (py_bound (fst r)) as [d|]; [|discriminate]. cbn [pbind].
      destruct (py_set_mem _ _ _); intros E; inversion E; subst; cbn [snd]; intros it Hin; [left; exact Hin|].
      apply in_app_or in Hin. destruct Hin as [Hin|[<-|[]]]; [left; exact Hin | right; reflexivity].
    Qed.

    Lemma paths_loop_items lat off : forall all_paths st st', py_for all_paths st (step_path N lat off) = POk st' ->
      forall it, In it (snd st') -> In it (snd st) \/ canonical it.
    Proof.
      induction all_paths as [|path r IH]; intros st st' H it Hin.
      - inversion H; subst. left. exact Hin.
      - cbn [py_for] in H. destruct (step_path N lat off path st) as [st1|] eqn:E1; [|discriminate]. cbn [pbind] in H.
        destruct (IH st1 st' H it Hin) as [A|A]; [|right; exact A]. exact (step_path_items lat off path st st1 E1 it A).
    Qed.

    Lemma fold_deps : forall (lp : list (Z * T)) (deps : list (nat * T)) a,
      Forall2 (fun ll rw => node_by_lineno get heap (fst ll) = POk (fst rw) /\ snd rw = snd ll) lp deps ->
      fold_left (fun a il => nadd N a (snd il)) lp a = fold_left (fun a rw => nadd N a (snd rw)) deps a.
    Proof.
      intros lp deps a F. revert a. induction F as [|ll rw lp deps (_ & E) _ IH]; intros a; [reflexivity|].
      cbn [fold_left]. rewrite E. apply IH.
    Qed.

    (* EVERY VALUE OF THE RETURNED DICTIONARY: latency = 0.0 + lat_1 + ... + lat_n, added left to right, over its own `dependencies`
       list [(node_1, lat_1), ..., (node_n, lat_n)] -- whatever paths were delivered, in whatever order, by however many workers *)
    Theorem post_model_latency_is_sum_of_dependencies lat off all_paths d key root deps latency :
      post_model N get lat heap off all_paths [] = POk d -> In (key, (root, deps, latency)) d ->
      latency = fold_left (fun a rw => nadd N a (snd rw)) deps (n0 N).
    Proof.
      unfold post_model, dedup_model. intros H Hin.
      destruct (py_for all_paths (None, [], []) (step_path N lat off)) as [st|] eqn:E; [|discriminate]. cbn [pbind] in H.
      destruct (dict_of_spec get heap _ d H) as (_ & S & _). destruct (S _ _ Hin) as (it & Hit & _ & Hv).
      apply py_sort_rev_In in Hit. destruct (paths_loop_items lat off all_paths _ st E it Hit) as [[]|C].
      destruct (item_value_spec get heap it root deps latency Hv) as (El & F & _).
      rewrite El, C. unfold sum_sorted. apply fold_deps. exact F.
    Qed.
  End Reading.
End AnyNum.
