(* C10 -- the lexer reads back every rendered token list:  lex (render lay toks) = Some (mark lay toks).
   One case per token class (word, punctuation, comment), induction on the token list; the side
   conditions on the layout are the boolean lay_okb of Model/SyntaxA64.v. *)
From Coq Require Import String Ascii List Bool Arith NArith Lia.
From OV Require Import Model.LexA64 Model.ParseA64 Model.SyntaxA64.
Import ListNotations.
Open Scope string_scope.

Local Arguments is_wordch : simpl never.
Local Arguments is_ws : simpl never.
Local Arguments is_punct : simpl never.
Local Arguments is_sign : simpl never.
Local Arguments is_digit : simpl never.
Local Arguments is_printable : simpl never.
Local Arguments ceq : simpl never.
Local Arguments sign_ctx : simpl never.
Local Arguments is_cond : simpl never.

(* ---------------------------------------------------------------- character facts (all 256 characters) *)
Ltac allchars :=
  let c := fresh "c" in
  intros c; destruct c as [[|] [|] [|] [|] [|] [|] [|] [|]]; vm_compute; intros; try reflexivity; try discriminate.

Definition okc (c : ascii) : bool := orb (is_printable c) (is_ws c).

Lemma ws_nw : forall c, is_ws c = true -> is_wordch c = false. Proof. allchars. Qed.
Lemma ws_nsign : forall c, is_ws c = true -> is_sign c = false. Proof. allchars. Qed.
Lemma ws_nminus : forall c, is_ws c = true -> ceq c "-" = false. Proof. allchars. Qed.
Lemma ws_ndigit : forall c, is_ws c = true -> is_digit c = false. Proof. allchars. Qed.
Lemma ws_nslash : forall c, is_ws c = true -> ceq "/" c = false. Proof. allchars. Qed.
Lemma ws_okc : forall c, is_ws c = true -> okc c = true. Proof. allchars. Qed.
Lemma punct_nw : forall c, is_punct c = true -> is_wordch c = false. Proof. allchars. Qed.
Lemma punct_nws : forall c, is_punct c = true -> is_ws c = false. Proof. allchars. Qed.
Lemma punct_ndigit : forall c, is_punct c = true -> is_digit c = false. Proof. allchars. Qed.
Lemma punct_sign : forall c, is_punct c = true -> is_sign c = true -> ceq c "-" = true. Proof. allchars. Qed.
Lemma punct_okc : forall c, is_punct c = true -> okc c = true. Proof. allchars. Qed.
Lemma wordch_nslash : forall c, is_wordch c = true -> ceq "/" c = false. Proof. allchars. Qed.
Lemma wordch_okc : forall c, is_wordch c = true -> okc c = true. Proof. allchars. Qed.
Lemma sign_facts : forall c, is_sign c = true -> okc c = true.
Proof. allchars. Qed.
Lemma ceq_sym : forall a b, ceq a b = ceq b a.
Proof. intros. unfold ceq. apply Ascii.eqb_sym. Qed.

Ltac split_andb H :=
  repeat match type of H with
         | (_ && _)%bool = true => let H1 := fresh H in apply andb_true_iff in H; destruct H as [H H1]
         end.

(* ---------------------------------------------------------------- strings *)
Lemma app_nil_r_s : forall s : string, s ++ "" = s.
Proof. induction s; simpl; congruence. Qed.
Lemma app_nil_l_s : forall s : string, "" ++ s = s.
Proof. reflexivity. Qed.
Lemma app_assoc_s : forall a b c : string, (a ++ b) ++ c = a ++ (b ++ c).
Proof. induction a; simpl; intros; congruence. Qed.
Lemma sall_app : forall f a b, sall f (a ++ b) = andb (sall f a) (sall f b).
Proof. induction a; simpl; intros; auto. rewrite IHa, andb_assoc. reflexivity. Qed.
Lemma head_app : forall f a b, a <> "" -> head_is f (a ++ b) = head_is f a.
Proof. destruct a; simpl; intros; congruence. Qed.

(* ---------------------------------------------------------------- one step of the lexer *)
Lemma lx_cons : forall c r acc,
  lx (String c r) acc =
    if is_wordch c then lx r (snoc acc c)
    else if andb (is_sign c) (sign_ctx acc) then lx r (snoc acc c)
    else if andb (ceq c "-") (andb (match acc with EmptyString => true | _ => false end) (head_is is_digit r))
    then lx r (String c "")
    else if is_ws c then option_map (flush_ws acc) (lx r "")
    else if andb (ceq c "/") (head_is (ceq "/") r)
    then Some (flush acc [TC (match r with String _ r' => r' | EmptyString => "" end)])
    else if is_punct c then option_map (fun l => flush acc (TP c :: l)) (lx r "")
    else None.
Proof. reflexivity. Qed.

Lemma om_flush_ws_nil : forall x : option (list tok), option_map (flush_ws "") x = x.
Proof. destruct x; reflexivity. Qed.

(* white space with no word pending is skipped *)
Lemma lx_ws_step : forall c r acc, is_ws c = true -> lx (String c r) acc = option_map (flush_ws acc) (lx r "").
Proof.
  intros c r acc H. rewrite lx_cons, (ws_nw c H), (ws_nsign c H), (ws_nminus c H), H. reflexivity.
Qed.
Lemma skip_ws : forall ws s, sall is_ws ws = true -> lx (ws ++ s) "" = lx s "".
Proof.
  induction ws as [|c r IH]; intros s H; [reflexivity|].
  simpl in H. apply andb_true_iff in H. destruct H as [Hc Hr].
  change (String c r ++ s) with (String c (r ++ s)).
  rewrite (lx_ws_step c _ "" Hc), om_flush_ws_nil. apply IH; auto.
Qed.
Lemma lx_ws_only : forall ws, sall is_ws ws = true -> lx ws "" = Some [].
Proof. intros ws H. rewrite <- (app_nil_r_s ws). rewrite (skip_ws ws "" H). reflexivity. Qed.

(* ---------------------------------------------------------------- token class 1: words *)
Lemma lx_word_run : forall w acc rest, word_run w acc = true -> lx (w ++ rest) acc = lx rest (acc ++ w).
Proof.
  induction w as [|c r IH]; intros acc rest H.
  - simpl. rewrite app_nil_r_s. reflexivity.
  - simpl in H. apply andb_true_iff in H. destruct H as [Hc Hr].
    change (String c r ++ rest) with (String c (r ++ rest)).
    rewrite lx_cons. specialize (IH (snoc acc c) rest Hr).
    assert (E : snoc acc c ++ r = acc ++ String c r) by (unfold snoc; rewrite app_assoc_s; reflexivity).
    rewrite E in IH.
    destruct (is_wordch c); [exact IH|]. simpl in Hc. rewrite Hc. exact IH.
Qed.

Lemma word_ok_nonempty : forall w, word_ok w = true -> w <> "".
Proof. destruct w; simpl; intros; congruence. Qed.

Lemma lx_word : forall w rest, word_ok w = true -> lx (w ++ rest) "" = lx rest w.
Proof.
  intros w rest H. destruct w as [|c r]; [discriminate|]. unfold word_ok in H.
  destruct (ceq c "-") eqn:E.
  - apply Ascii.eqb_eq in E. subst c. destruct r as [|d r']; [discriminate|].
    apply andb_true_iff in H. destruct H as [Hd Hr].
    change (String "-" (String d r') ++ rest) with (String "-" (String d r' ++ rest)).
    rewrite lx_cons.
    change (is_wordch "-") with false. change (is_sign "-" && sign_ctx "")%bool with false.
    change (ceq "-" "-") with true. cbv iota.
    simpl head_is. rewrite Hd. simpl andb. cbv iota.
    rewrite (lx_word_run (String d r') "-" rest Hr). reflexivity.
  - apply andb_true_iff in H. destruct H as [_ Hr].
    rewrite (lx_word_run (String c r) "" rest Hr). reflexivity.
Qed.

Lemma word_run_okc : forall w acc, word_run w acc = true -> sall okc w = true.
Proof.
  induction w as [|c r IH]; simpl; intros acc H; auto.
  apply andb_true_iff in H. destruct H as [Hc Hr]. rewrite (IH _ Hr), andb_true_r.
  destruct (is_wordch c) eqn:W.
  - exact (wordch_okc c W).
  - simpl in Hc. apply andb_true_iff in Hc. destruct Hc as [Hs _]. apply sign_facts; auto.
Qed.
Lemma word_ok_okc : forall w, word_ok w = true -> sall okc w = true.
Proof.
  intros w H. destruct w as [|c r]; [discriminate|]. unfold word_ok in H.
  destruct (ceq c "-") eqn:E.
  - apply Ascii.eqb_eq in E. subst c. destruct r as [|d r']; [discriminate|].
    apply andb_true_iff in H. destruct H as [_ Hr]. simpl sall at 1.
    change (okc "-") with true. simpl. exact (word_run_okc _ _ Hr).
  - apply andb_true_iff in H. destruct H as [_ Hr]. exact (word_run_okc _ _ Hr).
Qed.
Lemma word_ok_head : forall w, word_ok w = true ->
  head_is (ceq "/") w = false /\ (head_is is_digit w = false -> True).
Proof.
  intros w H. split; [|auto]. destruct w as [|c r]; [discriminate|]. unfold word_ok in H. simpl.
  destruct (ceq c "-") eqn:E.
  - apply Ascii.eqb_eq in E. subst c. reflexivity.
  - apply andb_true_iff in H. destruct H as [Hc _]. exact (wordch_nslash c Hc).
Qed.

(* ---------------------------------------------------------------- rendering *)
Definition R (lay : list string) (ts : list tok) (trail : string) : string := render_toks (zip_lay lay ts) trail.
Lemma R_cons : forall lay t r trail, R lay (t :: r) trail = hd "" lay ++ tok_string t ++ R (tl lay) r trail.
Proof. reflexivity. Qed.

Definition emit (w ws : string) : tok := if andb (nonempty ws) (is_cond w) then TWI w else TW w.
Definition next_ws (lay : list string) (trail : string) (ts : list tok) : string :=
  match ts with [] => trail | _ => hd "" lay end.
Lemma mark_cons : forall lay trail t r,
  mark lay trail (t :: r) =
  (match t with TW w => emit w (next_ws (tl lay) trail r) | _ => t end) :: mark (tl lay) trail r.
Proof. intros. destruct t; reflexivity. Qed.

Lemma lay_okb_cons : forall prev lay t r,
  lay_okb prev lay (t :: r) = true ->
  sall is_ws (hd "" lay) = true /\ (nonempty (hd "" lay) = false -> clash prev t = false) /\
  tok_okb t (match r with [] => true | _ => false end) = true /\ lay_okb (Some t) (tl lay) r = true.
Proof.
  intros prev lay t r H. simpl in H.
  apply andb_true_iff in H. destruct H as [H1 H]. apply andb_true_iff in H. destruct H as [H2 H].
  apply andb_true_iff in H. destruct H as [H3 H4]. repeat split; auto.
  intros E. rewrite E in H2. simpl in H2. apply negb_true_iff in H2. exact H2.
Qed.

(* what follows a punctuation character cannot be mistaken for a continuation of it *)
Lemma head_after_punct : forall r lay p trail,
  sall is_ws trail = true -> lay_okb (Some (TP p)) lay r = true ->
  (ceq p "-" = true -> head_is is_digit (R lay r trail) = false) /\
  (ceq p "/" = true -> head_is (ceq "/") (R lay r trail) = false).
Proof.
  intros r lay p trail Ht H. destruct r as [|t r'].
  - unfold R. simpl. destruct trail as [|c tr]; [split; reflexivity|]. simpl in Ht.
    apply andb_true_iff in Ht. destruct Ht as [Hc _].
    simpl. split; intros; [exact (ws_ndigit c Hc)|exact (ws_nslash c Hc)].
  - apply lay_okb_cons in H. destruct H as (Hws & Hcl & Htok & _). rewrite R_cons.
    destruct (hd "" lay) as [|c ws] eqn:E.
    + specialize (Hcl eq_refl). rewrite app_nil_l_s.
      destruct t as [w|w|c|raw]; simpl in Htok.
      * pose proof (word_ok_nonempty w Htok) as Hne. rewrite !(head_app _ w _ Hne).
        simpl in Hcl. split; intros Hp; [rewrite Hp in Hcl; simpl in Hcl; exact Hcl|].
        apply (word_ok_head w Htok).
      * discriminate.
      * simpl. simpl in Hcl. split; intros Hp; [exact (punct_ndigit c Htok)|]. rewrite Hp in Hcl. simpl in Hcl.
        rewrite ceq_sym. exact Hcl.
      * simpl in Hcl. simpl. split; intros Hp; [reflexivity|]. rewrite Hp in Hcl. discriminate.
    + simpl in Hws. apply andb_true_iff in Hws. destruct Hws as [Hc _].
      simpl. split; intros; [exact (ws_ndigit c Hc)|exact (ws_nslash c Hc)].
Qed.

Definition prev_nw (prev : option tok) : bool :=
  match prev with Some (TW _) => false | Some (TWI _) => false | _ => true end.

Lemma lay_okb_weaken : forall prev lay ws t r,
  lay_okb prev lay (t :: r) = true -> sall is_ws ws = true -> lay_okb None (ws :: tl lay) (t :: r) = true.
Proof.
  intros prev lay ws t r H Hw. apply lay_okb_cons in H. destruct H as (_ & _ & Htok & Hr).
  simpl. rewrite Hw, Htok, Hr. simpl. rewrite orb_true_r. reflexivity.
Qed.

(* ---------------------------------------------------------------- the lexer lemma, by induction on the token list *)
Lemma lex_tokens : forall ts trail,
  sall is_ws trail = true -> (ends_with_comment ts = true -> trail = "") ->
  (forall lay prev, prev_nw prev = true -> lay_okb prev lay ts = true ->
     lx (R lay ts trail) "" = Some (mark lay trail ts)) /\
  (forall lay w, w <> "" -> lay_okb (Some (TW w)) lay ts = true ->
     lx (R lay ts trail) w = Some (emit w (next_ws lay trail ts) :: mark lay trail ts)).
Proof.
  induction ts as [|t r IH]; intros trail Ht Hc.
  - split.
    + intros. unfold R. simpl. apply lx_ws_only; auto.
    + intros lay w Hw _. unfold R. simpl. unfold emit. destruct trail as [|c tr].
      * simpl. destruct w; [congruence|reflexivity].
      * simpl in Ht. apply andb_true_iff in Ht. destruct Ht as [Hcw Htr].
        rewrite (lx_ws_step c tr w Hcw), (lx_ws_only tr Htr). simpl.
        destruct w; [congruence|reflexivity].
  - assert (Hc' : ends_with_comment r = true -> trail = "").
    { intros E. apply Hc. destruct t; simpl; auto. }
    destruct (IH trail Ht Hc') as [IHA IHB].
    assert (A : forall lay prev, prev_nw prev = true -> lay_okb prev lay (t :: r) = true ->
                lx (R lay (t :: r) trail) "" = Some (mark lay trail (t :: r))).
    { intros lay prev Hp H. pose proof H as H0. apply lay_okb_cons in H. destruct H as (Hws & _ & Htok & Hr).
      rewrite R_cons, (skip_ws _ _ Hws), mark_cons.
      destruct t as [w|w|c|raw]; simpl in Htok.
      - (* word *)
        simpl tok_string. rewrite (lx_word w _ Htok).
        rewrite (IHB (tl lay) w (word_ok_nonempty w Htok) Hr). reflexivity.
      - discriminate.
      - (* punctuation *)
        simpl tok_string. change (String c "" ++ R (tl lay) r trail) with (String c (R (tl lay) r trail)).
        pose proof (punct_nw c Htok) as F. pose proof (punct_nws c Htok) as F3.
        destruct (head_after_punct r (tl lay) c trail Ht Hr) as [H1 H2].
        rewrite lx_cons, F. change (sign_ctx "") with false. rewrite andb_false_r.
        assert (E1 : (ceq c "-" && (true && head_is is_digit (R (tl lay) r trail)))%bool = false).
        { destruct (ceq c "-"); [|reflexivity]. rewrite (H1 eq_refl). reflexivity. }
        rewrite E1, F3.
        assert (E2 : (ceq c "/" && head_is (ceq "/") (R (tl lay) r trail))%bool = false).
        { destruct (ceq c "/"); [|reflexivity]. rewrite (H2 eq_refl). reflexivity. }
        rewrite E2, Htok. rewrite (IHA (tl lay) (Some (TP c)) eq_refl Hr). reflexivity.
      - (* comment *)
        apply andb_true_iff in Htok. destruct Htok as [Hlast _].
        destruct r; [|discriminate]. rewrite (Hc eq_refl). unfold R. simpl. rewrite app_nil_r_s. reflexivity. }
    split; [exact A|].
    intros lay w Hw H. pose proof H as H0. apply lay_okb_cons in H. destruct H as (Hws & Hcl & Htok & Hr).
    unfold next_ws. rewrite R_cons.
    destruct (hd "" lay) as [|c ws] eqn:E.
    + (* the next token is glued to the word *)
      specialize (Hcl eq_refl). rewrite app_nil_l_s. rewrite mark_cons. unfold emit at 1. simpl nonempty. simpl andb.
      destruct t as [w'|w'|c|raw]; simpl in Htok.
      * simpl in Hcl. discriminate.
      * discriminate.
      * simpl tok_string. change (String c "" ++ R (tl lay) r trail) with (String c (R (tl lay) r trail)).
        pose proof (punct_nw c Htok) as F. pose proof (punct_nws c Htok) as F3.
        destruct (head_after_punct r (tl lay) c trail Ht Hr) as [_ H2].
        rewrite lx_cons, F. simpl in Hcl.
        assert (E0 : (is_sign c && sign_ctx w)%bool = false).
        { destruct (is_sign c) eqn:S; [|reflexivity]. rewrite (punct_sign c Htok S) in Hcl. exact Hcl. }
        rewrite E0.
        assert (E1 : (ceq c "-" && ((match w with "" => true | String _ _ => false end) && head_is is_digit (R (tl lay) r trail)))%bool = false).
        { destruct w; [congruence|]. simpl. apply andb_false_r. }
        rewrite E1, F3.
        assert (E2 : (ceq c "/" && head_is (ceq "/") (R (tl lay) r trail))%bool = false).
        { destruct (ceq c "/"); [|reflexivity]. rewrite (H2 eq_refl). reflexivity. }
        rewrite E2, Htok. rewrite (IHA (tl lay) (Some (TP c)) eq_refl Hr). simpl.
        destruct w; [congruence|reflexivity].
      * apply andb_true_iff in Htok. destruct Htok as [Hlast _].
        destruct r; [|discriminate]. rewrite (Hc eq_refl). unfold R. simpl. rewrite app_nil_r_s.
        destruct w; [congruence|reflexivity].
    + (* white space ends the word *)
      simpl in Hws. apply andb_true_iff in Hws. destruct Hws as [Hcw Hwr].
      change ((String c ws ++ tok_string t ++ R (tl lay) r trail)) with (String c (ws ++ tok_string t ++ R (tl lay) r trail)).
      rewrite (lx_ws_step c _ w Hcw).
      pose proof (A (ws :: tl lay) None eq_refl (lay_okb_weaken _ _ ws _ _ H0 Hwr)) as HA.
      rewrite R_cons in HA. simpl hd in HA. simpl tl in HA. rewrite HA.
      unfold emit. simpl nonempty. simpl andb. simpl option_map.
      rewrite !mark_cons. simpl tl.
      destruct w; [congruence|]. reflexivity.
Qed.

(* every character of a rendered line is printable ASCII or skipped white space *)
Lemma R_line_ok : forall ts lay prev trail,
  sall is_ws trail = true -> lay_okb prev lay ts = true -> sall okc (R lay ts trail) = true.
Proof.
  induction ts as [|t r IH]; intros lay prev trail Ht H.
  - unfold R. simpl. clear H. induction trail as [|c tr IHt]; simpl in *; auto.
    apply andb_true_iff in Ht. destruct Ht as [Hc Htr]. rewrite (IHt Htr), andb_true_r.
    exact (ws_okc c Hc).
  - apply lay_okb_cons in H. destruct H as (Hws & _ & Htok & Hr).
    rewrite R_cons, !sall_app, (IH _ _ _ Ht Hr), andb_true_r. apply andb_true_iff. split.
    + clear - Hws. induction (hd "" lay) as [|c ws IHw]; simpl in *; auto.
      apply andb_true_iff in Hws. destruct Hws as [Hc Hw]. rewrite (IHw Hw), andb_true_r.
      exact (ws_okc c Hc).
    + destruct t as [w|w|c|raw]; simpl in Htok.
      * exact (word_ok_okc w Htok).
      * discriminate.
      * simpl. rewrite (punct_okc c Htok). reflexivity.
      * apply andb_true_iff in Htok. destruct Htok as [_ Hraw]. simpl. exact Hraw.
Qed.

Definition line_trail (ts : list tok) (trail : string) : string := if ends_with_comment ts then "" else trail.

(* the lexer self-delimitation lemma *)
Theorem lex_render_tokens : forall lay trail ts,
  sall is_ws trail = true -> lay_okb None lay ts = true ->
  lex (render_toks (zip_lay lay ts) (line_trail ts trail)) = Some (mark lay (line_trail ts trail) ts).
Proof.
  intros lay trail ts Ht H. unfold lex, line_ok.
  assert (Ht' : sall is_ws (line_trail ts trail) = true) by (unfold line_trail; destruct (ends_with_comment ts); auto).
  assert (Hc : ends_with_comment ts = true -> line_trail ts trail = "") by (unfold line_trail; intros ->; reflexivity).
  pose proof (R_line_ok ts lay None _ Ht' H) as Hok. unfold R, okc in Hok. rewrite Hok.
  destruct (lex_tokens ts _ Ht' Hc) as [A _]. exact (A lay None eq_refl H).
Qed.

(* without white space after a condition-code word nothing is marked *)
Lemma mark_tight : forall ts lay trail, tightb lay trail ts = true -> mark lay trail ts = ts.
Proof.
  induction ts as [|t r IH]; intros lay trail H; [reflexivity|].
  simpl in H. apply andb_true_iff in H. destruct H as [H1 H2]. simpl. rewrite (IH _ _ H2).
  destruct t; auto. apply negb_true_iff in H1. rewrite H1. reflexivity.
Qed.

(* with the repair fx_cond the marks are dropped again: the lexer's answer is read as the plain token list *)
Lemma unmark_mark : forall ts prev lay trail, lay_okb prev lay ts = true -> map unmark1 (mark lay trail ts) = ts.
Proof.
  induction ts as [|t r IH]; intros prev lay trail H; [reflexivity|].
  apply lay_okb_cons in H. destruct H as (_ & _ & Htok & Hr).
  rewrite mark_cons. simpl map. rewrite (IH _ _ _ Hr). f_equal.
  destruct t as [w|w|c|raw]; simpl in Htok; try reflexivity; [|discriminate].
  unfold emit. destruct (andb (nonempty (next_ws (tl lay) trail r)) (is_cond w)); reflexivity.
Qed.
