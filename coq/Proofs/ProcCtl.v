(* C16 / C19 -- facts about the functional reading Model/ProcCtl.v (ref_search) of the control flow
   of check_for_loopcarried_dep:
     (S) in the world of Model.Timeout's sequential loop it IS run_sequential SeqDeadlinePerPath;
     (P) in the world of Model.Timeout's poll loop it IS run_parallel FlagOnKill;
     (C) in the world of Model.Parallel (sections, schedules) both branches give lcd_sequential;
     (L) for EVERY oracle: the shape of the log of calls (every started process is joined, the shared
         list is read after the last join, the flag is set iff a SIGKILL was sent, ...).
   PropsGen/C19gen.v / C16ctl.v transfer these to the regenerated code (g_lcd_search = ref_search). *)
From Coq Require Import ZArith List Bool Lia Permutation.
From OV Require Import Model.Parallel Model.Timeout Model.PyProc Model.ProcCtl Proofs.Parallel Proofs.Timeout.
Import ListNotations.
Open Scope Z_scope.

(* ------------------------------------------------------------------ lists indexed by position *)
Lemma map_nth_seq {A B} (f : A -> B) (l : list A) d :
  map (fun i => f (nth i l d)) (seq 0 (length l)) = map f l.
Proof.
  induction l as [|x l IH]; [reflexivity|].
  simpl length. rewrite <- cons_seq, <- seq_shift. simpl. rewrite map_map. simpl. f_equal. exact IH.
Qed.
Lemma existsb_nth_seq {A} (f : A -> bool) (l : list A) d :
  existsb (fun i => f (nth i l d)) (seq 0 (length l)) = existsb f l.
Proof.
  rewrite <- (existsb_map_id f l), <- (map_nth_seq f l d), existsb_map_id. reflexivity.
Qed.
Lemma forallb_nth_seq {A} (f : A -> bool) (l : list A) d :
  forallb (fun i => f (nth i l d)) (seq 0 (length l)) = forallb f l.
Proof.
  induction l as [|x l IH]; [reflexivity|].
  simpl length. rewrite <- cons_seq, <- seq_shift. simpl. f_equal. rewrite <- IH.
  clear. generalize (seq 0 (length l)). induction l0; simpl; congruence.
Qed.
Lemma flat_map_nth_seq {A B} (f : A -> list B) (l : list A) d :
  flat_map (fun i => f (nth i l d)) (seq 0 (length l)) = flat_map f l.
Proof. rewrite !flat_map_concat_map. f_equal. apply map_nth_seq. Qed.

(* ================================================================== (S) the sequential loop *)
Section SeqModel.
  Variables (clk : nat -> Z) (T : Z).
  Context {I A : Type}.
  Notation O := (@soracle clk I A).

  Definition seq_body (start : Z) :=
    (fun (path : A) (st : bool * list A) =>
       let '(flag, acc) := st in
       if T =? -1 then ret (CNext, (flag, acc ++ [path]))
       else bind (o_now O) (fun t => if T <? t - start then ret (CBreak, (true, acc)) else ret (CNext, (flag, acc ++ [path])))).

  Lemma seq_loop_sim : forall rest fuel fuel' n acc,
    (length rest < fuel)%nat -> (length rest < fuel')%nat ->
    let o := seq_iter SeqDeadlinePerPath fuel' clk T (mkst n acc rest) in
    exists rest',
      w_iter fuel (o_next O tt) (seq_body (clk 0%nat)) (false, acc) (mksw n rest)
      = WOk (s_flag o, s_result o) (mksw (s_exit o) rest').
  Proof.
    unfold seq_body. destruct (T =? -1) eqn:En.
    all: induction rest as [|p r IH]; intros fuel fuel' n acc Hf Hf'; simpl in Hf, Hf';
      (destruct fuel as [|fuel]; [lia|]); (destruct fuel' as [|fuel']; [lia|]).
    all: try (exists []; reflexivity).
    all: cbn [w_iter seq_iter]; unfold seq_step; cbn [st_rest st_n st_acc]; unfold bind at 1; cbn [o_next soracle sw_rest sw_n];
      unfold late; rewrite En; cbn [negb andb].
    - unfold bind at 1. cbn [ret fst snd]. apply IH; lia.
    - unfold bind at 1. unfold bind at 1. cbn [o_now soracle sw_n].
      destruct (T <? clk (S n) - clk 0%nat) eqn:El.
      + exists r. reflexivity.
      + cbn [ret fst snd]. apply IH; lia.
  Qed.

  Theorem ref_sequential_is_model fuel (kernel : list I) (all : list A) :
    (length all < fuel)%nat ->
    let o := run_sequential SeqDeadlinePerPath clk T all in
    exists rest',
      ref_sequential O fuel kernel T false [] (mksw 0 all) = WOk (s_flag o, s_result o) (mksw (s_exit o) rest').
  Proof.
    intros Hf o. unfold ref_sequential. unfold bind at 1. cbn [o_now soracle sw_n]. unfold bind at 1. cbn [o_paths soracle ret].
    destruct (seq_loop_sim all fuel (S (length all)) 0%nat [] Hf ltac:(lia)) as [rest' E].
    exists rest'. unfold bind at 1.
    match goal with |- match ?t with _ => _ end = _ =>
      change t with (w_iter fuel (o_next O tt) (seq_body (clk 0%nat)) (false, []) (mksw 0%nat all)) end.
    rewrite E. reflexivity.
  Qed.
End SeqModel.

(* ================================================================== (P) the poll loop *)
Lemma bind_ok {W A B} (m : M W A) (f : A -> M W B) w a w' : m w = WOk a w' -> bind m f w = f a w'.
Proof. intros H. unfold bind. rewrite H. reflexivity. Qed.
Lemma bind_stuck {W A B} (m : M W A) (f : A -> M W B) w s w' : m w = WStuck s w' -> bind m f w = WStuck s w'.
Proof. intros H. unfold bind. rewrite H. reflexivity. Qed.
Lemma existsb_false_forall {A} (f : A -> bool) l : existsb f l = false -> forall x, In x l -> f x = false.
Proof.
  intros H x Hx. destruct (f x) eqn:E; [|reflexivity].
  assert (existsb f l = true) by (apply existsb_exists; eauto). congruence.
Qed.
Lemma not_alive_terminates w t : alive w t = false -> terminates w = true.
Proof. unfold alive, terminates. destruct (w_fin w); [reflexivity|discriminate]. Qed.

Definition par_matches (ws : list worker) (r : wres tworld (bool * list path)) (o : outcome) (untimed : bool) : Prop :=
  match how o with
  | Hangs => exists w, r = WStuck StuckHang w
  | OutOfFuel => exists w, r = WStuck StuckFuel w
  | _ => exists w, r = WOk (timed_out o, concat (shared o)) w /\
                   tw_killed_vec w = killed o /\ tw_joined_vec w = joined o /\
                   tw_nproc w = length ws /\ tw_reads w = (if untimed then 0 else S (exit_poll o))%nat
  end.

Section ParModel.
  Variables (clk : nat -> Z) (ws : list worker).
  Context {I : Type}.
  Notation O := (@toracle clk ws I).
  Notation wk := (tw_worker ws).
  Notation now := (tw_now clk).

  Definition with_joins (w : tworld) js := mktw (tw_reads w) (tw_nproc w) (tw_started w) (tw_kills w) js.

  Lemma mapM_process : forall (secs : list (list I)) w,
    w_mapM (o_process O tt) secs w
    = WOk (seq (tw_nproc w) (length secs)) (mktw (tw_reads w) (tw_nproc w + length secs) (tw_started w) (tw_kills w) (tw_joins w)).
  Proof.
    induction secs as [|s secs IH]; intros w; cbn [w_mapM length seq].
    - unfold ret. rewrite Nat.add_0_r. destruct w; reflexivity.
    - erewrite bind_ok by reflexivity. erewrite bind_ok by apply IH. unfold ret. cbn [tw_nproc tw_reads tw_started tw_kills tw_joins].
      f_equal. f_equal. lia.
  Qed.

  Lemma start_all_spec : forall ps w,
    ref_start_all O ps w = WOk tt (mktw (tw_reads w) (tw_nproc w) (rev ps ++ tw_started w) (tw_kills w) (tw_joins w)).
  Proof.
    unfold ref_start_all. induction ps as [|p ps IH]; intros w; cbn [w_for].
    - destruct w; reflexivity.
    - erewrite bind_ok by (erewrite bind_ok by reflexivity; reflexivity). cbn [fst snd]. rewrite IH.
      cbn [tw_nproc tw_reads tw_started tw_kills tw_joins rev]. rewrite <- app_assoc. reflexivity.
  Qed.

  Lemma join_all_ok : forall ps w,
    (forall i, In i ps -> tw_is_killed w i || terminates (wk i) = true) ->
    ref_join_all O ps w = WOk tt (with_joins w (rev ps ++ tw_joins w)).
  Proof.
    unfold ref_join_all. induction ps as [|p ps IH]; intros w H; cbn [w_for].
    - destruct w; reflexivity.
    - assert (E : o_join O p w = WOk tt (with_joins w (p :: tw_joins w))).
      { cbn [o_join toracle]. rewrite (H p (or_introl eq_refl)). reflexivity. }
      erewrite bind_ok by (erewrite bind_ok by exact E; reflexivity). cbn [fst snd]. rewrite IH.
      + unfold with_joins. cbn [tw_nproc tw_reads tw_started tw_kills tw_joins rev]. rewrite <- app_assoc. reflexivity.
      + intros i Hi. apply (H i). right. exact Hi.
  Qed.

  Lemma join_all_hang : forall ps w,
    (exists i, In i ps /\ tw_is_killed w i || terminates (wk i) = false) ->
    exists w', ref_join_all O ps w = WStuck StuckHang w'.
  Proof.
    unfold ref_join_all. induction ps as [|p ps IH]; intros w (i & Hi & Hb); [destruct Hi|]. cbn [w_for].
    destruct (tw_is_killed w p || terminates (wk p)) eqn:E.
    - assert (E' : o_join O p w = WOk tt (with_joins w (p :: tw_joins w))) by (cbn [o_join toracle]; rewrite E; reflexivity).
      erewrite bind_ok by (erewrite bind_ok by exact E'; reflexivity). cbn [fst snd]. apply IH.
      destruct Hi as [->|Hi]; [congruence|]. exists i. split; [exact Hi|exact Hb].
    - exists w. erewrite bind_stuck; [reflexivity|]. erewrite bind_stuck; [reflexivity|]. cbn [o_join toracle]. rewrite E. reflexivity.
  Qed.

  Lemma no_kills_not_killed w i : tw_kills w = [] -> tw_is_killed w i = false.
  Proof. intros H. unfold tw_is_killed, tw_killed_at. rewrite H. reflexivity. Qed.

  Lemma any_alive_spec : forall ps w, tw_kills w = [] ->
    w_any (o_is_alive O) ps w = WOk (existsb (fun i => alive (wk i) (now w)) ps) w.
  Proof.
    induction ps as [|p ps IH]; intros w H; cbn [w_any existsb]; [reflexivity|].
    erewrite bind_ok by reflexivity. rewrite (no_kills_not_killed w p H). cbn [negb andb].
    destruct (alive (wk p) (now w)); [reflexivity|]. apply IH. exact H.
  Qed.

  Definition alive_now (w : tworld) (i : nat) : bool := alive (wk i) (now w).

  Lemma kill_loop_spec : forall ps w flag, NoDup ps -> (forall i, In i ps -> tw_is_killed w i = false) ->
    ref_kill_loop O ps flag w
    = WOk (flag || existsb (alive_now w) ps)
          (mktw (tw_reads w) (tw_nproc w) (tw_started w)
                (rev (map (fun i => (i, now w)) (filter (alive_now w) ps)) ++ tw_kills w) (rev ps ++ tw_joins w)).
  Proof.
    unfold ref_kill_loop. induction ps as [|p ps IH]; intros w flag ND H; cbn [w_for].
    - unfold ret. rewrite orb_false_r. destruct w; reflexivity.
    - inversion ND as [|? ? Hnin ND']; subst.
      assert (Ea0 : o_is_alive O p w = WOk (alive_now w p) w).
      { cbn [o_is_alive toracle]. rewrite (H p (or_introl eq_refl)). reflexivity. }
      cbn [existsb filter]. destruct (alive_now w p) eqn:Ea.
      + (* killed, joined *)
        set (w1 := mktw (tw_reads w) (tw_nproc w) (tw_started w) ((p, now w) :: tw_kills w) (tw_joins w)).
        assert (Ek : o_kill O p w = WOk tt w1) by reflexivity.
        assert (Ej : o_join O p w1 = WOk tt (with_joins w1 (p :: tw_joins w1))).
        { cbn [o_join toracle]. unfold tw_is_killed, tw_killed_at, w1. cbn [tw_kills find fst]. rewrite Nat.eqb_refl. reflexivity. }
        erewrite bind_ok.
        2: { erewrite bind_ok by exact Ea0. cbv iota. erewrite bind_ok by exact Ek. erewrite bind_ok by exact Ej. reflexivity. }
        cbn [fst snd]. rewrite IH; [| exact ND' |].
        * cbn [orb]. rewrite orb_true_r. cbn [map rev].
          unfold with_joins, w1. cbn [tw_nproc tw_reads tw_started tw_kills tw_joins]. rewrite <- !app_assoc. reflexivity.
        * intros i Hi. unfold tw_is_killed, tw_killed_at, with_joins, w1. cbn [tw_kills find fst].
          destruct (Nat.eqb p i) eqn:Epi; [apply Nat.eqb_eq in Epi; subst; contradiction|].
          apply (H i). right. exact Hi.
      + (* already dead: joined only *)
        assert (Ej : o_join O p w = WOk tt (with_joins w (p :: tw_joins w))).
        { cbn [o_join toracle]. unfold alive_now in Ea. rewrite (not_alive_terminates _ _ Ea), orb_true_r. reflexivity. }
        erewrite bind_ok.
        2: { erewrite bind_ok by exact Ea0. cbv iota. erewrite bind_ok by exact Ej. reflexivity. }
        cbn [fst snd]. rewrite IH; [| exact ND' |].
        * cbn [orb]. unfold with_joins. cbn [tw_nproc tw_reads tw_started tw_kills tw_joins rev]. rewrite <- !app_assoc. reflexivity.
        * intros i Hi. apply (H i). right. exact Hi.
  Qed.

  Variables (T step : Z).
  Notation n := (length ws).
  Notation ps := (seq 0 (length ws)).
  Definition alive_at (t : Z) (i : nat) : bool := alive (wk i) t.

  Lemma any_alive_seq t : existsb (alive_at t) ps = any_alive ws t.
  Proof. unfold alive_at, tw_worker, any_alive. apply (existsb_nth_seq (fun w => alive w t)). Qed.

  Lemma poll_sim : forall fuel i w flag,
    tw_reads w = i -> tw_kills w = [] ->
    let o := poll FlagOnKill fuel clk T ws i in
    let r := ref_poll O step fuel (clk 0%nat) T ps flag w in
    match how o with
    | OutOfFuel => exists w', r = WStuck StuckFuel w'
    | ExitAllDone =>
        r = WOk flag (mktw (S (exit_poll o)) (tw_nproc w) (tw_started w) [] (rev ps ++ tw_joins w))
    | ExitDeadline =>
        r = WOk (flag || any_alive ws (clk (exit_poll o)))
                (mktw (S (exit_poll o)) (tw_nproc w) (tw_started w)
                      (rev (map (fun j => (j, clk (exit_poll o))) (filter (alive_at (clk (exit_poll o))) ps)))
                      (rev ps ++ tw_joins w))
    | _ => False
    end.
  Proof.
    unfold ref_poll. induction fuel as [|fuel IH]; intros i w flag Hr Hk; subst i; cbn [poll w_while how].
    - exists w. reflexivity.
    - set (i := tw_reads w).
      set (w1 := mktw (S i) (tw_nproc w) (tw_started w) (tw_kills w) (tw_joins w)).
      assert (En : bind (o_now O) (fun t => ret (t - clk 0%nat <=? T)) w = WOk (clk i - clk 0%nat <=? T) w1).
      { erewrite bind_ok by reflexivity. reflexivity. }
      assert (Hnow : now w1 = clk i) by reflexivity.
      assert (Hk1 : tw_kills w1 = []) by exact Hk.
      rewrite (bind_ok _ _ _ _ _ En).
      destruct (clk i - clk 0%nat <=? T) eqn:Ew.
      + (* inside the deadline *)
        pose proof (any_alive_spec ps w1 Hk1) as Ea.
        change (existsb _ ps) with (existsb (alive_at (clk i)) ps) in Ea. rewrite any_alive_seq in Ea.
        destruct (any_alive ws (clk i)) eqn:Ea'.
        * erewrite bind_ok.
          2: { erewrite bind_ok by exact Ea. cbv iota. erewrite bind_ok by reflexivity. reflexivity. }
          cbn [fst snd]. exact (IH (S i) w1 flag eq_refl Hk1).
        * assert (Ej : ref_join_all O ps w1 = WOk tt (with_joins w1 (rev ps ++ tw_joins w1))).
          { apply join_all_ok. intros j Hj. apply orb_true_iff. right.
            rewrite <- any_alive_seq in Ea'. apply (not_alive_terminates _ (clk i)).
            exact (existsb_false_forall _ _ Ea' j Hj). }
          erewrite bind_ok.
          2: { erewrite bind_ok by exact Ea. cbv iota. erewrite bind_ok by exact Ej. reflexivity. }
          cbn [fst snd how exit_poll]. unfold ret, with_joins, w1. cbn [tw_nproc tw_reads tw_started tw_kills tw_joins]. rewrite Hk. reflexivity.
      + (* beyond the deadline: the else clause of the while *)
        cbn [how exit_poll].
        erewrite bind_ok.
        2: { apply kill_loop_spec; [apply seq_NoDup|]. intros j _. apply no_kills_not_killed. exact Hk1. }
        unfold ret. rewrite <- any_alive_seq. unfold w1. cbn [tw_nproc tw_reads tw_started tw_kills tw_joins]. rewrite Hk, app_nil_r. reflexivity.
  Qed.

  (* ---- what the bookkeeping of the world says at the end *)
  Lemma find_kill_some (a : nat -> bool) t l i : In i l -> a i = true ->
    find (fun k : nat * Z => Nat.eqb (fst k) i) (rev (map (fun j => (j, t)) (filter a l))) = Some (i, t).
  Proof.
    intros Hi Ha. destruct (find _ _) as [k|] eqn:F.
    - apply find_some in F. destruct F as [Hin He]. apply in_rev in Hin. apply in_map_iff in Hin.
      destruct Hin as (j & <- & _). cbn [fst] in He. apply Nat.eqb_eq in He. subst. reflexivity.
    - exfalso. pose proof (find_none _ _ F (i, t)) as N. cbn [fst] in N. rewrite Nat.eqb_refl in N.
      assert (In (i, t) (rev (map (fun j => (j, t)) (filter a l)))).
      { rewrite <- in_rev. apply in_map_iff. exists i. split; [reflexivity|]. apply filter_In. split; assumption. }
      specialize (N H). discriminate.
  Qed.
  Lemma find_kill_none (a : nat -> bool) t l i : a i = false ->
    find (fun k : nat * Z => Nat.eqb (fst k) i) (rev (map (fun j => (j, t)) (filter a l))) = None.
  Proof.
    intros Ha. destruct (find _ _) as [k|] eqn:F; [|reflexivity].
    apply find_some in F. destruct F as [Hin He]. apply in_rev in Hin. apply in_map_iff in Hin.
    destruct Hin as (j & <- & Hj). cbn [fst] in He. apply Nat.eqb_eq in He. subst. apply filter_In in Hj. destruct Hj. congruence.
  Qed.
  Lemma joined_in l js i : In i l -> existsb (Nat.eqb i) (rev l ++ js) = true.
  Proof. intros H. apply existsb_exists. exists i. split; [apply in_or_app; left; rewrite <- in_rev; exact H|apply Nat.eqb_refl]. Qed.

  Lemma vec_const (b : bool) : map (fun _ : nat => b) ps = map (fun _ : worker => b) ws.
  Proof. exact (map_nth_seq (fun _ : worker => b) ws (mkworker [] (Some 0))). Qed.

  (* nobody killed, everybody joined *)
  Lemma final_complete r st js :
    let w := mktw r n st [] (rev ps ++ js) in
    concat (flat_map (tw_delivered clk ws w) (seq 0 (tw_nproc w))) = concat (flat_map all_blocks ws) /\
    tw_killed_vec w = all_false ws /\ tw_joined_vec w = all_true ws.
  Proof.
    intros w. unfold tw_killed_vec, tw_joined_vec. cbn [tw_nproc w]. repeat split.
    - f_equal. rewrite <- (flat_map_nth_seq all_blocks ws (mkworker [] (Some 0))). apply flat_map_ext_in.
      intros i Hi. unfold tw_delivered, tw_killed_at, tw_is_joined. cbn [tw_kills tw_joins find w]. rewrite (joined_in ps js i Hi). reflexivity.
    - unfold all_false. rewrite <- vec_const. apply map_ext_in. intros i _. reflexivity.
    - unfold all_true. rewrite <- vec_const. apply map_ext_in. intros i Hi. unfold tw_is_joined. cbn [tw_joins w]. apply joined_in. exact Hi.
  Qed.

  (* the live workers killed at t, everybody joined *)
  Lemma final_deadline r st js t :
    let w := mktw r n st (rev (map (fun j => (j, t)) (filter (alive_at t) ps))) (rev ps ++ js) in
    concat (flat_map (tw_delivered clk ws w) (seq 0 (tw_nproc w))) = concat (flat_map (fun x => delivered x t) ws) /\
    tw_killed_vec w = map (fun x => alive x t) ws /\ tw_joined_vec w = all_true ws.
  Proof.
    intros w. unfold tw_killed_vec, tw_joined_vec. cbn [tw_nproc w]. repeat split.
    - f_equal. rewrite <- (flat_map_nth_seq (fun x => delivered x t) ws (mkworker [] (Some 0))). apply flat_map_ext_in.
      intros i Hi. unfold tw_delivered, tw_killed_at, tw_is_joined. cbn [tw_kills tw_joins w].
      destruct (alive_at t i) eqn:Ea.
      + rewrite (find_kill_some _ t ps i Hi Ea). reflexivity.
      + rewrite (find_kill_none _ t ps i Ea), (joined_in ps js i Hi). unfold delivered. fold (tw_worker ws i). unfold alive_at in Ea. rewrite Ea. reflexivity.
    - rewrite <- (map_nth_seq (fun x => alive x t) ws (mkworker [] (Some 0))). apply map_ext_in. intros i Hi.
      unfold tw_is_killed, tw_killed_at. cbn [tw_kills w]. fold (tw_worker ws i). fold (alive_at t i).
      destruct (alive_at t i) eqn:Ea.
      + rewrite (find_kill_some _ t ps i Hi Ea). reflexivity.
      + rewrite (find_kill_none _ t ps i Ea). reflexivity.
    - unfold all_true. rewrite <- vec_const. apply map_ext_in. intros i Hi. unfold tw_is_joined. cbn [tw_joins w]. apply joined_in. exact Hi.
  Qed.

  Variable secs : Z -> list I -> list (list I).
  Hypothesis Hsecs : forall k, length (secs (Z.of_nat n) k) = n.

  Theorem ref_parallel_is_model step' (kernel : list I) :
    par_matches ws (ref_parallel O secs step (fuel_for T step') kernel T false tw0)
                (run_parallel FlagOnKill clk step' T ws) (T =? -1).
  Proof.
    unfold ref_parallel, run_parallel.
    erewrite bind_ok by reflexivity. erewrite bind_ok by reflexivity. erewrite bind_ok by reflexivity.
    erewrite bind_ok by apply mapM_process. rewrite Hsecs. cbn [tw_nproc tw_reads tw_started tw_kills tw_joins tw0 Nat.add].
    erewrite bind_ok by apply start_all_spec. cbn [tw_nproc tw_reads tw_started tw_kills tw_joins]. rewrite app_nil_r.
    destruct (T =? -1) eqn:ET.
    - (* no timeout: join all *)
      destruct (forallb terminates ws) eqn:Et; unfold par_matches; cbn [how].
      + erewrite bind_ok.
        2: { apply join_all_ok. intros i Hi. apply orb_true_iff. right.
             rewrite <- (forallb_nth_seq terminates ws (mkworker [] (Some 0))) in Et. rewrite forallb_forall in Et. exact (Et i Hi). }
        unfold ref_finish, with_joins. cbn [tw_nproc tw_reads tw_started tw_kills tw_joins].
        erewrite bind_ok by reflexivity. erewrite bind_ok by reflexivity. unfold ret.
        destruct (final_complete 0 (rev ps) []) as (F1 & F2 & F3). cbn zeta in F1, F2, F3.
        eexists. split; [|split; [exact F2|split; [exact F3|split; reflexivity]]].
        cbn [timed_out shared]. rewrite F1. reflexivity.
      + destruct (join_all_hang ps (mktw 0 n (rev ps) [] [])) as [w' E].
        { rewrite <- (forallb_nth_seq terminates ws (mkworker [] (Some 0))) in Et.
          destruct (forallb_forall (fun i => terminates (wk i)) ps) as [_ Hb].
          destruct (existsb (fun i => negb (terminates (wk i))) ps) eqn:Ex.
          - apply existsb_exists in Ex. destruct Ex as (i & Hi & Hn). exists i. split; [exact Hi|].
            unfold tw_is_killed, tw_killed_at. cbn [tw_kills find]. apply negb_true_iff in Hn. rewrite Hn. reflexivity.
          - assert (Ht : forallb (fun i => terminates (wk i)) ps = true).
            { apply Hb. intros i Hi. pose proof (existsb_false_forall _ _ Ex i Hi) as N. apply negb_false_iff in N. exact N. }
            change (forallb (fun i => terminates (wk i)) ps) with (forallb (fun i => terminates (nth i ws (mkworker [] (Some 0)))) ps) in Ht.
            congruence. }
        exists w'. erewrite bind_stuck by exact E. reflexivity.
    - (* poll loop *)
      erewrite bind_ok by reflexivity. cbn [tw_nproc tw_reads tw_started tw_kills tw_joins].
      pose proof (poll_sim (fuel_for T step') 1%nat (mktw 1 n (rev ps) [] []) false eq_refl eq_refl) as HS.
      pose proof (poll_spec FlagOnKill clk T ws (fuel_for T step') 1%nat) as P. unfold poll_post in P. destruct P as (_ & _ & P).
      cbn zeta in HS. cbn [tw_nproc tw_reads tw_started tw_kills tw_joins] in HS. unfold par_matches.
      destruct (how (poll FlagOnKill (fuel_for T step') clk T ws 1)) eqn:Eh; try contradiction.
      + (* all done *)
        destruct P as (_ & _ & Pf & Pk & Pj & Ps).
        erewrite bind_ok by exact HS. unfold ref_finish. erewrite bind_ok by reflexivity. erewrite bind_ok by reflexivity. unfold ret.
        destruct (final_complete (S (exit_poll (poll FlagOnKill (fuel_for T step') clk T ws 1))) (rev ps) []) as (F1 & F2 & F3). cbn zeta in F1, F2, F3.
        eexists. split; [|split; [rewrite Pk; exact F2|split; [rewrite Pj; exact F3|split; reflexivity]]].
        rewrite Pf, Ps. rewrite app_nil_r in *. rewrite F1. reflexivity.
      + (* deadline *)
        destruct P as (_ & Pf & Pk & Pj & Ps).
        erewrite bind_ok by exact HS. unfold ref_finish. erewrite bind_ok by reflexivity. erewrite bind_ok by reflexivity. unfold ret.
        destruct (final_deadline (S (exit_poll (poll FlagOnKill (fuel_for T step') clk T ws 1))) (rev ps) []
                                 (clk (exit_poll (poll FlagOnKill (fuel_for T step') clk T ws 1)))) as (F1 & F2 & F3). cbn zeta in F1, F2, F3.
        eexists. split; [|split; [rewrite Pk; exact F2|split; [rewrite Pj; exact F3|split; reflexivity]]].
        rewrite Pf, Ps. rewrite app_nil_r in *. rewrite F1. reflexivity.
      + (* out of fuel *)
        destruct HS as [w' E]. exists w'. erewrite bind_stuck by exact E. reflexivity.
  Qed.
End ParModel.

(* ================================================================== (C) sections and schedules (Model.Parallel) *)
Section SchedModel.
  Context {I : Type}.
  Variables (Wn : nat) (line : I -> Z) (paths_from : Z -> list path) (sched : list (list (list path)) -> list (list path)).
  Hypothesis sched_interleaves : forall bl, Interleave bl (sched bl).
  Notation O := (coracle Wn line paths_from sched).
  Variables (thr : Z) (secs : Z -> list I -> list (list I)) (step : Z).

  Definition blocks_of (sections : list (list I)) : list (list (list path)) :=
    map (fun sec => map (fun i => paths_from (line i)) sec) sections.

  Lemma c_mapM : forall (ss : list (list I)) w,
    w_mapM (o_process O tt) ss w = WOk (seq (length (cw_secs w)) (length ss)) (mkcw (cw_secs w ++ ss) (cw_rest w)).
  Proof.
    induction ss as [|s ss IH]; intros w; cbn [w_mapM length seq].
    - unfold ret. rewrite app_nil_r. destruct w; reflexivity.
    - erewrite bind_ok by reflexivity. erewrite bind_ok by apply IH. unfold ret. cbn [cw_secs cw_rest].
      rewrite app_length, Nat.add_1_r, <- app_assoc. reflexivity.
  Qed.
  Lemma c_start : forall ps w, ref_start_all O ps w = WOk tt w.
  Proof. unfold ref_start_all. induction ps as [|p ps IH]; intros w; cbn [w_for]; [reflexivity|].
         erewrite bind_ok by reflexivity. cbn [fst snd]. apply IH. Qed.
  Lemma c_join : forall ps w, ref_join_all O ps w = WOk tt w.
  Proof. unfold ref_join_all. induction ps as [|p ps IH]; intros w; cbn [w_for]; [reflexivity|].
         erewrite bind_ok by reflexivity. cbn [fst snd]. apply IH. Qed.
  Lemma c_any : forall ps w, w_any (o_is_alive O) ps w = WOk false w.
  Proof. induction ps as [|p ps IH]; intros w; cbn [w_any]; [reflexivity|]. erewrite bind_ok by reflexivity. apply IH. Qed.
  Lemma c_kill_loop : forall ps flag w, ref_kill_loop O ps flag w = WOk flag w.
  Proof. unfold ref_kill_loop. induction ps as [|p ps IH]; intros flag w; cbn [w_for]; [reflexivity|].
         erewrite bind_ok by reflexivity. cbn [fst snd]. apply IH. Qed.
  Lemma c_poll fuel T ps flag w : ref_poll O step (S fuel) 0 T ps flag w = WOk flag w.
  Proof.
    unfold ref_poll. cbn [w_while]. erewrite bind_ok by reflexivity.
    destruct (0 - 0 <=? T).
    - erewrite bind_ok.
      2: { erewrite bind_ok by apply c_any. cbv iota. erewrite bind_ok by apply c_join. reflexivity. }
      reflexivity.
    - erewrite bind_ok by apply c_kill_loop. reflexivity.
  Qed.

  (* whatever the timeout: nobody is slow in this world, the parent reads what the schedule made of the workers' blocks *)
  Lemma c_parallel fuel (kernel : list I) T flag rest :
    exists w', ref_parallel O secs step (S fuel) kernel T flag (mkcw [] rest)
               = WOk (flag, concat (sched (blocks_of (secs (Z.of_nat Wn) kernel)))) w'.
  Proof.
    unfold ref_parallel. erewrite bind_ok by reflexivity. erewrite bind_ok by reflexivity. erewrite bind_ok by reflexivity.
    erewrite bind_ok by apply c_mapM. cbn [cw_secs cw_rest app]. erewrite bind_ok by apply c_start.
    eexists. destruct (T =? -1).
    - erewrite bind_ok by apply c_join. unfold ref_finish. erewrite bind_ok by reflexivity. erewrite bind_ok by reflexivity. reflexivity.
    - erewrite bind_ok by reflexivity. erewrite bind_ok by apply c_poll. unfold ref_finish.
      erewrite bind_ok by reflexivity. erewrite bind_ok by reflexivity. reflexivity.
  Qed.

  Lemma c_iter T : T = -1 \/ 0 <= T -> forall rest fuel flag acc ss,
    (length rest < fuel)%nat ->
    w_iter fuel (o_next O tt)
      (fun pth (st : bool * list path) =>
         let '(flag, acc) := st in
         if T =? -1 then ret (CNext, (flag, acc ++ [pth]))
         else bind (o_now O) (fun t => if T <? t - 0 then ret (CBreak, (true, acc)) else ret (CNext, (flag, acc ++ [pth]))))
      (flag, acc) (mkcw ss rest) = WOk (flag, acc ++ rest) (mkcw ss []).
  Proof.
    intros HT. induction rest as [|p r IH]; intros fuel flag acc ss Hf; (destruct fuel as [|fuel]; [simpl in Hf; lia|]); cbn [w_iter].
    - erewrite bind_ok by reflexivity. rewrite app_nil_r. reflexivity.
    - erewrite bind_ok by reflexivity. cbn [cw_secs].
      assert (E : (if T =? -1 then ret (CNext, (flag, acc ++ [p]))
                  else bind (o_now O) (fun t => if T <? t - 0 then ret (CBreak, (true, acc)) else ret (CNext, (flag, acc ++ [p]))))
                  (mkcw ss r) = WOk (CNext, (flag, acc ++ [p])) (mkcw ss r)).
      { destruct HT as [->|HT]; [reflexivity|]. destruct (T =? -1); [reflexivity|].
        erewrite bind_ok by reflexivity. replace (T <? 0 - 0) with false by (symmetry; apply Z.ltb_ge; lia). reflexivity. }
      erewrite bind_ok by exact E. cbn [fst snd]. rewrite IH by (simpl in Hf; lia). rewrite <- app_assoc. reflexivity.
  Qed.

  Lemma c_sequential fuel (kernel : list I) T flag :
    T = -1 \/ 0 <= T -> (length (flat_map (fun i => paths_from (line i)) kernel) < fuel)%nat ->
    exists w', ref_sequential O fuel kernel T flag [] (mkcw [] []) = WOk (flag, flat_map (fun i => paths_from (line i)) kernel) w'.
  Proof.
    intros HT Hf. unfold ref_sequential. erewrite bind_ok by reflexivity. erewrite bind_ok by reflexivity.
    cbn [cw_secs cw_rest]. eexists. erewrite bind_ok by (apply (c_iter T HT); exact Hf). reflexivity.
  Qed.

  Lemma concat_blocks (ss : list (list I)) :
    concat (concat (blocks_of ss)) = flat_map paths_from (map line (concat ss)).
  Proof.
    unfold blocks_of. induction ss as [|s ss IH]; [reflexivity|].
    cbn [map concat]. rewrite concat_app, IH, map_app, flat_map_app. f_equal.
    clear. induction s as [|i s IH]; [reflexivity|]. cbn [map concat flat_map]. rewrite IH. reflexivity.
  Qed.

  (* C16 for the control flow: whichever branch the threshold selects, however many workers there are, in whatever
     order their blocks arrive, with or without a (non-negative) timeout -- the post-processing gives lcd_sequential *)
  Theorem ref_search_schedule_independent off fuel (kernel : list I) T :
    concat (secs (Z.of_nat Wn) kernel) = kernel ->
    T = -1 \/ 0 <= T ->
    (length (flat_map paths_from (map line kernel)) < fuel)%nat ->
    exists ps w', ref_search O thr secs step fuel kernel T false [] (mkcw [] []) = WOk (false, ps) w' /\
                  post off ps = lcd_sequential off paths_from (map line kernel).
  Proof.
    intros Cov HT Hf. unfold ref_search. destruct (thr <=? Z.of_nat (length kernel)).
    - destruct fuel as [|fuel]; [lia|].
      destruct (c_parallel fuel kernel T false []) as [w' E]. eexists. exists w'. split; [exact E|].
      unfold lcd_sequential. apply post_perm.
      pose proof (sched_interleaves (blocks_of (secs (Z.of_nat Wn) kernel))) as Il.
      apply interleave_perm in Il. apply concat_perm in Il. eapply perm_trans; [exact Il|].
      rewrite concat_blocks, Cov. apply Permutation_refl.
    - assert (Hf' : (length (flat_map (fun i => paths_from (line i)) kernel) < fuel)%nat).
      { replace (flat_map (fun i => paths_from (line i)) kernel) with (flat_map paths_from (map line kernel)); [exact Hf|].
        clear. induction kernel as [|i k IH]; [reflexivity|]. cbn [map flat_map]. rewrite IH. reflexivity. }
      destruct (c_sequential fuel kernel T false HT Hf') as [w' E]. eexists. exists w'. split; [exact E|].
      unfold lcd_sequential. f_equal.
      clear. induction kernel as [|i k IH]; [reflexivity|]. cbn [map flat_map]. rewrite IH. reflexivity.
  Qed.
End SchedModel.

(* ================================================================== (L) the log of calls, for EVERY oracle *)
Lemma bind_inv {Wt A B} (m : M Wt A) (f : A -> M Wt B) w b w2 :
  bind m f w = WOk b w2 -> exists a w1, m w = WOk a w1 /\ f a w1 = WOk b w2.
Proof. unfold bind. destruct (m w) as [a w1|s w1]; [eauto|discriminate]. Qed.

Section Logs.
  Context {W I X P L G IT : Type} (O : oracle W I X P L G IT).
  Notation LO := (logged O).
  Notation ev := (event I X P).
  Variables (secs : Z -> list I -> list (list I)) (step : Z).

  Lemma logging_inv {A} (m : M W A) (e : A -> ev) wl a wl' :
    logging m e wl = WOk a wl' -> snd wl' = e a :: snd wl.
  Proof. unfold logging. destruct (m (fst wl)); intros H; inversion H; reflexivity. Qed.

  Ltac lsimp := repeat (rewrite rev_app_distr || rewrite <- app_assoc || cbn [rev app map]).

  Lemma log_start : forall ps wl wl', ref_start_all LO ps wl = WOk tt wl' -> snd wl' = rev (map EvStart ps) ++ snd wl.
  Proof.
    unfold ref_start_all. induction ps as [|p ps IH]; intros wl wl' H; cbn [w_for] in H.
    - inversion H. reflexivity.
    - apply bind_inv in H. destruct H as (cs & w1 & H1 & H2).
      apply bind_inv in H1. destruct H1 as (u & w0 & Hs & Hr). inversion Hr; subst. cbn [fst snd] in H2.
      apply IH in H2. rewrite H2. cbn [o_start logged] in Hs. apply logging_inv in Hs. rewrite Hs. lsimp. reflexivity.
  Qed.

  Lemma log_join : forall ps wl wl', ref_join_all LO ps wl = WOk tt wl' -> snd wl' = rev (map EvJoin ps) ++ snd wl.
  Proof.
    unfold ref_join_all. induction ps as [|p ps IH]; intros wl wl' H; cbn [w_for] in H.
    - inversion H. reflexivity.
    - apply bind_inv in H. destruct H as (cs & w1 & H1 & H2).
      apply bind_inv in H1. destruct H1 as (u & w0 & Hs & Hr). inversion Hr; subst. cbn [fst snd] in H2.
      apply IH in H2. rewrite H2. cbn [o_join logged] in Hs. apply logging_inv in Hs. rewrite Hs. lsimp. reflexivity.
  Qed.

  Lemma log_mapM l : forall ss wl ps wl', w_mapM (o_process LO l) ss wl = WOk ps wl' ->
    length ps = length ss /\ snd wl' = rev (map (fun x => EvProcess (fst x) (snd x)) (combine ps ss)) ++ snd wl.
  Proof.
    induction ss as [|s ss IH]; intros wl ps wl' H; cbn [w_mapM] in H.
    - inversion H. split; reflexivity.
    - apply bind_inv in H. destruct H as (p & w1 & H1 & H2).
      apply bind_inv in H2. destruct H2 as (ps' & w2 & H2 & H3). inversion H3; subst.
      apply IH in H2. destruct H2 as [Hl Hlog]. split; [simpl; congruence|].
      rewrite Hlog. cbn [o_process logged] in H1. apply logging_inv in H1. rewrite H1. cbn [combine fst snd]. lsimp. reflexivity.
  Qed.

  Lemma log_any : forall ps wl b wl', w_any (o_is_alive LO) ps wl = WOk b wl' ->
    exists evs, snd wl' = rev evs ++ snd wl /\ Forall (fun e => exists p a, e = EvAlive p a) evs /\
                (b = false -> evs = map (fun p => EvAlive p false) ps).
  Proof.
    induction ps as [|p ps IH]; intros wl b wl' H; cbn [w_any] in H.
    - inversion H. exists []. repeat split; auto.
    - apply bind_inv in H. destruct H as (a & w1 & H1 & H2).
      cbn [o_is_alive logged] in H1. apply logging_inv in H1. destruct a.
      + inversion H2; subst. exists [EvAlive p true]. split; [rewrite H1; reflexivity|]. split; [|discriminate].
        constructor; [eauto|constructor].
      + apply IH in H2. destruct H2 as (evs & Hl & Hf & Hb). exists (EvAlive p false :: evs). split; [|split].
        * rewrite Hl, H1. lsimp. reflexivity.
        * constructor; [eauto|exact Hf].
        * intros E. rewrite (Hb E). reflexivity.
  Qed.

  (* is_alive; [kill]; join, per process *)
  Definition kill_events (pbs : list (P * bool)) : list ev :=
    flat_map (fun pb => EvAlive (fst pb) (snd pb) :: (if snd pb then [EvKill (fst pb); EvJoin (fst pb)] else [EvJoin (fst pb)])) pbs.

  Lemma log_kill_loop : forall ps flag wl flag' wl', ref_kill_loop LO ps flag wl = WOk flag' wl' ->
    exists bs, length bs = length ps /\ snd wl' = rev (kill_events (combine ps bs)) ++ snd wl /\
               flag' = flag || existsb (fun b : bool => b) bs.
  Proof.
    unfold ref_kill_loop. induction ps as [|p ps IH]; intros flag wl flag' wl' H; cbn [w_for] in H.
    - inversion H. exists []. rewrite orb_false_r. repeat split.
    - apply bind_inv in H. destruct H as (cs & w1 & H1 & H2).
      apply bind_inv in H1. destruct H1 as (a & w0 & Ha & Hb).
      cbn [o_is_alive logged] in Ha. apply logging_inv in Ha. destruct a.
      + apply bind_inv in Hb. destruct Hb as (u1 & wk & Hk & Hb). apply bind_inv in Hb. destruct Hb as (u2 & wj & Hj & Hr).
        inversion Hr; subst. cbn [fst snd] in H2.
        cbn [o_kill logged] in Hk. apply logging_inv in Hk. cbn [o_join logged] in Hj. apply logging_inv in Hj.
        apply IH in H2. destruct H2 as (bs & Hl & Hlog & Hf). exists (true :: bs). split; [simpl; congruence|]. split.
        * rewrite Hlog, Hj, Hk, Ha. unfold kill_events. cbn [combine flat_map fst snd]. lsimp. reflexivity.
        * rewrite Hf. cbn [existsb orb]. rewrite orb_true_r. reflexivity.
      + apply bind_inv in Hb. destruct Hb as (u2 & wj & Hj & Hr).
        inversion Hr; subst. cbn [fst snd] in H2.
        cbn [o_join logged] in Hj. apply logging_inv in Hj.
        apply IH in H2. destruct H2 as (bs & Hl & Hlog & Hf). exists (false :: bs). split; [simpl; congruence|]. split.
        * rewrite Hlog, Hj, Ha. unfold kill_events. cbn [combine flat_map fst snd]. lsimp. reflexivity.
        * rewrite Hf. reflexivity.
  Qed.

  (* what a round of the poll loop may contain *)
  Definition pollish (e : ev) : Prop :=
    match e with EvNow _ | EvAlive _ _ => True | EvSleep d => d = step | _ => False end.
  (* how the loop ends, after its last clock reading *)
  Definition poll_tail (ps : list P) (flag flag' : bool) (tail : list ev) : Prop :=
    (tail = map (fun p => EvAlive p false) ps ++ map EvJoin ps /\ flag' = flag) \/
    (exists bs, length bs = length ps /\ tail = kill_events (combine ps bs) /\ flag' = flag || existsb (fun b : bool => b) bs).

  Lemma log_poll : forall fuel start T ps flag wl flag' wl', ref_poll LO step fuel start T ps flag wl = WOk flag' wl' ->
    exists polls t tail, snd wl' = rev (polls ++ EvNow t :: tail) ++ snd wl /\ Forall pollish polls /\ poll_tail ps flag flag' tail.
  Proof.
    unfold ref_poll. induction fuel as [|fuel IH]; intros start T ps flag wl flag' wl' H; cbn [w_while] in H; [discriminate|].
    apply bind_inv in H. destruct H as (b & w1 & Hc & H).
    apply bind_inv in Hc. destruct Hc as (t & w0 & Hn & Hr). inversion Hr; subst. clear Hr.
    cbn [o_now logged] in Hn. apply logging_inv in Hn.
    destruct (t - start <=? T).
    - apply bind_inv in H. destruct H as (cs & w2 & Hb & H).
      apply bind_inv in Hb. destruct Hb as (a & w3 & Ha & Hb). apply log_any in Ha. destruct Ha as (evs & Hl & Hf & Hfalse).
      destruct a.
      + apply bind_inv in Hb. destruct Hb as (u & w4 & Hs & Hr). inversion Hr; subst. cbn [fst snd] in H.
        cbn [o_sleep logged] in Hs. apply logging_inv in Hs.
        apply IH in H. destruct H as (polls & t' & tail & Hlog & Hp & Ht).
        exists (EvNow t :: evs ++ [EvSleep step] ++ polls), t', tail. split; [|split; [|exact Ht]].
        * rewrite Hlog, Hs, Hl, Hn. lsimp. reflexivity.
        * constructor; [exact Logic.I|]. apply Forall_app. split.
          -- eapply Forall_impl; [|exact Hf]. intros e (p & a & ->). exact Logic.I.
          -- constructor; [reflexivity|exact Hp].
      + apply bind_inv in Hb. destruct Hb as (u & w4 & Hj & Hr). inversion Hr; subst. cbn [fst snd] in H. inversion H; subst.
        destruct u. apply log_join in Hj. exists [], t, (map (fun p => EvAlive p false) ps ++ map EvJoin ps). split; [|split].
        * rewrite Hj, Hl, Hn, (Hfalse eq_refl). lsimp. reflexivity.
        * constructor.
        * left. split; reflexivity.
    - apply bind_inv in H. destruct H as (f & w2 & Hk & Hr). inversion Hr; subst.
      apply log_kill_loop in Hk. destruct Hk as (bs & Hl & Hlog & Hf).
      exists [], t, (kill_events (combine ps bs)). split; [|split].
      + rewrite Hlog, Hn. lsimp. reflexivity.
      + constructor.
      + right. exists bs. repeat split; assumption.
  Qed.

  (* between the starts and the read *)
  Definition mid_shape (T : Z) (ps : list P) (flag flag' : bool) (mid : list ev) : Prop :=
    if T =? -1 then mid = map EvJoin ps /\ flag' = flag
    else exists t0 polls t tail, mid = EvNow t0 :: polls ++ EvNow t :: tail /\ Forall pollish polls /\ poll_tail ps flag flag' tail.

  Theorem parallel_log_shape fuel (kernel : list I) T flag w flag' r w' log :
    ref_parallel LO secs step fuel kernel T flag (w, []) = WOk (flag', r) (w', log) ->
    exists nc ps mid,
      rev log = [EvCpu nc; EvManager; EvManagerList]
                ++ map (fun x => EvProcess (fst x) (snd x)) (combine ps (secs nc kernel))
                ++ map EvStart ps ++ mid ++ [EvRead r; EvManagerExit]
      /\ length ps = length (secs nc kernel) /\ mid_shape T ps flag flag' mid.
  Proof.
    unfold ref_parallel. intros H.
    apply bind_inv in H. destruct H as (nc & w1 & H1 & H). cbn [o_cpu_count logged] in H1. apply logging_inv in H1.
    apply bind_inv in H. destruct H as (m & w2 & H2 & H). cbn [o_manager logged] in H2. apply logging_inv in H2.
    apply bind_inv in H. destruct H as (l & w3 & H3 & H). cbn [o_manager_list logged] in H3. apply logging_inv in H3.
    apply bind_inv in H. destruct H as (ps & w4 & H4 & H). apply log_mapM in H4. destruct H4 as [Hlen H4].
    apply bind_inv in H. destruct H as (u & w5 & H5 & H). destruct u. apply log_start in H5.
    exists nc, ps. unfold mid_shape.
    assert (Fin : forall wa fl, ref_finish LO l m fl wa = WOk (flag', r) (w', log) -> fl = flag' /\ log = EvManagerExit :: EvRead r :: snd wa).
    { intros wa fl Hf. unfold ref_finish in Hf. apply bind_inv in Hf. destruct Hf as (r0 & wb & Hr & Hf).
      apply bind_inv in Hf. destruct Hf as (u & wc & He & Hf). inversion Hf; subst.
      cbn [o_read logged] in Hr. apply logging_inv in Hr. cbn [o_manager_exit logged] in He. apply logging_inv in He.
      split; [reflexivity|]. cbn [snd] in He. rewrite He, Hr. reflexivity. }
    destruct (T =? -1).
    - apply bind_inv in H. destruct H as (u & w6 & H6 & H). destruct u. apply log_join in H6.
      apply Fin in H. destruct H as [-> ->]. exists (map EvJoin ps). split; [|split; [exact Hlen|split; reflexivity]].
      rewrite H6, H5, H4, H3, H2, H1. cbn [snd]. lsimp. rewrite !rev_involutive. reflexivity.
    - apply bind_inv in H. destruct H as (t0 & w6 & H6 & H). cbn [o_now logged] in H6. apply logging_inv in H6.
      apply bind_inv in H. destruct H as (f & w7 & H7 & H). apply log_poll in H7. destruct H7 as (polls & t & tail & H7 & Hp & Ht).
      apply Fin in H. destruct H as [-> ->]. exists (EvNow t0 :: polls ++ EvNow t :: tail).
      split; [|split; [exact Hlen|exists t0, polls, t, tail; repeat split; assumption]].
      rewrite H7, H6, H5, H4, H3, H2, H1. cbn [snd]. lsimp. rewrite !rev_involutive. lsimp. reflexivity.
  Qed.
End Logs.

(* ---- consequences of the shape: the statements of the property on the log, for every oracle *)
Section LogFacts.
  Context {W I X P L G IT : Type} (O : oracle W I X P L G IT).
  Notation LO := (logged O).
  Notation ev := (event I X P).
  Variables (secs : Z -> list I -> list (list I)) (step : Z).

  Definition is_kill (e : ev) : bool := match e with EvKill _ => true | _ => false end.
  (* the calls that may occur between the last start and the read *)
  Definition midk (e : ev) : bool :=
    match e with EvNow _ | EvAlive _ _ | EvSleep _ | EvJoin _ | EvKill _ => true | _ => false end.

  Lemma in_kill_events (pbs : list (P * bool)) (e : ev) : In e (kill_events pbs) ->
    exists p b, In (p, b) pbs /\ (e = EvAlive p b \/ (b = true /\ e = EvKill p) \/ e = EvJoin p).
  Proof.
    unfold kill_events. intros H. apply in_flat_map in H. destruct H as ((p, b) & Hin & He). exists p, b. split; [exact Hin|].
    cbn [fst snd] in He. destruct He as [<-|He]; [left; reflexivity|]. right.
    destruct b; cbn in He; intuition (subst; auto).
  Qed.

  Lemma combine_has {A B} (l : list A) (bs : list B) x : length bs = length l -> In x l -> exists b, In (x, b) (combine l bs).
  Proof.
    revert bs. induction l as [|a l IH]; intros bs Hl Hx; [destruct Hx|]. destruct bs as [|b bs]; [discriminate|].
    destruct Hx as [->|Hx]; [exists b; left; reflexivity|]. destruct (IH bs ltac:(simpl in Hl; congruence) Hx) as [b' Hb]. exists b'. right. exact Hb.
  Qed.

  Lemma kill_events_flag : forall (ps : list P) bs, length bs = length ps ->
    existsb is_kill (kill_events (combine ps bs)) = existsb (fun b : bool => b) bs.
  Proof.
    induction ps as [|p ps IH]; intros bs Hl; destruct bs as [|b bs]; try discriminate; [reflexivity|].
    unfold kill_events. cbn [combine flat_map fst snd]. fold (@kill_events I X P (combine ps bs)).
    rewrite existsb_app, (IH bs ltac:(simpl in Hl; congruence)). destruct b; reflexivity.
  Qed.

  Lemma kill_events_split (pbs : list (P * bool)) (p : P) : In (EvKill p : ev) (kill_events pbs) ->
    exists (a c : list ev), kill_events pbs = a ++ EvAlive p true :: EvKill p :: EvJoin p :: c.
  Proof.
    induction pbs as [|(q, b) pbs IH]; intros H; [destruct H|].
    unfold kill_events in *. cbn [flat_map fst snd] in *. fold (@kill_events I X P pbs) in *.
    destruct b; cbn [app] in H.
    - destruct H as [H|[H|[H|H]]]; try discriminate.
      + inversion H; subst. exists [], (kill_events pbs). reflexivity.
      + destruct (IH H) as (a & c & E). exists (EvAlive q true :: EvKill q :: EvJoin q :: a), c. rewrite E. reflexivity.
    - destruct H as [H|[H|H]]; try discriminate.
      destruct (IH H) as (a & c & E). exists (EvAlive q false :: EvJoin q :: a), c. rewrite E. reflexivity.
  Qed.

  Lemma pollish_midk polls : Forall (pollish step) polls -> Forall (fun e => midk e = true /\ is_kill e = false) polls.
  Proof. intros H. eapply Forall_impl; [|exact H]. intros e He. destruct e; cbn in *; try contradiction; auto. Qed.

  Lemma existsb_forall_false {A} (f : A -> bool) l : Forall (fun e => f e = false) l -> existsb f l = false.
  Proof. induction 1; [reflexivity|]. cbn. rewrite H, IHForall. reflexivity. Qed.

  Lemma tail_facts ps flag flag' tail : poll_tail ps flag flag' tail ->
    Forall (fun e => midk e = true) tail /\ (forall p, In p ps -> In (EvJoin p) tail) /\ flag' = flag || existsb is_kill tail.
  Proof.
    intros [[-> ->]|(bs & Hl & -> & ->)].
    - split; [|split].
      + apply Forall_app. split; apply Forall_forall; intros e He; apply in_map_iff in He; destruct He as (p & <- & _); reflexivity.
      + intros p Hp. apply in_or_app. right. apply in_map. exact Hp.
      + rewrite existsb_app, !existsb_forall_false, orb_false_r; [reflexivity| |]; apply Forall_forall; intros e He;
          apply in_map_iff in He; destruct He as (p & <- & _); reflexivity.
    - split; [|split].
      + apply Forall_forall. intros e He. apply in_kill_events in He. destruct He as (p & b & _ & [->|[[_ ->]| ->]]); reflexivity.
      + intros p Hp. destruct (combine_has ps bs p Hl Hp) as [b Hb]. unfold kill_events. apply in_flat_map. exists (p, b). split; [exact Hb|].
        cbn [fst snd]. right. destruct b; cbn; auto.
      + rewrite kill_events_flag by exact Hl. reflexivity.
  Qed.

  Lemma mid_facts T ps flag flag' mid : mid_shape step T ps flag flag' mid ->
    Forall (fun e => midk e = true) mid /\ (forall p, In p ps -> In (EvJoin p) mid) /\ flag' = flag || existsb is_kill mid /\
    (forall d, In (EvSleep d) mid -> d = step) /\
    (forall p, In (EvKill p) mid -> exists a c, mid = a ++ EvAlive p true :: EvKill p :: EvJoin p :: c) /\
    (T = -1 -> mid = map EvJoin ps).
  Proof.
    unfold mid_shape. destruct (T =? -1) eqn:ET.
    - intros [-> ->]. repeat split.
      + apply Forall_forall. intros e He. apply in_map_iff in He. destruct He as (p & <- & _). reflexivity.
      + intros p Hp. apply in_map. exact Hp.
      + rewrite existsb_forall_false, orb_false_r; [reflexivity|]. apply Forall_forall. intros e He. apply in_map_iff in He. destruct He as (p & <- & _). reflexivity.
      + intros d Hd. apply in_map_iff in Hd. destruct Hd as (p & E & _). discriminate.
      + intros p Hp. apply in_map_iff in Hp. destruct Hp as (q & E & _). discriminate.
    - intros (t0 & polls & t & tail & -> & Hp & Ht). destruct (tail_facts _ _ _ _ Ht) as (Tk & Tj & Tf).
      pose proof (pollish_midk polls Hp) as Hpk. rewrite Forall_forall in Hpk.
      repeat split.
      + constructor; [reflexivity|]. apply Forall_app. split; [apply Forall_forall; intros e He; exact (proj1 (Hpk e He))|].
        constructor; [reflexivity|exact Tk].
      + intros p Hp'. right. apply in_or_app. right. right. apply Tj. exact Hp'.
      + cbn [existsb is_kill orb]. rewrite existsb_app. cbn [existsb is_kill orb].
        rewrite (existsb_forall_false is_kill polls); [exact Tf|]. apply Forall_forall. intros e He. exact (proj2 (Hpk e He)).
      + intros d [Hd|Hd]; [discriminate|]. apply in_app_or in Hd. destruct Hd as [Hd|[Hd|Hd]]; [|discriminate|].
        * rewrite Forall_forall in Hp. exact (Hp _ Hd).
        * destruct Ht as [[-> _]|(bs & _ & -> & _)].
          -- apply in_app_or in Hd. destruct Hd as [Hd|Hd]; apply in_map_iff in Hd; destruct Hd as (q & E & _); discriminate.
          -- apply in_kill_events in Hd. destruct Hd as (q & b & _ & [E|[[_ E]|E]]); discriminate.
      + intros p [Hk|Hk]; [discriminate|]. apply in_app_or in Hk. destruct Hk as [Hk|[Hk|Hk]]; [|discriminate|].
        * specialize (Hpk _ Hk). destruct Hpk as [_ N]. discriminate.
        * destruct Ht as [[-> _]|(bs & _ & -> & _)].
          -- apply in_app_or in Hk. destruct Hk as [Hk|Hk]; apply in_map_iff in Hk; destruct Hk as (q & E & _); discriminate.
          -- destruct (kill_events_split _ _ Hk) as (a & c & E). exists (EvNow t0 :: polls ++ EvNow t :: a), c. rewrite E.
             cbn [app]. rewrite <- app_assoc. reflexivity.
      + intros E. apply Z.eqb_neq in ET. contradiction.
  Qed.

  Section Run.
    Variables (fuel : nat) (kernel : list I) (T : Z) (flag : bool) (w : W) (flag' : bool) (r : list X) (w' : W) (log : list ev).
    Hypothesis run : ref_parallel LO secs step fuel kernel T flag (w, []) = WOk (flag', r) (w', log).

    (* the flag is set exactly when a SIGKILL was sent *)
    Theorem log_flag_iff_kill : flag' = flag || existsb is_kill (rev log).
    Proof.
      destruct (parallel_log_shape O secs step _ _ _ _ _ _ _ _ _ run) as (nc & ps & mid & E & _ & Hm). rewrite E.
      destruct (mid_facts _ _ _ _ _ Hm) as (_ & _ & Hf & _).
      rewrite !existsb_app. cbn [existsb is_kill orb].
      rewrite (existsb_forall_false is_kill (map _ (combine ps _))), (existsb_forall_false is_kill (map EvStart ps)), orb_false_r; [exact Hf| |];
        apply Forall_forall; intros e He; apply in_map_iff in He; destruct He as (q & <- & _); reflexivity.
    Qed.

    (* every started process is joined afterwards *)
    Theorem log_started_joined : forall p, In (EvStart p) (rev log) ->
      exists a b c, rev log = a ++ EvStart p :: b ++ EvJoin p :: c.
    Proof.
      destruct (parallel_log_shape O secs step _ _ _ _ _ _ _ _ _ run) as (nc & ps & mid & E & _ & Hm). rewrite E.
      destruct (mid_facts _ _ _ _ _ Hm) as (Hk & Hj & _). rewrite Forall_forall in Hk.
      intros p Hp. cbn [app] in Hp. destruct Hp as [Hp|[Hp|[Hp|Hp]]]; try discriminate.
      apply in_app_or in Hp. destruct Hp as [Hp|Hp]; [apply in_map_iff in Hp; destruct Hp as (q & Eq & _); discriminate|].
      apply in_app_or in Hp. destruct Hp as [Hp|Hp].
      - assert (Hps : In p ps) by (apply in_map_iff in Hp; destruct Hp as (q & Eq & Hq); inversion Eq; subst; exact Hq).
        apply in_split in Hp. destruct Hp as (s1 & s2 & Es). destruct (in_split _ _ (Hj p Hps)) as (m1 & m2 & Em).
        exists ([EvCpu nc; EvManager; EvManagerList] ++ map (fun x => EvProcess (fst x) (snd x)) (combine ps (secs nc kernel)) ++ s1), (s2 ++ m1), (m2 ++ [EvRead r; EvManagerExit]).
        rewrite Es, Em. repeat (rewrite <- app_assoc; cbn [app]). reflexivity.
      - apply in_app_or in Hp. destruct Hp as [Hp|Hp]; [specialize (Hk _ Hp); discriminate|].
        destruct Hp as [Hp|[Hp|[]]]; discriminate.
    Qed.

    (* the shared list is read once, after every join and kill: it is the last call before the manager is left,
       and what it returns is what the function hands to the post-processing *)
    Theorem log_read_last : exists body, rev log = body ++ [EvRead r; EvManagerExit] /\
      (forall l, ~ In (EvRead l) body) /\ (forall p, In (EvJoin p) (rev log) \/ In (EvKill p) (rev log) -> In (EvJoin p) body \/ In (EvKill p) body).
    Proof.
      destruct (parallel_log_shape O secs step _ _ _ _ _ _ _ _ _ run) as (nc & ps & mid & E & _ & Hm). rewrite E.
      destruct (mid_facts _ _ _ _ _ Hm) as (Hk & _). rewrite Forall_forall in Hk.
      exists ([EvCpu nc; EvManager; EvManagerList] ++ map (fun x => EvProcess (fst x) (snd x)) (combine ps (secs nc kernel)) ++ map EvStart ps ++ mid).
      split; [repeat (rewrite <- app_assoc; cbn [app]); reflexivity|]. split.
      - intros l Hl. cbn [app] in Hl. destruct Hl as [Hl|[Hl|[Hl|Hl]]]; try discriminate.
        apply in_app_or in Hl. destruct Hl as [Hl|Hl]; [apply in_map_iff in Hl; destruct Hl as (q & Eq & _); discriminate|].
        apply in_app_or in Hl. destruct Hl as [Hl|Hl]; [apply in_map_iff in Hl; destruct Hl as (q & Eq & _); discriminate|].
        specialize (Hk _ Hl). discriminate.
      - intros p [Hp|Hp]; [left|right]; rewrite !app_assoc in Hp; apply in_app_or in Hp;
          (destruct Hp as [Hp|[Hp|[Hp|[]]]]; [rewrite <- !app_assoc in Hp; exact Hp|discriminate|discriminate]).
    Qed.

    (* SIGKILL goes only to a process that has just answered is_alive() = True, and is followed by its join *)
    Theorem log_kill_only_alive : forall p, In (EvKill p) (rev log) ->
      exists a c, rev log = a ++ EvAlive p true :: EvKill p :: EvJoin p :: c.
    Proof.
      destruct (parallel_log_shape O secs step _ _ _ _ _ _ _ _ _ run) as (nc & ps & mid & E & _ & Hm). rewrite E.
      destruct (mid_facts _ _ _ _ _ Hm) as (_ & _ & _ & _ & Hk & _).
      intros p Hp. cbn [app] in Hp. destruct Hp as [Hp|[Hp|[Hp|Hp]]]; try discriminate.
      apply in_app_or in Hp. destruct Hp as [Hp|Hp]; [apply in_map_iff in Hp; destruct Hp as (q & Eq & _); discriminate|].
      apply in_app_or in Hp. destruct Hp as [Hp|Hp]; [apply in_map_iff in Hp; destruct Hp as (q & Eq & _); discriminate|].
      apply in_app_or in Hp. destruct Hp as [Hp|[Hp|[Hp|[]]]]; try discriminate.
      destruct (Hk p Hp) as (a & c & Em).
      exists ([EvCpu nc; EvManager; EvManagerList] ++ map (fun x => EvProcess (fst x) (snd x)) (combine ps (secs nc kernel)) ++ map EvStart ps ++ a), (c ++ [EvRead r; EvManagerExit]).
      rewrite Em. repeat (rewrite <- app_assoc; cbn [app]). reflexivity.
    Qed.

    (* the parent sleeps the same interval between any two polls *)
    Theorem log_sleep_constant : forall d, In (EvSleep d) (rev log) -> d = step.
    Proof.
      destruct (parallel_log_shape O secs step _ _ _ _ _ _ _ _ _ run) as (nc & ps & mid & E & _ & Hm). rewrite E.
      destruct (mid_facts _ _ _ _ _ Hm) as (_ & _ & _ & Hs & _).
      intros d Hp. cbn [app] in Hp. destruct Hp as [Hp|[Hp|[Hp|Hp]]]; try discriminate.
      apply in_app_or in Hp. destruct Hp as [Hp|Hp]; [apply in_map_iff in Hp; destruct Hp as (q & Eq & _); discriminate|].
      apply in_app_or in Hp. destruct Hp as [Hp|Hp]; [apply in_map_iff in Hp; destruct Hp as (q & Eq & _); discriminate|].
      apply in_app_or in Hp. destruct Hp as [Hp|[Hp|[Hp|[]]]]; try discriminate. exact (Hs d Hp).
    Qed.

    (* timeout -1: no clock, no kill, no flag *)
    Theorem log_untimed : T = -1 -> flag' = flag /\ forall e, In e (rev log) -> match e with EvNow _ | EvKill _ | EvSleep _ | EvAlive _ _ => False | _ => True end.
    Proof.
      intros HT. destruct (parallel_log_shape O secs step _ _ _ _ _ _ _ _ _ run) as (nc & ps & mid & E & _ & Hm). rewrite E.
      destruct (mid_facts _ _ _ _ _ Hm) as (_ & _ & Hf & _ & _ & Hu). specialize (Hu HT). subst mid. split.
      - rewrite Hf, existsb_forall_false, orb_false_r; [reflexivity|]. apply Forall_forall. intros e He. apply in_map_iff in He. destruct He as (q & <- & _). reflexivity.
      - intros e He. cbn [app] in He. destruct He as [<-|[<-|[<-|He]]]; try exact Logic.I.
        apply in_app_or in He. destruct He as [He|He]; [apply in_map_iff in He; destruct He as (q & <- & _); exact Logic.I|].
        apply in_app_or in He. destruct He as [He|He]; [apply in_map_iff in He; destruct He as (q & <- & _); exact Logic.I|].
        apply in_app_or in He. destruct He as [He|[<-|[<-|[]]]]; try exact Logic.I.
        apply in_map_iff in He; destruct He as (q & <- & _); exact Logic.I.
    Qed.
  End Run.
End LogFacts.

(* ---- the sequential search, for every oracle: what is reported is what the generators yielded, in order,
        minus -- exactly when the flag is set -- the last yielded path; without a flag the generators ran to their end *)
Section SeqLog.
  Context {W I X P L G IT : Type} (O : oracle W I X P L G IT).
  Notation LO := (logged O).
  Notation ev := (event I X P).

  (* the paths the generators yielded, in order *)
  Definition yielded (l : list ev) : list X := flat_map (fun e => match e with EvNext (Some x) => [x] | _ => [] end) l.
  Definition exhausted (l : list ev) : Prop := In (EvNext None) l.

  Lemma yielded_app a b : yielded (a ++ b) = yielded a ++ yielded b.
  Proof. unfold yielded. apply flat_map_app. Qed.

  Lemma seq_loop_log (it : IT) (start T : Z) : forall fuel acc wl flag' r wl',
    w_iter fuel (o_next LO it)
      (fun pth (st : bool * list X) =>
         let '(flag, acc) := st in
         if T =? -1 then ret (CNext, (flag, acc ++ [pth]))
         else bind (o_now LO) (fun t => if T <? t - start then ret (CBreak, (true, acc)) else ret (CNext, (flag, acc ++ [pth]))))
      (false, acc) wl = WOk (flag', r) wl' ->
    exists new, snd wl' = rev new ++ snd wl /\
      ((flag' = false /\ r = acc ++ yielded new /\ exhausted new) \/
       (flag' = true /\ T <> -1 /\ exists p, acc ++ yielded new = r ++ [p] /\ ~ exhausted new)).
  Proof.
    induction fuel as [|fuel IH]; intros acc wl flag' r wl' H; cbn [w_iter] in H; [discriminate|].
    apply bind_inv in H. destruct H as (x & w1 & Hn & H). cbn [o_next logged] in Hn. apply logging_inv in Hn.
    destruct x as [p|].
    - apply bind_inv in H. destruct H as (cs & w2 & Hb & H).
      destruct (T =? -1) eqn:ET.
      + inversion Hb; subst. cbn [fst snd] in H. apply IH in H. destruct H as (new & Hl & Hc).
        exists (EvNext (Some p) :: new). split; [rewrite Hl, Hn; cbn [rev]; rewrite <- !app_assoc; reflexivity|].
        change (EvNext (Some p) :: new) with ([EvNext (Some p)] ++ new).
        destruct Hc as [(-> & -> & Hx)|(-> & HT & q & Hq & Hx)]; [left|right].
        * split; [reflexivity|]. split; [rewrite yielded_app, <- app_assoc; reflexivity|]. apply in_or_app. right. exact Hx.
        * split; [reflexivity|]. split; [exact HT|]. exists q. split; [rewrite yielded_app, <- Hq, <- app_assoc; reflexivity|].
          intros Hin. apply in_app_or in Hin. destruct Hin as [[E|[]]|Hin]; try discriminate. exact (Hx Hin).
      + apply Z.eqb_neq in ET. apply bind_inv in Hb. destruct Hb as (t & w3 & Ht & Hb). cbn [o_now logged] in Ht. apply logging_inv in Ht.
        destruct (T <? t - start).
        * inversion Hb; subst. cbn [fst snd] in H. inversion H; subst.
          exists [EvNext (Some p); EvNow t]. split; [rewrite Ht, Hn; reflexivity|]. right. split; [reflexivity|]. split; [exact ET|].
          exists p. split; [reflexivity|]. intros [E|[E|[]]]; discriminate.
        * inversion Hb; subst. cbn [fst snd] in H. apply IH in H. destruct H as (new & Hl & Hc).
          exists (EvNext (Some p) :: EvNow t :: new). split; [rewrite Hl, Ht, Hn; cbn [rev]; rewrite <- !app_assoc; reflexivity|].
          change (EvNext (Some p) :: EvNow t :: new) with ([EvNext (Some p); EvNow t] ++ new).
          destruct Hc as [(-> & -> & Hx)|(-> & HT & q & Hq & Hx)]; [left|right].
          -- split; [reflexivity|]. split; [rewrite yielded_app, <- app_assoc; reflexivity|]. apply in_or_app. right. exact Hx.
          -- split; [reflexivity|]. split; [exact HT|]. exists q. split; [rewrite yielded_app, <- Hq, <- app_assoc; reflexivity|].
             intros Hin. apply in_app_or in Hin. destruct Hin as [[E|[E|[]]]|Hin]; try discriminate. exact (Hx Hin).
    - inversion H; subst. exists [EvNext None]. split; [rewrite Hn; reflexivity|]. left.
      split; [reflexivity|]. split; [cbn; rewrite app_nil_r; reflexivity|left; reflexivity].
  Qed.

  Theorem sequential_log fuel (kernel : list I) T w flag' r w' log :
    ref_sequential LO fuel kernel T false [] (w, []) = WOk (flag', r) (w', log) ->
    exists t0 new, rev log = EvNow t0 :: EvPaths :: new /\
      ((flag' = false /\ r = yielded new /\ exhausted new) \/
       (flag' = true /\ T <> -1 /\ exists p, yielded new = r ++ [p] /\ ~ exhausted new)).
  Proof.
    unfold ref_sequential. intros H.
    apply bind_inv in H. destruct H as (t0 & w1 & H1 & H). cbn [o_now logged] in H1. apply logging_inv in H1.
    apply bind_inv in H. destruct H as (it & w2 & H2 & H). cbn [o_paths logged] in H2. apply logging_inv in H2.
    apply bind_inv in H. destruct H as ((f, a) & w3 & H3 & H). inversion H; subst.
    apply seq_loop_log in H3. destruct H3 as (new & Hl & Hc). exists t0, new. split.
    - cbn [snd] in Hl. rewrite Hl, H2, H1. cbn [snd]. rewrite rev_app_distr, rev_involutive. reflexivity.
    - exact Hc.
  Qed.
End SeqLog.
