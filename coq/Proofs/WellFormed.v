(* C15 -- a well-formed micro-op assignment can always be costed.
   Unbounded: every port list, every assignment. *)
From Coq Require Import String Ascii List Bool Arith ZArith QArith Lia.
From OV Require Import Model.ModelData.
Import ListNotations.
Open Scope string_scope.

(* ------------------------------------------------------------------ the specification (Prop) *)
Definition wf_num (c : num) : Prop := exists q, c = NQ q /\ 0 <= q.

Definition wf_portset (ports : list string) (ps : portset) : Prop :=
  exists names, port_names ps = Ok names /\ names <> [] /\ Forall (fun p => In p ports) names.

Definition wf_uop (ports : list string) (u : uop) : Prop :=
  exists c ps, u = U c ps /\ wf_num c /\ wf_portset ports ps.

Definition wf_uops (ports : list string) (us : list uop) : Prop := Forall (wf_uop ports) us.

(* "its micro-op list (or each alternative) is a list of [cycles >= 0, non-empty port collection]
    whose ports all exist in the model's port list" *)
Definition wf_assignment (ports : list string) (a : assignment) : Prop :=
  match a with
  | AUops us => wf_uops ports us
  | AAlts alts => alts <> [] /\ Forall (wf_uops ports) alts
  | _ => False
  end.

(* the micro-op lists that the analysis may cost for an assignment: the list itself, or any alternative *)
Definition alternatives (a : assignment) : list (list uop) :=
  match a with AUops us => [us] | AAlts alts => alts | _ => [] end.

(* ------------------------------------------------------------------ reflection *)
Lemma existsb_eqb_In : forall x l, existsb (String.eqb x) l = true <-> In x l.
Proof.
  intros x l. rewrite existsb_exists. split.
  - intros [y [Hy He]]. apply String.eqb_eq in He. subst. exact Hy.
  - intros H. exists x. split; [exact H | apply String.eqb_refl].
Qed.

Lemma wf_numb_spec : forall c, wf_numb c = true <-> wf_num c.
Proof.
  intros [q | r]; cbn; split.
  - intros H. exists q. split; [reflexivity | apply Qle_bool_iff; exact H].
  - intros [q' [E H]]. inversion E; subst. apply Qle_bool_iff. exact H.
  - discriminate.
  - intros [q' [E _]]. discriminate.
Qed.

Lemma wf_portsetb_spec : forall ports ps, wf_portsetb ports ps = true <-> wf_portset ports ps.
Proof.
  intros ports ps. unfold wf_portsetb, wf_portset. destruct (port_names ps) as [names | e].
  - destruct names as [| p r].
    + split; [discriminate |]. intros [n [E [Hn _]]]. inversion E; subst. contradiction.
    + split.
      * intros H. exists (p :: r). split; [reflexivity |]. split; [discriminate |].
        rewrite forallb_forall in H. apply Forall_forall. intros x Hx.
        apply existsb_eqb_In. apply H. exact Hx.
      * intros [n [E [_ Hall]]]. inversion E; subst. apply forallb_forall. intros x Hx.
        apply existsb_eqb_In. rewrite Forall_forall in Hall. apply Hall. exact Hx.
  - split; [discriminate |]. intros [n [E _]]. discriminate.
Qed.

Lemma wf_uopb_spec : forall ports u, wf_uopb ports u = true <-> wf_uop ports u.
Proof.
  intros ports [c ps | r]; cbn.
  - rewrite andb_true_iff, wf_numb_spec, wf_portsetb_spec. split.
    + intros [H1 H2]. exists c, ps. auto.
    + intros [c' [ps' [E [H1 H2]]]]. inversion E; subst. auto.
  - split; [discriminate |]. intros [c [ps [E _]]]. discriminate.
Qed.

Lemma wf_uopsb_spec : forall ports us, wf_uopsb ports us = true <-> wf_uops ports us.
Proof.
  intros ports us. unfold wf_uopsb, wf_uops. rewrite forallb_forall, Forall_forall.
  split; intros H x Hx; apply wf_uopb_spec; apply H; exact Hx.
Qed.

Lemma wf_assignmentb_spec : forall ports a, wf_assignmentb ports a = true <-> wf_assignment ports a.
Proof.
  intros ports [| | us | alts | r]; cbn; try (split; [discriminate | tauto]).
  - apply wf_uopsb_spec.
  - destruct alts as [| us r].
    + split; [discriminate |]. intros [H _]. contradiction.
    + change (forallb (wf_uopsb ports) (us :: r) = true <-> us :: r <> [] /\ Forall (wf_uops ports) (us :: r)).
      rewrite forallb_forall, Forall_forall. split.
      * intros H. split; [discriminate |]. intros x Hx. apply wf_uopsb_spec. apply H. exact Hx.
      * intros [_ H] x Hx. apply wf_uopsb_spec. apply H. exact Hx.
Qed.

(* ------------------------------------------------------------------ list.index, v[i] += x *)
Lemma index_of_In : forall p ports, In p ports -> exists i, index_of p ports = Some i /\ (i < length ports)%nat.
Proof.
  intros p ports. induction ports as [| x r IH]; cbn; [contradiction |].
  intros [E | H].
  - subst. rewrite String.eqb_refl. exists 0%nat. split; [reflexivity | lia].
  - destruct (String.eqb x p).
    + exists 0%nat. split; [reflexivity | lia].
    + destruct (IH H) as [i [Ei Hi]]. rewrite Ei. exists (S i). split; [reflexivity | lia].
Qed.

Lemma index_of_Some : forall p ports i, index_of p ports = Some i -> (i < length ports)%nat /\ nth_error ports i = Some p.
Proof.
  intros p ports. induction ports as [| x r IH]; cbn; [discriminate |].
  intros i. destruct (String.eqb x p) eqn:E.
  - intros H. inversion H; subst. apply String.eqb_eq in E. subst. split; [lia | reflexivity].
  - destruct (index_of p r) as [j |]; [| discriminate]. intros H. inversion H; subst.
    destruct (IH j eq_refl) as [Hj Hn]. split; [lia | exact Hn].
Qed.

Lemma index_of_None : forall p ports, index_of p ports = None -> ~ In p ports.
Proof.
  intros p ports H Hin. destruct (index_of_In p ports Hin) as [i [E _]]. congruence.
Qed.

Lemma add_at_length : forall i x v, length (add_at i x v) = length v.
Proof.
  intros i x v. revert i. induction v as [| y r IH]; intros i; cbn; [reflexivity |].
  destruct i; cbn; [reflexivity | rewrite IH; reflexivity].
Qed.

Lemma add_at_nonneg : forall i x v, 0 <= x -> Forall (fun y => 0 <= y) v -> Forall (fun y => 0 <= y) (add_at i x v).
Proof.
  intros i x v Hx. revert i. induction v as [| y r IH]; intros i H; cbn; [constructor |].
  inversion H; subst. destruct i.
  - constructor; [| assumption]. rewrite <- (Qplus_0_l 0). apply Qplus_le_compat; assumption.
  - constructor; [assumption | apply IH; assumption].
Qed.

(* ------------------------------------------------------------------ the inner loops never raise *)
Lemma add_ports_ok : forall ports share names v,
  Forall (fun p => In p ports) names ->
  exists v', add_ports ports share names v = Ok v' /\ length v' = length v.
Proof.
  intros ports share names. induction names as [| p r IH]; intros v H; cbn.
  - exists v. auto.
  - inversion H; subst. destruct (index_of_In p ports H2) as [i [Ei _]]. rewrite Ei.
    destruct (IH (add_at i share v) H3) as [v' [E L]]. exists v'. split; [exact E |].
    rewrite L. apply add_at_length.
Qed.

Lemma add_ports_nonneg : forall ports share names v v',
  0 <= share -> Forall (fun y => 0 <= y) v -> add_ports ports share names v = Ok v' ->
  Forall (fun y => 0 <= y) v'.
Proof.
  intros ports share names. induction names as [| p r IH]; intros v v' Hs Hv; cbn.
  - intros E. inversion E; subst. exact Hv.
  - destruct (index_of p ports) as [i |]; [| discriminate]. intros E.
    apply (IH (add_at i share v) v' Hs); [apply add_at_nonneg; assumption | exact E].
Qed.

Lemma share_nonneg : forall q n, 0 <= q -> 0 <= q / nat_Q (S n).
Proof.
  intros q n H. unfold Qdiv. apply Qmult_le_0_compat; [exact H |].
  apply Qinv_le_0_compat. unfold nat_Q, Qle. cbn. lia.
Qed.

Lemma add_uop_ok : forall ports u v, wf_uop ports u ->
  exists v', add_uop ports u v = Ok v' /\ length v' = length v /\
             (Forall (fun y => 0 <= y) v -> Forall (fun y => 0 <= y) v').
Proof.
  intros ports u v [c [ps [E [[q [Ec Hq]] [names [En [Hne Hall]]]]]]]. subst. cbn. rewrite En.
  destruct names as [| p r]; [contradiction |].
  destruct (add_ports_ok ports (q / nat_Q (length (p :: r))) (p :: r) v Hall) as [v' [E L]].
  exists v'. split; [exact E |]. split; [exact L |].
  intros Hv. eapply add_ports_nonneg; [| exact Hv | exact E]. apply share_nonneg. exact Hq.
Qed.

Lemma add_uops_ok : forall ports us v, wf_uops ports us ->
  exists v', add_uops ports us v = Ok v' /\ length v' = length v /\
             (Forall (fun y => 0 <= y) v -> Forall (fun y => 0 <= y) v').
Proof.
  intros ports us. induction us as [| u r IH]; intros v H; cbn.
  - exists v. auto.
  - inversion H; subst. destruct (add_uop_ok ports u v H2) as [v1 [E1 [L1 N1]]]. rewrite E1.
    destruct (IH v1 H3) as [v2 [E2 [L2 N2]]]. exists v2. split; [exact E2 |]. split; [congruence | auto].
Qed.

Lemma zeros_length : forall n, length (zeros n) = n.
Proof. intros n. unfold zeros. apply repeat_length. Qed.

Lemma zeros_nonneg : forall n, Forall (fun y => 0 <= y) (zeros n).
Proof.
  intros n. unfold zeros. apply Forall_forall. intros x Hx. apply repeat_spec in Hx. subst. apply Qle_refl.
Qed.

(* ------------------------------------------------------------------ main results *)
Lemma wf_uops_cost : forall ports us, wf_uops ports us ->
  exists v, avg_pressure ports (AUops us) = Ok v /\ length v = length ports /\ Forall (fun y => 0 <= y) v.
Proof.
  intros ports us H. cbn. destruct (add_uops_ok ports us (zeros (length ports)) H) as [v [E [L N]]].
  exists v. split; [exact E |]. split; [rewrite L; apply zeros_length | apply N; apply zeros_nonneg].
Qed.

Lemma wf_costs_lemma : forall ports a, wf_assignment ports a ->
  exists v, avg_pressure ports a = Ok v /\ length v = length ports.
Proof.
  intros ports [| | us | alts | r] H; cbn in H; try contradiction.
  - destruct (wf_uops_cost ports us H) as [v [E [L _]]]. exists v. auto.
  - destruct H as [Hne Hall]. destruct alts as [| us r]; [contradiction |].
    inversion Hall; subst. destruct (wf_uops_cost ports us H1) as [v [E [L _]]]. exists v. auto.
Qed.

Lemma wf_costs_nonneg_lemma : forall ports a v, wf_assignment ports a -> avg_pressure ports a = Ok v ->
  Forall (fun y => 0 <= y) v.
Proof.
  intros ports [| | us | alts | r] v H; cbn in H; try contradiction.
  - destruct (wf_uops_cost ports us H) as [v' [E [_ N]]]. intros E'. congruence.
  - destruct H as [Hne Hall]. destruct alts as [| us r]; [contradiction |].
    inversion Hall; subst. destruct (wf_uops_cost ports us H1) as [v' [E [_ N]]]. cbn in *. intros E'. congruence.
Qed.

(* every alternative (the balancer costs alternatives 1.. as well) *)
Lemma wf_alternatives_cost_lemma : forall ports a us, wf_assignment ports a -> In us (alternatives a) ->
  exists v, avg_pressure ports (AUops us) = Ok v /\ length v = length ports.
Proof.
  intros ports [| | us0 | alts | r] us H Hin; cbn in H, Hin; try contradiction.
  - destruct Hin as [E | []]. subst. destruct (wf_uops_cost ports us H) as [v [E [L _]]]. exists v. auto.
  - destruct H as [_ Hall]. rewrite Forall_forall in Hall.
    destruct (wf_uops_cost ports us (Hall us Hin)) as [v [E [L _]]]. exists v. auto.
Qed.

(* the balancer's index computation: never ValueError, never an empty itemgetter, indices in range *)
Lemma indices_of_ok : forall ports names, Forall (fun p => In p ports) names ->
  exists l, indices_of ports names = Ok l /\ length l = length names /\ Forall (fun i => (i < length ports)%nat) l.
Proof.
  intros ports names. induction names as [| p r IH]; intros H; cbn.
  - exists []. auto.
  - inversion H; subst. destruct (index_of_In p ports H2) as [i [Ei Hi]]. rewrite Ei.
    destruct (IH H3) as [l [E [L F]]]. rewrite E. exists (i :: l). cbn. auto.
Qed.

Lemma wf_uop_positions_lemma : forall ports a us u, wf_assignment ports a -> In us (alternatives a) -> In u us ->
  exists l, uop_positions ports u = Ok l /\ l <> [] /\ Forall (fun i => (i < length ports)%nat) l.
Proof.
  intros ports a us u H Hus Hu.
  assert (Hw : wf_uops ports us).
  { destruct a as [| | us0 | alts | r]; cbn in H, Hus; try contradiction.
    - destruct Hus as [E | []]. subst. exact H.
    - destruct H as [_ Hall]. rewrite Forall_forall in Hall. apply Hall. exact Hus. }
  unfold wf_uops in Hw. rewrite Forall_forall in Hw.
  destruct (Hw u Hu) as [c [ps [E [_ [names [En [Hne Hall]]]]]]]. subst. cbn. rewrite En.
  destruct (indices_of_ok ports names Hall) as [l [El [L F]]]. rewrite El.
  destruct l as [| i l']; [destruct names; [contradiction | discriminate] |].
  exists (i :: l'). split; [reflexivity |]. split; [discriminate | exact F].
Qed.

(* converse direction for the part the costing function can see: an unknown port is an error.
   (So the theorem above is not true because errors were totalised away.) *)
Lemma unknown_port_raises : forall ports q p rest v,
  ~ In p ports -> add_uop ports (U (NQ q) (UList (p :: rest))) v = Err (EKey p).
Proof.
  intros ports q p rest v H. cbn. destruct (index_of p ports) as [i |] eqn:E; [| reflexivity].
  apply index_of_Some in E. destruct E as [_ E]. apply nth_error_In in E. contradiction.
Qed.

(* ------------------------------------------------------------------ linking data sweeps to the theorem *)
Lemma entry_wfb_assignment : forall ports table e, entry_wfb ports table e = true ->
  wf_assignment ports (assignment_of table e).
Proof.
  intros ports table e H. unfold entry_wfb in H. apply andb_true_iff in H. destruct H as [_ H].
  apply wf_assignmentb_spec. exact H.
Qed.

Lemma all_wf_costable : forall ports table entries,
  forallb (entry_wfb ports table) entries = true ->
  forall e, In e entries ->
    exists v, avg_pressure ports (assignment_of table e) = Ok v /\ length v = length ports.
Proof.
  intros ports table entries H e He. rewrite forallb_forall in H.
  apply wf_costs_lemma. apply entry_wfb_assignment. apply H. exact He.
Qed.

Lemma all_wf_positions : forall ports table entries,
  forallb (entry_wfb ports table) entries = true ->
  forall e us u, In e entries -> In us (alternatives (assignment_of table e)) -> In u us ->
    exists l, uop_positions ports u = Ok l /\ l <> [] /\ Forall (fun i => (i < length ports)%nat) l.
Proof.
  intros ports table entries H e us u He Hus Hu. rewrite forallb_forall in H.
  eapply wf_uop_positions_lemma; [apply entry_wfb_assignment; apply H; exact He | exact Hus | exact Hu].
Qed.
