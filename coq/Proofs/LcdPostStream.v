(* Declarative reading of the DICTIONARY check_for_loopcarried_dep returns (functional reading Model/LcdPost.v, proved equal to
   the regenerated code in PropsGen/C05gen.v), by way of Proofs/LcdPost.v (dict_of over the sorted lcd_entries) and
   Proofs/StreamCycles.v (lcd_entries = the cross-iteration cycles of the periodic instruction stream):
   every entry of the dictionary is a winding-number-one cycle of the stream, and every such cycle has an entry under its key. *)
From Coq Require Import ZArith List Bool String Lia Permutation.
From OV Require Import Model.Num Model.Deps Proofs.LCD Proofs.Rotation Proofs.RotationGlue Proofs.DepsGraph Proofs.StreamCycles
     Model.PyLcd Model.LcdPost Proofs.PyLcdFacts Proofs.LcdPost.
Import ListNotations.
Local Open Scope list_scope.
Local Open Scope nat_scope.

Section Stream.
  Context {T : Type} (N : NumOps T) (dep : regop -> regop -> bool).
  Variables (fwd pidx : T) (fd : bool).
  Context {I : Type} (get : I -> Z) (heap : list I).
  Notation line := (line (T:=T)).

  (* `dg.edges[s, d]["latency"]` read off the model graph: the look-up the post-processing theorems are instantiated with *)
  Definition graph_lat (g : list (edge (T:=T))) (u v : Z) : pres T :=
    match find (fun vw => Z.eqb (Z.of_nat (fst vw)) v) (succs g (Z.to_nat u)) with
    | Some vw => POk (snd vw)
    | None => PErr PKeyError
    end.

  Lemma graph_lat_agrees (K : list line) :
    lat_agrees (create_dg N dep fwd pidx fd K) (graph_lat (create_dg N dep fwd pidx fd K)).
  Proof.
    intros u v w Hin. unfold graph_lat. rewrite Nat2Z.id.
    destruct (find _ (succs (create_dg N dep fwd pidx fd K) u)) as [[v' w']|] eqn:F.
    - apply find_some in F. destruct F as (Hin' & E). cbn [fst] in E. apply Z.eqb_eq in E. apply Nat2Z.inj in E. subst v'.
      apply succs_in in Hin, Hin'. cbn [snd]. f_equal.
      exact (create_dg_one_edge_per_pair N dep fwd pidx fd K _ _ _ _ Hin' Hin).
    - pose proof (find_none _ _ F _ Hin) as C. cbn [fst] in C. rewrite Z.eqb_refl in C. discriminate.
  Qed.

  (* the dictionary of kernel K as the functional reading builds it from the model's entries *)
  Definition lcd_dict (K : list line) :=
    dict_of get heap (py_sort_rev (lt_item N) (map (inj_entry (T:=T)) (lcd_entries N dep fwd pidx fd K))).

  (* members of a cycle as the dictionary stores them: (line, weight of the edge leaving it), sorted *)
  Definition cycle_members (k : list line) (q : list (nat * T)) : list (Z * T) :=
    map (inj (T:=T)) (sort_pairs N (map (fun xw => (fst xw mod List.length k + 1, snd xw)) q)).

  Lemma lcd_key_fst (a b : list (Z * T)) : map fst a = map fst b -> lcd_key a = lcd_key b.
  Proof.
    intros H. unfold lcd_key. f_equal. rewrite <- (map_map fst py_str_Z a), <- (map_map fst py_str_Z b), H. reflexivity.
  Qed.

  Lemma pairs_eqb_fst : forall a b : list (nat * T), pairs_eqb N a b = true -> map fst a = map fst b.
  Proof.
    induction a as [|x a IH]; intros [|y b] H; try reflexivity; try discriminate.
    unfold pairs_eqb in H. fold (pairs_eqb N a b) in H. apply andb_true_iff in H. destruct H as (H1 & H2).
    apply andb_true_iff in H1. destruct H1 as (H1 & _). apply Nat.eqb_eq in H1. cbn [map]. rewrite H1, (IH b H2). reflexivity.
  Qed.

  (* EVERY ENTRY OF THE DICTIONARY IS A CROSS-ITERATION CYCLE OF THE INSTRUCTION STREAM: its latency is the sum of the edge weights
     of the cycle, added from 0 in the order of its (sorted) dependencies list -- a function of that list --, its dependencies are the cycle's instructions -- as the first object of
     self.kernel with that line number -- with the weight of the edge leaving them, sorted by (line, weight); its key is made of
     these lines; its root is the first of them *)
  Theorem dict_entries_are_stream_cycles (k : list line) d key root deps lat :
    lcd_dict (renumber k) = POk d -> In (key, (root, deps, lat)) d ->
    exists i q, i < List.length k /\ spath T (stream_E N dep fwd pidx fd (body N k)) i (i + List.length k) q /\
      lat = sum_sorted N (cycle_members k q) /\
      key = lcd_key (cycle_members k q) /\
      Forall2 (fun ll rw => node_by_lineno get heap (fst ll) = POk (fst rw) /\ snd rw = snd ll) (cycle_members k q) deps /\
      exists first rest, cycle_members k q = first :: rest /\ node_by_lineno get heap (fst first) = POk root.
  Proof.
    intros Hd Hin. destruct (dict_of_spec get heap _ d Hd) as (_ & S & _).
    destruct (S _ _ Hin) as (it & Hit & Hk & Hv). apply py_sort_rev_In in Hit. apply in_map_iff in Hit. destruct Hit as (e & <- & He).
    destruct (lcd_entries_are_stream_cycles N dep fwd pidx fd k e He) as (i & q & Hi & Hq & ->).
    exists i, q. split; [exact Hi|]. split; [exact Hq|].
    destruct (item_value_spec get heap _ _ _ _ Hv) as (El & F & R). unfold inj_entry, cycle_entry, cycle_members_of in *. cbn [fst snd] in *.
    split; [unfold cycle_members; rewrite sum_sorted_inj; exact El|]. split; [exact Hk|]. split; [exact F | exact R].
  Qed.

  (* EVERY CROSS-ITERATION CYCLE OF THE STREAM HAS AN ENTRY under the key made of its (sorted) lines *)
  Theorem stream_cycles_have_dict_entries (k : list line) d i q : (forall a, neqb N a a = true) ->
    lcd_dict (renumber k) = POk d ->
    i < List.length k -> spath T (stream_E N dep fwd pidx fd (body N k)) i (i + List.length k) q ->
    exists v, In (lcd_key (cycle_members k q), v) d.
  Proof.
    intros R Hd Hi Hq. destruct (stream_cycles_are_reported N dep fwd pidx fd k i q R Hi Hq) as (e & He & Hk).
    destruct (dict_of_spec get heap _ d Hd) as (_ & _ & C).
    assert (Hit : In (inj_entry e) (py_sort_rev (lt_item N) (map (inj_entry (T:=T)) (lcd_entries N dep fwd pidx fd (renumber k)))))
      by (apply py_sort_rev_In; apply in_map; exact He).
    specialize (C _ Hit). apply in_map_iff in C. destruct C as ([k0 v] & Ek & Hin). cbn [fst] in Ek. subst k0.
    exists v. replace (lcd_key (cycle_members k q)) with (lcd_key (snd (inj_entry e))); [exact Hin|].
    apply lcd_key_fst. unfold cycle_members, inj_entry. cbn [snd]. rewrite !map_map.
    apply pairs_eqb_fst in Hk. unfold cycle_entry, cycle_members_of in Hk. cbn [snd] in Hk.
    change (fun x : nat * T => fst (inj x)) with (fun x : nat * T => Z.of_nat (fst x)).
    rewrite <- !(map_map fst Z.of_nat). f_equal. symmetry. exact Hk.
  Qed.

  (* one entry per key *)
  Theorem dict_keys_distinct (K : list line) d : lcd_dict K = POk d -> NoDup (map fst d).
  Proof. intros Hd. exact (proj1 (dict_of_spec get heap _ d Hd)). Qed.
End Stream.
