(* ONE whole pass of assign_optimal_throughput (Model/Pressure.v: balance = balance_from, start 0) over a kernel
   WITHOUT alternative port assignments (every instruction's micro-ops are a plain list), exact rationals, whatever
   the exact-zero counter of the run says (repaired rule 1):
   Part D : every instruction's row after the pass is a feasible split of its own micro-ops, slack 1/100 per
            (micro-op, port), every cell >= 0; throughput and micro-ops of every instruction are kept.
   C02    : hence (weak duality, Proofs/Optimum.v) the reported bottleneck -- max of the port sums rounded to
            hundredths -- is at least the exact optimum minus an explicit slack. *)
From Coq Require Import QArith Qround Qfield Lqa Lia List Bool Arith String ZArith.
From OV Require Import Model.Num Model.Pressure Proofs.ListSpec Proofs.Feasible Proofs.PressureQ Proofs.BalanceFrame
  Proofs.BalanceSingle Proofs.BalanceMulti Proofs.Optimum.
Import ListNotations.
Open Scope Q_scope.
Local Notation length := List.length (only parsing).

Definition dins : instr (T:=Q) := mkinstr 0 [] (UList []).

(* the instruction's micro-ops with port numbers; an instruction with alternatives has no such list here *)
Definition uopsQ (ports : list string) (ins : instr (T:=Q)) : list uopQ :=
  match i_uops ins with UList us => map (toU ports) us | UDict _ => [] end.

(* what the pass expects of an instruction: a plain micro-op list meeting instr_okb (Proofs/BalanceMulti.v), and a
   row that is -- up to == of rationals -- the model's average_port_pressure of that list (that is how the semantic
   stage builds it) *)
Definition start_ok (ports : list string) (ins : instr (T:=Q)) : Prop :=
  exists us v, i_uops ins = UList us /\ instr_okb ports us = true /\ avg_pressure_list QNum ports us = Ok v /\
               length (i_pp ins) = length v /\ forall p, qnth (i_pp ins) p == qnth v p.

(* the same as a boolean *)
Definition start_okb (ports : list string) (ins : instr (T:=Q)) : bool :=
  match i_uops ins with
  | UList us =>
    instr_okb ports us &&
    match avg_pressure_list QNum ports us with
    | Ok v => Nat.eqb (length (i_pp ins)) (length v) &&
              forallb (fun p => Qeq_bool (qnth (i_pp ins) p) (qnth v p)) (seq 0 (length v))
    | Err _ => false
    end
  | UDict _ => false
  end.

Lemma start_okb_ok ports ins : start_okb ports ins = true -> start_ok ports ins.
Proof.
  unfold start_okb. destruct (i_uops ins) as [us|alts] eqn:EU; [|discriminate]. intros H.
  apply andb_true_iff in H. destruct H as (OK & H).
  destruct (avg_pressure_list QNum ports us) as [v|] eqn:AV; [|discriminate].
  apply andb_true_iff in H. destruct H as (L & F). apply Nat.eqb_eq in L.
  exists us, v. split; [exact EU|]. split; [exact OK|]. split; [exact AV|]. split; [exact L|].
  intros p. destruct (Nat.lt_ge_cases p (length v)) as [Lp|Lp].
  - rewrite forallb_forall in F. apply Qeq_bool_iff. apply F. apply in_seq. lia.
  - unfold qnth. rewrite !nth_overflow by lia. reflexivity.
Qed.

Lemma start_ok_of_avg ports ins us :
  i_uops ins = UList us -> instr_okb ports us = true -> avg_pressure_list QNum ports us = Ok (i_pp ins) ->
  start_ok ports ins.
Proof.
  intros EU OK AV. exists us, (i_pp ins). split; [exact EU|]. split; [exact OK|]. split; [exact AV|].
  split; [reflexivity|]. intros p. reflexivity.
Qed.

Lemma feasible_ext P eps us v w : (forall p, (p < P)%nat -> w p == v p) -> Feasible P eps us v -> Feasible P eps us w.
Proof.
  intros E (sh & A & B & C & D). exists sh. split; [exact A|]. split; [exact B|]. split; [exact C|].
  intros p Hp. rewrite (E p Hp). apply D. exact Hp.
Qed.

Lemma start_ok_uniform ports ins us v :
  instr_okb ports us = true -> avg_pressure_list QNum ports us = Ok v ->
  length (i_pp ins) = length v -> (forall p, qnth (i_pp ins) p == qnth v p) ->
  (forall u, In u us -> wf_names ports u) /\ length (i_pp ins) = length ports /\
  (forall p, qnth (i_pp ins) p == uniform (map (toU ports) us) p).
Proof.
  intros OK AV L E.
  assert (WF : forall u, In u us -> wf_names ports u).
  { intros u Hu. apply (uop_okb_spec ports (length us)). unfold instr_okb in OK. rewrite forallb_forall in OK. apply OK. exact Hu. }
  destruct (avg_pressure_is_uniform _ _ _ AV WF) as (Lv & V).
  split; [exact WF|]. split; [congruence|]. intros p. rewrite (E p). apply V.
Qed.

(* what the pass delivers *)
Definition done_ok (ports : list string) (ins : instr (T:=Q)) : Prop :=
  Feasible (length ports) (1 # 100) (uopsQ ports ins) (qnth (i_pp ins)) /\
  length (i_pp ins) = length ports /\ (forall p, 0 <= nth p (i_pp ins) 0).

Lemma start_done ports ins : start_ok ports ins -> done_ok ports ins.
Proof.
  intros (us & v & EU & OK & AV & L & E).
  destruct (start_ok_uniform ports ins us v OK AV L E) as (WF & LP & UN).
  unfold done_ok, uopsQ. rewrite EU. split; [|split; [exact LP|]].
  - apply (feasible_mono _ 0); [lra|].
    apply (feasible_ext _ _ _ (qnth v)); [intros p _; apply E|]. apply uniform_model_feasible; assumption.
  - intros p. pose proof (UN p) as E'. unfold qnth in E'. rewrite E'. apply uniform_nonneg.
    intros x Hx. apply in_map_iff in Hx. destruct Hx as (y & E'' & Hy). subst x.
    destruct (WF y Hy) as (Hy0 & _). exact Hy0.
Qed.

(* ================================================================ set_pp *)
Lemma set_nth_total {A} : forall (l : list A) i v, (i < length l)%nat -> exists l', set_nth l i v = Ok l'.
Proof.
  induction l as [|x l IH]; intros i v H; [simpl in H; lia|].
  destruct i as [|i]; simpl; [eauto|].
  destruct (IH i v ltac:(simpl in H; lia)) as (l' & E). rewrite E. cbn [bind]. eauto.
Qed.

Lemma set_pp_spec (k : list (instr (T:=Q))) idx pp :
  (idx < length k)%nat ->
  length (set_pp k idx pp) = length k /\
  nth idx (set_pp k idx pp) dins = mkinstr (i_tp (nth idx k dins)) pp (i_uops (nth idx k dins)) /\
  forall j, j <> idx -> nth j (set_pp k idx pp) dins = nth j k dins.
Proof.
  intros H. unfold set_pp. rewrite (nth_error_nth' k dins H).
  destruct (set_nth_total k idx (mkinstr (i_tp (nth idx k dins)) pp (i_uops (nth idx k dins))) H) as (k' & E).
  rewrite E. destruct (set_nth_ok _ _ _ _ dins E) as (L & N & O). auto.
Qed.

(* ================================================================ the loop over the instructions *)
Section GoLoop.
  Variable ports : list string.
  Let gostate := (list (instr (T:=Q)) * bool * option (list (instr (T:=Q)) * Q) * nat)%type.
  Variable go : list nat -> list (instr (T:=Q)) -> bool -> option (list (instr (T:=Q)) * Q) -> nat -> res gostate.
  (* the two equations the model's local `go` satisfies on instructions without alternatives *)
  Hypothesis go_nil : forall kk m b e, go [] kk m b e = Ok (kk, m, b, e).
  Hypothesis go_cons : forall idx rest kk m b e us,
    (idx < length kk)%nat -> i_uops (nth idx kk dins) = UList us ->
    go (idx :: rest) kk m b e =
    bind (balance_uops QNum ports kk idx (i_pp (nth idx kk dins)) us e)
         (fun r => go rest (set_pp kk idx (fst r)) false b (snd r)).

  Definition todo_ok (todo : list nat) (kk : list (instr (T:=Q))) : Prop :=
    forall j, In j todo -> (j < length kk)%nat /\ start_ok ports (nth j kk dins).

  Lemma todo_ok_step idx rest kk pp :
    NoDup (idx :: rest) -> todo_ok (idx :: rest) kk -> todo_ok rest (set_pp kk idx pp).
  Proof.
    intros ND T j Hj. inversion ND as [|? ? Hnotin ND']; subst.
    destruct (T idx (or_introl eq_refl)) as (Li & _).
    destruct (set_pp_spec kk idx pp Li) as (L & _ & O).
    destruct (T j (or_intror Hj)) as (Lj & Sj). split; [lia|].
    rewrite O; [exact Sj|]. intros C. subst j. contradiction.
  Qed.

  Lemma go_inv : forall todo kk m b e kf mf bf ef,
    NoDup todo -> todo_ok todo kk -> go todo kk m b e = Ok (kf, mf, bf, ef) ->
    length kf = length kk /\ (m = false -> mf = false) /\
    forall j, (j < length kk)%nat ->
      i_tp (nth j kf dins) = i_tp (nth j kk dins) /\ i_uops (nth j kf dins) = i_uops (nth j kk dins) /\
      (In j todo -> done_ok ports (nth j kf dins)) /\
      (~ In j todo -> nth j kf dins = nth j kk dins).
  Proof.
    induction todo as [|idx rest IH]; intros kk m b e kf mf bf ef ND T H.
    - rewrite go_nil in H. inversion H; subst. split; [reflexivity|]. split; [auto|].
      intros j Hj. split; [reflexivity|]. split; [reflexivity|]. split; [intros []|reflexivity].
    - destruct (T idx (or_introl eq_refl)) as (Li & (us & v & EU & OK & AV & LV & EV)).
      destruct (start_ok_uniform ports _ us v OK AV LV EV) as (_ & LP0 & UN0).
      rewrite (go_cons idx rest kk m b e us Li EU) in H.
      destruct (balance_uops QNum ports kk idx _ us e) as [[pp' e2]|] eqn:B; cbn [bind fst snd] in H; [|discriminate].
      inversion ND as [|? ? Hnotin ND']; subst.
      pose proof (todo_ok_step idx rest kk pp' ND T) as T'.
      destruct (balance_instr_feasible_gen ports kk idx us _ e pp' e2 OK LP0 (fun p _ => UN0 p) B) as (F & LP & NN).
      destruct (set_pp_spec kk idx pp' Li) as (L & N & O).
      destruct (IH _ _ _ _ _ _ _ _ ND' T' H) as (L' & _ & J). rewrite L in L', J.
      split; [exact L'|]. split; [intros _|].
      + destruct (IH _ _ _ _ _ _ _ _ ND' T' H) as (_ & MF & _). apply MF. reflexivity.
      + intros j Hj. destruct (J j Hj) as (J1 & J2 & J3 & J4).
        destruct (Nat.eq_dec j idx) as [e0|n0].
        * subst j. rewrite J1, J2, N. cbn [i_tp i_uops]. split; [reflexivity|]. split; [reflexivity|].
          split; [|intros C; exfalso; apply C; left; reflexivity].
          intros _. rewrite (J4 Hnotin), N. unfold done_ok, uopsQ. cbn [i_uops i_pp]. rewrite EU.
          split; [exact F|]. split; [exact LP | exact NN].
        * rewrite J1, J2, (O j n0). split; [reflexivity|]. split; [reflexivity|]. split.
          -- intros [C|C]; [congruence|]. apply J3. exact C.
          -- intros C. rewrite J4, (O j n0); [reflexivity|]. intros C'. apply C. right. exact C'.
  Qed.
End GoLoop.

(* ================================================================ Part D: the pass *)
Definition all_start_ok (ports : list string) (k : list (instr (T:=Q))) : Prop :=
  forall ins, In ins k -> start_ok ports ins.

(* decidable form of the hypothesis *)
Lemma all_start_okb_ok ports k : forallb (start_okb ports) k = true -> all_start_ok ports k.
Proof. intros H ins Hi. apply start_okb_ok. rewrite forallb_forall in H. apply H. exact Hi. Qed.

Theorem balance_pass_feasible ports (k k' : list (instr (T:=Q))) e :
  all_start_ok ports k ->
  balance QNum ports k = Ok (k', e) ->
  length k' = length k /\
  forall j, (j < length k)%nat ->
    i_tp (nth j k' dins) = i_tp (nth j k dins) /\ i_uops (nth j k' dins) = i_uops (nth j k dins) /\
    done_ok ports (nth j k' dins).
Proof.
  intros ST H. unfold balance in H.
  lazy beta iota fix delta [balance_from] in H.
  destruct (tp_sum QNum k) as [|t0 ts] eqn:TP.
  - inversion H; subst k'. split; [reflexivity|]. intros j Hj. split; [reflexivity|]. split; [reflexivity|].
    apply start_done. apply ST. apply nth_In. exact Hj.
  - lazy zeta in H.
    match type of H with context [?f (seq 0 _) (rev k) false None 0%nat] => set (go := f) in H end.
    destruct (go (seq 0 (length (rev k) - 0)) (rev k) false None 0%nat) as [[[[kfin multi] best] ex]|] eqn:G;
      cbn [bind] in H; [|discriminate].
    assert (GN : forall kk m b e, go [] kk m b e = Ok (kk, m, b, e)) by reflexivity.
    assert (GC : forall idx rest kk m b e us,
      (idx < length kk)%nat -> i_uops (nth idx kk dins) = UList us ->
      go (idx :: rest) kk m b e =
      bind (balance_uops QNum ports kk idx (i_pp (nth idx kk dins)) us e)
           (fun r => go rest (set_pp kk idx (fst r)) false b (snd r))).
    { intros idx rest kk m b e1 us Li EU. unfold go at 1. lazy beta iota fix.
      rewrite (nth_error_nth' kk dins Li). lazy beta iota. rewrite EU. cbn [bind].
      rewrite (nth_error_nth' kk dins Li).
      destruct (balance_uops QNum ports kk idx (i_pp (nth idx kk dins)) us e1) as [[pp' e2]|]; reflexivity. }
    assert (ND : NoDup (seq 0 (length (rev k) - 0))) by apply seq_NoDup.
    assert (T : todo_ok ports (seq 0 (length (rev k) - 0)) (rev k)).
    { intros j Hj. apply in_seq in Hj. split; [lia|]. apply ST. apply in_rev. apply nth_In. lia. }
    destruct (go_inv ports go GN GC _ _ _ _ _ _ _ _ _ ND T G) as (L & MF & J).
    rewrite (MF eq_refl) in H. inversion H; subst k'. clear H MF.
    rewrite rev_length in *. split; [exact L|].
    intros j Hj. rewrite Nat.sub_0_r in J.
    assert (Hj' : (length k - S j < length k)%nat) by lia.
    destruct (J (length k - S j)%nat Hj') as (J1 & J2 & J3 & _).
    assert (EK : nth j k dins = nth (length k - S j) (rev k) dins).
    { rewrite rev_nth by exact Hj'. f_equal. lia. }
    assert (EF : nth j (rev kfin) dins = nth (length k - S j) kfin dins).
    { rewrite rev_nth by (rewrite L; exact Hj). rewrite L. reflexivity. }
    rewrite EK, EF. split; [exact J1|]. split; [exact J2|].
    apply J3. apply in_seq. lia.
Qed.

(* non-vacuity: the kernel of BalanceMulti.balance_instr_nonvacuous meets the hypotheses; the pass changes row 0 *)
Example balance_pass_nonvacuous :
  all_start_ok exm_ports exm_kernel /\
  exists k', balance QNum exm_ports exm_kernel = Ok (k', 0%nat) /\
             i_pp (nth 0 k' dins) = [12 # 25; 63 # 100; 16 # 25] /\ i_pp (nth 0 exm_kernel dins) = [1 # 2; 3 # 4; 1 # 2].
Proof.
  split.
  - apply all_start_okb_ok. vm_compute. reflexivity.
  - eexists. split; [vm_compute; reflexivity|]. split; reflexivity.
Qed.

(* ================================================================ C02: bottleneck after one pass vs. exact optimum *)
Lemma list_max_spec l m : list_max QNum l = Ok m -> forall x, In x l -> x <= m.
Proof.
  unfold list_max. destruct l as [|a r]; [discriminate|]. intros H. inversion H as [Hm]. clear H.
  assert (G : forall r a, let m := fold_left (fun m y => if nltb QNum m y then y else m) r a in
                          a <= m /\ forall y, In y r -> y <= m).
  { clear. induction r as [|y r IH]; intros a; cbn [fold_left].
    - split; [lra|]. intros y [].
    - destruct (nltb QNum a y) eqn:E.
      + apply qltb_true in E. destruct (IH y) as (L & A). split; [lra|].
        intros z [Hz|Hz]; [subst; exact L | apply A; exact Hz].
      + assert (y <= a).
        { apply Qnot_lt_le. intros C. apply qltb_true in C. congruence. }
        destruct (IH a) as (L & A). split; [exact L|].
        intros z [Hz|Hz]; [subst; lra | apply A; exact Hz]. }
  destruct (G r a) as (L & A). intros x [Hx|Hx]; [subst; exact L | apply A; exact Hx].
Qed.

(* round(x, 2) loses at most half a hundredth *)
Lemma Qround2_lower x : x - (1 # 200) <= Qround2 x.
Proof.
  unfold Qround2. rewrite Qred_correct. destruct x as [n d]. cbn [Qnum Qden].
  destruct (Zrhe_spec (n * 100) d) as (_ & H2 & _).
  set (z := Zround_half_even (n * 100) d) in *. clearbody z.
  unfold Qle, Qminus, Qplus, Qopp. cbn [Qnum Qden]. rewrite !Pos2Z.inj_mul. nia.
Qed.

Lemma nsum_lsum l : nsum QNum l == lsum l.
Proof.
  cbn [nsum QNum].
  assert (G : forall l a, fold_left (fun a b => Qred (a + b)) l a == a + lsum l).
  { clear. induction l as [|x l IH]; intros a; cbn [fold_left lsum]; [ring|]. rewrite IH, Qred_correct. ring. }
  rewrite G. ring.
Qed.

Lemma min_len_const (P : nat) : forall (rows : list (list Q)) r,
  length r = P -> (forall x, In x rows -> length x = P) -> min_len (r :: rows) = P.
Proof.
  intros rows r Lr. unfold min_len. rewrite Lr. clear r Lr.
  induction rows as [|x rows IH]; intros H; cbn [fold_left]; [reflexivity|].
  rewrite (H x (or_introl eq_refl)), Nat.min_id. apply IH. intros y Hy. apply H. right. exact Hy.
Qed.

Definition kview (ports : list string) (k : list (instr (T:=Q))) : list kinstr :=
  map (fun ins => (uopsQ ports ins, qnth (i_pp ins))) k.

Lemma kget_kview ports k i : (i < length k)%nat -> kget (kview ports k) i = (uopsQ ports (nth i k dins), qnth (i_pp (nth i k dins))).
Proof.
  intros H. unfold kget, kview.
  rewrite (nth_indep _ dk (uopsQ ports dins, qnth (i_pp dins))) by (rewrite map_length; exact H).
  exact (map_nth (fun ins => (uopsQ ports ins, qnth (i_pp ins))) k dins i).
Qed.

Lemma kload_cons x ks p : kload (x :: ks) p == snd x p + kload ks p.
Proof. unfold kload. cbn [length]. rewrite sumn_shift. reflexivity. Qed.

Lemma column_is_kload ports p : forall k, lsum (map (fun r => nth p r 0) (map i_pp k)) == kload (kview ports k) p.
Proof.
  induction k as [|a k IH]; [reflexivity|].
  cbn [map lsum kview]. fold (kview ports k). rewrite kload_cons, IH. reflexivity.
Qed.

(* every reported port sum is within half a hundredth below the exact column sum, and the bottleneck is their max *)
Lemma bottleneck_bounds_loads ports (k : list (instr (T:=Q))) B :
  (forall ins, In ins k -> length (i_pp ins) = length ports) ->
  bottleneck QNum k = Ok B ->
  forall p, (p < length ports)%nat -> kload (kview ports (filter (counted QNum) k)) p <= B + (1 # 200).
Proof.
  intros LEN HB p Hp. unfold bottleneck in HB.
  remember (filter (counted QNum) k) as kc eqn:EK.
  assert (LC : forall ins, In ins kc -> length (i_pp ins) = length ports).
  { intros ins Hi. apply LEN. rewrite EK in Hi. apply filter_In in Hi. tauto. }
  assert (IN : In (Qround2 (nsum QNum (map (fun r => nth p r 0) (map i_pp kc)))) (tp_sum QNum k)).
  { unfold tp_sum, columns. rewrite <- EK.
    apply (in_map (fun col => nround2 QNum (nsum QNum col))
             (map (fun j => map (fun r => nth j r (zero QNum)) (map i_pp kc)) (seq 0 (min_len (map i_pp kc))))
             (map (fun r => nth p r 0) (map i_pp kc))).
    apply (in_map (fun j => map (fun r => nth j r (zero QNum)) (map i_pp kc)) _ p).
    apply in_seq. destruct kc as [|a kc'].
    - exfalso. unfold tp_sum, columns in HB. rewrite <- EK in HB. cbn in HB. discriminate.
    - cbn [map]. rewrite (min_len_const (length ports)).
      + lia.
      + apply LC. left. reflexivity.
      + intros x Hx. apply in_map_iff in Hx. destruct Hx as (y & E & Hy). subst x. apply LC. right. exact Hy. }
  pose proof (list_max_spec _ _ HB _ IN) as LE.
  pose proof (Qround2_lower (nsum QNum (map (fun r => nth p r 0) (map i_pp kc)))) as RL.
  pose proof (nsum_lsum (map (fun r => nth p r 0) (map i_pp kc))) as E1.
  pose proof (column_is_kload ports p kc) as E2.
  set (X := nsum QNum _) in *. set (R := Qround2 X) in *. set (Y := lsum _) in *. clearbody R X Y. lra.
Qed.

Definition knonconf (S : nat -> bool) (ks : list kinstr) : Q :=
  sumn (length ks) (fun i => nonconfined S (fst (kget ks i))).

Lemma sumn_scale n c f : sumn n (fun i => c * f i) == c * sumn n f.
Proof. induction n as [|n IH]; simpl; [ring|]. rewrite IH. ring. Qed.

Lemma kslack_knonconf P eps S ks : kslack P eps S ks == eps * card P S * knonconf S ks.
Proof. unfold kslack, knonconf. apply sumn_scale. Qed.

(* weak duality (Proofs/Optimum.v) applied to the kernel AFTER one pass: ks = the counted instructions of k' with
   their own micro-ops and balanced rows *)
Theorem pass_bottleneck_ge_optimum ports (k k' : list (instr (T:=Q))) e B S :
  all_start_ok ports k -> balance QNum ports k = Ok (k', e) -> bottleneck QNum k' = Ok B ->
  kconfined S (kview ports (filter (counted QNum) k'))
  - kslack (length ports) (1 # 100) S (kview ports (filter (counted QNum) k'))
  <= card (length ports) S * (B + (1 # 200)).
Proof.
  intros ST H HB. destruct (balance_pass_feasible ports k k' e ST H) as (L & J).
  assert (DONE : forall ins, In ins k' -> done_ok ports ins).
  { intros ins Hi. apply (In_nth _ _ dins) in Hi. destruct Hi as (j & Hj & E). subst ins.
    rewrite L in Hj. apply (J j Hj). }
  apply opt_is_lower_bound.
  - lra.
  - intros i Hi. unfold kview in Hi. rewrite map_length in Hi. rewrite (kget_kview ports _ i Hi). cbn [fst snd].
    apply DONE. apply (proj1 (filter_In _ _ _) (nth_In _ dins Hi)).
  - apply bottleneck_bounds_loads; [|exact HB]. intros ins Hi. apply (DONE ins Hi).
Qed.

(* the pass keeps throughputs and micro-ops, so the confined cycles / non-confined counts of the result are those
   of the INPUT kernel *)
Definition tpu (ins : instr (T:=Q)) := (i_tp ins, i_uops ins).

Lemma kconfined_cons S x ks : kconfined S (x :: ks) == confined_cycles S (fst x) + kconfined S ks.
Proof. unfold kconfined. cbn [length]. rewrite sumn_shift. reflexivity. Qed.

Lemma knonconf_cons S x ks : knonconf S (x :: ks) == nonconfined S (fst x) + knonconf S ks.
Proof. unfold knonconf. cbn [length]. rewrite sumn_shift. reflexivity. Qed.

Lemma same_shape_same_optimum ports S : forall (k k' : list (instr (T:=Q))),
  map tpu k' = map tpu k ->
  kconfined S (kview ports (filter (counted QNum) k')) == kconfined S (kview ports (filter (counted QNum) k)) /\
  knonconf S (kview ports (filter (counted QNum) k')) == knonconf S (kview ports (filter (counted QNum) k)).
Proof.
  induction k as [|a k IH]; intros [|a' k'] E; try discriminate; [split; reflexivity|].
  cbn [map] in E. assert (E0 : tpu a' = tpu a) by congruence.
  assert (E2 : map tpu k' = map tpu k) by congruence. unfold tpu in E0.
  assert (Etp : i_tp a' = i_tp a) by congruence. assert (Euo : i_uops a' = i_uops a) by congruence.
  assert (EC : counted QNum a' = counted QNum a) by (unfold counted; rewrite Etp; reflexivity).
  destruct (IH k' E2) as (I1 & I2). cbn [filter]. rewrite EC.
  destruct (counted QNum a); [|split; assumption].
  cbn [kview map]. fold (kview ports (filter (counted QNum) k')). fold (kview ports (filter (counted QNum) k)).
  rewrite !kconfined_cons, !knonconf_cons. cbn [fst]. unfold uopsQ. rewrite Euo, I1, I2. split; reflexivity.
Qed.

Lemma pass_keeps_shape ports (k k' : list (instr (T:=Q))) e :
  all_start_ok ports k -> balance QNum ports k = Ok (k', e) -> map tpu k' = map tpu k.
Proof.
  intros ST H. destruct (balance_pass_feasible ports k k' e ST H) as (L & J).
  apply (nth_ext _ _ (tpu dins) (tpu dins)); [rewrite !map_length; exact L|].
  intros j Hj. rewrite map_length, L in Hj. rewrite !map_nth. unfold tpu.
  destruct (J j Hj) as (J1 & J2 & _). rewrite J1, J2. reflexivity.
Qed.

(* C02, one pass: for EVERY non-empty port set S, the reported bottleneck B is at least the cycles of the INPUT
   kernel's (counted) micro-ops confined to S divided by |S| -- the exact optimum is the max of that over S --
   minus 1/100 per counted micro-op not confined to S, minus half a hundredth for the rounding of the port sums *)
Theorem pass_bottleneck_near_optimum ports (k k' : list (instr (T:=Q))) e B S :
  all_start_ok ports k -> balance QNum ports k = Ok (k', e) -> bottleneck QNum k' = Ok B ->
  0 < card (length ports) S ->
  kconfined S (kview ports (filter (counted QNum) k)) / card (length ports) S
  - (1 # 100) * knonconf S (kview ports (filter (counted QNum) k)) - (1 # 200) <= B.
Proof.
  intros ST H HB HC.
  pose proof (pass_bottleneck_ge_optimum ports k k' e B S ST H HB) as G.
  destruct (same_shape_same_optimum ports S k k' (pass_keeps_shape ports k k' e ST H)) as (E1 & E2).
  rewrite kslack_knonconf, E1, E2 in G.
  set (C := kconfined S _) in *. set (N := knonconf S _) in *. set (c := card _ S) in *. clearbody C N c.
  assert (G' : C / c <= B + (1 # 200) + (1 # 100) * N).
  { apply Qle_shift_div_r; [exact HC|]. lra. }
  lra.
Qed.

Example pass_bottleneck_nonvacuous :
  exists k', balance QNum exm_ports exm_kernel = Ok (k', 0%nat) /\ bottleneck QNum k' = Ok (39 # 50) /\
             0 < card (length exm_ports) (fun p => Nat.eqb p 0).
Proof. eexists. split; [vm_compute; reflexivity|]. split; vm_compute; reflexivity. Qed.
