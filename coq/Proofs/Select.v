(* C11 -- proofs about the selection model (Model/Select.v). *)
From Coq Require Import String Ascii List Bool Arith ZArith Lia Sorted.
From OV Require Import Model.Select.
Import ListNotations.
Local Open Scope list_scope.

Definition head_nodir (ls : list line) : bool :=
  match ls with [] => true | l :: _ => match l_directive l with None => true | Some _ => false end end.

Lemma head_nodir_not_byte ls : head_nodir ls = true -> first_is_byte ls = false.
Proof.
  destruct ls as [|l r]; simpl; auto. unfold is_byte. destruct (l_directive l); [discriminate|reflexivity].
Qed.

(* ------------------------------------------------------------------ collect *)
Lemma collect_nobyte g need t acc cnt :
  first_is_byte t = false -> collect g need t acc cnt = Ok (acc, cnt).
Proof.
  destruct t as [|l r]; simpl; auto. destruct (is_byte l); [discriminate|reflexivity].
Qed.

Lemma collect_stop g need r next acc cnt :
  first_is_byte next = false -> collect g need (r ++ next) acc cnt = collect g need r acc cnt.
Proof.
  intros H. revert acc cnt. induction r as [|a r IH]; intros acc cnt.
  - simpl. rewrite collect_nobyte by assumption. reflexivity.
  - simpl. destruct (is_byte a); auto. destruct (orb _ _); auto.
    destruct (ints (d_params d)); simpl; auto.
Qed.

Lemma collect_block need bs : forall zs t acc cnt,
  block_bytes bs = Some zs ->
  collect true need (bs ++ t) acc cnt = collect true need t (acc ++ zs) (cnt + length bs).
Proof.
  induction bs as [|l r IH]; intros zs t acc cnt H; simpl in *.
  - inversion H; subst. rewrite app_nil_r, Nat.add_0_r. reflexivity.
  - destruct (is_byte l) as [d|]; [|discriminate].
    destruct (ints (d_params d)) as [z1|]; [|discriminate].
    destruct (block_bytes r) as [rest|] eqn:Hr; [|discriminate].
    inversion H; subst. simpl. rewrite (IH rest t (acc ++ z1) (S cnt) eq_refl).
    rewrite app_assoc. f_equal. lia.
Qed.

Lemma collect_min need bs : forall zs t acc cnt,
  block_min need bs (length acc) = true -> block_bytes bs = Some zs ->
  collect false need (bs ++ t) acc cnt = collect false need t (acc ++ zs) (cnt + length bs).
Proof.
  induction bs as [|l r IH]; intros zs t acc cnt Hm H; simpl in *.
  - inversion H; subst. rewrite app_nil_r, Nat.add_0_r. reflexivity.
  - apply andb_true_iff in Hm. destruct Hm as [Hlt Hm].
    destruct (is_byte l) as [d|]; [|discriminate].
    destruct (ints (d_params d)) as [z1|]; [|discriminate].
    destruct (block_bytes r) as [rest|] eqn:Hr; [|discriminate].
    inversion H; subst. rewrite Hlt. simpl.
    rewrite (IH rest t (acc ++ z1) (S cnt)); [| rewrite app_length; exact Hm | reflexivity].
    rewrite app_assoc. f_equal. lia.
Qed.

Lemma collect_enough need t acc cnt :
  need <= length acc -> collect false need t acc cnt = Ok (acc, cnt).
Proof.
  intros H. destruct t as [|l r]; simpl; auto. destruct (is_byte l); auto.
  replace (Nat.ltb (length acc) need) with false; [reflexivity|]. symmetry. apply Nat.ltb_ge. exact H.
Qed.

(* the .byte lines consumed at the head of a list, without accumulators *)
Fixpoint leadg (g : bool) (need have : nat) (t : list line) : result (list Z * nat) :=
  match t with
  | [] => Ok ([], 0)
  | l :: r => match is_byte l with
              | Some d =>
                if orb g (Nat.ltb have need)
                then bind (ints (d_params d)) (fun zs =>
                     bind (leadg g need (have + length zs) r) (fun p => Ok (zs ++ fst p, S (snd p))))
                else Ok ([], 0)
              | None => Ok ([], 0)
              end
  end.

Lemma collect_lead g need t : forall acc cnt,
  collect g need t acc cnt = bind (leadg g need (length acc) t) (fun p => Ok (acc ++ fst p, cnt + snd p)).
Proof.
  induction t as [|l r IH]; intros acc cnt; simpl.
  - rewrite app_nil_r, Nat.add_0_r. reflexivity.
  - destruct (is_byte l) as [d|]; simpl.
    + destruct (orb g (Nat.ltb (length acc) need)); simpl.
      * destruct (ints (d_params d)) as [z1|]; simpl; auto. rewrite IH, app_length.
        destruct (leadg g need (length acc + length z1) r) as [[x n]|]; simpl; auto.
        rewrite app_assoc. f_equal. f_equal. lia.
      * rewrite app_nil_r, Nat.add_0_r. reflexivity.
    + rewrite app_nil_r, Nat.add_0_r. reflexivity.
Qed.

Lemma leadg_greedy_indep t : forall n h n' h', leadg true n h t = leadg true n' h' t.
Proof.
  induction t as [|l r IH]; intros; simpl; auto.
  destruct (is_byte l); auto. destruct (ints (d_params d)); simpl; auto.
  rewrite (IH n (h + length a) n' (h' + length a)). reflexivity.
Qed.

Definition lead := leadg true 0 0.

Lemma collect_greedy need t acc cnt :
  collect true need t acc cnt = bind (lead t) (fun p => Ok (acc ++ fst p, cnt + snd p)).
Proof. rewrite collect_lead. unfold lead. rewrite (leadg_greedy_indep t need (length acc) 0 0). reflexivity. Qed.

Lemma leading_ok_lead t : leading_bytes_ok t = true -> exists x n, lead t = Ok (x, n).
Proof.
  unfold leading_bytes_ok. rewrite collect_greedy. destruct (lead t) as [[x n]|]; simpl; [eauto|discriminate].
Qed.

Lemma list_Z_eqb_eq a b : list_Z_eqb a b = true -> a = b.
Proof. unfold list_Z_eqb. destruct (list_eq_dec Z.eq_dec a b); [auto|discriminate]. Qed.
Lemma list_Z_eqb_refl a : list_Z_eqb a a = true.
Proof. unfold list_Z_eqb. destruct (list_eq_dec Z.eq_dec a a); [auto|contradiction]. Qed.

Lemma firstn_app_enough {A} k (a x : list A) : length (firstn k a) = k -> firstn k (a ++ x) = firstn k a.
Proof.
  intros H. rewrite firstn_app. rewrite firstn_length in H.
  replace (k - length a) with 0 by lia. simpl. apply app_nil_r.
Qed.

Lemma block_parts i bs : byte_blockb i bs = true ->
  bs <> [] /\ forallb byte_lineb bs = true /\
  exists zs, block_bytes bs = Some zs /\ firstn (length (nop_bytes i)) zs = nop_bytes i.
Proof.
  unfold byte_blockb. intros H. apply andb_true_iff in H. destruct H as [H1 H]. apply andb_true_iff in H. destruct H as [H2 H3].
  split; [destruct bs; [discriminate|congruence]|]. split; [assumption|].
  destruct (block_bytes bs) as [zs|]; [|discriminate]. exists zs. split; auto. apply list_Z_eqb_eq. exact H3.
Qed.

(* match_bytes on a marker block *)
Lemma match_bytes_greedy i bs t :
  byte_blockb i bs = true -> leading_bytes_ok t = true ->
  exists n, match_bytes true (bs ++ t) (nop_bytes i) = Ok (Some n) /\ (first_is_byte t = false -> n = length bs).
Proof.
  intros Hb Ht. destruct (block_parts _ _ Hb) as (_ & _ & zs & Hz & Hf).
  destruct (leading_ok_lead _ Ht) as (x & n & Hl).
  unfold match_bytes. rewrite (collect_block _ _ zs) by assumption. rewrite collect_greedy, Hl. simpl.
  rewrite firstn_app_enough by (rewrite Hf; reflexivity). rewrite Hf, list_Z_eqb_refl.
  eexists. split; [reflexivity|]. intros Hn.
  unfold lead in Hl. destruct t as [|l r]; simpl in *.
  - inversion Hl; subst. simpl. lia.
  - destruct (is_byte l); [discriminate|]. inversion Hl; subst. simpl. lia.
Qed.

Lemma match_bytes_min i bs t :
  byte_blockb i bs = true -> block_min (length (nop_bytes i)) bs 0 = true ->
  match_bytes false (bs ++ t) (nop_bytes i) = Ok (Some (length bs)).
Proof.
  intros Hb Hm. destruct (block_parts _ _ Hb) as (_ & _ & zs & Hz & Hf).
  unfold match_bytes. rewrite (collect_min _ _ zs) by assumption. simpl.
  rewrite collect_enough.
  - simpl. rewrite Hf, list_Z_eqb_refl. reflexivity.
  - rewrite <- Hf at 1. rewrite firstn_length. lia.
Qed.

(* ------------------------------------------------------------------ step *)
Lemma step_ctx g i l r next :
  head_nodir next = true -> step g i l (r ++ next) = step g i l r.
Proof.
  intros H. unfold step. destruct (l_mnemonic l) as [m|]; [|reflexivity].
  destruct r as [|x r'].
  - simpl. destruct next as [|n nx]; [reflexivity|]. simpl in H.
    destruct (l_directive n); [discriminate|]. rewrite andb_false_r. reflexivity.
  - rewrite <- app_comm_cons. unfold match_bytes.
    rewrite app_comm_cons. rewrite collect_stop by (apply head_nodir_not_byte; exact H). reflexivity.
Qed.

Lemma no_markerb_ctx g i seg next :
  head_nodir next = true -> no_markerb g i seg next = no_markerb g i seg [].
Proof.
  intros H. induction seg as [|l r IH]; simpl; auto.
  rewrite step_ctx by assumption. rewrite (step_ctx g i l r []) by reflexivity. rewrite IH. reflexivity.
Qed.

Lemma opnd_eqb_eq a b : opnd_eqb a b = true -> a = b.
Proof.
  destruct a, b; simpl; intros H; try discriminate; auto.
  - apply Z.eqb_eq in H. congruence.
  - apply String.eqb_eq in H. congruence.
Qed.

Lemma byte_line_quiet g i l rest : byte_lineb l = true -> step g i l rest = SNone.
Proof.
  unfold byte_lineb, step, not_marker_comment. destruct (l_mnemonic l); [discriminate|].
  destruct (is_byte l); [|discriminate]. destruct (l_comment l) as [c|]; auto.
  intros H. apply negb_true_iff in H. apply orb_false_iff in H. destruct H as [H1 H2]. rewrite H1, H2. reflexivity.
Qed.

Lemma byte_lines_quiet g i bs next : forallb byte_lineb bs = true -> no_markerb g i bs next = true.
Proof.
  induction bs as [|l r IH]; simpl; auto. intros H. apply andb_true_iff in H. destruct H as [H1 H2].
  rewrite byte_line_quiet by assumption. auto.
Qed.

Lemma noise_quiet g i l rest : is_noise l = true -> step g i l rest = SNone.
Proof.
  unfold is_noise, step. destruct (l_mnemonic l); [discriminate|]. intros H. apply andb_true_iff in H. destruct H as [H _].
  destruct (l_comment l) as [c|]; auto.
  apply negb_true_iff in H. apply orb_false_iff in H. destruct H as [H1 H2]. rewrite H1, H2. reflexivity.
Qed.

Lemma mov_line_parts i v l : mov_lineb i v l = true ->
  exists m, l_mnemonic l = Some m /\ l_directive l = None /\ in_strs m (mov_instr i) = true /\
            nth_error (l_operands l) (if reverse i then 1 else 0) = Some (OImm v) /\
            nth_error (l_operands l) (if reverse i then 0 else 1) = Some (OReg (mov_reg i)).
Proof.
  unfold mov_lineb. destruct (l_mnemonic l) as [m|]; [|discriminate]. destruct (l_directive l); [discriminate|].
  intros H. apply andb_true_iff in H. destruct H as [H1 H2]. exists m.
  destruct (nth_error (l_operands l) (if reverse i then 1 else 0)) as [s|]; [|discriminate].
  destruct (nth_error (l_operands l) (if reverse i then 0 else 1)) as [d|]; [|discriminate].
  apply andb_true_iff in H2. destruct H2 as [H2 H3]. apply opnd_eqb_eq in H2, H3. subst. auto.
Qed.

Lemma first_dir_of_block i bs t : byte_blockb i bs = true ->
  exists x r, bs ++ t = x :: r /\ exists d, l_directive x = Some d.
Proof.
  intros H. destruct (block_parts _ _ H) as (Hne & Hall & _). destruct bs as [|x r]; [congruence|].
  exists x, (r ++ t). split; [reflexivity|]. simpl in Hall. apply andb_true_iff in Hall. destruct Hall as [Hx _].
  unfold byte_lineb, is_byte in Hx. destruct (l_mnemonic x); [discriminate|].
  destruct (l_directive x) as [d|]; [eauto|discriminate].
Qed.

Lemma mov_reg_refl i : String.eqb (mov_reg i) (mov_reg i) = true.
Proof. apply String.eqb_refl. Qed.

Lemma step_mov_start g i l bs t :
  mov_lineb i val_start l = true -> byte_blockb i bs = true ->
  step g i l (bs ++ t) = match match_bytes g (bs ++ t) (nop_bytes i) with
                         | Ok (Some n) => SStart n | Ok None => SNone | Err e => SCrash e end.
Proof.
  intros Hm Hb. destruct (mov_line_parts _ _ _ Hm) as (m & H1 & H2 & H3 & H4 & H5).
  destruct (first_dir_of_block i bs t Hb) as (x & r & Hx & d & Hd).
  unfold step. rewrite H1, Hx, H3, Hd. simpl andb. cbv iota. rewrite H4, H5.
  unfold is_marker_ops. rewrite Z.eqb_refl, mov_reg_refl. simpl. reflexivity.
Qed.

Lemma step_mov_end g i l bs t :
  mov_lineb i val_end l = true -> byte_blockb i bs = true ->
  step g i l (bs ++ t) = match match_bytes g (bs ++ t) (nop_bytes i) with
                         | Ok (Some _) => SEnd | Ok None => SNone | Err e => SCrash e end.
Proof.
  intros Hm Hb. destruct (mov_line_parts _ _ _ Hm) as (m & H1 & H2 & H3 & H4 & H5).
  destruct (first_dir_of_block i bs t Hb) as (x & r & Hx & d & Hd).
  unfold step. rewrite H1, Hx, H3, Hd. simpl andb. cbv iota. rewrite H4, H5.
  unfold is_marker_ops. rewrite Z.eqb_refl, mov_reg_refl. simpl. reflexivity.
Qed.

Lemma step_comment g i c l rest :
  comment_lineb c l = true -> l_directive l = None /\
  step g i l rest = (if String.eqb c_start c then SStart 0 else if String.eqb c_end c then SEnd else SNone).
Proof.
  unfold comment_lineb, step. destruct (l_mnemonic l); [discriminate|]. destruct (l_comment l) as [c'|]; [|discriminate].
  destruct (l_directive l); [discriminate|]. intros H. apply String.eqb_eq in H. subst. auto.
Qed.

(* ------------------------------------------------------------------ scan *)
Lemma scan_skip g i seg : forall next n s e,
  no_markerb g i seg next = true -> both s e = false ->
  scan g i n (seg ++ next) s e = scan g i (n + length seg) next s e.
Proof.
  induction seg as [|l r IH]; intros next n s e H Hb; simpl in *.
  - rewrite Nat.add_0_r. reflexivity.
  - destruct (step g i l (r ++ next)); try discriminate. rewrite Hb.
    rewrite IH by assumption. f_equal. lia.
Qed.

Definition start_ok g i (sm after : list line) : Prop :=
  exists l bs, sm = l :: bs /\ l_directive l = None /\
               step g i l (bs ++ after) = SStart (length bs) /\ no_markerb g i bs after = true.
Definition end_ok g i (em after : list line) : Prop :=
  exists l bs, em = l :: bs /\ l_directive l = None /\ step g i l (bs ++ after) = SEnd.

Lemma slice_mid {A} (a b c : list A) : slice (a ++ b ++ c) (length a) (length a + length b) = b.
Proof.
  unfold slice. rewrite skipn_app, skipn_all, Nat.sub_diag. simpl.
  replace (length a + length b - length a) with (length b) by lia.
  rewrite firstn_app, firstn_all, Nat.sub_diag. simpl. apply app_nil_r.
Qed.

Lemma marked_generic g i pro sm body em epi :
  no_marker g i pro -> no_marker g i body ->
  start_ok g i sm (body ++ em ++ epi) -> end_ok g i em epi ->
  reduce_to_section g i (pro ++ sm ++ body ++ em ++ epi) = Ok body.
Proof.
  unfold no_marker. intros Hp Hbd (l & bs & -> & Hld & Hstep & Hbs) (l' & bs' & -> & Hld' & Hstep').
  unfold reduce_to_section, find_marked_section.
  rewrite scan_skip; [| rewrite no_markerb_ctx; [exact Hp | simpl; rewrite Hld; reflexivity] | reflexivity].
  simpl app in *. simpl plus. simpl scan. rewrite Hstep. simpl both. cbv iota.
  rewrite scan_skip; [| exact Hbs | reflexivity].
  rewrite scan_skip; [| rewrite no_markerb_ctx; [exact Hbd | simpl; rewrite Hld'; reflexivity] | reflexivity].
  simpl scan. rewrite Hstep'. simpl.
  replace (pro ++ l :: bs ++ body ++ l' :: bs' ++ epi) with ((pro ++ l :: bs) ++ body ++ (l' :: bs' ++ epi))
    by (rewrite <- app_assoc; reflexivity).
  replace (length pro + 1 + length bs) with (length (pro ++ l :: bs)) by (rewrite app_length; simpl; lia).
  replace (S (length pro + length bs + length body)) with (length (pro ++ l :: bs) + length body)
    by (rewrite app_length; simpl; lia).
  rewrite slice_mid. reflexivity.
Qed.

(* a marker begins with a line that carries no directive *)
Lemma marker_head i v c m t : marker i v c m -> head_nodir (m ++ t) = true /\ first_is_byte (m ++ t) = false.
Proof.
  intros H. assert (head_nodir (m ++ t) = true).
  { destruct H as [l Hl | l bs Hl Hb]; simpl.
    - destruct (step_comment true i c l [] Hl) as [Hd _]. rewrite Hd. reflexivity.
    - destruct (mov_line_parts _ _ _ Hl) as (_ & _ & Hd & _). rewrite Hd. reflexivity. }
  split; [assumption | apply head_nodir_not_byte; assumption].
Qed.

Lemma marker_min_marker i v c m : marker_min i v c m -> marker i v c m.
Proof. intros [l H | l bs H1 H2 H3]; [apply M_comment | apply M_bytes]; assumption. Qed.

Lemma leading_ok_nobyte t : first_is_byte t = false -> leading_bytes_ok t = true.
Proof. intros H. unfold leading_bytes_ok. rewrite collect_nobyte by assumption. reflexivity. Qed.

(* the shipped (greedy) loop *)
Lemma start_ok_greedy i sm after :
  marker i val_start c_start sm -> (1 < length sm -> first_is_byte after = false) ->
  start_ok true i sm after.
Proof.
  intros [l Hl | l bs Hl Hb] Hafter.
  - destruct (step_comment true i c_start l ([] ++ after) Hl) as [Hd Hs]. exists l, []. repeat split; auto.
  - destruct (block_parts _ _ Hb) as (Hne & Hall & _).
    assert (Hnb : first_is_byte after = false).
    { apply Hafter. destruct bs; [congruence | simpl; lia]. }
    destruct (mov_line_parts _ _ _ Hl) as (_ & _ & Hd & _).
    exists l, bs. repeat split; auto.
    + rewrite step_mov_start by assumption.
      destruct (match_bytes_greedy i bs after Hb (leading_ok_nobyte _ Hnb)) as (n & Hn & Hlen).
      rewrite Hn, Hlen by assumption. reflexivity.
    + apply byte_lines_quiet. assumption.
Qed.

Lemma end_ok_greedy i em after :
  marker i val_end c_end em -> (1 < length em -> leading_bytes_ok after = true) ->
  end_ok true i em after.
Proof.
  intros [l Hl | l bs Hl Hb] Hafter.
  - destruct (step_comment true i c_end l ([] ++ after) Hl) as [Hd Hs]. exists l, []. repeat split; auto.
  - destruct (block_parts _ _ Hb) as (Hne & Hall & _).
    assert (Hok : leading_bytes_ok after = true).
    { apply Hafter. destruct bs; [congruence | simpl; lia]. }
    destruct (mov_line_parts _ _ _ Hl) as (_ & _ & Hd & _).
    exists l, bs. repeat split; auto.
    rewrite step_mov_end by assumption.
    destruct (match_bytes_greedy i bs after Hb Hok) as (n & Hn & _). rewrite Hn. reflexivity.
Qed.

(* the repaired loop *)
Lemma start_ok_fixed i sm after : marker_min i val_start c_start sm -> start_ok false i sm after.
Proof.
  intros [l Hl | l bs Hl Hb Hm].
  - destruct (step_comment false i c_start l ([] ++ after) Hl) as [Hd Hs]. exists l, []. repeat split; auto.
  - destruct (block_parts _ _ Hb) as (Hne & Hall & _).
    destruct (mov_line_parts _ _ _ Hl) as (_ & _ & Hd & _).
    exists l, bs. repeat split; auto.
    + rewrite step_mov_start by assumption. rewrite match_bytes_min by assumption. reflexivity.
    + apply byte_lines_quiet. assumption.
Qed.

Lemma end_ok_fixed i em after : marker_min i val_end c_end em -> end_ok false i em after.
Proof.
  intros [l Hl | l bs Hl Hb Hm].
  - destruct (step_comment false i c_end l ([] ++ after) Hl) as [Hd Hs]. exists l, []. repeat split; auto.
  - destruct (mov_line_parts _ _ _ Hl) as (_ & _ & Hd & _).
    exists l, bs. repeat split; auto.
    rewrite step_mov_end by assumption. rewrite match_bytes_min by assumption. reflexivity.
Qed.

Lemma marked_exact_fixed_lemma i pro sm body em epi :
  no_marker false i pro -> no_marker false i body ->
  marker_min i val_start c_start sm -> marker_min i val_end c_end em ->
  reduce_fixed i (pro ++ sm ++ body ++ em ++ epi) = Ok body.
Proof.
  intros. apply marked_generic; auto using start_ok_fixed, end_ok_fixed.
Qed.

Lemma marked_exact_partial_lemma i pro sm body em epi :
  no_marker true i pro -> no_marker true i body ->
  marker i val_start c_start sm -> marker i val_end c_end em ->
  (1 < length sm -> first_is_byte body = false) ->
  (1 < length em -> leading_bytes_ok epi = true) ->
  reduce i (pro ++ sm ++ body ++ em ++ epi) = Ok body.
Proof.
  intros Hp Hb Hs He Hbody Hepi. apply marked_generic; auto.
  - apply start_ok_greedy; auto. intros Hl. specialize (Hbody Hl).
    destruct body as [|x r]; [apply (marker_head _ _ _ _ epi He) | exact Hbody].
  - apply end_ok_greedy; auto.
Qed.

(* ------------------------------------------------------------------ no marker at all / one marker *)
Lemma slice_whole {A} (l : list A) : slice l 0 (length l) = l.
Proof. unfold slice. simpl. rewrite Nat.sub_0_r. apply firstn_all. Qed.

Lemma unmarked_whole_lemma g i f : no_marker g i f -> reduce_to_section g i f = Ok f.
Proof.
  unfold no_marker. intros H. unfold reduce_to_section, find_marked_section.
  rewrite <- (app_nil_r f) at 1. rewrite scan_skip by auto. simpl. rewrite slice_whole. reflexivity.
Qed.

Lemma slice_from {A} (a b : list A) : slice (a ++ b) (length a) (length (a ++ b)) = b.
Proof.
  unfold slice. rewrite skipn_app, skipn_all, Nat.sub_diag. simpl. rewrite app_length.
  replace (length a + length b - length a) with (length b) by lia. apply firstn_all.
Qed.

Lemma start_only_generic g i pro sm rest :
  no_marker g i pro -> no_marker g i rest -> start_ok g i sm rest ->
  reduce_to_section g i (pro ++ sm ++ rest) = Ok rest.
Proof.
  unfold no_marker. intros Hp Hr (l & bs & -> & Hld & Hstep & Hbs).
  unfold reduce_to_section, find_marked_section.
  rewrite scan_skip; [| rewrite no_markerb_ctx; [exact Hp | simpl; rewrite Hld; reflexivity] | reflexivity].
  simpl plus. rewrite <- app_comm_cons. simpl scan. rewrite Hstep. simpl both. cbv iota.
  rewrite scan_skip; [| exact Hbs | reflexivity].
  rewrite <- (app_nil_r rest) at 1. rewrite scan_skip; [| exact Hr | reflexivity]. simpl.
  replace (pro ++ l :: bs ++ rest) with ((pro ++ l :: bs) ++ rest) by (rewrite <- app_assoc; reflexivity).
  replace (length pro + 1 + length bs) with (length (pro ++ l :: bs)) by (rewrite app_length; simpl; lia).
  rewrite slice_from. reflexivity.
Qed.

Lemma end_only_generic g i pro em epi :
  no_marker g i pro -> end_ok g i em epi -> no_markerb g i (tl em) epi = true -> no_marker g i epi ->
  reduce_to_section g i (pro ++ em ++ epi) = Ok pro.
Proof.
  unfold no_marker. intros Hp (l & bs & -> & Hld & Hstep) Hbs He.
  unfold reduce_to_section, find_marked_section.
  rewrite scan_skip; [| rewrite no_markerb_ctx; [exact Hp | simpl; rewrite Hld; reflexivity] | reflexivity].
  simpl app in *. simpl plus. simpl scan. rewrite Hstep. simpl both. cbv iota.
  rewrite scan_skip; [| exact Hbs | reflexivity].
  rewrite <- (app_nil_r epi) at 1. rewrite scan_skip; [| exact He | reflexivity]. simpl.
  unfold slice. simpl. rewrite Nat.sub_0_r, firstn_app, firstn_all, Nat.sub_diag. simpl. rewrite app_nil_r. reflexivity.
Qed.

(* ------------------------------------------------------------------ noise inside a segment *)
Lemma leadg_noisy g need r r' : noisy r r' -> forall have,
  match leadg g need have r with
  | Ok (x, _) => exists x' n' y, leadg g need have r' = Ok (x', n') /\ x = x' ++ y
  | Err _ => True
  end.
Proof.
  induction 1 as [|l b b' Hn IH|n b b' Hnoise Hn IH]; intros have.
  - simpl. exists [], 0, []. auto.
  - simpl. destruct (is_byte l) as [d|].
    + destruct (orb g (Nat.ltb have need)).
      * destruct (ints (d_params d)) as [z1|]; simpl; auto.
        specialize (IH (have + length z1)).
        destruct (leadg g need (have + length z1) b) as [[x k]|]; simpl; auto.
        destruct IH as (x' & n' & y & -> & ->). simpl. exists (z1 ++ x'), (S n'), y. rewrite app_assoc. auto.
      * exists [], 0, []. auto.
    + exists [], 0, []. auto.
  - specialize (IH have). destruct (leadg g need have b) as [[x k]|]; auto.
    unfold is_noise in Hnoise. destruct (l_mnemonic n); [discriminate|]. apply andb_true_iff in Hnoise.
    destruct Hnoise as [_ Hnb]. simpl. destruct (is_byte n); [discriminate|].
    exists [], 0, x. auto.
Qed.

Lemma match_bytes_noisy g i r r' : noisy r r' ->
  match_bytes g r (nop_bytes i) = Ok None -> match_bytes g r' (nop_bytes i) = Ok None.
Proof.
  intros Hn. unfold match_bytes. rewrite !collect_lead. change (length (@nil Z)) with 0.
  pose proof (leadg_noisy g (length (nop_bytes i)) _ _ Hn 0) as H.
  destruct (leadg g (length (nop_bytes i)) 0 r) as [[x k]|]; [|discriminate].
  destruct H as (x' & n' & y & -> & ->). simpl.
  destruct (list_Z_eqb (firstn (length (nop_bytes i)) (x' ++ y)) (nop_bytes i)) eqn:E; [discriminate|].
  intros _. destruct (list_Z_eqb (firstn (length (nop_bytes i)) x') (nop_bytes i)) eqn:E'; [|reflexivity].
  apply list_Z_eqb_eq in E'. rewrite firstn_app_enough in E by (rewrite E'; reflexivity).
  rewrite E', list_Z_eqb_refl in E. discriminate.
Qed.

(* every mov/movl line carries (at least) its two operands *)
Definition ops_ok (i : isa) (l : line) : bool :=
  match l_mnemonic l with
  | Some m => if in_strs m (mov_instr i) then Nat.leb 2 (length (l_operands l)) else true
  | None => true
  end.

Definition marker_branch (g : bool) (i : isa) (s d : operand) (rest : list line) : step_result :=
  if is_marker_ops i s d val_start
  then match match_bytes g rest (nop_bytes i) with Ok (Some n) => SStart n | Ok None => SNone | Err e => SCrash e end
  else if is_marker_ops i s d val_end
  then match match_bytes g rest (nop_bytes i) with Ok (Some _) => SEnd | Ok None => SNone | Err e => SCrash e end
  else SNone.

Lemma step_mov_form g i l m s d rest :
  l_mnemonic l = Some m -> in_strs m (mov_instr i) = true ->
  nth_error (l_operands l) (if reverse i then 1 else 0) = Some s ->
  nth_error (l_operands l) (if reverse i then 0 else 1) = Some d ->
  step g i l rest = if head_nodir rest then SNone else marker_branch g i s d rest.
Proof.
  intros H1 H2 H3 H4. unfold step, marker_branch. rewrite H1. destruct rest as [|x t]; [reflexivity|].
  rewrite H2, H3, H4. simpl. destruct (l_directive x); reflexivity.
Qed.

Lemma nop_nonempty i : nop_bytes i <> [].
Proof. destruct i; discriminate. Qed.

Lemma match_bytes_nodir g i r : head_nodir r = true -> match_bytes g r (nop_bytes i) = Ok None.
Proof.
  intros H. unfold match_bytes. rewrite collect_nobyte by (apply head_nodir_not_byte; exact H). simpl.
  destruct i; reflexivity.
Qed.

Lemma two_operands {A} (ops : list A) (b : bool) : 2 <= length ops ->
  exists s d, nth_error ops (if b then 1 else 0) = Some s /\ nth_error ops (if b then 0 else 1) = Some d.
Proof.
  destruct ops as [|x [|y t]]; simpl; try lia. intros _. destruct b; simpl; eauto.
Qed.

Lemma step_noisy g i l r r' :
  ops_ok i l = true -> noisy r r' -> step g i l r = SNone -> step g i l r' = SNone.
Proof.
  intros Hops Hn. destruct (l_mnemonic l) as [m|] eqn:Hmn.
  2:{ unfold step. rewrite Hmn. auto. }
  destruct (in_strs m (mov_instr i)) eqn:Hin.
  2:{ intros _. unfold step. rewrite Hmn, Hin. destruct r'; reflexivity. }
  unfold ops_ok in Hops. rewrite Hmn, Hin in Hops. apply Nat.leb_le in Hops.
  destruct (two_operands (l_operands l) (reverse i) Hops) as (s & d & Hs & Hd).
  rewrite !(step_mov_form g i l m s d) by assumption.
  intros H.
  assert (Hc : (is_marker_ops i s d val_start = false /\ is_marker_ops i s d val_end = false) \/
               match_bytes g r (nop_bytes i) = Ok None).
  { destruct (head_nodir r) eqn:Hh; [right; apply match_bytes_nodir; exact Hh|].
    unfold marker_branch in H. destruct (is_marker_ops i s d val_start).
    - right. destruct (match_bytes g r (nop_bytes i)) as [[k|]|]; try discriminate; reflexivity.
    - destruct (is_marker_ops i s d val_end); [|left; auto].
      right. destruct (match_bytes g r (nop_bytes i)) as [[k|]|]; try discriminate; reflexivity. }
  destruct (head_nodir r'); [reflexivity|]. unfold marker_branch.
  destruct Hc as [[A B]|A]; [rewrite A, B; reflexivity|].
  rewrite (match_bytes_noisy g i r r' Hn A).
  destruct (is_marker_ops i s d val_start), (is_marker_ops i s d val_end); reflexivity.
Qed.

Lemma noisy_app_nil b b' : noisy b b' -> noisy (b ++ []) (b' ++ []).
Proof. rewrite !app_nil_r. auto. Qed.

Lemma no_marker_noisy g i b b' :
  noisy b b' -> forallb (ops_ok i) b = true -> no_marker g i b -> no_marker g i b'.
Proof.
  unfold no_marker. induction 1 as [|l b b' Hn IH|n b b' Hnoise Hn IH]; intros Hops H; simpl in *; auto.
  - apply andb_true_iff in Hops. destruct Hops as [Hl Hops].
    destruct (step g i l (b ++ [])) eqn:E; try discriminate.
    rewrite (step_noisy g i l (b ++ []) (b' ++ []) Hl (noisy_app_nil _ _ Hn) E). auto.
  - rewrite noise_quiet by assumption. auto.
Qed.

Lemma noisy_first_byte b b' : noisy b b' -> first_is_byte b = false -> first_is_byte b' = false.
Proof.
  induction 1 as [|l b b' Hn IH|n b b' Hnoise Hn IH]; simpl; auto.
  intros _. unfold is_noise in Hnoise. destruct (l_mnemonic n); [discriminate|].
  apply andb_true_iff in Hnoise. destruct Hnoise as [_ H]. destruct (is_byte n); [discriminate|reflexivity].
Qed.

Definition has_mnemonic (l : line) : bool := match l_mnemonic l with Some _ => true | None => false end.

Lemma noisy_instructions b b' : noisy b b' -> filter has_mnemonic b' = filter has_mnemonic b.
Proof.
  induction 1 as [|l b b' Hn IH|n b b' Hnoise Hn IH]; simpl; auto.
  - rewrite IH. reflexivity.
  - unfold is_noise in Hnoise. unfold has_mnemonic at 1. destruct (l_mnemonic n); [discriminate|]. exact IH.
Qed.

Lemma noisy_refl b : noisy b b.
Proof. induction b; constructor; auto. Qed.

(* ------------------------------------------------------------------ selection by line number *)
Lemma in_Zs_spec n r : in_Zs n r = true <-> In n r.
Proof.
  unfold in_Zs. rewrite existsb_exists. split.
  - intros (x & Hx & E). apply Z.eqb_eq in E. subst. exact Hx.
  - intros H. exists n. split; auto. apply Z.eqb_refl.
Qed.

Lemma filter_all {A} (f : A -> bool) l : (forall x, In x l -> f x = true) -> filter f l = l.
Proof. induction l; simpl; intros H; auto. rewrite H by auto. f_equal. auto. Qed.
Lemma filter_none {A} (f : A -> bool) l : (forall x, In x l -> f x = false) -> filter f l = [].
Proof. induction l; simpl; intros H; auto. rewrite H by auto. auto. Qed.

Lemma select_exact_lemma r pro body epi :
  (forall l, In l body -> In (Z.of_nat (l_number l)) r) ->
  (forall l, In l (pro ++ epi) -> ~ In (Z.of_nat (l_number l)) r) ->
  select_lines r (pro ++ body ++ epi) = body.
Proof.
  intros Hb Ho. unfold select_lines. rewrite !filter_app.
  rewrite (filter_none _ pro), (filter_all _ body), (filter_none _ epi); [apply app_nil_r | | |].
  - intros x Hx. apply not_true_is_false. rewrite in_Zs_spec. apply Ho. apply in_or_app. auto.
  - intros x Hx. apply in_Zs_spec. auto.
  - intros x Hx. apply not_true_is_false. rewrite in_Zs_spec. apply Ho. apply in_or_app. auto.
Qed.

(* ------------------------------------------------------------------ parse_file numbering *)
Section ParseFile.
  Context {L : Type} (pl : string -> nat -> L) (num : L -> nat).
  Hypothesis num_pl : forall s n, num (pl s n) = n.

  Lemma parse_file_numbers_bounds lines : forall i x,
    In x (parse_file_from pl i lines) -> i < num x <= i + length lines.
  Proof.
    induction lines as [|s r IH]; intros i x H; simpl in *; [contradiction|].
    destruct (is_blank s).
    - apply IH in H. lia.
    - destruct H as [<- | H]; [rewrite num_pl; lia | apply IH in H; lia].
  Qed.

  (* line numbers are strictly increasing (hence pairwise different) *)
  Lemma parse_file_sorted lines : forall i,
    StronglySorted (fun a b => num a < num b) (parse_file_from pl i lines).
  Proof.
    induction lines as [|s r IH]; intros i; simpl; [constructor|].
    destruct (is_blank s); [apply IH|]. constructor; [apply IH|].
    apply Forall_forall. intros x Hx. apply parse_file_numbers_bounds in Hx. rewrite num_pl. lia.
  Qed.

  (* a blank line changes nothing but the numbers of the lines after it *)
  Lemma parse_file_blank a b blank i :
    is_blank blank = true ->
    parse_file_from pl i (a ++ blank :: b) =
    parse_file_from pl i a ++ parse_file_from pl (S (i + length a)) b.
  Proof.
    intros Hb. revert i. induction a as [|s r IH]; intros i; simpl.
    - rewrite Hb, Nat.add_0_r. reflexivity.
    - destruct (is_blank s); rewrite IH; simpl; repeat f_equal; lia.
  Qed.

  Lemma parse_file_app a b i :
    parse_file_from pl i (a ++ b) = parse_file_from pl i a ++ parse_file_from pl (i + length a) b.
  Proof.
    revert i. induction a as [|s r IH]; intros i; simpl.
    - rewrite Nat.add_0_r. reflexivity.
    - destruct (is_blank s); rewrite IH; simpl; repeat f_equal; lia.
  Qed.
End ParseFile.

(* ------------------------------------------------------------------ line numbers are not looked at *)
Definition erase (l : line) : line :=
  {| l_mnemonic := l_mnemonic l; l_operands := l_operands l; l_directive := l_directive l;
     l_comment := l_comment l; l_number := 0 |}.
Definition rmap {A B} (f : A -> B) (r : result A) : result B :=
  match r with Ok a => Ok (f a) | Err e => Err e end.

Lemma collect_erase g need ls : forall acc cnt,
  collect g need (map erase ls) acc cnt = collect g need ls acc cnt.
Proof.
  induction ls as [|l r IH]; intros; simpl; auto.
  change (is_byte (erase l)) with (is_byte l). destruct (is_byte l); auto.
  destruct (orb g _); auto. destruct (ints (d_params d)); simpl; auto.
Qed.

Lemma step_erase g i l r : step g i (erase l) (map erase r) = step g i l r.
Proof.
  unfold step. simpl. destruct (l_mnemonic l); auto. destruct r as [|x t]; auto.
  change (map erase (x :: t)) with (erase x :: map erase t). cbv iota. simpl l_directive.
  unfold match_bytes. change (erase x :: map erase t) with (map erase (x :: t)).
  rewrite collect_erase. reflexivity.
Qed.

Lemma scan_erase g i ls : forall n s e, scan g i n (map erase ls) s e = scan g i n ls s e.
Proof.
  induction ls as [|l r IH]; intros; simpl; auto. rewrite step_erase.
  destruct (step g i l r); auto; rewrite IH; reflexivity.
Qed.

Lemma reduce_erase g i f :
  reduce_to_section g i (map erase f) = rmap (map erase) (reduce_to_section g i f).
Proof.
  unfold reduce_to_section, find_marked_section. rewrite scan_erase.
  destruct (scan g i 0 f None None) as [[s e]|]; simpl; auto.
  unfold slice. rewrite map_length, skipn_map, firstn_map. reflexivity.
Qed.

Lemma renumber_invariant_lemma g i f f' :
  map erase f = map erase f' ->
  rmap (map erase) (reduce_to_section g i f) = rmap (map erase) (reduce_to_section g i f').
Proof. intros H. rewrite <- !reduce_erase, H. reflexivity. Qed.
