(* C13: the decimal printed by fmt_fixed reads back as the exact value rounded half-even at the shown digits. *)
From Coq Require Import ZArith QArith Qabs List Bool String Ascii Lia.
From Coq Require Import PrimFloat SpecFloat FloatOps.
From OV Require Import Model.Num Model.Fmt.
Import ListNotations.
Open Scope Z_scope.

(* ------------------------------------------------------------------ digits *)
Lemma digit_cases : forall d, 0 <= d < 10 ->
  d = 0 \/ d = 1 \/ d = 2 \/ d = 3 \/ d = 4 \/ d = 5 \/ d = 6 \/ d = 7 \/ d = 8 \/ d = 9.
Proof. intros; lia. Qed.

Lemma digit_val_char : forall d, 0 <= d < 10 -> digit_val (digit_char d) = Some d.
Proof.
  intros d H. destruct (digit_cases d H) as [E|[E|[E|[E|[E|[E|[E|[E|[E|E]]]]]]]]]; subst; reflexivity.
Qed.

Lemma digit_char_not_dot : forall d, 0 <= d < 10 -> Ascii.eqb (digit_char d) "."%char = false.
Proof.
  intros d H. destruct (digit_cases d H) as [E|[E|[E|[E|[E|[E|[E|[E|[E|E]]]]]]]]]; subst; reflexivity.
Qed.

Lemma digit_val_not_minus : forall c d, digit_val c = Some d -> Ascii.eqb c "-"%char = false.
Proof.
  intros c d H. destruct (Ascii.eqb c "-"%char) eqn:E; [|reflexivity].
  apply Ascii.eqb_eq in E. subst c. discriminate H.
Qed.

Lemma digits_acc_app : forall k v acc t, (digits_acc k v acc ++ t)%string = digits_acc k v (acc ++ t)%string.
Proof.
  induction k as [|k IH]; intros v acc t; simpl; [reflexivity|]. rewrite IH. reflexivity.
Qed.

Lemma pow10_S : forall k, pow10 (S k) = 10 * pow10 k.
Proof. intros k. unfold pow10. rewrite Nat2Z.inj_succ, Z.pow_succ_r by lia. reflexivity. Qed.

Lemma pow10_pos : forall k, 0 < pow10 k.
Proof. intros k. unfold pow10. apply Z.pow_pos_nonneg; lia. Qed.

Lemma read_go_step : forall c r a dot j d, Ascii.eqb c "."%char = false -> digit_val c = Some d ->
  read_go (String c r) a dot j = read_go r (a * 10 + d) dot (if dot then S j else j).
Proof. intros c r a dot j d H1 H2. simpl. rewrite H1, H2. reflexivity. Qed.

Lemma read_go_dot : forall r a j, read_go (String "."%char r) a false j = read_go r a true j.
Proof. reflexivity. Qed.

(* reading k generated digits *)
Lemma read_go_digits : forall k v rest a dot j, 0 <= v ->
  read_go (digits_acc k v rest) a dot j =
  read_go rest (a * pow10 k + v mod pow10 k) dot (if dot then (j + k)%nat else j).
Proof.
  induction k as [|k IH]; intros v rest a dot j Hv.
  - simpl. unfold pow10. simpl. rewrite Z.mod_1_r, Z.mul_1_r, Z.add_0_r, Nat.add_0_r.
    destruct dot; reflexivity.
  - simpl digits_acc. rewrite IH by (apply Z.div_pos; lia).
    assert (Hd : 0 <= v mod 10 < 10) by (apply Z.mod_pos_bound; lia).
    rewrite (read_go_step _ _ _ _ _ _ (digit_char_not_dot _ Hd) (digit_val_char _ Hd)).
    assert (Hp := pow10_pos k).
    replace ((a * pow10 k + (v / 10) mod pow10 k) * 10 + v mod 10) with (a * pow10 (S k) + v mod pow10 (S k)).
    + destruct dot; [rewrite Nat.add_succ_r|]; reflexivity.
    + rewrite pow10_S. rewrite (Z.rem_mul_r v 10 (pow10 k)) by lia. ring.
Qed.

(* ------------------------------------------------------------------ all-digit strings, strip0 *)
Fixpoint all_digits (s : string) : bool :=
  match s with
  | EmptyString => true
  | String c r => andb (match digit_val c with Some _ => true | None => false end) (all_digits r)
  end.

Lemma all_digits_acc : forall k v acc, 0 <= v -> all_digits acc = true -> all_digits (digits_acc k v acc) = true.
Proof.
  induction k as [|k IH]; intros v acc Hv Ha; simpl; [exact Ha|].
  apply IH; [apply Z.div_pos; lia|]. cbn [all_digits].
  rewrite digit_val_char by (apply Z.mod_pos_bound; lia). exact Ha.
Qed.

Lemma digits_acc_nonempty : forall k v acc, acc <> EmptyString -> digits_acc k v acc <> EmptyString.
Proof. induction k as [|k IH]; intros v acc H; simpl; [exact H|]. apply IH. discriminate. Qed.

Lemma strip0_all_digits : forall s, all_digits s = true -> all_digits (strip0 s) = true.
Proof.
  induction s as [|c r IH]; intros H; [reflexivity|].
  simpl. destruct r as [|c' r']; [exact H|].
  destruct (Ascii.eqb c "0"%char); [|exact H].
  apply IH. simpl in H. apply andb_prop in H. exact (proj2 H).
Qed.

Lemma strip0_nonempty : forall s, s <> EmptyString -> strip0 s <> EmptyString.
Proof.
  induction s as [|c r IH]; intros H; [congruence|].
  simpl. destruct r as [|c' r']; [discriminate|].
  destruct (Ascii.eqb c "0"%char); [apply IH|]; discriminate.
Qed.

Lemma read_go_strip0 : forall s t, read_go (strip0 s ++ t) 0 false 0 = read_go (s ++ t) 0 false 0.
Proof.
  induction s as [|c r IH]; intros t; [reflexivity|].
  simpl strip0. destruct r as [|c' r']; [reflexivity|].
  destruct (Ascii.eqb c "0"%char) eqn:E; [|reflexivity].
  apply Ascii.eqb_eq in E. subst c. rewrite IH. reflexivity.
Qed.

Lemma log2_pow10_bound : forall v, 0 <= v -> v < pow10 (S (Z.to_nat (Z.log2 v))).
Proof.
  intros v Hv. unfold pow10. rewrite Nat2Z.inj_succ, Z2Nat.id by apply Z.log2_nonneg.
  destruct (Z.eq_dec v 0) as [->|Hn]; [reflexivity|].
  assert (H := Z.log2_spec v ltac:(lia)).
  eapply Z.lt_le_trans; [exact (proj2 H)|].
  apply Z.pow_le_mono_l. lia.
Qed.

Lemma int_digits_spec : forall v t, 0 <= v ->
  read_go (int_digits v ++ t) 0 false 0 = read_go t v false 0%nat
  /\ exists c r d, (int_digits v ++ t)%string = String c r /\ digit_val c = Some d.
Proof.
  intros v t Hv. unfold int_digits, digits_fix. split.
  - rewrite read_go_strip0, digits_acc_app. simpl append at 1.
    rewrite read_go_digits by exact Hv.
    rewrite Z.mod_small by (split; [exact Hv|apply log2_pow10_bound; exact Hv]).
    reflexivity.
  - set (k := S (Z.to_nat (Z.log2 v))).
    assert (Hne : strip0 (digits_acc k v EmptyString) <> EmptyString).
    { apply strip0_nonempty. unfold k. simpl. apply digits_acc_nonempty. discriminate. }
    assert (Had : all_digits (strip0 (digits_acc k v EmptyString)) = true).
    { apply strip0_all_digits. apply all_digits_acc; [exact Hv|reflexivity]. }
    destruct (strip0 (digits_acc k v EmptyString)) as [|c r]; [congruence|].
    simpl in Had. destruct (digit_val c) as [d|] eqn:Ed; [|discriminate].
    exists c, (r ++ t)%string, d. split; [reflexivity|exact Ed].
Qed.

(* ------------------------------------------------------------------ the printed string reads back *)
Definition fmt_string (n : nat) (s : bool) (num : Z) (den : positive) : string :=
  let N := fmt_units n num den in
  ((if s then "-" else "") ++ int_digits (N / pow10 n)
     ++ match n with O => "" | _ => String "."%char (digits_fix n (N mod pow10 n)) end)%string.

Lemma fmt_units_nonneg : forall n num den, 0 <= num -> 0 <= fmt_units n num den.
Proof.
  intros n num den H. unfold fmt_units, Zround_half_even.
  assert (Hp := pow10_pos n).
  assert (0 <= num * pow10 n / Z.pos den) by (apply Z.div_pos; nia).
  destruct (2 * ((num * pow10 n) mod Z.pos den) ?= Z.pos den); [destruct (Z.even _)| |]; lia.
Qed.

Lemma read_tail : forall n N, 0 <= N ->
  read_go (match n with O => "" | _ => String "."%char (digits_fix n (N mod pow10 n)) end)%string (N / pow10 n) false 0
  = Some (N, n).
Proof.
  intros n N HN. assert (Hp := pow10_pos n).
  destruct n as [|n'].
  - simpl. unfold pow10. simpl. rewrite Z.div_1_r. reflexivity.
  - set (n := S n') in *. simpl read_go. unfold digits_fix.
    rewrite read_go_digits by (apply Z.mod_pos_bound; lia).
    simpl read_go. rewrite Z.mod_mod by lia.
    rewrite (Z.div_mod N (pow10 n)) at 3 by lia.
    replace (N / pow10 n * pow10 n + N mod pow10 n) with (pow10 n * (N / pow10 n) + N mod pow10 n) by ring.
    reflexivity.
Qed.

Lemma fmt_string_reads_back : forall n s num den, 0 <= num ->
  read_decimal (fmt_string n s num den) = Some {| d_neg := s; d_units := fmt_units n num den; d_scale := n |}.
Proof.
  intros n s num den Hnum. unfold fmt_string.
  set (N := fmt_units n num den). assert (HN : 0 <= N) by (apply fmt_units_nonneg; exact Hnum).
  set (tail := match n with O => ""%string | _ => String "."%char (digits_fix n (N mod pow10 n)) end).
  assert (Hi : 0 <= N / pow10 n) by (apply Z.div_pos; [exact HN|apply pow10_pos]).
  destruct (int_digits_spec (N / pow10 n) tail Hi) as [Hread (c & r & d & Hs & Hd)].
  destruct s; simpl append.
  - unfold read_decimal. simpl. rewrite Hread. unfold tail. rewrite read_tail by exact HN. reflexivity.
  - unfold read_decimal. rewrite Hs. rewrite (digit_val_not_minus _ _ Hd). rewrite <- Hs.
    rewrite Hread. unfold tail. rewrite read_tail by exact HN. reflexivity.
Qed.

(* ------------------------------------------------------------------ round half even is a nearest integer *)
Lemma Zround_half_even_nearest : forall a d, 2 * Z.abs (a - Z.pos d * Zround_half_even a d) <= Z.pos d.
Proof.
  intros a d. unfold Zround_half_even.
  assert (H := Z.div_mod a (Z.pos d) ltac:(lia)).
  assert (Hb := Z.mod_pos_bound a (Z.pos d) ltac:(lia)).
  destruct (Z.compare_spec (2 * (a mod Z.pos d)) (Z.pos d)); [destruct (Z.even _)| |]; lia.
Qed.

(* ------------------------------------------------------------------ the statement on doubles *)
Lemma pos_mul_pow_nonneg : forall m p, 0 <= Z.pos m * 2 ^ Z.pos p.
Proof. intros m p. apply Z.mul_nonneg_nonneg; [lia|]. apply Z.pow_nonneg. lia. Qed.

Lemma f_decode_nonneg : forall x s num den, f_decode x = FD_fin s num den -> 0 <= num.
Proof.
  intros x s num den. unfold f_decode.
  destruct (Prim2SF x) as [s0|s0| |s0 m e]; try discriminate.
  - intros H; inversion H; lia.
  - destruct e as [|pe|pe]; intros H; injection H as E1 E2 E3; rewrite <- E2; try lia.
    exact (pos_mul_pow_nonneg m pe).
Qed.

Lemma fmt_fixed_decoded : forall n x s num den, f_decode x = FD_fin s num den ->
  fmt_fixed n x = fmt_string n s num den.
Proof. intros n x s num den H. unfold fmt_fixed. rewrite H. reflexivity. Qed.

Theorem fmt_fixed_reads_back_Z : forall n x s num den, f_decode x = FD_fin s num den ->
  read_decimal (fmt_fixed n x) = Some {| d_neg := s; d_units := Zround_half_even (num * pow10 n) den; d_scale := n |}.
Proof.
  intros n x s num den H. rewrite (fmt_fixed_decoded _ _ _ _ _ H).
  apply fmt_string_reads_back. exact (f_decode_nonneg _ _ _ _ H).
Qed.

Lemma Zround_half_even_0 : forall d, Zround_half_even 0 d = 0.
Proof. intros d. unfold Zround_half_even. rewrite Z.div_0_l, Z.mod_0_l by lia. reflexivity. Qed.

Lemma Qround_he_signed : forall n (s : bool) num den, 0 <= num ->
  dec_to_Q {| d_neg := s; d_units := Zround_half_even (num * pow10 n) den; d_scale := n |}
  == Qround_he n (if s then Qopp (Qmake num den) else Qmake num den).
Proof.
  intros n s num den Hnum. unfold dec_to_Q, Qround_he. simpl d_neg. simpl d_units. simpl d_scale.
  destruct s.
  - simpl Qnum. simpl Qden. rewrite Z.abs_opp, Z.abs_eq by exact Hnum.
    destruct (Z.ltb_spec (- num) 0); [reflexivity|].
    assert (num = 0) by lia. subst num. rewrite Z.mul_0_l, Zround_half_even_0. reflexivity.
  - simpl Qnum. simpl Qden. rewrite Z.abs_eq by exact Hnum.
    destruct (Z.ltb_spec num 0); [lia|reflexivity].
Qed.

Theorem fmt_fixed_reads_back_Q : forall n x, f_is_finite x = true ->
  exists d, read_decimal (fmt_fixed n x) = Some d /\ d_scale d = n /\ d_neg d = f_signbit x
            /\ dec_to_Q d == Qround_he n (f_to_Q x).
Proof.
  intros n x Hfin.
  assert (Hdec : exists s num den, f_decode x = FD_fin s num den /\ f_signbit x = s
            /\ f_to_Q x == (if s then Qopp (Qmake num den) else Qmake num den)).
  { unfold f_is_finite in Hfin. unfold f_decode, f_signbit, f_to_Q.
    destruct (Prim2SF x) as [s0|s0| |s0 m e]; try discriminate.
    - exists s0, 0, 1%positive. split; [reflexivity|]. split; [reflexivity|]. destruct s0; reflexivity.
    - destruct e as [|pe|pe].
      + exists s0, (Z.pos m), 1%positive. repeat split; try reflexivity; destruct s0; reflexivity.
      + exists s0, (Z.pos m * 2 ^ Z.pos pe), 1%positive. repeat split; try reflexivity; destruct s0; reflexivity.
      + exists s0, (Z.pos m), (2 ^ pe)%positive. repeat split; try reflexivity; destruct s0; reflexivity. }
  destruct Hdec as (s & num & den & Hd & Hs & Hq).
  eexists. split; [exact (fmt_fixed_reads_back_Z n x s num den Hd)|].
  split; [reflexivity|]. split; [simpl; symmetry; exact Hs|].
  rewrite Qround_he_signed by exact (f_decode_nonneg _ _ _ _ Hd).
  unfold Qround_he.
  assert (Hn : 0 <= num) by exact (f_decode_nonneg _ _ _ _ Hd).
  (* Qround_he only looks at numerator and denominator: f_to_Q x is syntactically that fraction *)
  clear Hq. unfold f_decode in Hd. unfold f_to_Q.
  destruct (Prim2SF x) as [s0|s0| |s0 m e]; try discriminate.
  - injection Hd as E1 E2 E3. subst s num den. destruct s0; reflexivity.
  - destruct e as [|pe|pe]; injection Hd as E1 E2 E3; subst s num den; destruct s0; reflexivity.
Qed.

(* the printed units are within half a unit of the exact scaled value *)
Theorem fmt_fixed_nearest : forall n x s num den, f_decode x = FD_fin s num den ->
  exists d, read_decimal (fmt_fixed n x) = Some d /\
            2 * Z.abs (num * pow10 n - Z.pos den * d_units d) <= Z.pos den.
Proof.
  intros n x s num den H. eexists. split; [exact (fmt_fixed_reads_back_Z n x s num den H)|].
  simpl. apply Zround_half_even_nearest.
Qed.
