(* C10 -- the tokens of every well-formed written line are lexable (word_ok / punctuation / final comment), so the
   layout hypothesis of the round trip reduces to spacing alone:  layout_okb = spacing_okb  on well-formed lines. *)
From Coq Require Import String Ascii List Bool Arith NArith ZArith Lia.
From OV Require Import Model.LexA64 Model.ParseA64 Model.SyntaxA64.
From OV Require Import Proofs.ParseA64Round Proofs.ParseA64Regs Proofs.ParseA64Ops Proofs.ParseA64Lex Proofs.ParseA64Instr.
Import ListNotations.
Open Scope string_scope.

Local Arguments is_wordch : simpl never.
Local Arguments is_sign : simpl never.
Local Arguments is_digit : simpl never.
Local Arguments sign_ctx : simpl never.
Local Arguments ceq : simpl never.
Local Arguments reg_word : simpl never.
Local Arguments num_word : simpl never.
Local Arguments float_word : simpl never.
Local Arguments word_ok : simpl never.

Ltac allchars :=
  let c := fresh "c" in
  intros c; destruct c as [[|] [|] [|] [|] [|] [|] [|] [|]]; vm_compute; intros; try reflexivity; try discriminate.
Lemma wordch_nminus : forall c, is_wordch c = true -> ceq c "-" = false. Proof. allchars. Qed.
Lemma digit_wordch : forall c, is_digit c = true -> is_wordch c = true. Proof. allchars. Qed.
Lemma hex_wordch : forall c, is_hex c = true -> is_wordch c = true. Proof. allchars. Qed.
Lemma mnch_wordch : forall c, orb (is_alpha c) (orb (is_digit c) (ceq c ".")) = true -> is_wordch c = true. Proof. allchars. Qed.
Lemma dirch_wordch : forall c, orb (is_alpha c) (orb (is_digit c) (ceq c "_")) = true -> is_wordch c = true. Proof. allchars. Qed.
Lemma identhead_wordch : forall c, orb (is_alpha c) (orb (ceq c "_") (ceq c ".")) = true -> is_wordch c = true. Proof. allchars. Qed.
Lemma e_wordch : forall c, is_e c = true -> is_wordch c = true. Proof. allchars. Qed.
Lemma f_wordch : forall c, orb (ceq c "f") (ceq c "F") = true -> is_wordch c = true. Proof. allchars. Qed.
Lemma sign_nwordch : forall c, is_sign c = true -> is_wordch c = false. Proof. allchars. Qed.

Lemma sall_impl : forall (f g : ascii -> bool) s, (forall c, f c = true -> g c = true) -> sall f s = true -> sall g s = true.
Proof.
  induction s as [|c r IH]; simpl; intros H Hs; auto. apply andb_true_iff in Hs. destruct Hs as [Hc Hr].
  rewrite (H c Hc), (IH H Hr). reflexivity.
Qed.

Lemma word_run_all : forall w acc, sall is_wordch w = true -> word_run w acc = true.
Proof.
  induction w as [|c r IH]; simpl; intros acc H; auto. apply andb_true_iff in H. destruct H as [Hc Hr].
  rewrite Hc, (IH _ Hr). reflexivity.
Qed.
Lemma word_run_app : forall a b acc, word_run (a ++ b) acc = andb (word_run a acc) (word_run b (acc ++ a)).
Proof.
  induction a as [|c r IH]; intros b acc.
  - simpl. rewrite app_nil_r_s. reflexivity.
  - simpl. rewrite IH. unfold snoc. rewrite app_assoc_s. simpl. rewrite andb_assoc. reflexivity.
Qed.

(* a plain word: only word characters *)
Lemma plain_word_ok : forall w, nonempty w = true -> sall is_wordch w = true -> word_ok w = true.
Proof.
  intros [|c r] Hne H; [discriminate|]. unfold word_ok. simpl in H. pose proof H as H0.
  apply andb_true_iff in H. destruct H as [Hc _]. rewrite (wordch_nminus c Hc), Hc.
  simpl. apply (word_run_all (String c r) "" H0).
Qed.
Lemma minus_word_ok : forall u, head_is is_digit u = true -> sall is_wordch u = true -> word_ok ("-" ++ u) = true.
Proof.
  intros [|d r] Hd H; [discriminate|]. simpl in Hd. unfold word_ok. simpl.
  change (ceq "-" "-") with true. cbv iota. rewrite Hd. simpl. apply (word_run_all (String d r) "-" H).
Qed.
Lemma digits_word_ok : forall d, all_digits d = true -> word_ok d = true.
Proof.
  intros d H. unfold all_digits in H. apply andb_true_iff in H. destruct H as [Hne Hd].
  apply plain_word_ok; [exact Hne|]. exact (sall_impl _ _ d digit_wordch Hd).
Qed.

Lemma num_word_ok : forall n, num_okb n = true -> word_ok (num_word n) = true.
Proof.
  intros [neg hex d] H. unfold num_okb in H. cbn [n_hex n_digits] in H. unfold num_word. cbn [n_neg n_hex n_digits].
  assert (B : head_is is_digit ((if hex then "0x" else "") ++ d) = true /\ sall is_wordch ((if hex then "0x" else "") ++ d) = true /\
              nonempty ((if hex then "0x" else "") ++ d) = true).
  { destruct hex.
    - unfold hex_ok in H. apply andb_true_iff in H. destruct H as [_ Hh]. split; [reflexivity|]. split; [|reflexivity].
      simpl. change (is_wordch "0") with true. change (is_wordch "x") with true. simpl.
      exact (sall_impl _ _ d hex_wordch Hh).
    - destruct (dec_parts d H) as (Hne & Hd & _ & _). simpl. split; [|split; [exact (sall_impl _ _ d digit_wordch Hd)|exact Hne]].
      destruct d; [discriminate|]. simpl in *. apply andb_true_iff in Hd. tauto. }
  destruct B as (B1 & B2 & B3). destruct neg.
  - apply minus_word_ok; assumption.
  - apply plain_word_ok; assumption.
Qed.

(* floats: the exponent sign is absorbed because the word so far starts with a digit or '-' and ends with e/E *)
Lemma last_is_snoc : forall f s c, last_is f (s ++ String c "") = f c.
Proof.
  induction s as [|a r IH]; intros c; [reflexivity|]. simpl. rewrite IH.
  destruct (r ++ String c "") eqn:E; [destruct r; discriminate|reflexivity].
Qed.
Lemma float_body_run : forall acc ip fp ex suf,
  (acc = "" \/ acc = "-") -> all_digits ip = true -> all_digits fp = true ->
  (match ex with None => true | Some (e, sg, d) => andb (is_e e) (andb (is_sign sg) (all_digits d)) end) = true ->
  (match suf with None => true | Some c => orb (ceq c "f") (ceq c "F") end) = true ->
  word_run (ip ++ "." ++ fp ++ (match ex with None => "" | Some (e, sg, d) => String e (String sg d) end)
               ++ (match suf with None => "" | Some c => s1 c end)) acc = true.
Proof.
  intros acc ip fp ex suf Hacc Hip Hfp Hex Hsuf.
  assert (Sip : sall is_wordch ip = true).
  { unfold all_digits in Hip. apply andb_true_iff in Hip. destruct Hip as [_ H]. exact (sall_impl _ _ ip digit_wordch H). }
  assert (Sfp : sall is_wordch fp = true).
  { unfold all_digits in Hfp. apply andb_true_iff in Hfp. destruct Hfp as [_ H]. exact (sall_impl _ _ fp digit_wordch H). }
  assert (Ssuf : sall is_wordch (match suf with None => "" | Some c => s1 c end) = true).
  { destruct suf as [c|]; [|reflexivity]. simpl. rewrite (f_wordch c Hsuf). reflexivity. }
  rewrite word_run_app, (word_run_all ip acc Sip). simpl andb.
  change ("." ++ fp ++ ?X) with (String "." (fp ++ X)).
  simpl word_run. change (is_wordch ".") with true. simpl orb. simpl andb.
  rewrite word_run_app, (word_run_all fp _ Sfp). simpl andb.
  destruct ex as [[[e sg] d]|].
  - apply andb_true_iff in Hex. destruct Hex as [He Hex]. apply andb_true_iff in Hex. destruct Hex as [Hsg Hd].
    change ((String e (String sg d)) ++ ?X) with (String e (String sg (d ++ X))).
    simpl word_run. rewrite (e_wordch e He). simpl orb. simpl andb.
    rewrite (sign_nwordch sg Hsg), Hsg. simpl orb.
    assert (Ctx : sign_ctx (snoc (snoc (acc ++ ip) "." ++ fp) e) = true).
    { unfold sign_ctx, snoc. rewrite last_is_snoc, He, andb_true_r.
      destruct (digits_head ip Hip) as [Hh _]. destruct ip as [|a ip']; [discriminate|].
      destruct Hacc as [->| ->]; [exact Hh|reflexivity]. }
    rewrite Ctx. simpl andb.
    apply word_run_all. rewrite sall_app, Ssuf, andb_true_r.
    unfold all_digits in Hd. apply andb_true_iff in Hd. destruct Hd as [_ Hd]. exact (sall_impl _ _ d digit_wordch Hd).
  - simpl append. apply word_run_all. exact Ssuf.
Qed.
Lemma float_word_ok : forall f, wfloat_okb f = true -> word_ok (float_word f) = true.
Proof.
  intros [neg ip fp ex suf] H. unfold wfloat_okb in H. cbn [f_int f_frac f_exp f_suffix] in H.
  apply andb_true_iff in H. destruct H as [Hip H]. apply andb_true_iff in H. destruct H as [Hfp H].
  apply andb_true_iff in H. destruct H as [Hex Hsuf].
  assert (W : float_word (mkwfloat neg ip fp ex suf) =
              (if neg then "-" else "") ++ ip ++ "." ++ fp ++ (match ex with None => "" | Some (e, sg, d) => String e (String sg d) end)
               ++ (match suf with None => "" | Some c => s1 c end)).
  { unfold float_word, float_mant. cbn [f_neg f_int f_frac f_exp f_suffix]. rewrite !app_assoc_str. reflexivity. }
  rewrite W. destruct (digits_head ip Hip) as [_ Hm].
  assert (Hd : head_is is_digit ip = true).
  { unfold all_digits in Hip. apply andb_true_iff in Hip. destruct Hip as [Hne Hs]. destruct ip; [discriminate|].
    simpl in *. apply andb_true_iff in Hs. tauto. }
  destruct ip as [|a ip']; [discriminate|]. simpl in Hd.
  destruct neg.
  - change ("-" ++ ?X) with (String "-" X). unfold word_ok. change (ceq "-" "-") with true. cbv iota.
    change (String a ip' ++ ?X) with (String a (ip' ++ X)). cbv iota. rewrite Hd. simpl andb.
    exact (float_body_run "-" (String a ip') fp ex suf (or_intror eq_refl) Hip Hfp Hex Hsuf).
  - change ("" ++ ?X) with X. unfold word_ok.
    change (String a ip' ++ ?X) with (String a (ip' ++ X)). cbv iota.
    rewrite (wordch_nminus a (digit_wordch a Hd)), (digit_wordch a Hd). simpl andb.
    exact (float_body_run "" (String a ip') fp ex suf (or_introl eq_refl) Hip Hfp Hex Hsuf).
Qed.

Lemma ident_word_ok : forall w, is_ident w = true -> word_ok w = true.
Proof.
  intros w H. unfold is_ident in H. apply andb_true_iff in H. destruct H as [Hh Hs].
  apply plain_word_ok; [destruct w; [discriminate|reflexivity]|exact Hs].
Qed.
Lemma plain_ident_is_ident : forall w, plain_ident w = true -> is_ident w = true.
Proof. intros w H. unfold plain_ident in H. destruct (classify w); try discriminate. exact H. Qed.

(* ---------------------------------------------------------------- tokens of operands and lines *)
Definition tokp (t : tok) : bool := match t with TW w => word_ok w | TP c => is_punct c | _ => false end.
Definition plainok (ts : list tok) : bool := forallb tokp ts.

Lemma plainok_app : forall a b, plainok (a ++ b) = andb (plainok a) (plainok b).
Proof. intros. apply forallb_app. Qed.
Lemma hash_plainok : forall h, plainok (hash_toks h) = true.
Proof. destruct h; reflexivity. Qed.
Lemma num_toks_plainok : forall h n, num_okb n = true -> plainok (num_toks h n) = true.
Proof. intros h n H. unfold num_toks. rewrite plainok_app, hash_plainok. simpl. rewrite (num_word_ok n H). reflexivity. Qed.
Lemma idx_toks_plainok : forall i, idx_okb i = true -> plainok (idx_toks i) = true.
Proof.
  intros [d|] H; [|reflexivity]. simpl in *. rewrite digits_word_ok; [reflexivity|].
  unfold dec_ok in H. apply andb_true_iff in H. tauto.
Qed.
Lemma sep_by_plainok : forall l, plainok l = true -> plainok (sep_by (TP ",") l) = true.
Proof.
  induction l as [|x l IH]; intros H; [reflexivity|]. destruct l as [|y l']; [exact H|].
  simpl sep_by. simpl in H. apply andb_true_iff in H. destruct H as [Hx Hr]. simpl. rewrite Hx. simpl.
  apply IH. exact Hr.
Qed.
Lemma elem_wreg_okb : forall e, elem_okb e = true -> wreg_okb e = true.
Proof. intros e H. unfold elem_okb in H. apply andb_true_iff in H. tauto. Qed.

Lemma wop_plainok : forall fx o, wop_okb fx o = true -> plainok (toks_wop o) = true.
Proof.
  intros fx o Hok. destruct o as [r|els i|a b i|h n|h f|h w|w|b t c]; unfold toks_wop.
  - destruct r as [r|r i|r m|w|w]; cbn [wop_okb wregop_okb] in Hok; simpl.
    + rewrite (reg_word_ok r Hok). reflexivity.
    + apply andb_true_iff in Hok. destruct Hok as [Hr Hok]. apply andb_true_iff in Hok. destruct Hok as [_ Hi].
      rewrite (reg_word_ok r Hr), (digits_word_ok i Hi). reflexivity.
    + apply andb_true_iff in Hok. destruct Hok as [Hr Hok]. apply andb_true_iff in Hok. destruct Hok as [_ Hok].
      apply andb_true_iff in Hok. destruct Hok as [_ Hm]. rewrite (reg_word_ok r Hr).
      unfold memb in Hm. simpl in Hm.
      repeat (apply orb_true_iff in Hm; destruct Hm as [Hm|Hm]; [apply Ascii.eqb_eq in Hm; subst m; reflexivity|]).
      discriminate.
    + rewrite (sp_word_ok w Hok). reflexivity.
    + rewrite (zr_word_ok w Hok). reflexivity.
  - unfold wop_okb in Hok. apply andb_true_iff in Hok. destruct Hok as [_ Hok]. apply andb_true_iff in Hok.
    destruct Hok as [Hels Hi].
    change (TP "{" :: sep_by (TP ",") (map (fun e => TW (reg_word e)) els) ++ TP "}" :: idx_toks i)%list
      with ([TP "{"] ++ sep_by (TP ",") (map (fun e => TW (reg_word e)) els) ++ [TP "}"] ++ idx_toks i)%list.
    rewrite !plainok_app, (idx_toks_plainok i Hi), sep_by_plainok; [reflexivity|].
    clear - Hels. induction els as [|e els IH]; [reflexivity|]. simpl in *. apply andb_true_iff in Hels.
    destruct Hels as [He Hr]. rewrite (reg_word_ok e (elem_wreg_okb e He)). simpl. apply IH. exact Hr.
  - unfold wop_okb in Hok. apply andb_true_iff in Hok. destruct Hok as [Ha Hok]. apply andb_true_iff in Hok.
    destruct Hok as [Hb Hi].
    change (TP "{" :: TW (reg_word a) :: TP "-" :: TW (reg_word b) :: TP "}" :: idx_toks i)%list
      with ([TP "{"; TW (reg_word a); TP "-"; TW (reg_word b); TP "}"] ++ idx_toks i)%list.
    rewrite plainok_app, (idx_toks_plainok i Hi). simpl.
    rewrite (reg_word_ok a (elem_wreg_okb a Ha)), (reg_word_ok b (elem_wreg_okb b Hb)). reflexivity.
  - apply num_toks_plainok. exact Hok.
  - rewrite plainok_app, hash_plainok. simpl. rewrite (float_word_ok f Hok). reflexivity.
  - rewrite plainok_app, hash_plainok. simpl. rewrite (ident_word_ok w (plain_ident_is_ident w Hok)). reflexivity.
  - simpl. rewrite (cond_word_ok w Hok). reflexivity.
  - unfold wop_okb in Hok. apply andb_true_iff in Hok. destruct Hok as [Hb Hok]. apply andb_true_iff in Hok.
    destruct Hok as [Ht Hc].
    assert (Wb : word_ok (base_word b) = true).
    { destruct b as [up n|w]; simpl in Hb.
      - assert (Hr : wreg_okb (mkwreg (if up then "X" else "x")%char n None) = true).
        { unfold wreg_okb. cbn [w_num w_pre w_arr]. rewrite Hb. destruct up; reflexivity. }
        pose proof (reg_word_ok _ Hr) as W. unfold reg_word in W. cbn [w_num w_pre w_arr] in W.
        rewrite app_nil_r_s in W. exact W.
      - exact (sp_word_ok w Hb). }
    assert (Pt : plainok (match t with
                          | MTNone => []
                          | MTOff h n => TP "," :: num_toks h n
                          | MTIdx p n e => TP "," :: TW (String p (nat_str n)) ::
                              match e with None => [] | Some (mkwext op am) => TP "," :: TW op :: match am with None => [] | Some (h, k) => num_toks h k end end
                          end) = true).
    { destruct t as [|h n|p n e]; [reflexivity| |].
      - simpl. apply num_toks_plainok. exact Ht.
      - apply andb_true_iff in Ht. destruct Ht as [Hp Ht]. apply andb_true_iff in Ht. destruct Ht as [Hn He].
        assert (Hr : wreg_okb (mkwreg p n None) = true).
        { unfold wreg_okb. cbn [w_num w_pre w_arr]. rewrite Hn. unfold memb in Hp. simpl in Hp.
          repeat (apply orb_true_iff in Hp; destruct Hp as [Hp|Hp]; [apply Ascii.eqb_eq in Hp; subst p; reflexivity|]). discriminate. }
        pose proof (reg_word_ok _ Hr) as W. unfold reg_word in W. cbn [w_num w_pre w_arr] in W. rewrite app_nil_r_s in W.
        simpl. rewrite W. simpl. destruct e as [[op am]|]; [|reflexivity].
        unfold wext_okb in He. apply andb_true_iff in He. destruct He as [Hop Ham]. simpl. rewrite (ext_word_ok fx op Hop). simpl.
        destruct am as [[h k]|]; [|reflexivity]. apply andb_true_iff in Ham. destruct Ham as [Hk _].
        apply num_toks_plainok. exact Hk. }
    assert (Pc : plainok (match c with MCNone => [] | MCPre => [TP "!"] | MCPost h n => TP "," :: num_toks h n end) = true).
    { destruct c as [| |h n]; [reflexivity|reflexivity|]. simpl. apply num_toks_plainok. exact Hc. }
    match goal with |- plainok (TP "[" :: TW ?bw :: ?T ++ TP "]" :: ?C)%list = true =>
      change (TP "[" :: TW bw :: T ++ TP "]" :: C)%list with ([TP "["; TW bw] ++ T ++ [TP "]"] ++ C)%list end.
    rewrite !plainok_app, Pt, Pc. simpl. rewrite Wb. reflexivity.
Qed.

Lemma ops_plainok : forall fx ops, forallb (wop_okb fx) ops = true -> plainok (ops_toks ops) = true.
Proof.
  intros fx. induction ops as [|o r IH]; intros H; [reflexivity|]. simpl in H. apply andb_true_iff in H. destruct H as [Ho Hr].
  destruct r as [|o2 r'].
  - simpl. apply (wop_plainok fx). exact Ho.
  - rewrite ops_toks_cons2, plainok_app, (wop_plainok fx o Ho). simpl. apply IH. exact Hr.
Qed.

Lemma toks_okb_plain_comment : forall a c, plainok a = true -> comment_okb c = true -> toks_okb (a ++ comment_toks c)%list = true.
Proof.
  induction a as [|t r IH]; intros c Ha Hc.
  - destruct c as [raw|]; simpl in *; [rewrite Hc|]; reflexivity.
  - simpl in Ha. apply andb_true_iff in Ha. destruct Ha as [Ht Hr]. simpl. rewrite (IH c Hr Hc), andb_true_r.
    destruct t; simpl in *; try discriminate; exact Ht.
Qed.

Lemma dir_param_nonempty : forall p, dir_param_ok p = true -> nonempty p = true.
Proof. intros [|c r] H; [discriminate|reflexivity]. Qed.

Theorem toks_line_okb : forall fx l, wline_okb fx l = true -> toks_okb (toks_line l) = true.
Proof.
  intros fx [mn ops c|n c|n ps c|raw] H; unfold wline_okb in H; unfold toks_line.
  - apply andb_true_iff in H. destruct H as [Hmn H]. apply andb_true_iff in H. destruct H as [_ H].
    apply andb_true_iff in H. destruct H as [_ H]. apply andb_true_iff in H. destruct H as [Hok H].
    apply andb_true_iff in H. destruct H as [_ H]. apply andb_true_iff in H. destruct H as [_ H].
    apply andb_true_iff in H. destruct H as [Hc _].
    change (TW mn :: ops_toks ops ++ comment_toks c)%list with ((TW mn :: ops_toks ops) ++ comment_toks c)%list.
    apply toks_okb_plain_comment; [|exact Hc]. simpl. rewrite (ops_plainok fx ops Hok), andb_true_r.
    unfold mnemonic_ok in Hmn. apply andb_true_iff in Hmn. destruct Hmn as [Hne Hs].
    apply plain_word_ok; [exact Hne|]. exact (sall_impl _ _ mn mnch_wordch Hs).
  - apply andb_true_iff in H. destruct H as [Hn Hc].
    change (TW n :: TP ":" :: comment_toks c)%list with ([TW n; TP ":"] ++ comment_toks c)%list.
    apply toks_okb_plain_comment; [|exact Hc]. simpl. rewrite (ident_word_ok n Hn). reflexivity.
  - apply andb_true_iff in H. destruct H as [Hn H]. apply andb_true_iff in H. destruct H as [Hps H].
    apply andb_true_iff in H. destruct H as [Hc _].
    change (TW ("." ++ n) :: sep_by (TP ",") (map TW ps) ++ comment_toks c)%list
      with ((TW ("." ++ n) :: sep_by (TP ",") (map TW ps)) ++ comment_toks c)%list.
    apply toks_okb_plain_comment; [|exact Hc]. simpl. apply andb_true_iff. split.
    + change ("." ++ n) with (String "." n) in *. unfold dir_name_ok in Hn. apply andb_true_iff in Hn. destruct Hn as [_ Hs].
      apply plain_word_ok; [reflexivity|]. simpl. change (is_wordch ".") with true. simpl.
      exact (sall_impl _ _ n dirch_wordch Hs).
    + apply sep_by_plainok. clear - Hps. induction ps as [|p ps IH]; [reflexivity|]. simpl in *.
      apply andb_true_iff in Hps. destruct Hps as [Hp Hr]. apply andb_true_iff in Hp. destruct Hp as [Hp1 Hp2].
      rewrite (plain_word_ok p (dir_param_nonempty p Hp1) Hp2). simpl. apply IH. exact Hr.
  - simpl. rewrite H. reflexivity.
Qed.

Lemma lay_okb_split : forall ts prev lay, lay_okb prev lay ts = andb (sep_okb prev lay ts) (toks_okb ts).
Proof.
  induction ts as [|t r IH]; intros prev lay; [reflexivity|]. simpl. rewrite IH.
  destruct (sall is_ws (hd "" lay)); simpl; [|reflexivity].
  destruct (nonempty (hd "" lay) || negb (clash prev t))%bool; simpl; [|reflexivity].
  destruct (tok_okb t match r with [] => true | _ :: _ => false end); simpl; [reflexivity|].
  rewrite andb_false_r. reflexivity.
Qed.

(* on a well-formed line the layout hypothesis is spacing alone *)
Theorem layout_is_spacing : forall fx l lay trail, wline_okb fx l = true ->
  layout_okb lay trail l = spacing_okb lay trail l.
Proof.
  intros fx l lay trail H. unfold layout_okb, spacing_okb. rewrite lay_okb_split, (toks_line_okb fx l H), andb_true_r. reflexivity.
Qed.

Theorem parse_render_spacing : forall fx l lay trail,
  wline_okb fx l = true -> spacing_okb lay trail l = true -> cond_tight fx lay trail l = true ->
  parse_line fx (render lay trail l) = Parsed (denote l).
Proof.
  intros fx l lay trail Hl Hs Ht. apply parse_render_fx; auto. rewrite (layout_is_spacing fx l lay trail Hl). exact Hs.
Qed.
