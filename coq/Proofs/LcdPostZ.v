(* C16 for the translated post-processing: over integer latencies (the setting of Model/Parallel.v: the harness scales every float
   latency by 2^20 and requires exactness) the functional reading Model/LcdPost.post_model of the regenerated code computes
       dict_of heap (Parallel.sort_desc (Parallel.dedup off [] paths))
   -- Model/Parallel.v's lat_path / lat_sum / dedup / sort_desc; only the dictionary keeps the representation of the code (str keys,
   objects of self.kernel) -- and is therefore invariant under every permutation of all_paths (Proofs/Parallel.v), i.e. under the
   order in which the workers deliver their paths. *)
From Coq Require Import ZArith List Bool String Lia Permutation.
From OV Require Import Model.Num Model.Parallel Proofs.Parallel Model.PyLcd Model.LcdPost Proofs.PyLcdFacts.
Import ListNotations.
Local Open Scope list_scope.
Local Open Scope Z_scope.

Definition ZNum : NumOps Z := {|
  n0 := 0; nadd := Z.add; nsub := Z.sub; nmul := Z.mul; ndiv := Z.div; nopp := Z.opp; nofZ := fun z => z; nofQ := fun n d => Z.div n d;
  nleb := Z.leb; nltb := Z.ltb; neqb := Z.eqb; nround2 := fun z => z; ntrunc := fun z => z; nsum := fun l => fold_left Z.add l 0 |}.

(* ------------------------------------------------------------------ comparisons *)
Lemma lt_pair_cmp (x a : Z * Z) : lt_pair ZNum x a = match cmp_edge x a with Lt => true | _ => false end.
Proof.
  destruct x as [x1 x2], a as [a1 a2]. unfold lt_pair, py_tuple_lt, cmp_edge, cmp_pair, lexc. cbn [neqb nltb ZNum fst snd].
  destruct (Z.eqb_spec x1 a1) as [E|E].
  - subst a1. rewrite Z.compare_refl. destruct (Z.eqb_spec x2 a2) as [E2|E2].
    + subst a2. rewrite Z.compare_refl. reflexivity.
    + destruct (Z.compare_spec x2 a2); destruct (Z.ltb_spec x2 a2); try lia; reflexivity.
  - destruct (Z.compare_spec x1 a1); destruct (Z.ltb_spec x1 a1); try lia; reflexivity.
Qed.

Lemma eq_pair_true (x a : Z * Z) : eq_pair ZNum x a = true <-> x = a.
Proof.
  unfold eq_pair, py_tuple_eq. cbn [neqb ZNum]. rewrite andb_true_iff, !Z.eqb_eq. destruct x, a. cbn [fst snd]. split; [intros (-> & ->); reflexivity | intros E; inversion E; split; reflexivity].
Qed.
Lemma eq_pairs_true : forall a b : list (Z * Z), eq_pairs ZNum a b = true <-> a = b.
Proof.
  unfold eq_pairs. induction a as [|x a IH]; intros [|y b]; cbn [py_list_eq]; try (split; [discriminate | discriminate]); [split; reflexivity|].
  rewrite andb_true_iff, (eq_pair_true x y), IH. split; [intros (-> & ->); reflexivity | intros E; inversion E; split; reflexivity].
Qed.

(* the generic insertion sort of the prelude is Model/Parallel's isort for the matching `may stand before` relation *)
Lemma py_sort_isort {A} (lt le : A -> A -> bool) : (forall x y, le x y = negb (lt y x)) -> forall l, py_sort lt l = isort le l.
Proof.
  intros H. induction l as [|x l IH]; [reflexivity|]. unfold py_sort in *. cbn [fold_right isort]. rewrite IH.
  generalize (isort le l). intros s. induction s as [|y s IHs]; [reflexivity|]. cbn [py_insert insert]. rewrite H.
  destruct (lt y x); cbn [negb]; [rewrite IHs|]; reflexivity.
Qed.

Lemma lat_path_is_model off (p : list (Z * Z)) : py_sort (lt_pair ZNum) (map (mapback off) p) = lat_path off p.
Proof.
  unfold lat_path. apply py_sort_isort. intros x y. rewrite lt_pair_cmp. unfold leb_of. rewrite (tc_opp cmp_edge tc_edge x y).
  destruct (cmp_edge x y); reflexivity.
Qed.

Lemma list_lt_cmp : forall a b : list (Z * Z), py_list_lt (eq_pair ZNum) (lt_pair ZNum) a b = match cmp_lp a b with Lt => true | _ => false end.
Proof.
  unfold cmp_lp. induction a as [|x a IH]; intros [|y b]; cbn [py_list_lt cmp_list]; try reflexivity.
  unfold lexc. destruct (eq_pair ZNum x y) eqn:E.
  - apply eq_pair_true in E. subst y. rewrite (tc_refl cmp_edge tc_edge). apply IH.
  - rewrite lt_pair_cmp. destruct (cmp_edge x y) eqn:C; try reflexivity.
    apply (tc_eq cmp_edge tc_edge) in C. subst y. assert (eq_pair ZNum x x = true) by (apply eq_pair_true; reflexivity). congruence.
Qed.

Lemma lt_item_cmp (x a : Z * list (Z * Z)) : lt_item ZNum x a = match cmp_item x a with Lt => true | _ => false end.
Proof.
  destruct x as [x1 x2], a as [a1 a2]. unfold lt_item, py_tuple_lt, cmp_item, cmp_pair, lexc. cbn [neqb nltb ZNum fst snd].
  destruct (Z.eqb_spec x1 a1) as [E|E].
  - subst a1. rewrite Z.compare_refl. destruct (eq_pairs ZNum x2 a2) eqn:E2.
    + apply eq_pairs_true in E2. subst a2. rewrite (tc_refl cmp_lp tc_lp). reflexivity.
    + rewrite list_lt_cmp. reflexivity.
  - destruct (Z.compare_spec x1 a1); destruct (Z.ltb_spec x1 a1); try lia; reflexivity.
Qed.

(* ------------------------------------------------------------------ sorted lists are fixed by isort; reversing an ascending list *)
Section Sorted.
  Context {A : Type}.
  Fixpoint ssorted (le : A -> A -> bool) (l : list A) : Prop :=
    match l with [] => True | a :: r => Forall (fun b => le a b = true) r /\ ssorted le r end.

  Lemma ssorted_fix le : forall l, ssorted le l -> isort le l = l.
  Proof.
    induction l as [|a r IH]; intros H; [reflexivity|]. destruct H as (Ha & Hr). cbn [isort]. rewrite (IH Hr).
    destruct r as [|b r']; [reflexivity|]. cbn [insert]. inversion Ha as [|? ? Hab _]; subst. rewrite Hab. reflexivity.
  Qed.

  Lemma insert_ssorted le (G : GoodLe le) a : forall l, ssorted le l -> ssorted le (insert le a l).
  Proof.
    induction l as [|x r IH]; intros H; [cbn; split; [constructor | exact I]|]. destruct H as (Hx & Hr). cbn [insert].
    destruct (le a x) eqn:E.
    - cbn [ssorted]. split; [|split; assumption]. constructor; [exact E|]. rewrite Forall_forall in *. intros b Hb.
      apply (gl_trans le G a x b E). apply Hx. exact Hb.
    - cbn [ssorted]. split; [|apply IH; exact Hr]. rewrite Forall_forall in *. intros b Hb.
      apply (Permutation_in _ (insert_perm le a r)) in Hb. destruct Hb as [<-|Hb]; [apply (gl_total le G); exact E | apply Hx; exact Hb].
  Qed.
  Lemma isort_ssorted le (G : GoodLe le) : forall l, ssorted le (isort le l).
  Proof. induction l as [|a r IH]; [exact I|]. cbn [isort]. apply insert_ssorted; assumption. Qed.

  Lemma ssorted_app le : forall l1 l2, ssorted le l1 -> ssorted le l2 -> (forall x y, In x l1 -> In y l2 -> le x y = true) -> ssorted le (l1 ++ l2).
  Proof.
    induction l1 as [|a r IH]; intros l2 H1 H2 H; [exact H2|]. destruct H1 as (Ha & Hr). cbn [app ssorted]. split.
    - apply Forall_app. split; [exact Ha|]. rewrite Forall_forall. intros y Hy. apply H; [left; reflexivity | exact Hy].
    - apply IH; [exact Hr | exact H2 | intros x y Hx Hy; apply H; [right; exact Hx | exact Hy]].
  Qed.
  Lemma ssorted_rev le : forall l, ssorted le l -> ssorted (fun a b => le b a) (rev l).
  Proof.
    induction l as [|a r IH]; intros H; [exact I|]. destruct H as (Ha & Hr). cbn [rev]. apply ssorted_app; [apply IH; exact Hr | cbn; split; [constructor | exact I]|].
    intros x y Hx [<-|[]]. apply in_rev in Hx. rewrite Forall_forall in Ha. apply Ha. exact Hx.
  Qed.
  Lemma ssorted_ext le le' l : (forall a b, le a b = le' a b) -> ssorted le l -> ssorted le' l.
  Proof.
    intros E. induction l as [|a r IH]; intros H; [exact I|]. destruct H as (Ha & Hr). split; [|apply IH; exact Hr].
    rewrite Forall_forall in *. intros b Hb. rewrite <- E. apply Ha. exact Hb.
  Qed.
End Sorted.

Lemma rev_isort {A} (c : A -> A -> comparison) (T : TotalCmp c) l : rev (isort (leb_of c) l) = isort (geb_of c) l.
Proof.
  assert (P : Permutation l (rev (isort (leb_of c) l))).
  { eapply perm_trans; [|apply Permutation_rev]. symmetry. apply isort_perm. }
  rewrite (isort_perm_eq (geb_of c) (good_geb c T) _ _ P). symmetry. apply ssorted_fix.
  apply (ssorted_ext (fun a b => leb_of c b a)).
  - intros a b. unfold leb_of, geb_of. rewrite (tc_opp c T a b). destruct (c a b); reflexivity.
  - apply ssorted_rev. apply isort_ssorted. apply good_leb. exact T.
Qed.

Lemma sort_rev_is_model (l : list Parallel.item) : py_sort_rev (lt_item ZNum) l = sort_desc l.
Proof.
  unfold py_sort_rev, sort_desc. rewrite (py_sort_isort (lt_item ZNum) (leb_of cmp_item)).
  - transitivity (rev (isort (leb_of cmp_item) l)); [|apply rev_isort; exact tc_item].
    f_equal. apply (isort_perm_eq (leb_of cmp_item) (good_leb cmp_item tc_item)). symmetry. apply Permutation_rev.
  - intros x y. rewrite lt_item_cmp. unfold leb_of. rewrite (tc_opp cmp_item tc_item x y). destruct (cmp_item x y); reflexivity.
Qed.

(* ------------------------------------------------------------------ paths: node lists vs (source, latency) lists *)
Definition znodes (p : Parallel.path) (t : Z) : list Z := map fst p ++ [t].
Fixpoint zlat_along (lat : Z -> Z -> pres Z) (p : Parallel.path) (t : Z) : Prop :=
  match p with
  | [] => True
  | e :: r => lat (fst e) (match r with [] => t | e' :: _ => fst e' end) = POk (snd e) /\ zlat_along lat r t
  end.

Lemma znodes_cons e r t : znodes (e :: r) t = fst e :: znodes r t.
Proof. reflexivity. Qed.

Lemma zwalk lat off : forall (p : Parallel.path) t d0 lp, zlat_along lat p t ->
  py_for (py_pairwise (znodes p t)) (d0, lp) (step_edge lat off) =
  POk (match p with [] => d0 | _ :: _ => Some t end, lp ++ map (mapback off) p).
Proof.
  induction p as [|e r IH]; intros t d0 lp H.
  - cbn. rewrite app_nil_r. reflexivity.
  - destruct H as (Hw & Hr). destruct r as [|e' r'].
    + cbn [znodes map app fst py_pairwise py_for]. unfold step_edge at 1. cbn [fst snd]. rewrite Hw. cbn [pbind map snd fst].
      unfold mapback, zback. reflexivity.
    + specialize (IH t (Some (fst e')) (lp ++ [(zback off (fst e), snd e)]) Hr).
      change (znodes (e :: e' :: r') t) with (fst e :: fst e' :: znodes r' t).
      change (py_pairwise (fst e :: fst e' :: znodes r' t)) with ((fst e, fst e') :: py_pairwise (fst e' :: znodes r' t)).
      change (fst e' :: znodes r' t) with (znodes (e' :: r') t).
      cbn [py_for]. unfold step_edge at 1. cbn [fst snd]. rewrite Hw. cbn [pbind]. rewrite IH.
      cbn [map]. rewrite <- app_assoc. unfold mapback at 2, zback. reflexivity.
Qed.

(* lat_sum of the code (the loop over the sorted lat_path) is Model/Parallel's lat_sum of that list *)
Lemma sum_sorted_is_model (lp : list Parallel.edge) : sum_sorted ZNum lp = lat_sum lp.
Proof. reflexivity. Qed.

Lemma mem_is_model lp seen : py_set_mem (eq_pairs ZNum) lp seen = mem_lp lp seen.
Proof.
  unfold py_set_mem, mem_lp. induction seen as [|s seen IH]; [reflexivity|]. cbn [existsb]. rewrite IH. f_equal.
  destruct (eq_pairs ZNum lp s) eqn:E1, (eqb_of cmp_lp lp s) eqn:E2; try reflexivity.
  - apply eq_pairs_true in E1. subst. assert (eqb_of cmp_lp s s = true) by (apply (eqb_of_true cmp_lp tc_lp); reflexivity). congruence.
  - apply (eqb_of_true cmp_lp tc_lp) in E2. subst. assert (eq_pairs ZNum s s = true) by (apply eq_pairs_true; reflexivity). congruence.
Qed.

Definition zall_nodes (ps : list (Parallel.path * Z)) : list (list Z) := map (fun pt => znodes (fst pt) (snd pt)) ps.

Lemma zdedup_loop lat off : forall (ps : list (Parallel.path * Z)) d0 seen deps0,
  (forall p t, In (p, t) ps -> p <> [] /\ zlat_along lat p t) ->
  exists d' seen', py_for (zall_nodes ps) (d0, seen, deps0) (step_path ZNum lat off) = POk (d', seen', deps0 ++ Parallel.dedup off seen (map fst ps)).
Proof.
  induction ps as [|[p t] ps IH]; intros d0 seen deps0 H.
  - eexists _, _. cbn. rewrite app_nil_r. reflexivity.
  - destruct (H p t (or_introl eq_refl)) as (Hne & Hlat).
    assert (H' : forall p t, In (p, t) ps -> p <> [] /\ zlat_along lat p t) by (intros; apply H; right; assumption).
    unfold zall_nodes. cbn [map py_for fst snd]. unfold step_path at 1. cbn [fst snd].
    rewrite (zwalk lat off p t d0 [] Hlat). cbn [pbind fst snd app].
    assert (Eb : py_bound (match p with [] => d0 | _ :: _ => Some t end) = POk t) by (destruct p; [congruence | reflexivity]).
    rewrite Eb. cbn [pbind]. rewrite lat_path_is_model, mem_is_model, sum_sorted_is_model. cbn [Parallel.dedup]. fold (zall_nodes ps).
    destruct (mem_lp (lat_path off p) seen).
    + apply IH. exact H'.
    + unfold py_set_add. destruct (IH (Some (zback off t)) (lat_path off p :: seen) (deps0 ++ [(lat_sum (lat_path off p), lat_path off p)]) H') as (d' & seen' & E).
      exists d', seen'. cbn [pbind]. rewrite <- app_assoc in E. cbn [app] in E. exact E.
Qed.

(* THE POST-PROCESSING OVER INTEGER LATENCIES IS Model/Parallel.v'S dedup + sort_desc, then the dictionary of the code *)
Theorem post_model_is_parallel {I} (get : I -> Z) heap lat off (ps : list (Parallel.path * Z)) :
  (forall p t, In (p, t) ps -> p <> [] /\ zlat_along lat p t) ->
  post_model ZNum get lat heap off (zall_nodes ps) [] = dict_of get heap (sort_desc (Parallel.dedup off [] (map fst ps))).
Proof.
  intros H. unfold post_model, dedup_model. destruct (zdedup_loop lat off ps None [] [] H) as (d' & seen' & E). rewrite E. cbn [pbind snd app].
  rewrite sort_rev_is_model. reflexivity.
Qed.

(* ... hence independent of the order in which the paths arrive (C16: worker scheduling, worker count) *)
Theorem post_model_perm_invariant {I} (get : I -> Z) heap lat off (ps ps' : list (Parallel.path * Z)) :
  (forall p t, In (p, t) ps -> p <> [] /\ zlat_along lat p t) -> Permutation ps ps' ->
  post_model ZNum get lat heap off (zall_nodes ps) [] = post_model ZNum get lat heap off (zall_nodes ps') [].
Proof.
  intros H P. assert (H' : forall p t, In (p, t) ps' -> p <> [] /\ zlat_along lat p t).
  { intros p t Hin. apply H. apply (Permutation_in _ (Permutation_sym P)). exact Hin. }
  rewrite (post_model_is_parallel get heap lat off ps H), (post_model_is_parallel get heap lat off ps' H'). f_equal.
  unfold sort_desc. apply (isort_perm_eq (geb_of cmp_item) (good_geb cmp_item tc_item)). apply dedup_perm. apply Permutation_map. exact P.
Qed.

(* every worker appends one block of paths per instruction of its section, the blocks of the workers arrive interleaved in any order
   (Model/Parallel.Interleave): the result is the one of the blocks taken worker by worker *)
Corollary post_model_any_interleaving {I} (get : I -> Z) heap lat off (workers : list (list (list (Parallel.path * Z)))) (arrived : list (list (Parallel.path * Z))) :
  (forall p t, In (p, t) (List.concat arrived) -> p <> [] /\ zlat_along lat p t) ->
  Interleave workers arrived ->
  post_model ZNum get lat heap off (zall_nodes (List.concat arrived)) [] = post_model ZNum get lat heap off (zall_nodes (List.concat (List.concat workers))) [].
Proof.
  intros H Hi. apply post_model_perm_invariant; [exact H|]. apply concat_perm. apply interleave_perm. exact Hi.
Qed.
