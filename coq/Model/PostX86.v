(* C09 -- the two ends of the POST-PROCESSING stage of parser_x86att.py for the operand forms the property names:
   registers (with an opmask), immediates (decimal, hex, negative), identifiers, memory references (displacement, base, index,
   scale, opmask) and the bare absolute address.  Executable, no proofs.
     xwop      the operand AS WRITTEN (numerals as digit strings: Model/SyntaxA64.v numeral)
     grx_op    GRAMMAR RESULT: the dict pyparsing's `.asDict()` returns for it (validated against real pyparsing output on the
               generated lines of every run, harness/parsepost_tie.py x86 stage a)
     den_xwop  its meaning in the hand model's AST (Model/ParseX86.v operand, the code's view `code_view`); compared with the
               generated AST on every generated line
     embx_op   EMBEDDING of a hand-model operand as the Python object the implementation returns (class, every instance attribute)
   Not covered here (translated + evaluated only): segment overrides, `*` forms, relocations (name@REL+off), numeric labels. *)
From Coq Require Import String Ascii List Bool ZArith NArith.
From OV Require Import Model.PyString Model.PyDyn Model.PyPost Model.LexA64 Model.ParseA64 Model.SyntaxA64 Model.PostA64.
From OV Require Model.ParseX86.
Import ListNotations.
Open Scope string_scope.

Inductive xdisp := XDNone | XDInt (n : numeral) | XDId (name : string).
Inductive xwop :=
| XReg (name : string) (mask : option (string * bool))            (* %zmm3  %zmm3{%k1}  %zmm3{%k1}{z} *)
| XImm (n : numeral)                                              (* $12 $-0x1F *)
| XIdent (imm : bool) (name : string)                             (* foo / $foo *)
| XMem (d : xdisp) (base index : option string) (scale : option numeral) (mask : option string)   (* d(b,i,s){%k} *)
| XAbs (n : numeral).                                             (* 1234 : absolute address *)

Definition xwop_okb (o : xwop) : bool :=
  match o with
  | XReg _ _ => true
  | XImm n => num_okb n
  | XIdent _ _ => true
  | XMem d b i sc _ =>
    (match d with XDInt n => num_okb n | _ => true end) && (match sc with Some n => num_okb n | None => true end)
    && (match b, i with None, None => false | _, _ => true end)
  | XAbs n => num_okb n
  end.

(* ------------------------------------------------------------------ grammar result *)
Definition xname (r : string) : pyval := PDict [("name", PStr r)].
Definition optl {A} (o : option A) (f : A -> list (string * pyval)) : list (string * pyval) :=
  match o with Some x => f x | None => [] end.
Definition grx_disp (d : xdisp) : list (string * pyval) :=
  match d with
  | XDNone => []
  | XDInt n => [("offset", PDict [("value", PStr (num_word n))])]
  | XDId name => [("offset", PDict [("identifier", xname name)])]
  end.
Definition grx_op (o : xwop) : pyval :=
  match o with
  | XReg n m =>
    PDict [("register", PDict (("name", PStr n) ::
             optl m (fun kz => ("mask", PStr (fst kz)) :: (if snd kz then [("zeroing", PStr "z")] else []))))]
  | XImm n => PDict [("immediate", PDict [("value", PStr (num_word n))])]
  | XIdent true name => PDict [("immediate", PDict [("identifier", xname name)])]
  | XIdent false name => PDict [("identifier", xname name)]
  | XMem d b i sc k =>
    PDict [("memory", PDict (grx_disp d ++ optl b (fun r => [("base", xname r)]) ++ optl i (fun r => [("index", xname r)])
                             ++ optl sc (fun n => [("scale", PStr (num_word n))]) ++ optl k (fun m => [("mask", PStr m)]))%list)]
  (* the hexadecimal alternative of the grammar is a named result ("value") of its own, left behind in the group *)
  | XAbs n => PDict [("memory", PDict ((if n_hex n then [("value", PStr (num_word n))] else []) ++ [("offset", PStr (num_word n))])%list)]
  end.

(* ------------------------------------------------------------------ meaning (the code's view) *)
Definition den_xwop (o : xwop) : ParseX86.operand :=
  match o with
  | XReg n _ => ParseX86.OReg n
  | XImm n => ParseX86.OImm (num_value n)
  | XIdent _ name => ParseX86.OId name
  | XMem d b i sc _ =>
    ParseX86.OMem (match d with XDNone => ParseX86.DNone | XDInt n => ParseX86.DInt (num_value n) | XDId s => ParseX86.DId s end)
                  b i (match sc with Some n => num_value n | None => 1%Z end)
  | XAbs n => ParseX86.OMem (ParseX86.DInt (num_value n)) None None 1%Z
  end.

(* ------------------------------------------------------------------ embedding *)
Definition xreg (n : string) : pyval := mk_reg (PStr n) PNone PNone PNone PNone PNone fF fF.
Definition oreg (r : option string) : pyval := match r with Some n => xreg n | None => PNone end.
Definition mk_xmem (offset base index scale segment : pyval) : pyval :=
  PObj "MemoryOperand" 0
    [("_source", fF); ("_destination", fF); ("_offset", offset); ("_base", base); ("_index", index); ("_scale", scale);
     ("_segment_ext", segment); ("_mask", PNone); ("_pre_indexed", fF); ("_post_indexed", fF);
     ("_indexed_val", PNone); ("_src", PNone); ("_dst", PNone)].
Definition embx_disp (d : ParseX86.disp) : pyval :=
  match d with
  | ParseX86.DNone => PNone
  | ParseX86.DInt z => mk_imm PNone (PInt z)
  | ParseX86.DId n => mk_ident n
  | ParseX86.DIdR n _ _ => mk_ident n
  end.
(* forms outside this file's coverage embed as None (no theorem mentions them) *)
Definition embx_op (o : ParseX86.operand) : pyval :=
  match o with
  | ParseX86.OReg n => xreg n
  | ParseX86.OImm z => mk_imm PNone (PInt z)
  | ParseX86.OId n => mk_ident n
  | ParseX86.OMem d b i sc => mk_xmem (embx_disp d) (oreg b) (oreg i) (PInt sc) PNone
  | _ => PNone
  end.

(* ------------------------------------------------------------------ lines *)
(* A line as the grammar stage sees it.  Free (delivered by the grammar, not described by the hand model): the words of a
   comment, the parameters and further keys of a directive group. *)
Inductive xline :=
| XLComment (ws : list string)
| XLLabel (name : string) (c : option (list string))
| XLDirective (name : string) (params : pyval) (more : list (string * pyval)) (c : option (list string))
| XLInstr (mn : string) (ops : list xwop) (c : option (list string)).

Definition xline_okb (l : xline) : bool :=
  match l with
  | XLDirective _ _ more _ => forallb (fun kv => negb (existsb (String.eqb (fst kv)) ["name"; "parameters"; "comment"])) more
  | XLInstr _ ops _ => Nat.leb (length ops) 4 && forallb xwop_okb ops
  | _ => true
  end.

Definition grx_comment (c : option (list string)) : list (string * pyval) :=
  match c with None => [] | Some ws => [("comment", PList (map PStr ws))] end.
Fixpoint grx_operands (k : nat) (ops : list xwop) : list (string * pyval) :=
  match ops with [] => [] | o :: r => ("operand" ++ nat_str k, grx_op o) :: grx_operands (S k) r end.
Definition grx_instr (mn : string) (ops : list xwop) (c : option (list string)) : pyval :=
  PDict ([("mnemonic", PStr mn)] ++ grx_operands 1 ops ++ grx_comment c)%list.
(* parse_line tries comment, label, directive, instruction_parser in this order and stops at the first that accepts the line;
   what a later element would say is not part of the stage (Unmodelled) *)
Definition grx_stage (l : xline) (elem : string) (arg : pyval) : res pyval :=
  let is k := key_eqb elem k in
  match l with
  | XLComment ws => if is "comment" then Ok (PDict (grx_comment (Some ws))) else Raise Unmodelled
  | XLLabel n c =>
    if is "label" then Ok (PDict [("label", PDict ([("identifier", xname n); ("name", PList [xname n])] ++ grx_comment c)%list)])
    else if is "comment" then Raise ParseException else Raise Unmodelled
  | XLDirective n params more c =>
    if is "directive" then Ok (PDict [("directive", PDict ([("name", PStr n); ("parameters", params)] ++ more ++ grx_comment c)%list)])
    else if is "comment" || is "label" then Raise ParseException else Raise Unmodelled
  | XLInstr mn ops c =>
    if is "instruction_parser" then Ok (grx_instr mn ops c)
    else if is "comment" || is "label" || is "directive" then Raise ParseException else Raise Unmodelled
  end.

(* result["mnemonic"].split(",")[0] *)
Definition mnem_head (mn : string) : string := hd "" (split_char ","%char mn).
Definition den_xline (l : xline) : ParseX86.pline :=
  match l with
  | XLComment _ => ParseX86.PComment
  | XLLabel n _ => ParseX86.PLabel n
  | XLDirective n _ _ _ => ParseX86.PDirective n
  | XLInstr mn ops _ => ParseX86.PInstr (mnem_head mn) (map den_xwop ops)
  end.

Definition ocomment (c : option (list string)) : pyval := match c with None => PNone | Some ws => PStr (String.concat " " ws) end.
(* the InstructionForm parse_line returns: the hand model's meaning (den_xline) + the free parts *)
Definition embx_form (l : xline) (line number : pyval) : pyval :=
  match den_xline l with
  | ParseX86.PComment => mk_form PNone (PList []) PNone (match l with XLComment ws => ocomment (Some ws) | _ => PNone end) PNone line number
  | ParseX86.PLabel n => mk_form PNone (PList []) PNone (match l with XLLabel _ c => ocomment c | _ => PNone end) (PStr n) line number
  | ParseX86.PDirective n =>
    mk_form PNone (PList []) (match l with XLDirective _ ps _ _ => mk_directive n ps | _ => PNone end)
            (match l with XLDirective _ _ _ c => ocomment c | _ => PNone end) PNone line number
  | ParseX86.PInstr m ops =>
    mk_form (PStr m) (PList (map embx_op ops)) PNone (match l with XLInstr _ _ c => ocomment c | _ => PNone end) PNone line number
  end.
