(* KernelDG.create_DG as a function on the hand model's lines (Model/Deps.v), with networkx' DiGraph as the insertion-ordered
   container of Model/PyLcd.v -- the form in which PropsGen/C03dg.v states what the regenerated create_DG (Gen/DgGen.v)
   computes -- and the embedding of a line / a scan report into the value universe of Model/RolesDyn.v.
   Proofs/DgSpec.v relates `dg_build` to the edge list `create_dg` of Model/Deps.v.  No proofs in this file. *)
From Coq Require Import ZArith List Bool String.
From OV Require Import Model.Num Model.PyLcd Model.Deps Model.RolesDyn.
Import ListNotations.

Section DgSpec.
  Context {T : Type} (N : NumOps T) (dep : regop -> regop -> bool) (fwd pidx : T).
  Notation line := (line (T:=T)).

  Definition zline (n : nat) : node := Line (Z.of_nat n).
  Definition zload (n : nat) : node := Load (Z.of_nat n).

  (* one instruction form: its node, its load stage (node n + 0.1, edge to n weighted latency - latency_wo_load), then one
     add_edge per report of the scan over the instructions behind it, in the order of the reports *)
  Definition dg_reports (l : line) (reps : list (nat * dflag)) (g : nxg T) : nxg T :=
    fold_left (fun g0 r => nx_add_edge g0 (zline (l_no l)) (zline (fst r)) (edge_weight N fwd pidx l (snd r))) reps g.
  Definition dg_head (g : nxg T) (l : line) : nxg T :=
    let g1 := nx_add_node g (zline (l_no l)) in
    if l_loadnode l then nx_add_edge (nx_add_node g1 (zload (l_no l))) (zload (l_no l)) (zline (l_no l)) (nsub N (l_lat l) (l_lat_wo l))
    else g1.
  Definition dg_step (fd : bool) (g : nxg T) (l : line) (rest : list line) : nxg T :=
    dg_reports l (find_depending dep fd l rest) (dg_head g l).
  Fixpoint dg_build (fd : bool) (g : nxg T) (k : list line) : nxg T :=
    match k with [] => g | l :: rest => dg_build fd (dg_step fd g l rest) rest end.

  (* ---- embedding ---- *)
  (* fl: the flags of the line (INSTR_FLAGS strings); the model's l_loadnode abstracts
     `HAS_LD in flags and LD not in flags` *)
  Definition flags_ok (fl : line -> list string) : Prop :=
    forall l, l_loadnode l = andb (existsb (String.eqb "performs_load") (fl l)) (negb (existsb (String.eqb "is_load_instruction") (fl l))).
  Definition emb_dgline (fl : line -> list string) (l : line) : pv T :=
    VObj C_InstructionForm [(A_line_number, VInt (Z.of_nat (l_no l))); (A_flags, VList (map VStr (fl l)));
                            (A_latency, VNum (l_lat l)); (A_latency_wo_load, VNum (l_lat_wo l))].
  Definition emb_dflag (f : dflag) : pv T :=
    match f with FPlain => VList [] | FPIndexed => VList [VStr "p_indexed"] | FStoreLoad => VList [VStr "storeload_dep"] end.
  (* what find_depending yields: (instruction form, flags); create_DG reads the form's line number only *)
  Definition emb_rep (obj : nat -> pv T) (r : nat * dflag) : pv T := VTuple [obj (fst r); emb_dflag (snd r)].
  Definition emb_model : pv T := VDict [("store_to_load_forward_latency"%string, VNum fwd); ("p_index_latency"%string, VNum pidx)].
End DgSpec.
