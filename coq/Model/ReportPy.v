(* C13, translation tie: the Python-object representation and the prelude of Python constructs used by the
   definitions that tools/gen_c13.py REGENERATES from the current source of osaca/frontend.py (Gen/ReportGen.v).
   Everything here is hand-written once and is independent of frontend.py's text; the lemmas that relate the prelude
   to Model/Report.v live in Proofs/ReportPy.v.  No proofs in this file.

   Representation (stated as trusted in the evidence):
   * an instruction form is a record of the attributes the frontend reads (pyline); flags is the Python list of
     flag strings; mnemonic / comment are represented by "is not None";
   * the result of KernelDG.get_loopcarried_dependencies() is the dict in insertion order, string keys (pylcd values);
   * a float is a binary64 (PrimFloat); `x == 0.0` is f_is_zero, `a < b` on floats is the order of the exact values
     (finite doubles); repr(float) is a PARAMETER of the generated definitions (py_repr), never computed here;
   * str is a byte string (ASCII text). *)
From Coq Require Import ZArith List Bool String Ascii Arith.
From Coq Require Import PrimFloat.
From OV Require Import Model.Num Model.Fmt Model.PyString Model.Pressure Model.Report.
Import ListNotations.
Open Scope string_scope.

(* ------------------------------------------------------------------ Python objects *)
Record pyline := {
  p_num : Z;                              (* line_number *)
  p_press : list float;                   (* port_pressure *)
  p_uops : list (float * list string);    (* port_uops: (cycles, ports) *)
  p_flags : list string;                  (* flags (INSTR_FLAGS values) *)
  p_mnemonic : bool;                      (* mnemonic is not None *)
  p_comment : bool;                       (* comment is not None *)
  p_line : string;                        (* line *)
  p_latency : float;
  p_lat_cp : float;                       (* latency_cp *)
  p_lat_lcd : float;                      (* latency_lcd *)
  p_tp : float                            (* throughput *)
}.
Definition set_lat_lcd (x : pyline) (v : float) : pyline :=
  {| p_num := p_num x; p_press := p_press x; p_uops := p_uops x; p_flags := p_flags x; p_mnemonic := p_mnemonic x;
     p_comment := p_comment x; p_line := p_line x; p_latency := p_latency x; p_lat_cp := p_lat_cp x; p_lat_lcd := v;
     p_tp := p_tp x |}.

Record pylcd := { pl_root : pyline; pl_deps : list (pyline * float); pl_latency : float }.

(* a value that is a str or a float (lat_cp = "" ... lat_cp = float(...)) *)
Inductive pysn := SNstr (s : string) | SNnum (x : float).
(* a value that is a str or a list of str (the separator parameter of _get_port_pressure) *)
Inductive pystrs := SStr (s : string) | SList (l : list string).

(* the part of full_analysis_dict's result that Model/Report.v models *)
Record pydline := { pd_num : Z; pd_flags : list string; pd_lat_cp : float; pd_lat_lcd : float; pd_tp : float;
                    pd_press : list (string * float) }.
Record pyddict := { pdd_warnings : list string; pdd_kernel : list pydline; pdd_sum_press : list (string * float);
                    pdd_cp : float; pdd_lcd : float }.

(* ------------------------------------------------------------------ control *)
(* for x in l: s = f x s   (monadic left fold; shadows PyString.py_for, which is py2coq's early-exit loop) *)
Fixpoint py_for {A S} (l : list A) (s : S) (f : A -> S -> res S) : res S :=
  match l with [] => Ok s | x :: r => s' <- f x s ;; py_for r s' f end.
(* [f(x) for x in l] where f may raise *)
Fixpoint py_mapM {A B} (f : A -> res B) (l : list A) : res (list B) :=
  match l with [] => Ok [] | x :: r => y <- f x ;; ys <- py_mapM f r ;; Ok (y :: ys) end.

(* ------------------------------------------------------------------ lists, ints *)
Definition py_len {A} (l : list A) : Z := Z.of_nat (List.length l).
Definition py_enumerate {A} (l : list A) : list (nat * A) := combine (seq 0 (List.length l)) l.
Definition py_range_len {A} (l : list A) : list nat := seq 0 (List.length l).      (* range(len(l)) *)
Definition py_sum_Z (l : list Z) : Z := fold_left Z.add l 0%Z.
Definition py_list_truth {A} (l : list A) : bool := match l with [] => false | _ => true end.
(* l[-1]: IndexError on the empty list *)
Definition py_last_res {A} (l : list A) : res A :=
  match rev l with x :: _ => Ok x | [] => Err EIndex end.
Definition py_in_Z (n : Z) (l : list Z) : bool := existsb (Z.eqb n) l.
(* a value that may be None: attribute access on None raises (AttributeError, reported as EType) *)
Definition py_opt_res {A} (o : option A) : res A := match o with Some x => Ok x | None => Err EType end.
(* truthiness / payload of `list or None` *)
Definition py_optlist_truth {A} (o : option (list A)) : bool := match o with Some (_ :: _) => true | _ => false end.
Definition py_optlist_val {A} (o : option (list A)) : list A := match o with Some l => l | None => [] end.

(* ------------------------------------------------------------------ strings *)
Definition py_len_str (s : string) : Z := Z.of_nat (String.length s).
Fixpoint str_repeat (s : string) (n : nat) : string := match n with O => "" | S k => s ++ str_repeat s k end.
Definition py_str_mul (s : string) (n : Z) : string := str_repeat s (Z.to_nat n).      (* s * n, "" for n <= 0 *)
Definition py_str_Z (z : Z) : string := if (z <? 0)%Z then "-" ++ int_digits (- z) else int_digits z.     (* str(int) *)
(* s.split(c)[0]: the text before the first c (all of s if there is none) *)
Fixpoint py_split_first (c : ascii) (s : string) : string :=
  match s with
  | EmptyString => EmptyString
  | String d r => if Ascii.eqb d c then EmptyString else String d (py_split_first c r)
  end.
Definition is_py_space (c : ascii) : bool :=
  let n := nat_of_ascii c in orb (Nat.eqb n 32) (andb (9 <=? n)%nat (n <=? 13)%nat) || andb (28 <=? n)%nat (n <=? 31)%nat.
Fixpoint py_lstrip (s : string) : string :=
  match s with EmptyString => EmptyString | String c r => if is_py_space c then py_lstrip r else s end.
Fixpoint py_rstrip (s : string) : string :=
  match s with
  | EmptyString => EmptyString
  | String c r => match py_rstrip r with
                  | EmptyString => if is_py_space c then EmptyString else String c EmptyString
                  | r' => String c r'
                  end
  end.
Definition py_strip (s : string) : string := py_rstrip (py_lstrip s).
Fixpoint py_replace_char (a : ascii) (b : string) (s : string) : string :=       (* s.replace(a, b), a one character *)
  match s with EmptyString => EmptyString | String c r => (if Ascii.eqb c a then b else String c EmptyString) ++ py_replace_char a b r end.
(* str(list of int) *)
Fixpoint py_join (sep : string) (l : list string) : string :=
  match l with [] => "" | [x] => x | x :: r => x ++ sep ++ py_join sep r end.
Definition py_str_list_Z (l : list Z) : string := "[" ++ py_join ", " (map py_str_Z l) ++ "]".

(* ------------------------------------------------------------------ str.format: alignment and the specs we model *)
Definition spaces (n : nat) : string := str_repeat " " n.
Definition py_rjust (w : Z) (s : string) : string := spaces (Z.to_nat w - String.length s) ++ s.       (* '>' *)
Definition py_ljust (w : Z) (s : string) : string := s ++ spaces (Z.to_nat w - String.length s).       (* '<' *)
Definition py_center (w : Z) (s : string) : string :=                                                   (* '^' *)
  let pad := (Z.to_nat w - String.length s)%nat in
  spaces (pad / 2) ++ s ++ spaces (pad - pad / 2).
(* '{:W.Pf}'.format(x), W >= 0, P >= 0 *)
Definition py_fmt_f (w p : Z) (x : float) : string := py_rjust w (fmt_fixed (Z.to_nat p) x).
(* '{:Wd}'.format(n) *)
Definition py_fmt_d (w : Z) (n : Z) : string := py_rjust w (py_str_Z n).
Definition py_sn_str (repr : float -> string) (v : pysn) : string := match v with SNstr s => s | SNnum x => repr x end.

(* ------------------------------------------------------------------ floats *)
Definition py_float_eq0 (x : float) : bool := f_is_zero x.                   (* x == 0.0 *)
Definition py_float_lt (a b : float) : bool := f_ltb_exact a b.              (* a < b, finite doubles *)

(* ------------------------------------------------------------------ dicts *)
(* d[k], string keys: KeyError when absent *)
Fixpoint py_dict_get_str {V} (d : list (string * V)) (k : string) : res V :=
  match d with [] => Err EKey | (k', v) :: r => if String.eqb k' k then Ok v else py_dict_get_str r k end.
(* {k: v for ...}.get(n) on the list of the comprehension's (k, v) pairs: the last binding wins *)
Fixpoint py_dictZ_get {V} (d : list (Z * V)) (n : Z) : option V :=
  match d with
  | [] => None
  | (k, v) :: r => match py_dictZ_get r n with Some w => Some w | None => if Z.eqb k n then Some v else None end
  end.
(* max(l, key=f): the first element with the largest key; ValueError on the empty sequence *)
Fixpoint py_max_go {A} (key : A -> res float) (l : list A) (best : A) (kbest : float) : res A :=
  match l with
  | [] => Ok best
  | x :: r => kx <- key x ;; if py_float_lt kbest kx then py_max_go key r x kx else py_max_go key r best kbest
  end.
Definition py_max_by {A} (l : list A) (key : A -> res float) : res A :=
  match l with [] => Err EValue | x :: r => kx <- key x ;; py_max_go key r x kx end.
(* {ports[i]: v for i, v in enumerate(vs)}: IndexError when vs is longer than ports *)
Fixpoint py_zip_ports (ports : list string) (vs : list float) : res (list (string * float)) :=
  match vs, ports with
  | [], _ => Ok []
  | _ :: _, [] => Err EIndex
  | v :: vr, p :: pr => r <- py_zip_ports pr vr ;; Ok ((p, v) :: r)
  end.
Definition py_optnum_val (o : option float) : float := match o with Some x => x | None => 0%float end.

(* ArchSemantics.get_throughput_sum(kernel) on the objects above: Model/Report.v's throughput_sum (the function itself is
   translated and proved by C01's tie, PropsGen/C01gen.v); never raises *)
Definition py_throughput_sum (k : list pyline) : list float :=
  map (fun col => f_round2 (f_sum col)) (zip_cols (map p_press (filter (fun l => negb (f_is_zero (p_tp l))) k))).

(* ------------------------------------------------------------------ from the Python objects to Model/Report.v's inputs *)
Definition flagset_of (l : list string) : flagset :=
  {| fl_tp_unkwn := py_in_list "tp_unknown" l; fl_lt_unkwn := py_in_list "lt_unknown" l;
     fl_not_bound := py_in_list "not_bound" l; fl_hidden_ld := py_in_list "hidden_load" l;
     fl_ld := py_in_list "is_load_instruction" l; fl_has_ld := py_in_list "performs_load" l;
     fl_has_st := py_in_list "performs_store" l |}.
Definition used_of (x : pyline) : list string := flat_map (fun u => snd u) (p_uops x).
Definition aline_of (x : pyline) : aline :=
  {| l_num := p_num x; l_press := p_press x; l_used := used_of x; l_tp := p_tp x; l_lat_cp := p_lat_cp x;
     l_flags := flagset_of (p_flags x); l_instr := p_mnemonic x |}.
Definition cp_entry_of (x : pyline) : cp_entry := {| cp_num := p_num x; cp_lat := p_lat_cp x |}.
Definition lcd_entry_of (e : pylcd) : lcd_entry :=
  {| lcd_lat := pl_latency e; lcd_deps := map (fun '(x, lat) => (p_num x, lat)) (pl_deps e) |}.
Definition analysis_of (ports : list string) (kernel cp : list pyline) (dep : list (string * pylcd)) (timed_out : bool) : analysis :=
  {| a_ports := ports; a_kernel := map aline_of kernel; a_cp := map cp_entry_of cp;
     a_lcd := map (fun p => lcd_entry_of (snd p)) dep; a_timed_out := timed_out |}.

(* ------------------------------------------------------------------ the text of the combined view as a function of the
   report STRUCTURE of Model/Report.v (rows of cells, summary row, warning count) and of layout-only data *)
(* a shown cell is printed without a blank before the column separator when no decimals fit ('{:.1f}{} ' branch) *)
Definition tight (plen : nat) (v : float) : bool := orb (plen - left_len v - 1 =? 0)%nat (negb (f_is_finite v)).
Definition cell_text (c : cell) (t : bool) (plen : nat) (sep : string) : string :=
  match c with
  | Blank => spaces plen ++ " " ++ sep ++ " "
  | Shown _ _ => render_cell c ++ (if t then "" else " ") ++ sep ++ " "
  end.
Fixpoint cells_text (cs : list cell) (ts : list bool) (plens : list nat) (seps : list string) : string :=
  match cs, ts, plens, seps with
  | c :: cs', t :: ts', n :: ns, s :: ss => cell_text c t n s ++ cells_text cs' ts' ns ss
  | _, _, _, _ => ""
  end.
Fixpoint tights (plens : list nat) (vs : list float) : list bool :=
  match plens, vs with n :: ns, v :: r => tight n v :: tights ns r | _, _ => [] end.
Definition press_line (cs : list cell) (ts : list bool) (plens : list nat) (seps : list string) : string :=
  py_slice_to_m1 (last seps "" ++ " " ++ cells_text cs ts plens seps).
Definition cell_str (repr : float -> string) (o : option float) : string := match o with Some v => repr v | None => "" end.
Definition lcdcp_text (repr : float -> string) (sep : string) (cp lcd : option float) : string :=
  sep ++ " " ++ py_rjust 4 (cell_str repr cp) ++ " " ++ sep ++ " " ++ py_rjust 4 (cell_str repr lcd) ++ " " ++ sep.
Definition line_text (x : pyline) : string := py_replace_char (ascii_of_nat 9) " " (py_strip (p_line x)).
(* one table row: the model's row w of the line x *)
Definition row_text (repr : float -> string) (plens : list nat) (seps : list string) (x : pyline) (w : row) : string :=
  py_fmt_d 4 (r_num w) ++ " " ++ press_line (r_press w) (tights plens (p_press x)) plens seps
  ++ lcdcp_text repr "|" (r_cp w) (r_lcd w) ++ " " ++ r_flags w ++ " " ++ line_text x ++ nl.
Definition missing_text (n : nat) : string :=
  "------------------ WARNING: The performance data for " ++ nat_string n ++ " instructions is missing.------------------" ++ nl
  ++ "                     No final analysis is given. If you want to ignore this" ++ nl
  ++ "                     warning and run the analysis anyway, start osaca with" ++ nl
  ++ "                                       --ignore-unknown flag." ++ nl
  ++ "------------------------------------------------------------------------------------------------"
  ++ str_repeat "-" (String.length (nat_string n)) ++ nl.

Definition dummy_line : pyline :=
  {| p_num := 0; p_press := []; p_uops := []; p_flags := []; p_mnemonic := false; p_comment := false; p_line := "";
     p_latency := 0; p_lat_cp := 0; p_lat_lcd := 0; p_tp := 0 |}.
Fixpoint zip_with {A B C} (f : A -> B -> C) (a : list A) (b : list B) : list C :=
  match a, b with x :: a', y :: b' => f x y :: zip_with f a' b' | _, _ => [] end.
Definition sconcat (l : list string) : string := fold_right append "" l.

(* title, centred headline, header line and rule: layout only (port_len, the last line number, the helper's port-name line) *)
Definition cv_head (plens : list Z) (lastnum : Z) (port_names : string) : string :=
  let sep0 := py_str_mul "-" (py_sum_Z (map (fun x => (x + 3)%Z) plens)) ++ "-"
              ++ "--" ++ py_str_mul "-" (py_len_str (py_str_Z lastnum)) ++ py_str_mul "-" 13 ++ py_str_mul "-" 1 ++ "--" in
  let port_line := "     " ++ port_names ++ "|" ++ py_center 6 "CP" ++ "|" ++ py_center 6 "LCD" ++ "|" in
  nl ++ nl ++ "Combined Analysis Report" ++ nl ++ "------------------------" ++ nl
  ++ py_center (py_len_str sep0) "Port pressure in cycles" ++ nl
  ++ port_line ++ nl ++ py_str_mul "-" (py_len_str port_line) ++ nl.

(* the summary row: the model's summary s; the CP total is printed as str(sum(...)) of the CP latencies *)
Definition summary_text (repr : float -> string) (str_sum : list float -> string) (plens : list nat) (totals cp_lats : list float)
                        (s : summary_row) : string :=
  "     " ++ press_line (s_press s) (tights plens totals) plens (map (fun _ => " ") totals)
  ++ " " ++ py_rjust 5 (str_sum cp_lats) ++ "  " ++ py_rjust 5 (repr (s_lcd s)) ++ "  " ++ nl.

(* the whole combined view as a function of the model's report r (rows, summary, warning count) *)
Definition cv_text (repr : float -> string) (str_sum : list float -> string) (seps : list string) (port_names : string)
                   (a : analysis) (kernel : list pyline) (r : report) : string :=
  cv_head (map Z.of_nat (port_lens a)) (p_num (last kernel dummy_line)) port_names
  ++ sconcat (zip_with (row_text repr (port_lens a) seps) kernel (rows r)) ++ nl
  ++ match summary r with
     | Some s => summary_text repr str_sum (port_lens a) (tp_sum (a_kernel a)) (map cp_lat (a_cp a)) s
     | None => missing_text (match w_missing (warns r) with Some n => n | None => 0%nat end)
     end.

(* ------------------------------------------------------------------ full_analysis_dict's modelled entries as Model/Report.v's dict *)
Definition dline_of_py (d : pydline) : dline :=
  {| d_num := pd_num d; d_press := map snd (pd_press d); d_lat_cp := pd_lat_cp d; d_lat_lcd := pd_lat_lcd d;
     d_flags := flagset_of (pd_flags d); d_tp := pd_tp d |}.
Definition ddict_of_py (d : pyddict) : ddict :=
  {| dd_warnings := pdd_warnings d; dd_kernel := map dline_of_py (pdd_kernel d); dd_sum_press := map snd (pdd_sum_press d);
     dd_cp := pdd_cp d; dd_lcd := pdd_lcd d |}.

(* ------------------------------------------------------------------ loopcarried_dependencies (the LCD list) *)
(* sorted(list of str): insertion sort by the byte order of Model/Report.v's str_leb (any sort agrees on distinct keys) *)
Fixpoint insert_str (x : string) (l : list string) : list string :=
  match l with [] => [x] | h :: t => if str_leb x h then x :: l else h :: insert_str x t end.
Definition py_sorted_str (l : list string) : list string := fold_right insert_str [] l.
(* int(s) for a string of decimal digits (what the keys of the LCD dict start with); anything else: ValueError *)
Fixpoint str_all_digits (s : string) : bool :=
  match s with EmptyString => true | String c r => andb (match digit_val c with Some _ => true | None => false end) (str_all_digits r) end.
Definition py_int_of_str (s : string) : res Z :=
  match s with
  | EmptyString => Err EValue
  | _ => if str_all_digits s then match read_go s 0 false 0 with Some (v, _) => Ok v | None => Err EValue end else Err EValue
  end.
Fixpoint insert_pair {V} (p : string * V) (l : list (string * V)) : list (string * V) :=
  match l with [] => [p] | h :: t => if str_leb (fst p) (fst h) then p :: l else h :: insert_pair p t end.
Definition sort_pairs {V} (l : list (string * V)) : list (string * V) := fold_right insert_pair [] l.

Definition lcd_head : string :=
  nl ++ nl ++ "Loop-Carried Dependencies Analysis Report" ++ nl ++ "-----------------------------------------" ++ nl.
(* one row of the list: the model's lcd_row w of the dependency whose root line is x *)
Definition lcd_row_text (sep : string) (x : pyline) (w : lcd_row) : string :=
  py_fmt_d 4 (lr_first w) ++ " " ++ sep ++ " " ++ py_fmt_f 4 1 (lr_lat w) ++ " " ++ sep ++ " "
  ++ py_ljust 36 (py_strip (p_line x)) ++ sep ++ " " ++ py_str_list_Z (lr_members w) ++ nl.

(* truthiness of `str or None` (args.arch, args.lines) *)
Definition py_optstr_truth (o : option string) : bool := match o with Some (String _ _) => true | _ => false end.
