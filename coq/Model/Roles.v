(* Role assignment (DESIGN.md C03): ISASemantics.assign_src_dst / _apply_found_ISA_data / default rules /
   AArch64 write-back post-processing / HAS_LD, HAS_ST.  Input: the parsed operands (each with the class of Python ==
   it belongs to, needed for the zero-idiom test) and the ISA entry the implementation's lookup selected (direct hit
   or register-form hit; None = no entry).  Output: the semantic operand sets consumed by Model/Deps.v.
   No proofs in this file. *)
From Coq Require Import List Bool String Arith.
From OV Require Import Model.Deps.
Import ListNotations.

Record isa_entry := mkE {
  e_roles : list (bool * bool);            (* per operand: source, destination *)
  e_hidden : list (opnd * (bool * bool));  (* hidden operands (flags, registers) with their roles *)
  e_idiom : bool }.                        (* breaks_dependency_on_equal_operands *)

Definition popnd := (opnd * nat)%type.      (* operand, class of == *)

(* operands[1:] == operands[:-1] *)
Fixpoint all_equal_keys (l : list popnd) : bool :=
  match l with
  | a :: ((b :: _) as r) => andb (Nat.eqb (snd a) (snd b)) (all_equal_keys r)
  | _ => true
  end.

Definition by_role (ops : list opnd) (roles : list (bool * bool)) (want : bool * bool -> bool) : list opnd :=
  map fst (filter (fun p => want (snd p)) (combine ops roles)).

Definition is_srcdst (r : bool * bool) : bool := andb (fst r) (snd r).
Definition is_src (r : bool * bool) : bool := andb (fst r) (negb (snd r)).
Definition is_dst (r : bool * bool) : bool := andb (negb (fst r)) (snd r).
(* hidden operands: src&dst -> src_dst, src -> source, everything else -> destination *)
Definition hid_dst (r : bool * bool) : bool := negb (fst r).

Definition apply_found (e : isa_entry) (ops : list popnd) : list opnd * list opnd * list opnd :=
  let o := map fst ops in
  if andb (e_idiom e) (all_equal_keys ops) then
    ([], o ++ map fst (e_hidden e), [])
  else
    let hs := map fst (e_hidden e) in let hr := map snd (e_hidden e) in
    (by_role o (e_roles e) is_src ++ by_role hs hr is_src,
     by_role o (e_roles e) is_dst ++ by_role hs hr hid_dst,
     by_role o (e_roles e) is_srcdst ++ by_role hs hr is_srcdst).

Definition default_roles (x86 : bool) (ops : list popnd) : list opnd * list opnd * list opnd :=
  let o := map fst ops in
  match o with
  | [a] => ([a], [], [])
  | _ => if x86 then (removelast o, match o with [] => [] | _ => [last o OOther] end, [])
         else (tl o, firstn 1 o, [])
  end.

(* AArch64: the base register of a pre/post-indexed memory operand is read and written *)
Definition writeback_bases (l : list opnd) : list opnd :=
  flat_map (fun o => match o with
                     | OMem m => if orb (m_pre m) (m_post m)
                                 then match m_base m with
                                      | Some b => [OReg (mkR (r_name b) (r_prefix b) true)]
                                      | None => []
                                      end
                                 else []
                     | _ => [] end) l.

(* the write-back flags are written onto the memory operand's own base-register object (it is the same Python object) *)
Definition mark_base (o : opnd) : opnd :=
  match o with
  | OMem m => if orb (m_pre m) (m_post m)
              then OMem (mkM (option_map (fun b => mkR (r_name b) (r_prefix b) true) (m_base m)) (m_index m) (m_scale m) (m_off m)
                             (m_pre m) (m_post m) (m_key m))
              else o
  | _ => o
  end.

Definition assign_roles (x86 : bool) (e : option isa_entry) (ops : list popnd) : list opnd * list opnd * list opnd :=
  let '(s, d, sd) := match e with Some en => apply_found en ops | None => default_roles x86 ops end in
  if x86 then (s, d, sd)
  else
    let sd1 := sd ++ writeback_bases s in
    (map mark_base s, map mark_base d, map mark_base (sd1 ++ writeback_bases (d ++ sd1))).

Definition has_mem (l : list opnd) : bool := existsb (fun o => match o with OMem _ => true | _ => false end) l.
Definition has_load (r : list opnd * list opnd * list opnd) : bool := let '(s, _, sd) := r in has_mem (s ++ sd).
Definition has_store (r : list opnd * list opnd * list opnd) : bool := let '(_, d, sd) := r in has_mem (d ++ sd).
