(* C11 -- Python prelude of the translation of osaca/semantics/marker_utils.py
   (tools/gen_c11b.py -> Gen/MarkerGen.v).  Executable definitions only, no proofs.

   Every translated function lives in the error monad [res]; Python exceptions are explicit error values.
   Lines are values of Model/Select.v's [line] type (the typed image of InstructionForm: mnemonic, operands,
   directive, comment, line_number); where Python's dynamic typing matters the case split is explicit here:
     x[i] on a list            -> py_getitem   (negative indices wrap, IndexError outside)
     x[a:b] on a list          -> py_slice     (clamping, negative bounds from the end)
     d[k] on an Optional dict  -> py_optdict_get (None: TypeError, missing key: KeyError)
     o.attr on an Optional     -> py_some      (None: AttributeError)
     s == o, s in l  with o / the element Optional[str]  -> str_eq_opt / opt_in_strs  (None equals no string)
     isinstance(op, ImmediateOperand / RegisterOperand)  -> op_is_imm / op_is_reg
     parser.normalize_imd(op), parser.get_full_reg_name(op) -> py_normalize_imd / py_get_full_reg_name
        (the operand abstraction of Model/Select.v already carries the value of these two parser methods;
         on an operand of the wrong class they raise AttributeError). *)
From Coq Require Import String Ascii List Bool Arith ZArith.
From OV Require Import Model.Select.
Import ListNotations.
Open Scope string_scope.

Inductive err := EValue | EIndex | EType | EAttr | EKey | EFuel.
Inductive res (A : Type) := Ok (a : A) | Err (e : err).
Arguments Ok {A} _.
Arguments Err {A} _.
Definition bind {A B} (r : res A) (f : A -> res B) : res B :=
  match r with Ok a => f a | Err e => Err e end.
Notation "x <- r ;; k" := (bind r (fun x => k)) (at level 61, r at next level, right associativity).
Notation "' p <- r ;; k" := (bind r (fun x => let p := x in k))
  (at level 61, p pattern, r at next level, right associativity).

Definition err_eqb (a b : err) : bool :=
  match a, b with
  | EValue, EValue | EIndex, EIndex | EType, EType | EAttr, EAttr | EKey, EKey | EFuel, EFuel => true
  | _, _ => false
  end.

(* the exceptions of Model/Select.v inside this monad *)
Definition inj_err (e : pyerr) : err := match e with ValueError => EValue | IndexError => EIndex end.
Definition inj {A} (r : result A) : res A :=
  match r with Select.Ok a => Ok a | Select.Err e => Err (inj_err e) end.

(* ------------------------------------------------------------------ control *)
(* try: r  except <e>: <handler that falls through with the state h> *)
Definition py_try {A} (r : res A) (e : err) (h : res A) : res A :=
  match r with Ok a => Ok a | Err e' => if err_eqb e' e then h else Err e' end.
(* try: r  except <from>: raise <to> *)
Definition py_catch {A} (r : res A) (from to : err) : res A :=
  match r with Ok a => Ok a | Err e => if err_eqb e from then Err to else Err e end.

(* for x in l: s = f x s *)
Fixpoint py_for {A S} (l : list A) (s : S) (f : A -> S -> res S) : res S :=
  match l with [] => Ok s | x :: r => s' <- f x s ;; py_for r s' f end.
(* for x in l: (brk, s) = f x s; if brk: break *)
Fixpoint py_for_brk {A S} (l : list A) (s : S) (f : A -> S -> res (bool * S)) : res S :=
  match l with
  | [] => Ok s
  | x :: r => p <- f x s ;; if fst p then Ok (snd p) else py_for_brk r (snd p) f
  end.
(* a loop body that may also `return v` *)
Inductive ctl (R S : Type) := CNext (s : S) | CBreak (s : S) | CRet (r : R).
Arguments CNext {R S} _.
Arguments CBreak {R S} _.
Arguments CRet {R S} _.
Fixpoint py_for_ctl {A R S} (l : list A) (s : S) (f : A -> S -> res (ctl R S)) : res (R + S) :=
  match l with
  | [] => Ok (inr s)
  | x :: r => c <- f x s ;;
              match c with CNext s' => py_for_ctl r s' f | CBreak s' => Ok (inr s') | CRet v => Ok (inl v) end
  end.
(* while cond(s): s = body(s)   -- running out of fuel is an explicit error, so an equality with a
   fuel-free model proves that the translator's fuel expression suffices *)
Fixpoint py_while {S} (fuel : nat) (s : S) (cond : S -> res bool) (body : S -> res S) : res S :=
  match fuel with
  | O => Err EFuel
  | S f => c <- cond s ;; if c then s' <- body s ;; py_while f s' cond body else Ok s
  end.
(* [f(x) for x in l] with f raising *)
Fixpoint py_mapM {A B} (f : A -> res B) (l : list A) : res (list B) :=
  match l with [] => Ok [] | x :: r => y <- f x ;; ys <- py_mapM f r ;; Ok (y :: ys) end.

(* ------------------------------------------------------------------ lists *)
Definition py_len {A} (l : list A) : Z := Z.of_nat (List.length l).
Fixpoint enum_from {A} (k : Z) (l : list A) : list (Z * A) :=
  match l with [] => [] | x :: r => (k, x) :: enum_from (k + 1)%Z r end.
Definition py_enumerate {A} (l : list A) : list (Z * A) := enum_from 0%Z l.
(* l[i] *)
Definition py_getitem {A} (l : list A) (i : Z) : res A :=
  let n := py_len l in
  let j := if (i <? 0)%Z then (i + n)%Z else i in
  if (j <? 0)%Z then Err EIndex
  else match nth_error l (Z.to_nat j) with Some x => Ok x | None => Err EIndex end.
(* l[a:b]; an omitted bound is None *)
Definition slice_bound (n : Z) (d : Z) (o : option Z) : Z :=
  match o with
  | None => d
  | Some i => if (i <? 0)%Z then Z.max (i + n) 0 else Z.min i n
  end.
Definition py_slice {A} (l : list A) (lo hi : option Z) : list A :=
  let n := py_len l in
  let a := slice_bound n 0%Z lo in
  let b := slice_bound n n hi in
  firstn (Z.to_nat (b - a)) (skipn (Z.to_nat a) l).
Definition list_Z_eq (a b : list Z) : bool := list_Z_eqb a b.
Definition list_str_eq (a b : list string) : bool := if list_eq_dec string_dec a b then true else false.
Definition in_ints (n : Z) (l : list Z) : bool := existsb (Z.eqb n) l.
Definition in_strs' (x : string) (l : list string) : bool := existsb (String.eqb x) l.

(* ------------------------------------------------------------------ None-able values *)
Definition is_some {A} (o : option A) : bool := match o with Some _ => true | None => false end.
(* o.attr: AttributeError on None *)
Definition py_some {A} (o : option A) : res A := match o with Some a => Ok a | None => Err EAttr end.
(* s == o *)
Definition str_eq_opt (s : string) (o : option string) : bool :=
  match o with Some t => String.eqb s t | None => false end.
Definition opt_eq_opt (a b : option string) : bool :=
  match a, b with Some s, Some t => String.eqb s t | None, None => true | _, _ => false end.
(* o in l *)
Definition opt_in_strs (o : option string) (l : list string) : bool :=
  match o with Some s => existsb (String.eqb s) l | None => false end.
(* truthiness of an Optional[str] *)
Definition opt_str_truth (o : option string) : bool :=
  match o with Some EmptyString => false | Some _ => true | None => false end.

(* ------------------------------------------------------------------ dicts with string keys *)
Definition pydict := list (string * string).
Fixpoint dict_find (d : pydict) (k : string) : option string :=
  match d with [] => None | (k', v) :: r => if String.eqb k' k then Some v else dict_find r k end.
Definition py_dict_get (d : pydict) (k : string) : res string :=
  match dict_find d k with Some v => Ok v | None => Err EKey end.
(* d[k] where d may be None: 'NoneType' object is not subscriptable *)
Definition py_optdict_get (d : option pydict) (k : string) : res string :=
  match d with None => Err EType | Some d' => py_dict_get d' k end.

(* ------------------------------------------------------------------ int() *)
Definition py_int_base0 (s : string) : res Z := inj (py_int0 s).     (* int(s, 0) *)
Definition py_int_base10 (s : string) : res Z := inj (py_int10 s).   (* int(s)    *)

(* ------------------------------------------------------------------ operands and parsers *)
Inductive parser_kind := PX86 | PA64.          (* ParserX86ATT() | ParserAArch64() *)
Definition parser_of (i : isa) : parser_kind := match i with X86 => PX86 | A64 => PA64 end.
Definition op_is_imm (o : operand) : bool := match o with OImm _ | OImmOther => true | _ => false end.
Definition op_is_reg (o : operand) : bool := match o with OReg _ => true | _ => false end.
(* what normalize_imd returns: a Python int, or something that equals no int *)
Inductive imdval := IInt (z : Z) | IOther.
Definition py_normalize_imd (p : parser_kind) (o : operand) : res imdval :=
  match o with OImm z => Ok (IInt z) | OImmOther => Ok IOther | _ => Err EAttr end.
Definition py_get_full_reg_name (p : parser_kind) (o : operand) : res string :=
  match o with OReg r => Ok r | _ => Err EAttr end.
Definition imd_eq_int (v : imdval) (z : Z) : bool := match v with IInt y => Z.eqb y z | IOther => false end.

(* line.line_number *)
Definition line_number (l : line) : Z := Z.of_nat (l_number l).
