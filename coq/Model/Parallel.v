(* C16 / C19 -- executable model of the post-processing of the loop-carried-dependency search
   (kernel_dg.py: check_for_loopcarried_dep, lines "paths_set = set()" ... "return
   loopcarried_deps_dict"), of Python slicing, and of schedules of the worker processes.
   NO proofs here.

   An abstract path is what the post-processing reads off a networkx path: the list of
   (source node, latency of the edge leaving it) for consecutive node pairs; the final node is
   not recorded by the code either.  Node numbers and latencies are integers (latencies in a
   fixed binary unit: the harness scales every float latency by 2^20 and requires exactness,
   so that float addition and comparison coincide with Z addition and comparison). *)
From Coq Require Import ZArith List Bool.
Import ListNotations.
Open Scope Z_scope.

Definition edge := (Z * Z)%type.
Definition path := list edge.
Definition item := (Z * list edge)%type.          (* (lat_sum, lat_path) *)

(* ---- Python's comparison of tuples and lists (lexicographic) ---- *)
Definition lexc (c1 c2 : comparison) : comparison := match c1 with Eq => c2 | c => c end.
Definition cmp_pair {A B} (ca : A -> A -> comparison) (cb : B -> B -> comparison) (x y : A * B) : comparison :=
  lexc (ca (fst x) (fst y)) (cb (snd x) (snd y)).
Fixpoint cmp_list {A} (c : A -> A -> comparison) (a b : list A) : comparison :=
  match a, b with
  | [], [] => Eq
  | [], _ :: _ => Lt
  | _ :: _, [] => Gt
  | x :: a', y :: b' => lexc (c x y) (cmp_list c a' b')
  end.
Definition cmp_edge : edge -> edge -> comparison := cmp_pair Z.compare Z.compare.
Definition cmp_lp : list edge -> list edge -> comparison := cmp_list cmp_edge.
Definition cmp_item : item -> item -> comparison := cmp_pair Z.compare cmp_lp.

Definition leb_of {A} (c : A -> A -> comparison) (a b : A) : bool := match c a b with Gt => false | _ => true end.
Definition geb_of {A} (c : A -> A -> comparison) (a b : A) : bool := match c a b with Lt => false | _ => true end.
Definition eqb_of {A} (c : A -> A -> comparison) (a b : A) : bool := match c a b with Eq => true | _ => false end.

(* ---- list.sort(): stable insertion sort w.r.t. a boolean "may stand before" relation ---- *)
Section Sort.
  Context {A : Type} (le : A -> A -> bool).
  Fixpoint insert (a : A) (l : list A) : list A :=
    match l with
    | [] => [a]
    | x :: r => if le a x then a :: x :: r else x :: insert a r
    end.
  Fixpoint isort (l : list A) : list A :=
    match l with [] => [] | a :: r => insert a (isort r) end.
End Sort.

(* ---- per path: lat_path (sources mapped back, sorted) and lat_sum (the latencies of the SORTED lat_path, summed left to right) ---- *)
Definition mapback (off : Z) (e : edge) : edge := (if off <=? fst e then fst e - off else fst e, snd e).
Definition lat_path (off : Z) (p : path) : list edge := isort (leb_of cmp_edge) (map (mapback off) p).
Definition lat_sum (p : path) : Z := fold_left (fun acc e => acc + snd e) p 0.

(* ---- "if tuple(lat_path) in paths_set: continue": the FIRST occurrence is kept ---- *)
Definition mem_lp (lp : list edge) (seen : list (list edge)) : bool := existsb (eqb_of cmp_lp lp) seen.
Fixpoint dedup (off : Z) (seen : list (list edge)) (l : list path) : list item :=
  match l with
  | [] => []
  | p :: r =>
      let lp := lat_path off p in
      if mem_lp lp seen then dedup off seen r
      else (lat_sum lp, lp) :: dedup off (lp :: seen) r
  end.

(* ---- loopcarried_deps.sort(reverse=True) ---- *)
Definition sort_desc (l : list item) : list item := isort (geb_of cmp_item) l.

(* ---- the dictionary: insertion ordered, a later equal key overwrites the value in place ---- *)
Definition key := list Z.                       (* "-".join(str(line)) of non-negative ints *)
Definition value := (Z * list edge * Z)%type.   (* root line, dependencies, latency *)
Definition entry := (key * value)%type.
Definition key_eqb (a b : key) : bool := eqb_of (cmp_list Z.compare) a b.
Definition key_of (it : item) : key := map fst (snd it).
Definition value_of (it : item) : value :=
  (match snd it with [] => 0 | e :: _ => fst e end, snd it, fst it).
Fixpoint dict_set (d : list entry) (k : key) (v : value) : list entry :=
  match d with
  | [] => [(k, v)]
  | (k', v') :: r => if key_eqb k k' then (k', v) :: r else (k', v') :: dict_set r k v
  end.
Definition build (items : list item) : list entry :=
  fold_left (fun d it => dict_set d (key_of it) (value_of it)) items [].

(* a path without an edge makes the Python raise (involved_lines[0][0] / unbound d): None *)
Definition is_nil {A} (l : list A) : bool := match l with [] => true | _ => false end.
Definition post (off : Z) (l : list path) : option (list entry) :=
  if existsb is_nil l then None else Some (build (sort_desc (dedup off [] l))).

(* ---- Python slicing kernel[s:e] with clamping of out-of-range and negative bounds ---- *)
Definition clamp (n i : Z) : Z := if i <? 0 then Z.max 0 (i + n) else Z.min i n.
Definition pyslice {A} (k : list A) (se : Z * Z) : list A :=
  let n := Z.of_nat (length k) in
  let s := clamp n (fst se) in
  let e := clamp n (snd se) in
  firstn (Z.to_nat (e - s)) (skipn (Z.to_nat s) k).

(* ---- sequential and parallel search ---- *)
(* paths_from r = list(all_simple_paths(dg, r, r + offset)) as abstract paths *)
Definition lcd_sequential (off : Z) (paths_from : Z -> list path) (k : list Z) : option (list entry) :=
  post off (flat_map paths_from k).

(* one worker = the sequence of its extend blocks, one block per root of its chunk *)
Definition worker_blocks (paths_from : Z -> list path) (part : list (Z * Z)) (k : list Z) : list (list (list path)) :=
  map (fun se => map paths_from (pyslice k se)) part.

(* the shared list after the blocks arrived in the order bl *)
Definition lcd_parallel (off : Z) (bl : list (list path)) : option (list entry) := post off (concat bl).

(* all merges of the workers' block sequences (every worker's own order is kept) *)
Inductive Interleave {A : Type} : list (list A) -> list A -> Prop :=
| il_done : forall ls, Forall (fun l => l = []) ls -> Interleave ls []
| il_step : forall pre x xs suf l,
    Interleave (pre ++ xs :: suf) l -> Interleave (pre ++ (x :: xs) :: suf) (x :: l).
