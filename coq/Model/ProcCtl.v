(* C16 / C19 -- (1) the functional reading of the control flow of KernelDG.check_for_loopcarried_dep
   over an abstract world (Model/PyProc.v): what tools/gen_c19.py must regenerate from the current
   source (PropsGen/C19gen.v proves `g_lcd_search = ref_search ...` for EVERY oracle, by conversion);
   (2) the worlds of the hand-written state machines Model/Timeout.v (poll loop, sequential loop) and
   Model/Parallel.v (sections, schedules) as oracles.  NO proofs here. *)
From Coq Require Import ZArith List Bool.
From OV Require Import Model.Parallel Model.Timeout Model.PyProc.
Import ListNotations.
Open Scope Z_scope.

(* ------------------------------------------------------------------ (1) the reference *)
Section Ref.
  Context {W I X P L G IT : Type} (O : oracle W I X P L G IT).
  Variable threshold : Z.                                  (* KernelDG.INSTRUCTION_THRESHOLD *)
  Variable sections_of : Z -> list I -> list (list I).     (* cpu_count, kernel |-> the sections handed to the workers *)
  Variable step : Z.                                       (* time.sleep(step) between two polls *)

  (* for p in processes: p.start() *)
  Definition ref_start_all (ps : list P) : M W unit :=
    w_for (fun p (_ : unit) => bind (o_start O p) (fun _ => ret (CNext, tt))) ps tt.
  (* for p in processes: p.join() *)
  Definition ref_join_all (ps : list P) : M W unit :=
    w_for (fun p (_ : unit) => bind (o_join O p) (fun _ => ret (CNext, tt))) ps tt.
  (* the else clause of the while:
       for p in processes:
           if p.is_alive(): self.timed_out = True; os.kill(p.pid, SIGKILL)
           p.join() *)
  Definition ref_kill_loop (ps : list P) (flag : bool) : M W bool :=
    w_for (fun p (flag : bool) =>
             bind (o_is_alive O p) (fun a =>
               if a then bind (o_kill O p) (fun _ => bind (o_join O p) (fun _ => ret (CNext, true)))
               else bind (o_join O p) (fun _ => ret (CNext, flag)))) ps flag.
  (* while time.time() - start_time <= timeout:
         if any(p.is_alive() for p in processes): time.sleep(step)
         else: join all; break
     else: kill loop *)
  Definition ref_poll (fuel : nat) (start T : Z) (ps : list P) (flag : bool) : M W bool :=
    w_while fuel
      (fun _ : bool => bind (o_now O) (fun t => ret (t - start <=? T)))
      (fun flag : bool =>
         bind (w_any (o_is_alive O) ps) (fun a =>
           if a then bind (o_sleep O step) (fun _ => ret (CNext, flag))
           else bind (ref_join_all ps) (fun _ => ret (CBreak, flag))))
      (fun flag : bool => bind (ref_kill_loop ps flag) (fun f => ret f))
      flag.

  Definition ref_finish (l : L) (m : G) (flag : bool) : M W (bool * list X) :=
    bind (o_read O l) (fun r => bind (o_manager_exit O m) (fun _ => ret (flag, r))).

  Definition ref_parallel (fuel : nat) (kernel : list I) (T : Z) (flag : bool) : M W (bool * list X) :=
    bind (o_cpu_count O) (fun nc =>
    bind (o_manager O) (fun m =>
    bind (o_manager_list O m) (fun l =>
    bind (w_mapM (o_process O l) (sections_of nc kernel)) (fun ps =>
    bind (ref_start_all ps) (fun _ =>
      if T =? -1 then bind (ref_join_all ps) (fun _ => ref_finish l m flag)
      else bind (o_now O) (fun start => bind (ref_poll fuel start T ps flag) (fun flag' => ref_finish l m flag'))))))).

  (* start_time = time.time()
     for path in <chained generators>:
         if timeout != -1 and time.time() - start_time > timeout: self.timed_out = True; break
         all_paths.append(path) *)
  Definition ref_sequential (fuel : nat) (kernel : list I) (T : Z) (flag : bool) (acc : list X) : M W (bool * list X) :=
    bind (o_now O) (fun start =>
    bind (o_paths O kernel) (fun it =>
    bind (w_iter fuel (o_next O it)
            (fun path (st : bool * list X) =>
               let '(flag, acc) := st in
               if T =? -1 then ret (CNext, (flag, acc ++ [path]))
               else bind (o_now O) (fun t => if T <? t - start then ret (CBreak, (true, acc)) else ret (CNext, (flag, acc ++ [path]))))
            (flag, acc))
         (fun r => let '(flag, acc) := r in ret (flag, acc)))).

  (* (self.timed_out, all_paths) after `if klen >= self.INSTRUCTION_THRESHOLD: ... else: ...` *)
  Definition ref_search (fuel : nat) (kernel : list I) (T : Z) (flag : bool) (acc : list X) : M W (bool * list X) :=
    if threshold <=? Z.of_nat (length kernel) then ref_parallel fuel kernel T flag
    else ref_sequential fuel kernel T flag acc.
End Ref.

(* ------------------------------------------------------------------ (2a) the world of Model.Timeout's poll loop
   clk / ws as there.  Process objects are numbered in creation order; process i is worker (nth i ws).
   tw_reads = number of clock readings made so far (reading number i returns clk i); is_alive, kill
   happen at the instant of the last reading (the model has one time stamp per poll).  join of a
   worker that was not killed and never terminates does not return. *)
Record tworld := mktw {
  tw_reads : nat;
  tw_nproc : nat;                     (* processes created *)
  tw_started : list nat;
  tw_kills : list (nat * Z);          (* (process, instant of the SIGKILL), newest first *)
  tw_joins : list nat }.              (* newest first *)

Section TimeoutWorld.
  Variables (clk : nat -> Z) (ws : list worker).
  Context {I : Type}.
  Definition tw_now (w : tworld) : Z := clk (pred (tw_reads w)).
  Definition tw_worker (i : nat) : worker := nth i ws (mkworker [] (Some 0)).
  Definition tw_killed_at (w : tworld) (i : nat) : option Z :=
    match find (fun k => Nat.eqb (fst k) i) (tw_kills w) with Some k => Some (snd k) | None => None end.
  Definition tw_is_killed (w : tworld) (i : nat) : bool := match tw_killed_at w i with Some _ => true | None => false end.
  Definition tw_is_joined (w : tworld) (i : nat) : bool := existsb (Nat.eqb i) (tw_joins w).
  (* what process i has put into the shared list *)
  Definition tw_delivered (w : tworld) (i : nat) : list (list path) :=
    match tw_killed_at w i with
    | Some t => delivered (tw_worker i) t
    | None => if tw_is_joined w i then all_blocks (tw_worker i) else delivered (tw_worker i) (tw_now w)
    end.
  Definition toracle : oracle tworld I path nat unit unit unit := {|
    o_cpu_count := fun w => WOk (Z.of_nat (length ws)) w;
    o_manager := ret tt;
    o_manager_exit := fun _ => ret tt;
    o_manager_list := fun _ => ret tt;
    o_process := fun _ _ w => WOk (tw_nproc w) (mktw (tw_reads w) (S (tw_nproc w)) (tw_started w) (tw_kills w) (tw_joins w));
    o_start := fun i w => WOk tt (mktw (tw_reads w) (tw_nproc w) (i :: tw_started w) (tw_kills w) (tw_joins w));
    o_is_alive := fun i w => WOk (negb (tw_is_killed w i) && alive (tw_worker i) (tw_now w)) w;
    o_join := fun i w => if tw_is_killed w i || terminates (tw_worker i)
                         then WOk tt (mktw (tw_reads w) (tw_nproc w) (tw_started w) (tw_kills w) (i :: tw_joins w))
                         else WStuck StuckHang w;
    o_kill := fun i w => WOk tt (mktw (tw_reads w) (tw_nproc w) (tw_started w) ((i, tw_now w) :: tw_kills w) (tw_joins w));
    o_now := fun w => WOk (clk (tw_reads w)) (mktw (S (tw_reads w)) (tw_nproc w) (tw_started w) (tw_kills w) (tw_joins w));
    o_sleep := fun _ => ret tt;
    o_read := fun _ w => WOk (concat (flat_map (tw_delivered w) (seq 0 (tw_nproc w)))) w;
    o_paths := fun _ => ret tt;
    o_next := fun _ => ret None |}.
  Definition tw0 : tworld := mktw 0 0 [] [] [].
  Definition tw_killed_vec (w : tworld) : list bool := map (tw_is_killed w) (seq 0 (tw_nproc w)).
  Definition tw_joined_vec (w : tworld) : list bool := map (tw_is_joined w) (seq 0 (tw_nproc w)).
End TimeoutWorld.

(* ------------------------------------------------------------------ (2b) the world of Model.Timeout's sequential loop
   clk i = the reading of time.time() made after i resumptions of the path generator (clk 0 = start_time);
   sw_rest = what the chained generators still yield. *)
Record sworld (A : Type) := mksw { sw_n : nat; sw_rest : list A }.
Arguments mksw {A}. Arguments sw_n {A}. Arguments sw_rest {A}.
Section SeqWorld.
  Variable clk : nat -> Z.
  Context {I A : Type}.
  Definition soracle : oracle (sworld A) I A nat unit unit unit := {|
    o_cpu_count := ret 1;
    o_manager := ret tt;
    o_manager_exit := fun _ => ret tt;
    o_manager_list := fun _ => ret tt;
    o_process := fun _ _ => ret O;
    o_start := fun _ => ret tt;
    o_is_alive := fun _ => ret false;
    o_join := fun _ => ret tt;
    o_kill := fun _ => ret tt;
    o_now := fun w => WOk (clk (sw_n w)) w;
    o_sleep := fun _ => ret tt;
    o_read := fun _ => ret [];
    o_paths := fun _ => ret tt;
    o_next := fun _ w => match sw_rest w with
                         | [] => WOk None (mksw (S (sw_n w)) [])
                         | p :: r => WOk (Some p) (mksw (S (sw_n w)) r)
                         end |}.
End SeqWorld.

(* ------------------------------------------------------------------ (2c) the world of Model.Parallel: sections and schedules
   A process created for a section delivers one extend block per instruction of the section
   (paths_from (line i), as _extend_path does); `sched` decides in which order the blocks of the
   different workers arrive in the shared list (any function whose result is an Interleave of its
   argument); the chained generators of the sequential search yield the same blocks instruction by
   instruction.  No clock: time stands still, nobody is ever killed. *)
Record cworld (I : Type) := mkcw { cw_secs : list (list I); cw_rest : list path }.
Arguments mkcw {I}. Arguments cw_secs {I}. Arguments cw_rest {I}.
Section SchedWorld.
  Context {I : Type}.
  Variables (W : nat) (line : I -> Z) (paths_from : Z -> list path) (sched : list (list (list path)) -> list (list path)).
  Definition coracle : oracle (cworld I) I path nat unit unit unit := {|
    o_cpu_count := ret (Z.of_nat W);
    o_manager := ret tt;
    o_manager_exit := fun _ => ret tt;
    o_manager_list := fun _ => ret tt;
    o_process := fun _ sec w => WOk (length (cw_secs w)) (mkcw (cw_secs w ++ [sec]) (cw_rest w));
    o_start := fun _ => ret tt;
    o_is_alive := fun _ => ret false;
    o_join := fun _ => ret tt;
    o_kill := fun _ => ret tt;
    o_now := ret 0;
    o_sleep := fun _ => ret tt;
    o_read := fun _ w => WOk (concat (sched (map (fun sec => map (fun i => paths_from (line i)) sec) (cw_secs w)))) w;
    o_paths := fun k w => WOk tt (mkcw (cw_secs w) (flat_map (fun i => paths_from (line i)) k));
    o_next := fun _ w => match cw_rest w with
                         | [] => WOk None w
                         | p :: r => WOk (Some p) (mkcw (cw_secs w) r)
                         end |}.
End SchedWorld.
