(* C10 -- model of osaca/parser/base_parser.py:parse_file (executable, no proofs).
   file_content.split("\n"); a line is skipped when line.strip() == "" (str.strip(): the Unicode
   white-space code points below 256); the others are parsed with line number i + 1 + start_line
   and keep their verbatim text. *)
From Coq Require Import String Ascii List Bool Arith NArith.
From OV Require Import Model.LexA64 Model.ParseA64.
Import ListNotations.
Open Scope string_scope.

Definition nlc : ascii := "010"%char.
(* str.isspace() for code points < 256 *)
Definition py_space (c : ascii) : bool :=
  orb (in_rng c 9 13) (orb (in_rng c 28 32) (orb (N.eqb (codeN c) 133) (N.eqb (codeN c) 160))).
Definition blank (s : string) : bool := sall py_space s.

Fixpoint split_nl (s : string) : list string :=
  match s with
  | EmptyString => [""]
  | String c r =>
    if ceq c nlc then "" :: split_nl r
    else match split_nl r with
         | l :: ls => String c l :: ls
         | [] => [String c ""]
         end
  end.

Definition numbered (content : string) : list (nat * string) :=
  let ls := split_nl content in combine (seq 0 (length ls)) ls.
Definition file_lines (content : string) (start : nat) : list (nat * string) :=
  map (fun p => (fst p + 1 + start, snd p)) (filter (fun p => negb (blank (snd p))) (numbered content)).

Record fline := mkfline { f_number : nat; f_text : string; f_parsed : result }.
Definition parse_file (fx : fixes) (content : string) (start : nat) : list fline :=
  map (fun p => mkfline (fst p) (snd p) (parse_line fx (snd p))) (file_lines content start).
