(* C10 -- token-level model of osaca/parser/parser_AArch64.py (executable, no proofs).
   parse_line answers
     Parsed r    the InstructionForm fields the property names (mnemonic, operands, label, directive, comment)
     Rej         the implementation raises (ValueError "Unable to parse")
     Unm         the line is outside the modelled sub-language: the model makes no claim.
   The written syntax tree (wline), its rendering with an arbitrary layout and its meaning
   (denote: what the property says the parser must return) are at the end. *)
From Coq Require Import String Ascii List Bool Arith NArith ZArith.
From OV Require Import Model.LexA64.
Import ListNotations.
Open Scope string_scope.

(* ------------------------------------------------------------------ which repairs the tree under test contains
   The four defects of parser_AArch64.py found by this property (patches/C10-fix-*.diff) change the grammar;
   the model describes the parser for every combination of repairs.  The check decides from the
   implementation's behaviour on the witness lines which configuration it is looking at and holds the model of
   exactly that configuration against it.
     fx_word  shift/extend operators are whole words          (C10-fix-shift-op-whole-word)
     fx_cond  a condition code is a whole word, tried first    (C10-fix-condition-code-whole-word)
     fx_sxtx  sxtx is a shift operator that scales an index    (C10-fix-sxtx-extend)
     fx_dir   a directive parameter stops in front of `//`     (C10-fix-directive-parameter-stops-at-comment) *)
Record fixes := mkfx { fx_word : bool; fx_cond : bool; fx_sxtx : bool; fx_dir : bool }.
Definition fx_none : fixes := mkfx false false false false.   (* the parser as found *)
Definition fx_all : fixes := mkfx true true true true.        (* all four repairs applied *)

(* ------------------------------------------------------------------ results *)
Inductive idx := IdxS (s : string) | IdxI (z : Z).       (* 'index' kept as str (vector) or int (list) *)
Record reg := mkreg { r_prefix : string; r_name : string; r_shape : option string; r_lanes : option string;
                      r_index : option idx; r_pred : option string }.
Inductive moff := MOffNone | MOffImm (z : Z) | MOffId (name : string).
Record mindex := mkmindex { mi_prefix : string; mi_name : string; mi_shiftop : option string; mi_shift : option string }.
Inductive operand :=
| OReg (r : reg)
| OImmInt (z : Z)
| OImmFlt (is_float : bool) (mant : string) (ex : option (string * string))   (* e_sign, exponent *)
| OIdent (name : string)
| OCond (cc : string)
| OMem (off : moff) (bprefix bname : string) (index : option mindex) (scale : Z) (pre : bool) (post : option Z).

Record pline := mkpline { p_mnemonic : option string; p_operands : list operand; p_label : option string;
                          p_directive : option string; p_comment : option string }.
Inductive result := Parsed (r : pline) | Rej | Unm.

(* ------------------------------------------------------------------ small string helpers *)
Fixpoint span (f : ascii -> bool) (s : string) : string * string :=
  match s with
  | EmptyString => ("", "")
  | String c r => if f c then let (a, b) := span f r in (String c a, b) else ("", s)
  end.
Definition nonempty (s : string) : bool := match s with EmptyString => false | _ => true end.
Definition all_digits (s : string) : bool := andb (nonempty s) (sall is_digit s).
Fixpoint prefix_of (p s : string) : bool :=
  match p with
  | EmptyString => true
  | String a p' => match s with String b s' => andb (ceq a b) (prefix_of p' s') | EmptyString => false end
  end.
Fixpoint drop (n : nat) (s : string) : string :=
  match n with O => s | S n' => match s with String _ r => drop n' r | EmptyString => "" end end.
Definition mem_str (x : string) (l : list string) : bool := existsb (String.eqb x) l.

(* numerals *)
Definition digit_val (c : ascii) : Z :=
  if is_digit c then Z.of_N (codeN c) - 48
  else if in_rng c 97 102 then Z.of_N (codeN c) - 87
  else Z.of_N (codeN c) - 55.
Fixpoint num_val (base : Z) (s : string) (acc : Z) : Z :=
  match s with EmptyString => acc | String c r => num_val base r (acc * base + digit_val c) end.
Definition dec_val (s : string) : Z := num_val 10 s 0.
Definition hex_val (s : string) : Z := num_val 16 s 0.
(* Python int(s, 0) accepts a decimal literal only without leading zeros (or all zeros) *)
Definition dec_ok (s : string) : bool :=
  andb (all_digits s) (orb (negb (head_is (ceq "0") s)) (sall (ceq "0") s)).
Definition hex_ok (s : string) : bool := andb (nonempty s) (sall is_hex s).

(* decimal printing of Z (for the canonical serialisation) *)
Fixpoint pos_digits (fuel : nat) (n : N) (acc : string) : string :=
  match fuel with
  | O => acc
  | S f => let acc' := String (ascii_of_N (48 + N.modulo n 10)) acc in
           if N.eqb (N.div n 10) 0 then acc' else pos_digits f (N.div n 10) acc'
  end.
Definition string_of_N (n : N) : string := pos_digits (S (N.to_nat (N.log2 n))) n "".
Definition string_of_Z (z : Z) : string :=
  match z with Z0 => "0" | Zpos p => string_of_N (Npos p) | Zneg p => "-" ++ string_of_N (Npos p) end.

(* ------------------------------------------------------------------ word classification *)
Inductive rkind := KScalar | KVec | KPred | KSp | KZr.
Inductive wcls :=
| CReg (r : reg) (k : rkind)
| CNum (z : Z) (raw : string)
| CFlt (is_float : bool) (mant : string) (ex : option (string * string))
| CCond (cc : string)
| CIdent
| CBad.

Definition shift_ops (fx : fixes) : list string :=
  (["lsl";"lsr";"asr";"ror";"sxtw";"uxtw";"uxtb"] ++ (if fx_sxtx fx then ["sxtx"] else []))%list.
Definition valid_shift_ops (fx : fixes) : list string :=
  (["lsl";"uxtw";"uxtb";"sxtw"] ++ (if fx_sxtx fx then ["sxtx"] else []))%list.
Definition is_lanech (c : ascii) : bool := existsb (ceq c) ["1";"2";"4";"6";"8"]%char.
Definition s1 (c : ascii) : string := String c "".
Definition plain (p n : string) : reg := mkreg p n None None None None.

(* [a-zA-Z]?(sp|SP)  /  [a-zA-Z]?(zr|ZR) : the two alias regular expressions, whole word *)
Definition alias_word (w : string) : option wcls :=
  let is2 (t : string) (a b : string) := orb (String.eqb t a) (String.eqb t b) in
  if is2 w "sp" "SP" then Some (CReg (plain "x" "sp") KSp)
  else if is2 w "zr" "ZR" then Some CBad   (* no prefix: process_register_operand raises KeyError *)
  else match w with
       | String c t =>
         if negb (is_alpha c) then None
         else if is2 t "sp" "SP" then Some (CReg (plain "x" "sp") KSp)
         else if is2 t "zr" "ZR" then Some (CReg (plain (s1 (low c)) t) KZr)
         else None
       | EmptyString => None
       end.

(* prefix + number (+ .lanes?shape), whole word *)
Definition numbered_word (w : string) : option wcls :=
  match w with
  | String c t =>
    let lc := low c in
    let (ds, t') := span is_digit t in
    if negb (nonempty ds) then None
    else if existsb (ceq lc) ["x";"w";"b";"h";"s";"d";"q"]%char then
      match t' with EmptyString => Some (CReg (plain (s1 lc) ds) KScalar) | _ => None end
    else if existsb (ceq lc) ["v";"z";"p"]%char then
      let k := if ceq lc "p" then KPred else KVec in
      match t' with
      | EmptyString => Some (CReg (plain (s1 lc) ds) k)
      | String dot t'' =>
        if negb (ceq dot ".") then None
        else let (lanes, t3) := span is_lanech t'' in
             match t3 with
             | String sh EmptyString =>
               if is_alpha sh
               then Some (CReg (mkreg (s1 lc) ds (Some (s1 (low sh))) (if nonempty lanes then Some lanes else None) None None) k)
               else None
             | _ => None
             end
      end
    else None
  | EmptyString => None
  end.

(* numerals: -?digits | -?0xhex | -?d+.d+ ((e|E)(+|-)d+)? (f|F)? *)
Definition number_word (w : string) : wcls :=
  let neg := head_is (ceq "-") w in
  let u := if neg then drop 1 w else w in
  let sgn (z : Z) := if neg then Z.opp z else z in
  if prefix_of "0x" u then
    let h := drop 2 u in if hex_ok h then CNum (sgn (hex_val h)) w else CBad
  else
    let (ip, t) := span is_digit u in
    if negb (nonempty ip) then CBad
    else match t with
         | EmptyString => if dec_ok ip then CNum (sgn (dec_val ip)) w else CBad
         | String dot t1 =>
           if negb (ceq dot ".") then CBad
           else let (fp, t2) := span is_digit t1 in
                if negb (nonempty fp) then CBad
                else let mant := (if neg then "-" else "") ++ ip ++ "." ++ fp in
                     match t2 with
                     | EmptyString => CFlt false mant None
                     | String e t3 =>
                       if andb (orb (ceq e "f") (ceq e "F")) (negb (nonempty t3)) then CFlt true mant None
                       else if negb (is_e e) then CBad
                       else match t3 with
                            | String sg t4 =>
                              if negb (is_sign sg) then CBad
                              else let (ex, t5) := span is_digit t4 in
                                   if negb (nonempty ex) then CBad
                                   else match t5 with
                                        | EmptyString => CFlt false mant (Some (s1 sg, ex))
                                        | String f EmptyString =>
                                          if orb (ceq f "f") (ceq f "F") then CFlt true mant (Some (s1 sg, ex)) else CBad
                                        | _ => CBad
                                        end
                            | EmptyString => CBad
                            end
                     end
         end.

Definition is_ident (w : string) : bool :=
  andb (head_is (fun c => orb (is_alpha c) (orb (ceq c "_") (ceq c "."))) w) (sall is_wordch w).

Definition classify (w : string) : wcls :=
  if head_is (fun c => orb (is_digit c) (ceq c "-")) w then number_word w
  else if negb (is_ident w) then CBad
  else match alias_word w with
       | Some c => c
       | None => match numbered_word w with
                 | Some c => c
                 | None => if mem_str (lower w) cond_codes then CCond (upper w) else CIdent
                 end
       end.

(* does a (lower-cased) word start with a shift operator?  Some (op, tail).
   With the whole-word repair the operator has to end at a word boundary: the tail is empty. *)
Definition shift_split (fx : fixes) (w : string) : option (string * string) :=
  let lw := lower w in
  match filter (fun op => prefix_of op lw) (shift_ops fx) with
  | op :: _ => let tail := drop (String.length op) w in
               if andb (fx_word fx) (nonempty tail) then None else Some (op, tail)
  | [] => None
  end.

(* ------------------------------------------------------------------ operands *)
Inductive opres := OpUnm | OpAbsent | OpGot (ops : list operand) (rest : list tok).

(* an immediate as the grammar element `immediate` sees it: '#'? (numeral | float | identifier) *)
Inductive immres := ImNone | ImUnm | ImNum (z : Z) (raw : string) (rest : list tok)
                  | ImOther (rest : list tok)       (* float or identifier *).
Definition p_imm (ts : list tok) : immres :=
  let body (ts' : list tok) (hashed : bool) :=
      match ts' with
      | TW w :: rest =>
        match classify w with
        | CNum z raw => ImNum z raw rest
        | CFlt _ _ _ => ImOther rest
        | CBad => ImUnm
        | _ => ImOther rest
        end
      | TWI _ :: rest => ImOther rest
      | TP ":" :: _ => ImUnm
      | _ => if hashed then ImUnm else ImNone
      end in
  match ts with
  | TP "#" :: ts' => body ts' true
  | _ => body ts false
  end.

(* what follows a register inside the `register` group:  , shift_op immediate?   (result: swallowed or not) *)
Inductive shres := ShUnm | ShNone | ShGot (op : string) (amount : option (Z * string)) (rest : list tok)
                 | ShGotId (op : string) (rest : list tok).     (* the amount is an identifier *)
Definition p_shift (fx : fixes) (ts : list tok) : shres :=
  match ts with
  | TP "," :: TW w :: rest =>
    if String.eqb (lower w) "mul" then ShUnm
    else match shift_split fx w with
         | None => ShNone
         | Some (op, EmptyString) =>
           match p_imm rest with
           | ImNone => ShGot op None rest
           | ImNum z raw rest' => ShGot op (Some (z, raw)) rest'
           | _ => ShUnm
           end
         | Some (op, tail) =>
           (* (only as the parser was found) the rest of the word is read as the shift "immediate" and the
              whole word disappears: `lsl3` = `lsl 3`, `lsl_loop` = lsl by the identifier `_loop` *)
           if all_digits tail then ShGot op (Some (dec_val tail, tail)) rest
           else if is_ident tail then ShGotId op rest else ShUnm
         end
  | _ => ShNone
  end.

(* a register word with what may directly extend it: [index] for v/z, /z /m for p *)
Definition guard_piece (k : rkind) (r : reg) (ts : list tok) : bool :=
  (* pieces the implementation would glue across white space; the model does not follow it there *)
  match ts with
  | TW w :: _ =>
    match k with
    | KVec | KPred => match r_shape r with None => head_is (ceq ".") w | Some _ => false end
    | _ => false
    end
  | _ => false
  end.
Definition p_reg_ext (r : reg) (k : rkind) (ts : list tok) : option (reg * list tok) :=
  if guard_piece k r ts then None else
  match k with
  | KVec =>
    match ts with
    | TP "[" :: TW d :: TP "]" :: rest =>
      if all_digits d then Some (mkreg (r_prefix r) (r_name r) (r_shape r) (r_lanes r) (Some (IdxS d)) None, rest)
      else Some (r, ts)
    | _ => Some (r, ts)
    end
  | KPred =>
    match r_shape r, ts with
    | None, TP "/" :: TW m :: rest =>
      let lm := lower m in
      if orb (String.eqb lm "z") (String.eqb lm "m")
      then Some (mkreg (r_prefix r) (r_name r) None None None (Some lm), rest)
      else if head_is (fun c => orb (ceq (low c) "z") (ceq (low c) "m")) m then None else Some (r, ts)
    | None, TP "/" :: TWI _ :: _ => None     (* `p0/mi `: the implementation glues /m and reads `i` on its own *)
    | _, _ => Some (r, ts)
    end
  | _ => Some (r, ts)
  end.

(* register-list element: Combine(vector ^ scalar), one word, no index inside *)
Definition list_elem (w : string) : option reg :=
  match classify w with
  | CReg r KVec => Some r
  | CReg r KScalar => Some r
  | _ => None
  end.
Definition set_index (i : option idx) (r : reg) : reg :=
  match i with None => r | Some _ => mkreg (r_prefix r) (r_name r) (r_shape r) (r_lanes r) i (r_pred r) end.
Fixpoint p_list_elems (fuel : nat) (ts : list tok) : option (list reg * list tok) :=
  match fuel with
  | O => None
  | S f =>
    match ts with
    | TW w :: TP "," :: rest =>
      match list_elem w, p_list_elems f rest with
      | Some r, Some (rs, rest') => Some (r :: rs, rest')
      | _, _ => None
      end
    | TW w :: TP "}" :: rest =>
      match list_elem w with Some r => Some ([r], rest) | None => None end
    | _ => None
    end
  end.
Definition range_members (first : reg) (lo hi : Z) : list reg :=
  map (fun k => mkreg (r_prefix first) (string_of_Z (lo + Z.of_nat k)) (r_shape first) (r_lanes first) None None)
      (seq 0 (Z.to_nat (hi + 1 - lo))).
Definition list_index (ts : list tok) : option (option idx * list tok) :=
  match ts with
  | TP "[" :: TW d :: TP "]" :: rest =>
    if dec_ok d then Some (Some (IdxI (dec_val d)), rest) else None
  | TP "[" :: _ => None
  | _ => Some (None, ts)
  end.
Definition p_reglist (ts : list tok) : option (list reg * list tok) :=   (* ts after '{' *)
  match ts with
  | TW a :: TP "-" :: TW b :: TP "}" :: rest =>
    match list_elem a, list_elem b, list_index rest with
    | Some ra, Some rb, Some (i, rest') =>
      Some (map (set_index i) (range_members ra (dec_val (r_name ra)) (dec_val (r_name rb))), rest')
    | _, _, _ => None
    end
  | _ =>
    match p_list_elems (S (length ts)) ts with
    | Some (rs, rest) =>
      match list_index rest with
      | Some (i, rest') => Some (map (set_index i) rs, rest')
      | None => None
      end
    | None => None
    end
  end.

(* memory operand, ts after '[' *)
Definition is_alpha_word (w : string) : bool := andb (nonempty w) (sall is_alpha w).
Definition mem_base_name (r : reg) (k : rkind) (w : string) : string :=
  match k with
  | KSp => match w with String c t => if orb (String.eqb w "sp") (String.eqb w "SP") then w else t | _ => w end
  | _ => r_name r
  end.
Definition mem_prefix (r : reg) (k : rkind) : string :=
  match k with KSp | KZr => "x" | _ => r_prefix r end.

Inductive memres := MemUnm | MemGot (o : operand) (rest : list tok).
Definition p_mem_close (off : moff) (bp bn : string) (ix : option mindex) (scale : Z) (ts : list tok) : memres :=
  match ts with
  | TP "]" :: TP "!" :: rest => MemGot (OMem off bp bn ix scale true None) rest
  | TP "]" :: TP "," :: rest =>
    match p_imm rest with
    | ImNum z _ rest' => MemGot (OMem off bp bn ix scale false (Some z)) rest'
    | ImNone => MemGot (OMem off bp bn ix scale false None) (TP "," :: rest)
    | _ => MemUnm
    end
  | TP "]" :: rest => MemGot (OMem off bp bn ix scale false None) rest
  | _ => MemUnm
  end.
Definition p_mem (fx : fixes) (ts : list tok) : memres :=
  match ts with
  | TW b :: ts1 =>
    match classify b with
    | CReg rb kb =>
      match ts1 with
      | TP "[" :: _ => MemUnm
      | TP "/" :: _ => MemUnm
      | _ =>
      if guard_piece kb rb ts1 then MemUnm else
      match p_shift fx ts1 with
      | ShNone =>
        let bp := mem_prefix rb kb in
        let bn := mem_base_name rb kb b in
        let ts2 := match ts1 with TP "," :: t => t | _ => ts1 end in
        match ts2 with
        | TP "]" :: _ => p_mem_close MOffNone bp bn None 1 ts2
        | TW w :: ts3 =>
          match classify w with
          | CReg ri ki =>
            match ts3 with
            | TP "[" :: _ => MemUnm
            | TP "/" :: _ => MemUnm
            | _ =>
            if guard_piece ki ri ts3 then MemUnm else
            let ip := mem_prefix ri ki in
            let iname := mem_base_name ri ki w in
            match p_shift fx ts3 with
            | ShUnm => MemUnm
            | ShNone =>
              (* optional  , Word(alphas) immediate   -- parsed and ignored by the implementation *)
              match ts3 with
              | TP "," :: TW a :: ts4 =>
                if is_alpha_word a then
                  match p_imm ts4 with
                  | ImNum _ _ ts5 => p_mem_close MOffNone bp bn (Some (mkmindex ip iname None None)) 1 ts5
                  | ImOther ts5 => p_mem_close MOffNone bp bn (Some (mkmindex ip iname None None)) 1 ts5
                  | _ => MemUnm
                  end
                else MemUnm
              | _ => p_mem_close MOffNone bp bn (Some (mkmindex ip iname None None)) 1 ts3
              end
            | ShGotId _ _ => MemUnm
            | ShGot op None ts4 =>
              match ts4 with
              | TP "]" :: _ => p_mem_close MOffNone bp bn (Some (mkmindex ip iname (Some op) None)) 1 ts4
              | _ => MemUnm
              end
            | ShGot op (Some (z, raw)) ts4 =>
              if orb (head_is (ceq "-") raw) (prefix_of "0x" raw) then MemUnm else
              let scale := if mem_str op (valid_shift_ops fx) then Z.pow 2 z else 1%Z in
              match ts4 with
              | TP "]" :: _ => p_mem_close MOffNone bp bn (Some (mkmindex ip iname (Some op) (Some raw))) scale ts4
              | _ => MemUnm
              end
            end
            end
          | CNum z _ => match ts3 with TP "]" :: _ => p_mem_close (MOffImm z) bp bn None 1 ts3 | _ => MemUnm end
          | CIdent | CCond _ => match ts3 with TP "]" :: _ => p_mem_close (MOffId w) bp bn None 1 ts3 | _ => MemUnm end
          | _ => MemUnm
          end
        | TP "#" :: TW w :: ts3 =>
          match classify w with
          | CNum z _ => match ts3 with TP "]" :: _ => p_mem_close (MOffImm z) bp bn None 1 ts3 | _ => MemUnm end
          | CBad | CFlt _ _ _ => MemUnm
          | _ => match ts3 with TP "]" :: _ => p_mem_close (MOffId w) bp bn None 1 ts3 | _ => MemUnm end
          end
        | _ => MemUnm
        end
      | _ => MemUnm
      end
      end
    | _ => MemUnm
    end
  | _ => MemUnm
  end.

(* after an immediate in operand position: `, shift_op ...` would make it an arith_immediate (not modelled) *)
Definition arith_follows (fx : fixes) (ts : list tok) : bool :=
  match ts with
  | TP "," :: TW w :: _ => orb (match shift_split fx w with Some _ => true | None => false end) (String.eqb (lower w) "mul")
  | _ => false
  end.
Definition float_piece_follows (ts : list tok) : bool :=
  match ts with
  | TW w :: _ => head_is (fun c => orb (is_e c) (orb (ceq c "f") (ceq c "F"))) w
  | _ => false
  end.

Definition prefetch_word (w : string) : bool :=
  let lw := lower w in orb (prefix_of "pld" lw) (prefix_of "pst" lw).

Definition p_operand (fx : fixes) (first : bool) (ts : list tok) : opres :=
  match ts with
  | TW w :: rest =>
    match classify w with
    | CReg r k =>
      (* a lone prefix letter followed by a number is glued by the implementation: not modelled *)
      match p_reg_ext r k rest with
      | None => OpUnm
      | Some (r', rest') =>
        match p_shift fx rest' with
        | ShUnm => OpUnm
        | ShNone => OpGot [OReg r'] rest'
        | ShGot _ _ rest'' => OpGot [OReg r'] rest''
        | ShGotId _ rest'' => OpGot [OReg r'] rest''
        end
      end
    | CNum z _ => if arith_follows fx rest then OpUnm else OpGot [OImmInt z] rest
    | CFlt f m e => if orb (arith_follows fx rest) (float_piece_follows rest) then OpUnm else OpGot [OImmFlt f m e] rest
    | CCond cc => if arith_follows fx rest then OpUnm else if first then OpGot [OIdent w] rest else OpGot [OCond cc] rest
    | CIdent =>
      if arith_follows fx rest then OpUnm
      else if andb first (prefetch_word w) then OpUnm
      else if andb (Nat.eqb (String.length w) 1) (match rest with TW d :: _ => head_is is_digit d | _ => false end) then OpUnm
      else OpGot [OIdent w] rest
    | CBad => OpUnm
    end
  | TP "#" :: TW w :: rest =>
    match classify w with
    | CNum z _ => if arith_follows fx rest then OpUnm else OpGot [OImmInt z] rest
    | CFlt f m e => if orb (arith_follows fx rest) (float_piece_follows rest) then OpUnm else OpGot [OImmFlt f m e] rest
    | CBad => OpUnm
    | _ => if arith_follows fx rest then OpUnm else OpGot [OIdent w] rest
    end
  | TWI w :: rest => if arith_follows fx rest then OpUnm else OpGot [OIdent w] rest
  | TP "#" :: TWI w :: rest => if arith_follows fx rest then OpUnm else OpGot [OIdent w] rest
  | TP "#" :: _ => OpUnm
  | TP "[" :: rest =>
    match p_mem fx rest with MemUnm => OpUnm | MemGot o rest' => OpGot [o] rest' end
  | TP "{" :: rest =>
    match p_reglist rest with
    | None => OpUnm
    | Some (rs, rest') =>
      match p_shift fx rest' with
      | ShUnm => OpUnm
      | ShNone => OpGot (map OReg rs) rest'
      | ShGot _ _ rest'' => OpGot (map OReg rs) rest''
      | ShGotId _ rest'' => OpGot (map OReg rs) rest''
      end
    end
  | TP "-" :: _ => OpUnm
  | TP ":" :: _ => OpUnm
  | _ => OpAbsent
  end.

(* the five optional operand slots with optional separating commas *)
Definition skip_comma (ts : list tok) : list tok := match ts with TP "," :: r => r | _ => ts end.
Fixpoint p_slots (fx : fixes) (n : nat) (first : bool) (ts : list tok) (acc : list operand) : option (list operand * list tok) :=
  match n with
  | O => Some (acc, ts)
  | S n' =>
    match p_operand fx first ts with
    | OpUnm => None
    | OpAbsent => match n' with
                  | O => Some (acc, ts)
                  | _ => p_slots fx n' false (skip_comma ts) acc
                  end
    | OpGot ops rest => match n' with
                        | O => Some ((acc ++ ops)%list, rest)
                        | _ => p_slots fx n' false (skip_comma rest) ((acc ++ ops)%list)
                        end
    end
  end.

(* comment text: white-space separated printable words joined by one space *)
Fixpoint words_go (s : string) (cur : string) : list string :=
  match s with
  | EmptyString => match cur with EmptyString => [] | _ => [cur] end
  | String c r => if is_ws c then (match cur with EmptyString => words_go r "" | _ => cur :: words_go r "" end)
                  else words_go r (snoc cur c)
  end.
Definition comment_text (raw : string) : string := String.concat " " (words_go raw "").

Definition mnemonic_ok (w : string) : bool :=
  andb (nonempty w) (sall (fun c => orb (is_alpha c) (orb (is_digit c) (ceq c "."))) w).

Definition parse_instr (fx : fixes) (mn : string) (ts : list tok) : result :=
  match p_slots fx 5 true ts [] with
  | None => Unm
  | Some (ops, rest) =>
    match rest with
    | [] => Parsed (mkpline (Some mn) ops None None None)
    | [TC raw] => Parsed (mkpline (Some mn) ops None None (Some (comment_text raw)))
    | _ => Rej
    end
  end.

(* directive sub-language:  .name  then comma-separated optional plain words, optional trailing comment *)
Definition dir_name_ok (w : string) : bool :=
  match w with
  | String "." n => andb (nonempty n) (sall (fun c => orb (is_alpha c) (orb (is_digit c) (ceq c "_"))) n)
  | _ => false
  end.
Definition dir_param_ok (w : string) : bool :=
  match classify w with CBad => false | CFlt _ _ _ => false | CNum _ _ => negb (head_is (ceq "-") w) | _ => true end.
Fixpoint dir_params (ts : list tok) : bool :=
  match ts with
  | [] => true
  | [TC _] => true
  | TP "," :: r => dir_params r
  | TW w :: r => andb (dir_param_ok w)
                      (match r with [] => true | [TC _] => true | TP "," :: r' => dir_params r' | _ => false end)
  | TWI w :: r => (match r with [] => true | [TC _] => true | TP "," :: r' => dir_params r' | _ => false end)
  | _ => false
  end.

(* `.name alpha-word // text, more`: the implementation's directive_option swallows the comment up to the
   comma and what follows the comma is then read as further parameters -- not modelled.  With the repair
   fx_dir the parameter stops in front of `//` and the line is a directive whatever the comment contains. *)
Fixpoint has_comma (s : string) : bool :=
  match s with EmptyString => false | String c r => orb (ceq c ",") (has_comma r) end.
Definition swallowing_param (w : string) : bool := head_is (fun c => orb (is_alpha c) (ceq c ".")) w.
Fixpoint dir_comment_clash (ts : list tok) : bool :=
  match ts with
  | TW p :: ((TC raw :: _) as r) => orb (andb (swallowing_param p) (has_comma raw)) (dir_comment_clash r)
  | TWI p :: ((TC raw :: _) as r) => orb (has_comma raw) (dir_comment_clash r)
  | _ :: r => dir_comment_clash r
  | [] => false
  end.

Definition parse_toks (fx : fixes) (ts : list tok) : result :=
  match ts with
  | [TC raw] => Parsed (mkpline None [] None None (Some (comment_text raw)))
  | TW w :: TP ":" :: rest =>
    if is_ident w then
      match rest with
      | [] => Parsed (mkpline None [] (Some w) None None)
      | [TC raw] => Parsed (mkpline None [] (Some w) None (Some (comment_text raw)))
      | _ => Unm
      end
    else Unm
  | TWI w :: TP ":" :: rest =>
    match rest with
    | [] => Parsed (mkpline None [] (Some w) None None)
    | [TC raw] => Parsed (mkpline None [] (Some w) None (Some (comment_text raw)))
    | _ => Unm
    end
  | TW w :: rest =>
    if head_is (ceq ".") w then
      (if andb (dir_name_ok w) (andb (dir_params rest) (orb (fx_dir fx) (negb (dir_comment_clash rest)))) then Parsed (mkpline None [] None (Some (drop 1 w)) None) else Unm)
    else if mnemonic_ok w then parse_instr fx w rest
    else Unm
  | _ => Unm
  end.

(* With the repair fx_cond white space after a condition-code word no longer matters: the marked token TWI
   (LexA64.v) is read like the plain word. *)
Definition unmark1 (t : tok) : tok := match t with TWI w => TW w | _ => t end.
Definition unmark (fx : fixes) (ts : list tok) : list tok := if fx_cond fx then map unmark1 ts else ts.

Definition parse_line (fx : fixes) (line : string) : result :=
  match lex line with
  | None => Unm
  | Some ts => parse_toks fx (unmark fx ts)
  end.

(* ------------------------------------------------------------------ canonical serialisation *)
Definition opt_str (o : option string) : string := match o with None => "-" | Some s => s end.
Definition show_reg (r : reg) : string :=
  "R:" ++ r_prefix r ++ "," ++ r_name r ++ "," ++ opt_str (r_shape r) ++ "," ++ opt_str (r_lanes r) ++ "," ++
  (match r_index r with None => "-" | Some (IdxS s) => "s" ++ s | Some (IdxI z) => "i" ++ string_of_Z z end) ++ "," ++
  opt_str (r_pred r).
Definition show_operand (o : operand) : string :=
  match o with
  | OReg r => show_reg r
  | OImmInt z => "I:int," ++ string_of_Z z
  | OImmFlt f m e => "I:" ++ (if f then "float" else "double") ++ "," ++ m ++
                     (match e with None => "" | Some (sg, ex) => "," ++ sg ++ "," ++ ex end)
  | OIdent n => "L:" ++ n
  | OCond c => "C:" ++ c
  | OMem off bp bn ix sc pre post =>
    "M:" ++ (match off with MOffNone => "-" | MOffImm z => "i" ++ string_of_Z z | MOffId n => "l" ++ n end) ++ "," ++
    bp ++ "," ++ bn ++ "," ++
    (match ix with None => "-" | Some i => mi_prefix i ++ "~" ++ mi_name i ++ "~" ++ opt_str (mi_shiftop i) ++ "~" ++ opt_str (mi_shift i) end)
    ++ "," ++ string_of_Z sc ++ "," ++ (if pre then "1" else "0") ++ "," ++
    (match post with None => "-" | Some z => string_of_Z z end)
  end.
Definition show_opt (o : option string) : string := match o with None => "N" | Some s => "S" ++ s end.
Definition show_pline (p : pline) : string :=
  "m=" ++ show_opt (p_mnemonic p) ++ "|l=" ++ show_opt (p_label p) ++ "|d=" ++ show_opt (p_directive p) ++
  "|o=" ++ String.concat ";" (map show_operand (p_operands p)) ++ "|c=" ++ show_opt (p_comment p).
Definition show_result (r : result) : string :=
  match r with Parsed p => show_pline p | Rej => "REJECT" | Unm => "UNMODELLED" end.
