(* PyPost -- additions to the dynamically typed layer Model/PyDyn.v for the POST-PROCESSING stage of the two
   assembly parsers (target of tools/gen_parsepost.py).  Executable definitions only; lemmas in Proofs/PyPost.v.

   Same universe as PyDyn (pyval, res).  New here:
     * in-place updates as FUNCTIONAL updates of the variable that names the container (x[k] = v, x.a = v,
       x.append(v), x.extend(v)); the translator's aliasing discipline (tools/gen_parsepost.py, "ALIASING")
       guarantees that no other name can observe the update, and where it cannot exclude that the stored value
       contains the container itself it emits the *_g variants, which answer Unmodelled for a would-be cycle;
     * objects built by constructors: the fields are the INSTANCE attributes (`_name`, `_prefix`, ...) in the order
       __init__ assigns them, identity 0.  `==` between values that contain objects is therefore not modelled
       (py_eq_v / py_in_v answer Unmodelled), never decided by the fake identity;
     * int(s, 0) / int(s) / str(n) / ** / << / " ".join / range / deepcopy / str.split / str.strip;
     * ParseException: PyDyn.exn is a closed type without it; in this layer the constructor StopIteration stands for
       pyparsing.ParseException (the translator refuses every other source of StopIteration).
   As in PyDyn an operation whose Python meaning lies outside the layer answers `Raise Unmodelled`, never a
   default, so `translated f x = Ok v` cannot hold for the wrong reason. *)
From Coq Require Import String Ascii List Bool ZArith NArith.
From OV Require Import Model.PyString Model.PyDyn Model.LexA64 Model.ParseA64.
Import ListNotations.
Open Scope string_scope.

Notation ParseException := StopIteration (only parsing).

(* ------------------------------------------------------------------ structure *)
Fixpoint has_obj (v : pyval) : bool :=
  match v with
  | PObj _ _ _ => true
  | PDict d => (fix go (l : list (string * pyval)) : bool := match l with [] => false | (_, x) :: t => has_obj x || go t end) d
  | PList l => (fix go (l : list pyval) : bool := match l with [] => false | x :: t => has_obj x || go t end) l
  | _ => false
  end.

(* structural equality (ordered, identities included) *)
Fixpoint pyval_same (a b : pyval) {struct a} : bool :=
  match a, b with
  | PNone, PNone => true
  | PBool x, PBool y => Bool.eqb x y
  | PInt x, PInt y => Z.eqb x y
  | PStr x, PStr y => String.eqb x y
  | PObj c i f, PObj c' i' f' =>
    String.eqb c c' && N.eqb i i' &&
    (fix go (l m : list (string * pyval)) : bool :=
       match l, m with
       | [], [] => true
       | (k, x) :: t, (k', y) :: u => String.eqb k k' && pyval_same x y && go t u
       | _, _ => false
       end) f f'
  | PDict f, PDict f' =>
    (fix go (l m : list (string * pyval)) : bool :=
       match l, m with
       | [], [] => true
       | (k, x) :: t, (k', y) :: u => String.eqb k k' && pyval_same x y && go t u
       | _, _ => false
       end) f f'
  | PList l, PList m =>
    (fix go (l m : list pyval) : bool :=
       match l, m with
       | [], [] => true
       | x :: t, y :: u => pyval_same x y && go t u
       | _, _ => false
       end) l m
  | _, _ => false
  end.

(* x occurs (structurally) in v: if it does not, v cannot contain a reference to the object x names *)
Fixpoint occurs (x v : pyval) {struct v} : bool :=
  pyval_same x v ||
  match v with
  | PObj _ _ f => (fix go (l : list (string * pyval)) : bool := match l with [] => false | (_, y) :: t => occurs x y || go t end) f
  | PDict f => (fix go (l : list (string * pyval)) : bool := match l with [] => false | (_, y) :: t => occurs x y || go t end) f
  | PList l => (fix go (l : list pyval) : bool := match l with [] => false | y :: t => occurs x y || go t end) l
  | _ => false
  end.

(* ------------------------------------------------------------------ == and `in` that refuse objects *)
Definition no_eq (c : string) : option (list string) := None.
Definition py_eq_v (a b : pyval) : res pyval :=
  if has_obj a || has_obj b then Raise Unmodelled else Ok (PBool (py_eqb no_eq a b)).
Definition py_ne_v (a b : pyval) : res pyval :=
  if has_obj a || has_obj b then Raise Unmodelled else Ok (PBool (negb (py_eqb no_eq a b))).
Definition py_in_v (x c : pyval) : res pyval :=
  match c with
  | PList _ => if has_obj x || has_obj c then Raise Unmodelled else py_in no_eq x c
  | _ => py_in no_eq x c
  end.
Definition py_notin_v (x c : pyval) : res pyval := bind (py_in_v x c) (fun m => Ok (py_not m)).

(* "literal" in c / c.get("literal", d): the key is a string literal of the program text, compared like a name
   (assoc / key_eqb: computes in proofs); Proofs/PyPost.v shows them equal to py_in_v (PStr k) c / py_dict_get c (PStr k) d *)
Definition py_in_lit (k : string) (c : pyval) : res pyval :=
  match c with
  | PDict d => Ok (PBool (match assoc k d with Some _ => true | None => false end))
  | _ => py_in_v (PStr k) c
  end.
Definition py_notin_lit (k : string) (c : pyval) : res pyval := bind (py_in_lit k c) (fun m => Ok (py_not m)).
Definition py_dict_get_lit (d : pyval) (k : string) (default : pyval) : res pyval :=
  match d with
  | PDict items => Ok (match assoc k items with Some v => v | None => default end)
  | _ => py_dict_get d (PStr k) default
  end.

(* ------------------------------------------------------------------ functional updates *)
Fixpoint fset (k : string) (v : pyval) (l : list (string * pyval)) : list (string * pyval) :=
  match l with
  | [] => [(k, v)]
  | (k', x) :: t => if key_eqb k k' then (k', v) :: t else (k', x) :: fset k v t
  end.
Fixpoint dset (k : string) (v : pyval) (l : list (string * pyval)) : list (string * pyval) :=
  match l with
  | [] => [(k, v)]
  | (k', x) :: t => if String.eqb k k' then (k', v) :: t else (k', x) :: dset k v t
  end.
Fixpoint lset (n : nat) (v : pyval) (l : list pyval) : option (list pyval) :=
  match l, n with
  | [], _ => None
  | _ :: t, O => Some (v :: t)
  | x :: t, S n' => match lset n' v t with Some t' => Some (x :: t') | None => None end
  end.

(* c[k] = v *)
Definition py_setitem (c k v : pyval) : res pyval :=
  match c with
  | PDict d =>
    match k with
    | PStr s => Ok (PDict (dset s v d))
    | PDict _ | PList _ => Raise TypeError
    | _ => Raise Unmodelled                      (* non-str keys: outside the str-keyed dicts of this layer *)
    end
  | PList l =>
    match k with
    | PInt z =>
      let i := if Z.ltb z 0 then (z + zlen l)%Z else z in
      if Z.ltb i 0 then Raise IndexError
      else match lset (Z.to_nat i) v l with Some l' => Ok (PList l') | None => Raise IndexError end
    | PObj _ _ _ | PBool _ => Raise Unmodelled
    | _ => Raise TypeError
    end
  | PNone | PBool _ | PInt _ | PStr _ => Raise TypeError
  | PObj _ _ _ => Raise Unmodelled
  end.
(* c["literal"] = v : the key is compared like a name (fset) so that proofs compute *)
Definition py_setitem_lit (c : pyval) (k : string) (v : pyval) : res pyval :=
  match c with
  | PDict d => Ok (PDict (fset k v d))
  | _ => py_setitem c (PStr k) v
  end.
(* o.a = v where a is an instance attribute (plain data attribute or plain property setter) *)
Definition py_setattr (o : pyval) (a : string) (v : pyval) : res pyval :=
  match o with
  | PObj c i f => Ok (PObj c i (fset a v f))
  | _ => Raise AttributeError
  end.
Definition guard (x v : pyval) (r : res pyval) : res pyval := if occurs x v then Raise Unmodelled else r.
Definition py_setitem_g (c k v : pyval) := guard c v (py_setitem c k v).
Definition py_setitem_lit_g (c : pyval) (k : string) (v : pyval) := guard c v (py_setitem_lit c k v).
Definition py_setattr_g (o : pyval) (a : string) (v : pyval) := guard o v (py_setattr o a v).

(* l.append(x) / l.extend(it): the new value of l *)
Definition py_append (l x : pyval) : res pyval :=
  match l with
  | PList items => Ok (PList (items ++ [x]))
  | PObj _ _ _ => Raise Unmodelled
  | _ => Raise AttributeError
  end.
Definition py_append_g (l x : pyval) := guard l x (py_append l x).
Definition py_extend (l it : pyval) : res pyval :=
  match l with
  | PList items => bind (py_iter it) (fun xs => Ok (PList (items ++ xs)))
  | PObj _ _ _ => Raise Unmodelled
  | _ => Raise AttributeError
  end.
Definition py_extend_g (l it : pyval) := guard l it (py_extend l it).

(* copy.deepcopy(v): values of this layer are immutable, so the copy is the value; objects (identity) are not modelled *)
Definition py_deepcopy (v : pyval) : res pyval := if has_obj v then Raise Unmodelled else Ok v.

(* a new object: class, fields in __init__ order *)
Definition py_new (cls : string) (f : list (string * pyval)) : pyval := PObj cls 0 f.

(* ------------------------------------------------------------------ numbers *)
(* the unsigned body of int(s, 0) (base0) or int(s) / int(s, 10):
   certain results only; everything else (white space, '_', '+', 0o, 0b, non-ASCII digits ...) is Unmodelled *)
Definition int_body (base0 : bool) (u : string) : res Z :=
  if base0 then
    if prefix_of "0x" u || prefix_of "0X" u then
      let h := drop 2 u in if hex_ok h then Ok (hex_val h) else Raise Unmodelled
    else if all_digits u then (if dec_ok u then Ok (dec_val u) else Raise ValueError)
    else Raise Unmodelled
  else
    if all_digits u then Ok (dec_val u)
    else if prefix_of "0x" u && hex_ok (drop 2 u) then Raise ValueError
    else Raise Unmodelled.
Definition int_of_string (base0 : bool) (s : string) : res Z :=
  if head_is (ceq "-") s then bind (int_body base0 (drop 1 s)) (fun z => Ok (Z.opp z)) else int_body base0 s.
Definition py_int (base0 : bool) (v : pyval) : res pyval :=
  match v with
  | PStr s => bind (int_of_string base0 s) (fun z => Ok (PInt z))
  | PInt z => if base0 then Raise TypeError else Ok (PInt z)
  | PBool b => if base0 then Raise TypeError else Ok (PInt (zbool b))
  | PObj _ _ _ => Raise Unmodelled
  | _ => Raise TypeError
  end.
(* str(v) *)
Definition py_str (v : pyval) : res pyval :=
  match v with
  | PStr s => Ok (PStr s)
  | PInt z => Ok (PStr (string_of_Z z))
  | PNone => Ok (PStr "None")
  | PBool true => Ok (PStr "True")
  | PBool false => Ok (PStr "False")
  | _ => Raise Unmodelled
  end.
Definition as_int (v : pyval) : option Z :=
  match v with PInt z => Some z | PBool b => Some (zbool b) | _ => None end.
(* a ** b, a << b, a * b on ints (a negative exponent gives a float: Unmodelled) *)
Definition py_pow (a b : pyval) : res pyval :=
  match as_int a, as_int b with
  | Some x, Some y => if Z.ltb y 0 then Raise Unmodelled else Ok (PInt (Z.pow x y))
  | _, _ => Raise Unmodelled
  end.
Definition py_lshift (a b : pyval) : res pyval :=
  match as_int a, as_int b with
  | Some x, Some y => if Z.ltb y 0 then Raise ValueError else Ok (PInt (Z.shiftl x y))
  | _, _ => match a, b with
            | PObj _ _ _, _ | _, PObj _ _ _ => Raise Unmodelled
            | _, _ => Raise TypeError
            end
  end.
Definition py_mul (a b : pyval) : res pyval :=
  match as_int a, as_int b with
  | Some x, Some y => Ok (PInt (x * y))
  | _, _ => Raise Unmodelled
  end.
(* a + b with ints, strs, lists (PyDyn.py_add) *)

(* range(a, b) as the list a for-loop sees *)
Definition py_range (a b : pyval) : res pyval :=
  match as_int a, as_int b with
  | Some x, Some y => Ok (PList (map (fun k => PInt (x + Z.of_nat k)) (seq 0 (Z.to_nat (y - x)))))
  | _, _ => match a, b with
            | PObj _ _ _, _ | _, PObj _ _ _ => Raise Unmodelled
            | _, _ => Raise TypeError
            end
  end.

(* ------------------------------------------------------------------ strings *)
Fixpoint join_strs (sep : string) (l : list pyval) : res string :=
  match l with
  | [] => Ok ""
  | PStr a :: t =>
    match t with
    | [] => Ok a
    | _ => bind (join_strs sep t) (fun r => Ok (a ++ sep ++ r))
    end
  | PObj _ _ _ :: _ => Raise Unmodelled
  | _ :: _ => Raise TypeError
  end.
(* sep.join(v) *)
Definition py_join (sep v : pyval) : res pyval :=
  match sep with
  | PStr s =>
    match v with
    | PList l => bind (join_strs s l) (fun r => Ok (PStr r))
    | PNone | PBool _ | PInt _ => Raise TypeError
    | _ => Raise Unmodelled
    end
  | _ => Raise Unmodelled
  end.

(* s.split(sep) for a one-character separator *)
Fixpoint split_char (sep : ascii) (s : string) : list string :=
  match s with
  | EmptyString => [""]
  | String c r =>
    if Ascii.eqb c sep then "" :: split_char sep r
    else match split_char sep r with
         | l :: ls => String c l :: ls
         | [] => [String c ""]
         end
  end.
Definition py_split (v sep : pyval) : res pyval :=
  match v, sep with
  | PStr s, PStr (String c EmptyString) => Ok (PList (map PStr (split_char c s)))
  | PStr _, _ => Raise Unmodelled
  | PObj _ _ _, _ => Raise Unmodelled
  | _, _ => Raise AttributeError
  end.

(* str.isspace() for code points < 256; s.strip() *)
Definition py_space (c : ascii) : bool :=
  let n := N_of_ascii c in
  (N.leb 9 n && N.leb n 13) || (N.leb 28 n && N.leb n 32) || N.eqb n 133 || N.eqb n 160.
Fixpoint lstrip (s : string) : string :=
  match s with
  | EmptyString => EmptyString
  | String c r => if py_space c then lstrip r else s
  end.
Fixpoint rstrip (s : string) : string :=
  match s with
  | EmptyString => EmptyString
  | String c r => match rstrip r with
                  | EmptyString => if py_space c then EmptyString else String c EmptyString
                  | r' => String c r'
                  end
  end.
Definition py_strip_m (v : pyval) : res pyval :=
  match v with
  | PStr s => Ok (PStr (rstrip (lstrip s)))
  | PObj _ _ _ => Raise Unmodelled
  | _ => Raise AttributeError
  end.

(* ------------------------------------------------------------------ try / except *)
Definition exn_eqb (a b : exn) : bool :=
  match a, b with
  | AttributeError, AttributeError | TypeError, TypeError | KeyError, KeyError | IndexError, IndexError
  | ValueError, ValueError | StopIteration, StopIteration => true
  | _, _ => false                       (* Unmodelled is never caught *)
  end.
Definition caught (e : exn) (l : list exn) : bool := existsb (exn_eqb e) l.
(* evaluate r inside a `try` whose handlers catch the classes l: a caught exception continues with h, a value with k *)
Definition try_bind {A B} (r : res A) (l : list exn) (h : unit -> res B) (k : A -> res B) : res B :=
  match r with
  | Ok a => k a
  | Raise e => if caught e l then h tt else Raise e
  end.

(* ------------------------------------------------------------------ printing for evaluation shards *)
Definition show_exn_p (e : exn) : string :=
  match e with
  | StopIteration => "ParseException"
  | _ => show_exn e
  end.
(* Ok v is compared with a dump by pyval_same; the harness prints only the class of a mismatch *)
Definition same_res (r : res pyval) (expect : res pyval) : bool :=
  match r, expect with
  | Ok a, Ok b => pyval_same a b
  | Raise e, Raise e' => exn_eqb e e'
  | _, _ => false
  end.
(* dicts as finite maps (the key order of a pyparsing result is not part of the grammar stage's meaning) *)
Fixpoint map_same (a b : pyval) {struct a} : bool :=
  match a, b with
  | PDict f, PDict f' =>
    Nat.eqb (length f) (length f') &&
    (fix go (l : list (string * pyval)) : bool :=
       match l with
       | [] => true
       | (k, x) :: t => match dict_find k f' with Some y => map_same x y && go t | None => false end
       end) f
  | PList l, PList m =>
    (fix go (l m : list pyval) : bool :=
       match l, m with
       | [], [] => true
       | x :: t, y :: u => map_same x y && go t u
       | _, _ => false
       end) l m
  | _, _ => pyval_same a b
  end.
