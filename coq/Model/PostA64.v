(* C10 -- the two ends of the POST-PROCESSING stage of parser_AArch64.py, as functions of the written syntax tree
   (Model/SyntaxA64.v).  Executable, no proofs.

     gr_*      GRAMMAR RESULT: the nested dict/list/str value pyparsing's `.asDict()` returns for the rendered
               tree (every key, including the ones the post-processing never reads: the fields of the last member
               left behind in a register-list group, the duplicate "immediate" of an offset / shift amount).
               Key order is not part of the meaning (checks compare as finite maps).  VALIDATED against real
               pyparsing output on every generated line of every run (harness/parsepost_tie.py, stage a).
     gr_stage  the whole grammar stage of a line as the oracle the translated parse_line consults: which of the
               grammar elements comment / llvm_markers / label / directive / instruction_parser accept the line
               and with which result, and list_element on the members of register lists.
     emb_*     EMBEDDING of the hand model's result types (Model/ParseA64.v: reg, operand, pline) as the Python
               objects the implementation returns: class name and EVERY instance attribute in __init__ order.
   What the hand model does not describe is a free parameter of both ends: the parameters, the further keys and
   the comment of a directive group (dirx), the line text and the line number. *)
From Coq Require Import String Ascii List Bool ZArith NArith.
From OV Require Import Model.PyString Model.PyDyn Model.PyPost Model.LexA64 Model.ParseA64 Model.SyntaxA64.
Import ListNotations.
Open Scope string_scope.

Definition ostr (o : option string) : pyval := match o with Some s => PStr s | None => PNone end.
Definition dval (s : string) : pyval := PDict [("value", PStr s)].

(* ------------------------------------------------------------------ grammar result: registers *)
(* pp.Word keeps the scalar prefix as written; the caseless oneOf("v z") / CaselessLiteral("p") return their own literal *)
Definition gr_prefix (r : wreg) : string := if is_scalar r then s1 (w_pre r) else s1 (low (w_pre r)).
Definition gr_arr (r : wreg) : list (string * pyval) :=
  match w_arr r with
  | None => []
  | Some (l, s) => ((if nonempty l then [("lanes", PStr l)] else []) ++ [("shape", PStr (s1 s))])%list
  end.
Definition gr_wreg (r : wreg) : list (string * pyval) :=
  ([("prefix", PStr (gr_prefix r)); ("name", PStr (nat_str (w_num r)))] ++ gr_arr r)%list.
(* the alias regular expressions (?P<prefix>[a-zA-Z])?(?P<name>(sp|SP)) / (zr|ZR): an unmatched group is None *)
Definition gr_alias (w : string) : list (string * pyval) :=
  match w with
  | String c t => if orb (String.eqb w "sp") (String.eqb w "SP") then [("prefix", PNone); ("name", PStr w)]
                  else [("prefix", PStr (s1 c)); ("name", PStr t)]
  | EmptyString => []
  end.
Definition gr_wregop (o : wregop) : list (string * pyval) :=
  match o with
  | RPlain r => gr_wreg r
  | RIndexed r i => (gr_wreg r ++ [("index", PStr i)])%list
  | RPredicated r m => (gr_wreg r ++ [("predication", PStr (s1 (low m)))])%list
  | RSp w => gr_alias w
  | RZr w => gr_alias w
  end.

(* a member of a register list as Combine(list_element) returns it *)
Definition gr_elem_word (e : wreg) : string :=
  gr_prefix e ++ nat_str (w_num e) ++ match w_arr e with None => "" | Some (l, s) => "." ++ l ++ s1 s end.
(* the named results of the members stay in the group: for every field the last member that has it *)
Definition upd (d : list (string * pyval)) (kvs : list (string * pyval)) : list (string * pyval) :=
  fold_left (fun d kv => dset (fst kv) (snd kv) d) kvs d.
Definition gr_left (els : list wreg) : list (string * pyval) := fold_left (fun d e => upd d (gr_wreg e)) els [].
Definition gr_idx (i : option string) : list (string * pyval) := match i with Some d => [("index", PStr d)] | None => [] end.

(* ------------------------------------------------------------------ grammar result: operands *)
Definition gr_base (b : wbase) : list (string * pyval) :=
  match b with
  | BX up n => [("prefix", PStr (if up then "X" else "x")); ("name", PStr (nat_str n))]
  | BSp w => gr_alias w
  end.
Definition gr_ext (e : option wext) : list (string * pyval) :=
  match e with
  | None => []
  | Some (mkwext op None) => [("shift_op", PStr (lower op))]
  | Some (mkwext op (Some (_, k))) =>
    [("shift_op", PStr (lower op)); ("immediate", dval (num_word k)); ("shift", PList [dval (num_word k)])]
  end.
Definition gr_tail (t : wmemtail) : list (string * pyval) :=
  match t with
  | MTNone => []
  | MTOff _ n => [("immediate", dval (num_word n)); ("offset", PList [dval (num_word n)])]
  | MTIdx p n e => [("index", PDict ([("prefix", PStr (s1 p)); ("name", PStr (nat_str n))] ++ gr_ext e)%list)]
  end.
Definition gr_close (c : wmemclose) : list (string * pyval) :=
  match c with
  | MCNone => []
  | MCPre => [("pre_indexed", PStr "!")]
  | MCPost _ n => [("post_indexed", dval (num_word n))]
  end.
Definition gr_float (f : wfloat) : pyval :=
  PDict (("mantissa", PStr (float_mant f)) ::
         match f_exp f with None => [] | Some (_, sg, d) => [("e_sign", PStr (s1 sg)); ("exponent", PStr d)] end).

Definition gr_wop (o : wop) : pyval :=
  match o with
  | WReg r => PDict [("register", PDict (gr_wregop r))]
  | WList els i =>
    PDict [("register", PDict ([("list", PList (map (fun e => PStr (gr_elem_word e)) els))] ++ gr_idx i ++ gr_left els)%list)]
  | WRange a b i =>
    PDict [("register", PDict ([("range", PList [PStr (gr_elem_word a); PStr (gr_elem_word b)])] ++ gr_idx i ++ gr_left [a; b])%list)]
  | WInt _ n => PDict [("immediate", dval (num_word n))]
  | WFlt _ f => PDict [("immediate", PDict [(match f_suffix f with Some _ => "float" | None => "double" end, gr_float f)])]
  | WIdent _ w => PDict [("immediate", PDict [("identifier", PDict [("name", PStr w)])])]
  | WCond w => PDict [("condition", PStr (upper w))]
  | WMem b t c => PDict [("memory", PDict ([("base", PDict (gr_base b))] ++ gr_tail t ++ gr_close c)%list)]
  end.

(* ------------------------------------------------------------------ grammar result: lines *)
Definition gr_comment (c : option string) : list (string * pyval) :=
  match c with None => [] | Some raw => [("comment", PList (map PStr (words_go raw "")))] end.
Fixpoint gr_operands (k : nat) (ops : list wop) : list (string * pyval) :=
  match ops with
  | [] => []
  | o :: r => ("operand" ++ nat_str k, gr_wop o) :: gr_operands (S k) r
  end.
Definition gr_instr (mn : string) (ops : list wop) (c : option string) : pyval :=
  PDict ([("mnemonic", PStr mn)] ++ gr_operands 1 ops ++ gr_comment c)%list.
Definition gr_label (n : string) (c : option string) : pyval :=
  PDict [("label", PDict ([("name", PDict [("name", PStr n)])] ++ gr_comment c)%list)].
(* what the hand model leaves open in a directive group: the parameters as delivered, further keys ("value",
   "identifier": named results of the parameters), the comment words *)
Record dirx := mkdirx { dx_params : pyval; dx_more : list (string * pyval); dx_comment : option (list string) }.
Definition dirx_ok (x : dirx) : bool :=
  forallb (fun kv => negb (existsb (String.eqb (fst kv)) ["name"; "parameters"; "comment"])) (dx_more x).
Definition gr_directive (n : string) (x : dirx) : pyval :=
  PDict [("directive", PDict ([("name", PStr n); ("parameters", dx_params x)] ++ dx_more x ++
                              match dx_comment x with None => [] | Some ws => [("comment", PList (map PStr ws))] end)%list)].

(* the members of the register lists of a line *)
Definition op_members (o : wop) : list wreg :=
  match o with WList els _ => els | WRange a b _ => [a; b] | _ => [] end.
Definition line_members (l : wline) : list wreg :=
  match l with WLInstr _ ops _ => flat_map op_members ops | _ => [] end.

(* the grammar stage of a line: element name -> argument -> result dictionary / ParseException *)
Definition gr_stage (l : wline) (x : dirx) (elem : string) (arg : pyval) : res pyval :=
  if key_eqb elem "list_element" then
    match arg with
    | PStr w => match find (fun e => String.eqb (gr_elem_word e) w) (line_members l) with
                | Some e => Ok (PDict (gr_wreg e))
                | None => Raise Unmodelled
                end
    | _ => Raise Unmodelled
    end
  else
  let is k := key_eqb elem k in
  (* parse_line tries comment, llvm_markers, label, directive, instruction_parser in this order and stops at the first
     element that accepts the line; what a LATER element would say is not part of the stage (Unmodelled: e.g.
     instruction_parser also accepts most directive lines) *)
  match l with
  | WLComment raw =>
    if is "comment" then Ok (PDict (gr_comment (Some raw)))
    else if is "llvm_markers" then Raise ParseException else Raise Unmodelled
  | WLLabel n c =>
    if is "label" then Ok (gr_label n c)
    else if is "comment" || is "llvm_markers" then Raise ParseException else Raise Unmodelled
  | WLDirective n _ _ =>
    if is "directive" then Ok (gr_directive n x)
    else if is "comment" || is "llvm_markers" || is "label" then Raise ParseException else Raise Unmodelled
  | WLInstr mn ops c =>
    if is "instruction_parser" then Ok (gr_instr mn ops c)
    else if is "comment" || is "llvm_markers" || is "label" || is "directive" then Raise ParseException else Raise Unmodelled
  end.

(* ------------------------------------------------------------------ embedding of the hand model's results *)
Definition fF : pyval := PBool false.
Definition mk_reg (name prefix lanes shape index pred shift shift_op : pyval) : pyval :=
  PObj "RegisterOperand" 0
    [("_source", fF); ("_destination", fF); ("_name", name); ("_width", PNone); ("_prefix", prefix); ("_regtype", PNone);
     ("_lanes", lanes); ("_shape", shape); ("_index", index); ("_mask", fF); ("_zeroing", fF); ("_predication", pred);
     ("_pre_indexed", fF); ("_post_indexed", fF); ("_shift", shift); ("_shift_op", shift_op)].
Definition emb_idx (i : option idx) : pyval :=
  match i with None => PNone | Some (IdxS s) => PStr s | Some (IdxI z) => PInt z end.
Definition emb_reg (r : reg) : pyval :=
  mk_reg (PStr (r_name r)) (PStr (r_prefix r)) (ostr (r_lanes r)) (ostr (r_shape r)) (emb_idx (r_index r)) (ostr (r_pred r)) fF fF.
Definition mk_imm (imd_type value : pyval) : pyval :=
  PObj "ImmediateOperand" 0
    [("_source", fF); ("_destination", fF); ("_identifier", PNone); ("_imd_type", imd_type); ("_value", value); ("_shift", PNone)].
Definition mk_ident (name : string) : pyval :=
  PObj "IdentifierOperand" 0
    [("_source", fF); ("_destination", fF); ("_name", PStr name); ("_offset", PNone); ("_relocation", PNone)].
Definition emb_off (o : moff) : pyval :=
  match o with MOffNone => PNone | MOffImm z => mk_imm PNone (PInt z) | MOffId n => mk_ident n end.
Definition emb_mindex (i : option mindex) : pyval :=
  match i with
  | None => PNone
  | Some m => mk_reg (PStr (mi_name m)) (PStr (mi_prefix m)) PNone PNone PNone PNone
                     (match mi_shift m with Some raw => PList [dval raw] | None => PNone end) (ostr (mi_shiftop m))
  end.
Definition emb_operand (o : operand) : pyval :=
  match o with
  | OReg r => emb_reg r
  | OImmInt z => mk_imm (PStr "int") (PInt z)
  | OImmFlt f m None => mk_imm (PStr (if f then "float" else "double")) (PStr m)
  | OImmFlt f m (Some (sg, e)) =>
    mk_imm (PStr (if f then "float" else "double")) (PDict [("mantissa", PStr m); ("e_sign", PStr sg); ("exponent", PStr e)])
  | OIdent n => mk_ident n
  | OCond c => PObj "ConditionOperand" 0 [("_source", fF); ("_destination", fF); ("_ccode", PStr c)]
  | OMem off bp bn ix sc pre post =>
    PObj "MemoryOperand" 0
      [("_source", fF); ("_destination", fF); ("_offset", emb_off off);
       ("_base", mk_reg (PStr bn) (PStr bp) PNone PNone PNone PNone fF fF); ("_index", emb_mindex ix); ("_scale", PInt sc);
       ("_segment_ext", PNone); ("_mask", PNone); ("_pre_indexed", PBool pre);
       ("_post_indexed", match post with None => fF | Some z => PDict [("value", PInt z)] end);
       ("_indexed_val", PNone); ("_src", PNone); ("_dst", PNone)]
  end.

Definition mk_form (mnemonic operands directive comment label line number : pyval) : pyval :=
  PObj "InstructionForm" 0
    [("_mnemonic", mnemonic); ("_operands", operands); ("_hidden_operands", PList []); ("_directive_id", directive);
     ("_comment_id", comment); ("_label_id", label); ("_line", line); ("_line_number", number);
     ("_semantic_operands", PDict [("source", PList []); ("destination", PList []); ("src_dst", PList [])]);
     ("_operation", PNone); ("_uops", PNone); ("_breaks_dependency_on_equal_operands", fF); ("_latency", PNone);
     ("_throughput", PNone); ("_latency_cp", PList []); ("_latency_lcd", PList []); ("_latency_wo_load", PNone);
     ("_port_pressure", PNone); ("_port_uops", PList []); ("_flags", PList [])].
Definition mk_directive (name : string) (params : pyval) : pyval :=
  PObj "DirectiveOperand" 0 [("_name", PStr name); ("_parameters", params)].

(* the InstructionForm parse_line returns for a line with meaning p (a directive line: the free part x) *)
Definition emb_form (p : pline) (x : dirx) (line number : pyval) : pyval :=
  match p_directive p with
  | Some d =>
    mk_form PNone (PList []) (mk_directive d (dx_params x))
            (match dx_comment x with None => PNone | Some ws => PStr (String.concat " " ws) end) PNone line number
  | None =>
    mk_form (ostr (p_mnemonic p)) (PList (map emb_operand (p_operands p))) PNone (ostr (p_comment p)) (ostr (p_label p)) line number
  end.

(* what process_operand returns for one written operand: the object, or the list of objects of a register list *)
Definition emb_wop (o : wop) : pyval :=
  match o with
  | WList _ _ | WRange _ _ _ => PList (map emb_operand (den_wop o))
  | _ => match den_wop o with [x] => emb_operand x | l => PList (map emb_operand l) end
  end.
