(* C15 -- shipped machine-model data: shapes, costing (average_port_pressure), well-formedness.
   Executable definitions only (no proofs).  The data itself is regenerated from /repo's YAML
   files on every run by tools/gen_c15.py into Gen/Data_<arch>.v.

   Python anchors:
     hw_model.MachineModel.average_port_pressure        -> avg_pressure
     arch_semantics.assign_optimal_throughput, the lines
        ports = list(uop[1]); indices = [port_list.index(p) for p in ports]; itemgetter over indices
                                                         -> uop_positions
     db_interface._check_sanity_arch_db (three counts)   -> counts
   Errors of the Python are explicit values (pyerr); nothing is totalised away. *)
From Coq Require Import String Ascii List Bool Arith ZArith QArith.
Import ListNotations.
Open Scope string_scope.

(* ------------------------------------------------------------------ shapes found in the YAML *)
(* a scalar that should be a number: cycles, throughput, latency, multiplier *)
Inductive num :=
| NQ (q : Q)                 (* int or float, transcribed as the exact decimal of its repr *)
| NBad (repr : string).      (* str, bool, list, ... *)

(* the port collection of one micro-op *)
Inductive portset :=
| UStr (s : string)          (* '0156' : Python iterates it per character *)
| UList (l : list string)    (* ['8D','9D'] *)
| UBadPorts (repr : string). (* not iterable / elements that are not strings *)

Inductive uop :=
| U (cycles : num) (ports : portset)
| UBad (repr : string).      (* not a 2-element sequence: `for cycles, ports in used_pp` fails *)

Inductive assignment :=
| AAbsent                    (* key not in the entry: the loader substitutes None *)
| ANone                      (* `port_pressure: ~` *)
| AUops (us : list uop)      (* [[1,'015'],[2,['2D','3D']]] ; [] = not bound to a port *)
| AAlts (alts : list (list uop))  (* {0: [...], 1: [...]} with keys exactly 0..n-1 *)
| ABad (repr : string).      (* anything else (scalar, dict with other keys) *)

(* throughput / latency / table scalars *)
Inductive field :=
| FAbsent                    (* key missing *)
| FNone                      (* ~ *)
| FNum (q : Q)
| FBad (repr : string).

Record entry := E {
  e_name : string;           (* mnemonic after the loader's upper-casing / alias splitting *)
  e_ops : string;            (* one class character per operand: r m i d c f p, '?' = class the loader
                                does not know (left as a raw dict); '|' separates hidden operands *)
  e_tp : field;
  e_lt : field;
  e_pp : nat                 (* index into the file's table of distinct assignments *)
}.

(* ------------------------------------------------------------------ errors *)
Inductive pyerr :=
| EKey (port : string)       (* KeyError("Port 'x' not in port list.") / ValueError of list.index *)
| EShape (what : string).    (* TypeError / ValueError raised by unpacking, iterating, dividing,
                                itemgetter() without arguments, subscripting None *)

Inductive result (A : Type) :=
| Ok (a : A)
| Err (e : pyerr).
Arguments Ok {A} a.
Arguments Err {A} e.

(* ------------------------------------------------------------------ costing *)
Fixpoint chars1 (s : string) : list string :=
  match s with EmptyString => [] | String c r => String c EmptyString :: chars1 r end.

(* what `for p in ports` yields *)
Definition port_names (ps : portset) : result (list string) :=
  match ps with
  | UStr s => Ok (chars1 s)
  | UList l => Ok l
  | UBadPorts r => Err (EShape r)
  end.

(* port_list.index(p) *)
Fixpoint index_of (p : string) (ports : list string) : option nat :=
  match ports with
  | [] => None
  | x :: r => if String.eqb x p then Some 0%nat
              else match index_of p r with Some i => Some (S i) | None => None end
  end.

(* v[i] += x *)
Fixpoint add_at (i : nat) (x : Q) (v : list Q) {struct v} : list Q :=
  match v with
  | [] => []
  | y :: r => match i with O => (y + x) :: r | S j => y :: add_at j x r end
  end.

(* inner loop: for p in ports: average_pressure[port_list.index(p)] += cycles / len(ports) *)
Fixpoint add_ports (ports : list string) (share : Q) (names : list string) (v : list Q) : result (list Q) :=
  match names with
  | [] => Ok v
  | p :: rest => match index_of p ports with
                 | None => Err (EKey p)
                 | Some i => add_ports ports share rest (add_at i share v)
                 end
  end.

Definition nat_Q (n : nat) : Q := inject_Z (Z.of_nat n).

Definition add_uop (ports : list string) (u : uop) (v : list Q) : result (list Q) :=
  match u with
  | UBad r => Err (EShape r)
  | U c ps =>
      match port_names ps with
      | Err e => Err e
      | Ok [] => Ok v                      (* empty collection: the loop body never runs *)
      | Ok names =>
          match c with
          | NBad r =>                      (* the subscript port_list.index(p) is evaluated first *)
              match names with
              | p :: _ => match index_of p ports with
                          | None => Err (EKey p)
                          | Some _ => Err (EShape r)   (* str / list / None divided by an int *)
                          end
              | [] => Ok v
              end
          | NQ q => add_ports ports (q / nat_Q (length names)) names v
          end
      end
  end.

Fixpoint add_uops (ports : list string) (us : list uop) (v : list Q) : result (list Q) :=
  match us with
  | [] => Ok v
  | u :: r => match add_uop ports u v with Err e => Err e | Ok v' => add_uops ports r v' end
  end.

Definition zeros (n : nat) : list Q := repeat 0 n.

(* MachineModel.average_port_pressure(port_pressure)  (option = 0) *)
Definition avg_pressure (ports : list string) (a : assignment) : result (list Q) :=
  match a with
  | AAbsent | ANone => Err (EShape "NoneType is not iterable")
  | ABad r => Err (EShape r)
  | AUops us => add_uops ports us (zeros (length ports))
  | AAlts [] => Err (EKey "0")             (* port_pressure[0] on an empty dict *)
  | AAlts (us :: _) => add_uops ports us (zeros (length ports))
  end.

(* assign_optimal_throughput, per micro-op:
     ports = list(uop[1]); indices = [port_list.index(p) for p in ports]; itemgetter over indices(...) *)
Fixpoint indices_of (ports : list string) (names : list string) : result (list nat) :=
  match names with
  | [] => Ok []
  | p :: rest => match index_of p ports with
                 | None => Err (EKey p)
                 | Some i => match indices_of ports rest with Err e => Err e | Ok l => Ok (i :: l) end
                 end
  end.

Definition uop_positions (ports : list string) (u : uop) : result (list nat) :=
  match u with
  | UBad r => Err (EShape r)
  | U _ ps => match port_names ps with
              | Err e => Err e
              | Ok names => match indices_of ports names with
                            | Err e => Err e
                            | Ok [] => Err (EShape "itemgetter expected 1 argument, got 0")
                            | Ok l => Ok l
                            end
              end
  end.

(* ------------------------------------------------------------------ well-formedness, boolean *)
Definition wf_numb (c : num) : bool := match c with NQ q => Qle_bool 0 q | NBad _ => false end.

Definition wf_portsetb (ports : list string) (ps : portset) : bool :=
  match port_names ps with
  | Ok (p :: r) => forallb (fun x => existsb (String.eqb x) ports) (p :: r)
  | _ => false
  end.

Definition wf_uopb (ports : list string) (u : uop) : bool :=
  match u with U c ps => wf_numb c && wf_portsetb ports ps | UBad _ => false end.

Definition wf_uopsb (ports : list string) (us : list uop) : bool := forallb (wf_uopb ports) us.

Definition wf_assignmentb (ports : list string) (a : assignment) : bool :=
  match a with
  | AUops us => wf_uopsb ports us
  | AAlts (us :: r) => forallb (wf_uopsb ports) (us :: r)
  | _ => false
  end.

(* plain micro-op list: what the load/store tables and their defaults must be
   (they are `.copy()`ed and `+=`-concatenated as lists) *)
Definition wf_plainb (ports : list string) (a : assignment) : bool :=
  match a with AUops us => wf_uopsb ports us | _ => false end.

(* throughput / latency: absent, ~ or a non-negative number *)
Definition wf_fieldb (f : field) : bool :=
  match f with FAbsent | FNone => true | FNum q => Qle_bool 0 q | FBad _ => false end.
(* multipliers: must be a non-negative number *)
Definition wf_factorb (f : field) : bool := match f with FNum q => Qle_bool 0 q | _ => false end.

Definition known_class (c : ascii) : bool :=
  existsb (Ascii.eqb c) ["r"; "m"; "i"; "d"; "c"; "f"; "p"; "|"]%char.
Fixpoint wf_opsb (s : string) : bool :=
  match s with EmptyString => true | String c r => known_class c && wf_opsb r end.

Definition assignment_of (table : list assignment) (e : entry) : assignment :=
  nth (e_pp e) table (ABad "index outside the table").

(* an instruction form of a micro-architecture model *)
Definition entry_wfb (ports : list string) (table : list assignment) (e : entry) : bool :=
  wf_opsb (e_ops e) && wf_fieldb (e_tp e) && wf_fieldb (e_lt e) &&
  wf_assignmentb ports (assignment_of table e).

(* an entry of an ISA database: only operand roles; performance fields are normally absent,
   if present they must be well-formed too *)
Definition isa_entry_wfb (ports : list string) (table : list assignment) (e : entry) : bool :=
  wf_opsb (e_ops e) && wf_fieldb (e_tp e) && wf_fieldb (e_lt e) &&
  match assignment_of table e with AAbsent => true | a => wf_assignmentb ports a end.

(* load_throughput / store_throughput rows: (summary of the address pattern, assignment index) *)
Definition row_wfb (ports : list string) (table : list assignment) (r : string * nat) : bool :=
  wf_plainb ports (nth (snd r) table (ABad "index outside the table")).

Record tables := T {
  t_load : list (string * nat);
  t_load_default : nat;
  t_store : list (string * nat);
  t_store_default : nat;
  t_load_latency : list (string * field);
  t_load_mult : list (string * field);
  t_store_mult : list (string * field)
}.

Definition tables_wfb (ports : list string) (table : list assignment) (t : tables) : bool :=
  forallb (row_wfb ports table) (t_load t) && row_wfb ports table ("default", t_load_default t) &&
  forallb (row_wfb ports table) (t_store t) && row_wfb ports table ("default", t_store_default t) &&
  forallb (fun p => wf_fieldb (snd p)) (t_load_latency t) &&
  forallb (fun p => wf_factorb (snd p)) (t_load_mult t) &&
  forallb (fun p => wf_factorb (snd p)) (t_store_mult t).

(* the port list itself: non-empty names, no duplicates (list.index finds the first) *)
Fixpoint nodupb (l : list string) : bool :=
  match l with [] => true | x :: r => negb (existsb (String.eqb x) r) && nodupb r end.
Definition ports_wfb (ports : list string) : bool :=
  forallb (fun p => negb (String.eqb p "")) ports && nodupb ports.

(* ------------------------------------------------------------------ --db-check's three counts *)
Definition missing_field (f : field) : bool := match f with FNone | FAbsent => true | _ => false end.
Definition missing_pp (a : assignment) : bool := match a with ANone | AAbsent => true | _ => false end.
Definition countb {A} (f : A -> bool) (l : list A) : nat := length (filter f l).

Definition counts (table : list assignment) (es : list entry) : nat * nat * nat :=
  (countb (fun e => missing_field (e_tp e)) es,
   countb (fun e => missing_field (e_lt e)) es,
   countb (fun e => missing_pp (assignment_of table e)) es).

(* ------------------------------------------------------------------ diagnostics (printing) *)
Fixpoint bad_indices_from {A} (f : A -> bool) (l : list A) (i : nat) : list nat :=
  match l with [] => [] | x :: r => if f x then bad_indices_from f r (S i) else i :: bad_indices_from f r (S i) end.
Definition bad_indices {A} (f : A -> bool) (l : list A) : list nat := bad_indices_from f l 0.
