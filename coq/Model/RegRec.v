(* The part of a parsed register operand that the dependence test inspects. *)
From Coq Require Import String.
Record reg := mkreg { reg_name : string; reg_prefix : string }.
