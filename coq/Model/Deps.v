(* Dependency stage of OSACA (DESIGN.md C03-C06, C14): KernelDG.find_depending / is_read / is_written /
   is_memload / is_memstore / _update_reg_changes / create_DG, the doubled-kernel LCD search and its
   post-processing.  Generic in the numeric instance (latencies).  Inputs per line are what the earlier
   stages deliver: the semantic operand sets (or None), latency, latency_wo_load, whether a separate load
   node exists, and the results of ISASemantics.get_reg_changes (with and without only_postindexed).
   The register-alias test is a parameter.  No proofs in this file. *)
From Coq Require Import ZArith List Bool String.
From OV Require Import Model.Num Model.Pressure.
Import ListNotations.

Record regop := mkR { r_name : string; r_prefix : string; r_pidx : bool }.   (* r_pidx: pre_indexed or post_indexed truthy *)
Inductive offs := ONone | OImm (v : Z) | OSym.      (* OSym: identifier / immediate without value *)
Record memop := mkM { m_base : option regop; m_index : option regop; m_scale : Z; m_off : offs;
                      m_pre : bool; m_post : bool; m_key : nat (* class of Python == on MemoryOperand *) }.
Inductive opnd := OReg (r : regop) | OFlag (n : string) | OMem (m : memop) | OOther.

(* a register change as returned by get_reg_changes: None = changed beyond reconstruction *)
Definition change := option (string * Z).

Section Deps.
  Context {T : Type} (N : NumOps T).
  Variable dep : regop -> regop -> bool.              (* parser.is_reg_dependend_of *)

  Record line := mkL {
    l_no : nat;
    l_sem : option (list opnd * list opnd * list opnd);   (* source, destination, src_dst *)
    l_lat : T; l_lat_wo : T;
    l_loadnode : bool;                                    (* HAS_LD in flags and LD not in flags *)
    l_chg : list (string * change);                       (* get_reg_changes(iform) in dict order *)
    l_chg_post : list (string * change) }.                (* get_reg_changes(iform, only_postindexed=True) *)

  Definition srcs (l : line) : list opnd := match l_sem l with Some (s, _, sd) => s ++ sd | None => [] end.
  Definition dsts (l : line) : list opnd := match l_sem l with Some (_, d, sd) => d ++ sd | None => [] end.

  (* is_reg_dependend_of / is_flag_dependend_of with `register` either a register or a flag operand.
     A flag handed to is_reg_dependend_of never matches (flag names are not register names). *)
  Definition reg_vs_reg (a : opnd) (b : regop) : bool :=
    match a with OReg r => dep r b | _ => false end.
  Definition name_of (a : opnd) : string :=
    match a with OReg r => r_name r | OFlag n => n | _ => EmptyString end.
  Definition vs_flag (a : opnd) (n : string) : bool := String.eqb (name_of a) n.

  Definition opt_dep (a : opnd) (o : option regop) : bool :=
    match o with Some r => reg_vs_reg a r | None => false end.

  Definition is_read (a : opnd) (l : line) : bool :=
    match l_sem l with
    | None => false
    | Some _ =>
      orb (existsb (fun s => match s with
                             | OReg r => reg_vs_reg a r
                             | OFlag n => vs_flag a n
                             | OMem m => orb (opt_dep a (m_base m)) (opt_dep a (m_index m))
                             | OOther => false end) (srcs l))
          (existsb (fun d => match d with
                             | OMem m => orb (opt_dep a (m_base m)) (opt_dep a (m_index m))
                             | _ => false end) (dsts l))
    end.

  Definition is_written (a : opnd) (l : line) : bool :=
    match l_sem l with
    | None => false
    | Some _ =>
      orb (existsb (fun d => match d with
                             | OReg r => reg_vs_reg a r
                             | OFlag n => vs_flag a n
                             | OMem m => andb (orb (m_pre m) (m_post m)) (opt_dep a (m_base m))
                             | OOther => false end) (dsts l))
          (existsb (fun s => match s with
                             | OMem m => andb (orb (m_pre m) (m_post m)) (opt_dep a (m_base m))
                             | _ => false end) (srcs l))
    end.

  (* ---- register_changes: an insertion-ordered dict name -> None | (name, value) ---- *)
  Definition rstate := list (string * change).
  Fixpoint rs_get (s : rstate) (k : string) : option change :=
    match s with [] => None | (k', v) :: r => if String.eqb k k' then Some v else rs_get r k end.
  Fixpoint rs_set (s : rstate) (k : string) (v : change) : rstate :=
    match s with
    | [] => [(k, v)]
    | (k', v') :: r => if String.eqb k k' then (k, v) :: r else (k', v') :: rs_set r k v
    end.

  Definition update_one (s : rstate) (reg : string) (c : change) : rstate :=
    match c with
    | None => rs_set s reg None
    | Some (cname, cval) =>
      if String.eqb cname reg then
        (* increment / decrement of the register itself: unknown stays unknown *)
        match rs_get s reg with
        | Some None => rs_set s reg None
        | Some (Some (nm0, v0)) => rs_set s reg (Some (nm0, (v0 + cval)%Z))
        | None => rs_set s reg (Some (reg, (0 + cval)%Z))
        end
      else
        (* copy: origin and accumulated value of the source register, whatever reg held before *)
        match rs_get s cname with
        | Some None => rs_set s reg None
        | Some (Some (snm, sv)) => rs_set s reg (Some (snm, (sv + cval)%Z))
        | None => rs_set s reg (Some (cname, (0 + cval)%Z))
        end
    end.
  Definition update_changes (s : rstate) (cs : list (string * change)) : rstate :=
    fold_left (fun st kc => update_one st (fst kc) (snd kc)) cs s.

  Definition fullname (r : regop) : string := (r_prefix r ++ r_name r)%string.

  (* is_memload(mem, instruction_form, register_changes) *)
  Definition lookup_change (s : rstate) (r : regop) : change :=
    match rs_get s (fullname r) with Some c => c | None => Some (fullname r, 0%Z) end.

  Definition memload_one (mem : memop) (s : rstate) (src : memop) : bool :=
    (* a pre-indexed offset is already part of the base register's tracked change *)
    let a0 := if m_pre src then 0%Z else match m_off src with OImm v => v | _ => 0%Z end in
    match m_off mem with
    | OSym => false                              (* symbolic displacement: continue *)
    | moff =>
      let a1 := match moff with OImm v => (a0 - v)%Z | _ => a0 end in
      let base_res : option Z :=
        match m_base mem, m_base src with
        | Some mb, Some sb =>
          match lookup_change s sb with
          | None => None
          | Some (nm, v) => if String.eqb (fullname mb) nm then Some (a1 + v)%Z else None
          end
        | None, None => Some a1
        | _, _ => None
        end in
      match base_res with
      | None => false
      | Some a2 =>
        let idx_res : option Z :=
          match m_index mem, m_index src with
          | Some mi, Some si =>
            match lookup_change s si with
            | None => None
            | Some (nm, v) =>
              if negb (Z.eqb (m_scale mem) (m_scale src)) then None
              else if String.eqb (fullname mi) nm then Some (a2 + v * m_scale src)%Z else None
            end
          | None, None => Some a2
          | _, _ => None
          end in
        match idx_res with Some a3 => Z.eqb a3 0 | None => false end
      end
    end.

  Definition is_memload (mem : memop) (l : line) (s : rstate) : bool :=
    existsb (fun o => match o with OMem m => memload_one mem s m | _ => false end) (srcs l).
  Definition is_memstore (mem : memop) (l : line) : bool :=
    existsb (fun o => match o with OMem m => Nat.eqb (m_key m) (m_key mem) | _ => false end) (dsts l).

  (* ---- find_depending ---- *)
  Inductive dflag := FPlain | FPIndexed | FStoreLoad.

  (* scan for ONE destination operand over the following instructions *)
  Fixpoint scan (flagdeps : bool) (d : opnd) (rest : list line) (s : rstate) : list (nat * dflag) :=
    match rest with
    | [] => []
    | l :: more =>
      let s1 := update_changes s (l_chg l) in
      let s2 := update_changes s1 (l_chg_post l) in
      match d with
      | OReg r =>
        let out := if is_read d l then [(l_no l, if r_pidx r then FPIndexed else FPlain)] else [] in
        if is_written d l then out else out ++ scan flagdeps d more s2
      | OFlag _ =>
        if flagdeps then
          let out := if is_read d l then [(l_no l, FPlain)] else [] in
          if is_written d l then out else out ++ scan flagdeps d more s2
        else scan flagdeps d more s2
      | OMem m =>
        (* later writes to the base register, also of a pre-/post-indexed store, are tracked in the state *)
        let out := if is_memload m l s1 then [(l_no l, FStoreLoad)] else [] in
        if is_memstore m l then out else out ++ scan flagdeps d more s2
      | OOther => scan flagdeps d more s2
      end
    end.

  Definition find_depending (flagdeps : bool) (l : line) (rest : list line) : list (nat * dflag) :=
    (* the producer's own changes, then its own post-index bump *)
    flat_map (fun d => scan flagdeps d rest (update_changes (update_changes [] (l_chg l)) (l_chg_post l))) (dsts l).

  (* ---- create_DG ---- *)
  (* node: (line number, is the separate load node).  edge: source node, target line, weight *)
  Definition edge := ((nat * bool) * nat * T)%type.

  Section Graph.
    Variables (fwd : T) (pidx_lat : T).      (* store_to_load_forward_latency, p_index_latency *)

    Definition edge_weight (l : line) (f : dflag) : T :=
      match f with
      | FPlain => l_lat_wo l
      | FStoreLoad => nadd N (l_lat_wo l) fwd
      | FPIndexed => pidx_lat
      end.

    Fixpoint emit (flagdeps : bool) (k : list line) : list edge :=
      match k with
      | [] => []
      | l :: rest =>
        (if l_loadnode l then [((l_no l, true), l_no l, nsub N (l_lat l) (l_lat_wo l))] else [])
        ++ map (fun p => ((l_no l, false), fst p, edge_weight l (snd p))) (find_depending flagdeps l rest)
        ++ emit flagdeps rest
      end.

    (* networkx add_edge: a later emission for the same (u, v) overwrites the weight *)
    Definition same_uv (a b : edge) : bool :=
      andb (andb (Nat.eqb (fst (fst (fst a))) (fst (fst (fst b)))) (Bool.eqb (snd (fst (fst a))) (snd (fst (fst b)))))
           (Nat.eqb (snd (fst a)) (snd (fst b))).
    Fixpoint last_wins (es : list edge) : list edge :=
      match es with
      | [] => []
      | e :: r => if existsb (same_uv e) r then last_wins r else e :: last_wins r
      end.
    Definition create_dg (flagdeps : bool) (k : list line) : list edge := last_wins (emit flagdeps k).

    (* ---- loop-carried dependencies ---- *)
    Definition max_line (k : list line) : nat := fold_left Nat.max (map l_no k) 0.
    Definition lcd_offset (k : list line) : nat := Nat.max 1000 (max_line k + 1).
    Definition shift (off : nat) (l : line) : line :=
      mkL (l_no l + off) (l_sem l) (l_lat l) (l_lat_wo l) (l_loadnode l) (l_chg l) (l_chg_post l).
    Definition doubled (k : list line) : list line := k ++ map (shift (lcd_offset k)) k.

    Definition succs (g : list edge) (u : nat) : list (nat * T) :=
      flat_map (fun e => let '((s, isld), t, w) := e in
                         if andb (Nat.eqb s u) (negb isld) then [(t, w)] else []) g.

    (* all simple paths u -> t in a forward DAG, as lists of (source, edge weight); fuel = number of nodes *)
    Fixpoint paths (fuel : nat) (g : list edge) (u t : nat) : list (list (nat * T)) :=
      match fuel with
      | O => []
      | S f =>
        flat_map (fun vw => let '(v, w) := vw in
                            if Nat.eqb v t then [[(u, w)]]
                            else map (cons (u, w)) (paths f g v t)) (succs g u)
      end.

    Definition back (off : nat) (n : nat) : nat := if Nat.leb off n then n - off else n.

    (* insertion sort of (line, latency) pairs as Python sorts tuples: by line, then by latency *)
    Definition pair_le (a b : nat * T) : bool :=
      orb (Nat.ltb (fst a) (fst b)) (andb (Nat.eqb (fst a) (fst b)) (nleb N (snd a) (snd b))).
    Fixpoint ins (x : nat * T) (l : list (nat * T)) : list (nat * T) :=
      match l with [] => [x] | y :: r => if pair_le x y then x :: l else y :: ins x r end.
    Definition sort_pairs (l : list (nat * T)) : list (nat * T) := fold_right ins [] l.

    Definition pairs_eqb (a b : list (nat * T)) : bool :=
      (fix go a b := match a, b with
                     | [], [] => true
                     | x :: r, y :: s => andb (andb (Nat.eqb (fst x) (fst y)) (neqb N (snd x) (snd y))) (go r s)
                     | _, _ => false end) a b.

    (* one entry per path: (lat_sum, sorted lat_path); duplicates (equal sorted lat_path) keep the first.
       lat_sum adds the latencies in the order of the SORTED lat_path (left to right, starting from 0.0), not in path order:
       it is a function of the sorted lat_path alone, whichever rotation of a cycle the path is. *)
    Definition entry := (T * list (nat * T))%type.
    Definition sum_pairs (lp : list (nat * T)) : T := fold_left (fun a sw => nadd N a (snd sw)) lp (n0 N).
    Definition entry_of (off : nat) (p : list (nat * T)) : entry :=
      let lp := sort_pairs (map (fun sw => (back off (fst sw), snd sw)) p) in (sum_pairs lp, lp).
    Fixpoint dedup (seen : list (list (nat * T))) (es : list entry) : list entry :=
      match es with
      | [] => []
      | e :: r => if existsb (pairs_eqb (snd e)) seen then dedup seen r else e :: dedup (snd e :: seen) r
      end.

    Definition lcd_entries (flagdeps : bool) (k : list line) : list entry :=
      let off := lcd_offset k in
      let g := create_dg flagdeps (doubled k) in
      let fuel := 2 * List.length k + 2 in
      dedup [] (flat_map (fun l => map (entry_of off) (paths fuel g (l_no l) (l_no l + off))) k).
  End Graph.
End Deps.

Arguments mkL {T}. Arguments l_no {T}. Arguments l_sem {T}. Arguments l_lat {T}. Arguments l_lat_wo {T}.
Arguments l_loadnode {T}. Arguments l_chg {T}. Arguments l_chg_post {T}.
