(* C11 -- kernel selection: executable model of osaca/semantics/marker_utils.py
   (reduce_to_section, find_marked_kernel_x86ATT/_AArch64, find_marked_section, match_bytes),
   of the selection by line number in osaca.py:inspect and of BaseParser.parse_file's numbering.
   A parsed line is abstracted to exactly what that code inspects.  No proofs in this file. *)
From Coq Require Import String Ascii List Bool Arith NArith ZArith.
Import ListNotations.
Open Scope string_scope.

(* ------------------------------------------------------------------ Python int(x, base) *)
Inductive pyerr := ValueError | IndexError.
Inductive result (A : Type) := Ok (a : A) | Err (e : pyerr).
Arguments Ok {A} _.
Arguments Err {A} _.
Definition bind {A B} (r : result A) (f : A -> result B) : result B :=
  match r with Ok a => f a | Err e => Err e end.

Fixpoint chars (s : string) : list ascii :=
  match s with EmptyString => [] | String c r => c :: chars r end.
Fixpoint of_chars (l : list ascii) : string :=
  match l with [] => EmptyString | c :: r => String c (of_chars r) end.

(* str.strip()'s / int()'s ASCII white space: \t \n \v \f \r, 0x1c-0x1f, space *)
Definition is_space (c : ascii) : bool :=
  let n := N_of_ascii c in
  (andb (N.leb 9 n) (N.leb n 13) || andb (N.leb 28 n) (N.leb n 32))%bool.
Fixpoint lstrip (cs : list ascii) : list ascii :=
  match cs with c :: r => if is_space c then lstrip r else cs | [] => [] end.
Definition strip (cs : list ascii) : list ascii := rev (lstrip (rev (lstrip cs))).

Definition digit_val (c : ascii) : option Z :=
  let n := N_of_ascii c in
  if andb (N.leb 48 n) (N.leb n 57) then Some (Z.of_N (n - 48))
  else if andb (N.leb 97 n) (N.leb n 122) then Some (Z.of_N (n - 87))
  else if andb (N.leb 65 n) (N.leb n 90) then Some (Z.of_N (n - 55))
  else None.

Definition us : ascii := "_"%char.

(* digit (["_"] digit)*  -- prev_us: the previous character was an underscore *)
Fixpoint dig_loop (base : Z) (cs : list ascii) (acc : Z) (prev_us : bool) : option Z :=
  match cs with
  | [] => if prev_us then None else Some acc
  | c :: r =>
    if Ascii.eqb c us then (if prev_us then None else dig_loop base r acc true)
    else match digit_val c with
         | Some d => if Z.ltb d base then dig_loop base r (acc * base + d) false else None
         | None => None
         end
  end.

Definition digits (base : Z) (cs : list ascii) (lead_us_ok : bool) : option Z :=
  match cs with
  | [] => None
  | c :: _ => if andb (Ascii.eqb c us) (negb lead_us_ok) then None else dig_loop base cs 0 false
  end.

Definition lower_is (c : ascii) (l : ascii) : bool :=
  orb (Ascii.eqb c l) (N.eqb (N_of_ascii c + 32) (N_of_ascii l)).

(* unsigned body, base 0: 0x.. 0o.. 0b.. | decimal without superfluous leading zeros *)
Definition body0 (cs : list ascii) : option Z :=
  match cs with
  | "0"%char :: p :: r =>
    if lower_is p "x"%char then digits 16 r true
    else if lower_is p "o"%char then digits 8 r true
    else if lower_is p "b"%char then digits 2 r true
    else match digits 10 cs false with Some 0%Z => Some 0%Z | _ => None end
  | "0"%char :: [] => Some 0%Z
  | _ => digits 10 cs false
  end.
Definition body10 (cs : list ascii) : option Z := digits 10 cs false.

Definition signed (body : list ascii -> option Z) (s : string) : result Z :=
  let cs := strip (chars s) in
  let r := match cs with
           | "-"%char :: r => option_map Z.opp (body r)
           | "+"%char :: r => body r
           | _ => body cs
           end in
  match r with Some z => Ok z | None => Err ValueError end.

Definition py_int0 : string -> result Z := signed body0.      (* int(x, 0) *)
Definition py_int10 : string -> result Z := signed body10.    (* int(x)    *)

(* ------------------------------------------------------------------ abstract parsed lines *)
Inductive operand :=
| OImm (v : Z)          (* ImmediateOperand whose normalize_imd(...) is (equal to) the integer v *)
| OImmOther             (* ImmediateOperand normalising to anything else (identifier, non-integral float) *)
| OReg (full : string)  (* RegisterOperand, get_full_reg_name *)
| OOther.               (* memory, identifier, label ... *)

Record directive := { d_name : string; d_params : list string }.
Record line := { l_mnemonic : option string; l_operands : list operand;
                 l_directive : option directive; l_comment : option string; l_number : nat }.

Inductive isa := X86 | A64.
Definition mov_instr (i : isa) : list string := match i with X86 => ["mov"; "movl"] | A64 => ["mov"] end.
Definition mov_reg (i : isa) : string := match i with X86 => "ebx" | A64 => "x1" end.
Definition nop_bytes (i : isa) : list Z := match i with X86 => [100; 103; 144] | A64 => [213; 3; 32; 31] end%Z.
Definition reverse (i : isa) : bool := match i with X86 => false | A64 => true end.
Definition val_start : Z := 111.
Definition val_end : Z := 222.
Definition c_start := "OSACA-BEGIN".
Definition c_end := "OSACA-END".

(* ------------------------------------------------------------------ match_bytes *)
Fixpoint ints (ps : list string) : result (list Z) :=
  match ps with
  | [] => Ok []
  | p :: r => bind (py_int0 p) (fun z => bind (ints r) (fun zs => Ok (z :: zs)))
  end.

Definition is_byte (l : line) : option directive :=
  match l_directive l with
  | Some d => if String.eqb (d_name d) "byte" then Some d else None
  | None => None
  end.

(* the while loop.  greedy = true is the loop as shipped (every consecutive .byte line is consumed);
   greedy = false is the repaired loop (patches/C11-fix-*.diff: stop once enough bytes were read). *)
Fixpoint collect (greedy : bool) (need : nat) (ls : list line) (acc : list Z) (cnt : nat)
  : result (list Z * nat) :=
  match ls with
  | [] => Ok (acc, cnt)
  | l :: r =>
    match is_byte l with
    | Some d =>
      if orb greedy (Nat.ltb (length acc) need)
      then bind (ints (d_params d)) (fun zs => collect greedy need r (acc ++ zs) (S cnt))
      else Ok (acc, cnt)
    | None => Ok (acc, cnt)
    end
  end.

Definition list_Z_eqb (a b : list Z) : bool := if list_eq_dec Z.eq_dec a b then true else false.

(* Ok (Some line_count) = (True, line_count); Ok None = (False, -1); Err = uncaught ValueError *)
Definition match_bytes (greedy : bool) (ls : list line) (byte_list : list Z) : result (option nat) :=
  bind (collect greedy (length byte_list) ls [] 0) (fun p =>
    if list_Z_eqb (firstn (length byte_list) (fst p)) byte_list then Ok (Some (snd p)) else Ok None).

(* ------------------------------------------------------------------ find_marked_section *)
Inductive step_result :=
| SNone                 (* nothing assigned *)
| SStart (skip : nat)   (* index_start = i + 1 + skip *)
| SEnd                  (* index_end = i *)
| SCrash (e : pyerr).   (* exception other than TypeError leaves the function *)

Definition in_strs (x : string) (l : list string) : bool := existsb (String.eqb x) l.

Definition is_marker_ops (i : isa) (src dst : operand) (v : Z) : bool :=
  match src, dst with
  | OImm z, OReg r => andb (Z.eqb z v) (String.eqb r (mov_reg i))
  | _, _ => false
  end.

(* one iteration of the loop body: the line and the lines after it *)
Definition step (greedy : bool) (i : isa) (l : line) (rest : list line) : step_result :=
  match l_mnemonic l, l_comment l with
  | None, Some c =>
    if String.eqb c_start c then SStart 0 else if String.eqb c_end c then SEnd else SNone
  | None, None => SNone
  | Some m, _ =>
    match rest with
    | nxt :: _ =>
      if andb (in_strs m (mov_instr i)) (match l_directive nxt with Some _ => true | None => false end)
      then
        let si := if reverse i then 1 else 0 in
        let di := if reverse i then 0 else 1 in
        (* source is evaluated first, then destination: either raises IndexError *)
        match nth_error (l_operands l) si, nth_error (l_operands l) di with
        | Some src, Some dst =>
          if is_marker_ops i src dst val_start then
            match match_bytes greedy rest (nop_bytes i) with
            | Ok (Some n) => SStart n | Ok None => SNone | Err e => SCrash e end
          else if is_marker_ops i src dst val_end then
            match match_bytes greedy rest (nop_bytes i) with
            | Ok (Some _) => SEnd | Ok None => SNone | Err e => SCrash e end
          else SNone
        | _, _ => SCrash IndexError
        end
      else SNone
    | [] => SNone
    end
  end.

Definition both (s e : option nat) : bool :=
  match s, e with Some _, Some _ => true | _, _ => false end.

(* for i, line in enumerate(lines): ... ; if both found: break *)
Fixpoint scan (greedy : bool) (isa_ : isa) (i : nat) (ls : list line) (s e : option nat)
  : result (option nat * option nat) :=
  match ls with
  | [] => Ok (s, e)
  | l :: rest =>
    match step greedy isa_ l rest with
    | SCrash err => Err err
    | r =>
      let s' := match r with SStart k => Some (i + 1 + k) | _ => s end in
      let e' := match r with SEnd => Some i | _ => e end in
      if both s' e' then Ok (s', e') else scan greedy isa_ (S i) rest s' e'
    end
  end.

Definition find_marked_section (greedy : bool) (i : isa) (ls : list line) :=
  scan greedy i 0 ls None None.

(* kernel[start:end] for 0 <= start, 0 <= end *)
Definition slice {A} (l : list A) (s e : nat) : list A := firstn (e - s) (skipn s l).

Definition reduce_to_section (greedy : bool) (i : isa) (kernel : list line) : result (list line) :=
  bind (find_marked_section greedy i kernel) (fun se =>
    let s := match fst se with Some s => s | None => 0 end in
    let e := match snd se with Some e => e | None => length kernel end in
    Ok (slice kernel s e)).

(* the shipped code and the repaired code *)
Definition reduce := reduce_to_section true.
Definition reduce_fixed := reduce_to_section false.

(* ------------------------------------------------------------------ --lines selection *)
Definition in_Zs (n : Z) (r : list Z) : bool := existsb (Z.eqb n) r.
(* [line for line in parsed_code if line.line_number in line_range] *)
Definition select_lines (r : list Z) (f : list line) : list line :=
  filter (fun l => in_Zs (Z.of_nat (l_number l)) r) f.

(* ------------------------------------------------------------------ parse_file numbering *)
Definition is_blank (s : string) : bool := match strip (chars s) with [] => true | _ => false end.
(* asm_instructions = [parse_line(line, i + 1 + start_line) for i, line in enumerate(lines) if line.strip() != ""] *)
Fixpoint parse_file_from {L} (parse_line : string -> nat -> L) (i : nat) (lines : list string) : list L :=
  match lines with
  | [] => []
  | s :: r => if is_blank s then parse_file_from parse_line (S i) r
              else parse_line s (S i) :: parse_file_from parse_line (S i) r
  end.
Definition parse_file {L} (parse_line : string -> nat -> L) (lines : list string) (start_line : nat) : list L :=
  parse_file_from parse_line start_line lines.

(* ------------------------------------------------------------------ noise lines *)
(* a line without instruction that is neither a comment marker nor a .byte directive:
   comment, label, any other directive *)
Definition is_noise (l : line) : bool :=
  match l_mnemonic l with
  | Some _ => false
  | None =>
    andb (match l_comment l with Some c => negb (orb (String.eqb c_start c) (String.eqb c_end c)) | None => true end)
         (match is_byte l with Some _ => false | None => true end)
  end.

(* ------------------------------------------------------------------ printing helpers for the harness *)
Fixpoint nat_digits (fuel n : nat) (acc : string) : string :=
  match fuel with
  | O => acc
  | S f => let acc' := String (ascii_of_nat (48 + n mod 10)) acc in
           if Nat.eqb (n / 10) 0 then acc' else nat_digits f (n / 10) acc'
  end.
Definition string_of_nat (n : nat) : string := nat_digits 20 n "".
Definition string_of_Z (z : Z) : string :=
  match z with Z0 => "0" | Zpos _ => string_of_nat (Z.to_nat z) | Zneg _ => "-" ++ string_of_nat (Z.to_nat (Z.opp z)) end.

(* ------------------------------------------------------------------ specification vocabulary *)
(* "this segment, followed by [next], assigns nothing and raises nothing" *)
Fixpoint no_markerb (g : bool) (i : isa) (seg next : list line) : bool :=
  match seg with
  | [] => true
  | l :: r => match step g i l (r ++ next) with SNone => no_markerb g i r next | _ => false end
  end.
(* the segment, standing alone as a file, contains no marker (decoys are allowed: a mov of another
   value, into another register, not followed by a directive, followed by other bytes ...) *)
Definition no_marker (g : bool) (i : isa) (seg : list line) : Prop := no_markerb g i seg [] = true.

Definition not_marker_comment (l : line) : bool :=
  match l_comment l with Some c => negb (orb (String.eqb c_start c) (String.eqb c_end c)) | None => true end.

(* a comment-only (or label + comment) line carrying exactly the marker text *)
Definition comment_lineb (c : string) (l : line) : bool :=
  match l_mnemonic l, l_comment l, l_directive l with
  | None, Some c', None => String.eqb c c'
  | _, _, _ => false
  end.

Definition opnd_eqb (a b : operand) : bool :=
  match a, b with
  | OImm x, OImm y => Z.eqb x y
  | OReg x, OReg y => String.eqb x y
  | OImmOther, OImmOther => true
  | OOther, OOther => true
  | _, _ => false
  end.

(* mov/movl  $v, %ebx   resp.   mov x1, #v *)
Definition mov_lineb (i : isa) (v : Z) (l : line) : bool :=
  match l_mnemonic l, l_directive l with
  | Some m, None =>
    andb (in_strs m (mov_instr i))
      (match nth_error (l_operands l) (if reverse i then 1 else 0), nth_error (l_operands l) (if reverse i then 0 else 1) with
       | Some s, Some d => andb (opnd_eqb s (OImm v)) (opnd_eqb d (OReg (mov_reg i)))
       | _, _ => false
       end)
  | _, _ => false
  end.

(* a .byte directive line (a trailing comment is allowed unless it is itself a comment marker) *)
Definition byte_lineb (l : line) : bool :=
  match l_mnemonic l, is_byte l with
  | None, Some _ => not_marker_comment l
  | _, _ => false
  end.

(* all the bytes of a block of .byte lines (None: some parameter is not a Python int literal) *)
Fixpoint block_bytes (bs : list line) : option (list Z) :=
  match bs with
  | [] => Some []
  | l :: r => match is_byte l with
              | Some d => match ints (d_params d), block_bytes r with
                          | Ok zs, Some rest => Some (zs ++ rest)%list
                          | _, _ => None
                          end
              | None => None
              end
  end.

(* every line of the block is reached with fewer than [need] bytes read so far *)
Fixpoint block_min (need : nat) (bs : list line) (have : nat) : bool :=
  match bs with
  | [] => true
  | l :: r => andb (Nat.ltb have need)
                   (match is_byte l with
                    | Some d => match ints (d_params d) with Ok zs => block_min need r (have + length zs) | Err _ => false end
                    | None => false
                    end)
  end.

Definition byte_blockb (i : isa) (bs : list line) : bool :=
  andb (match bs with [] => false | _ => true end)
  (andb (forallb byte_lineb bs)
        (match block_bytes bs with
         | Some zs => list_Z_eqb (firstn (length (nop_bytes i)) zs) (nop_bytes i)
         | None => false
         end)).

(* marker styles: comment | mov + block of .byte lines (one line or several) *)
Inductive marker (i : isa) (v : Z) (c : string) : list line -> Prop :=
| M_comment : forall l, comment_lineb c l = true -> marker i v c [l]
| M_bytes : forall m bs, mov_lineb i v m = true -> byte_blockb i bs = true -> marker i v c (m :: bs).
(* the same with a block that contains no superfluous trailing .byte line *)
Inductive marker_min (i : isa) (v : Z) (c : string) : list line -> Prop :=
| MM_comment : forall l, comment_lineb c l = true -> marker_min i v c [l]
| MM_bytes : forall m bs, mov_lineb i v m = true -> byte_blockb i bs = true ->
                          block_min (length (nop_bytes i)) bs 0 = true -> marker_min i v c (m :: bs).

Definition first_is_byte (ls : list line) : bool :=
  match ls with l :: _ => match is_byte l with Some _ => true | None => false end | [] => false end.
(* the .byte lines at the head of [ls] all carry Python int literals *)
Definition leading_bytes_ok (ls : list line) : bool :=
  match collect true 0 ls [] 0 with Ok _ => true | Err _ => false end.

(* body' is body with noise lines inserted anywhere *)
Inductive noisy : list line -> list line -> Prop :=
| N_nil : noisy [] []
| N_keep : forall l b b', noisy b b' -> noisy (l :: b) (l :: b')
| N_ins : forall n b b', is_noise n = true -> noisy b b' -> noisy b (n :: b').
