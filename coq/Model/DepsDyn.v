(* Dynamically typed value universe for the translation tie of the dependency predicates of
   osaca/semantics/kernel_dg.py (KernelDG.is_read / is_written / is_memload / is_memstore / _update_reg_changes /
   find_depending) -- properties C03 and C06, tools/gen_deps.py, Gen/DepsGen.v, PropsGen/C03deps.v, PropsGen/C06deps.v.

   The translator (tools/gen_deps.py) is syntax directed: every Python expression becomes a computation in the error
   monad `dres` over the untyped values `pv` below; attribute access, subscripts, truthiness, isinstance, ==, +, dict
   methods are the prelude operations of this file (Python exceptions are explicit error values).  What the typed hand
   model (Model/Deps.v) assumes about the shape of the operand objects is stated ONCE, by the embedding `emb_*` at the end
   of this file; PropsGen/C03deps.v proves that on embedded values the regenerated functions never raise and return what
   the hand model returns.

   Mutable state.  The translated functions only mutate dicts reachable from the local `reg_state` / `register_changes`
   (KernelDG._update_reg_changes); dicts are VALUES here.  The translator makes value semantics sound by emitting run-time
   checks whose failure is the error EAlias (a value stored into a container must be a scalar or a fresh literal; a view
   taken out of a container may not be read after an in-place update that could have hit it; a dict passed to a mutating
   callee must not be None).  The equality theorems prove that EAlias never occurs.
   No proofs in this file. *)
From Coq Require Import ZArith List Bool String.
From OV Require Import Model.Deps Model.RegRec.
Import ListNotations.

(* ---------------------------------------------------------------- attributes and classes that may be named in the source *)
Inductive attr :=
| A_semantic_operands | A_line_number | A_name | A_prefix | A_pre_indexed | A_post_indexed
| A_base | A_index | A_offset | A_scale | A_value
| A_reg_changes | A_reg_changes_post     (* results of ISASemantics.get_reg_changes(iform[, only_postindexed=True]): inputs *)
| A_eqkey.                               (* class of Python == (MemoryOperand.__eq__) the object belongs to: an input *)
Definition attr_code (a : attr) : nat :=
  match a with
  | A_semantic_operands => 0 | A_line_number => 1 | A_name => 2 | A_prefix => 3 | A_pre_indexed => 4 | A_post_indexed => 5
  | A_base => 6 | A_index => 7 | A_offset => 8 | A_scale => 9 | A_value => 10 | A_reg_changes => 11
  | A_reg_changes_post => 12 | A_eqkey => 13
  end.
Definition attr_eqb (a b : attr) : bool := Nat.eqb (attr_code a) (attr_code b).

Inductive cls :=
| C_RegisterOperand | C_MemoryOperand | C_FlagOperand | C_ImmediateOperand | C_IdentifierOperand | C_InstructionForm
| C_Other            (* an object of any other class *)
| C_dict.            (* the builtin: isinstance(x, dict) *)
Definition cls_code (c : cls) : nat :=
  match c with
  | C_RegisterOperand => 0 | C_MemoryOperand => 1 | C_FlagOperand => 2 | C_ImmediateOperand => 3 | C_IdentifierOperand => 4
  | C_InstructionForm => 5 | C_Other => 6 | C_dict => 7
  end.
Definition cls_eqb (a b : cls) : bool := Nat.eqb (cls_code a) (cls_code b).

(* ---------------------------------------------------------------- values *)
Inductive pv :=
| VNone
| VBool (b : bool)
| VInt (z : Z)
| VStr (s : string)
| VObj (c : cls) (fs : list (attr * pv))      (* instance of a class: its attributes *)
| VDict (d : list (string * pv))              (* dict with str keys, insertion ordered *)
| VList (l : list pv)
| VTuple (l : list pv).

Inductive derr := EAttribute | EKey | EType | EValue | EIndex
                | EAlias          (* value semantics would not be sound here (see above) *)
                | EUnmodelled.    (* an operation on values outside what this universe models *)
Inductive dres (A : Type) := DOk (a : A) | DErr (e : derr).
Arguments DOk {A}. Arguments DErr {A}.
Definition dbind {A B} (r : dres A) (f : A -> dres B) : dres B := match r with DOk a => f a | DErr e => DErr e end.
Notation "x <~ r ;; k" := (dbind r (fun x => k)) (at level 61, r at next level, right associativity).
Notation "' p <~ r ;; k" := (dbind r (fun dpat_ => let p := dpat_ in k))
  (at level 61, p pattern, r at next level, right associativity).

(* ---------------------------------------------------------------- control flow *)
(* result of one loop iteration: go on / break / return v; S = the variables carried through the loop *)
Inductive ctl (S : Type) := CNext (s : S) | CBreak (s : S) | CRet (v : pv).
Arguments CNext {S}. Arguments CBreak {S}. Arguments CRet {S}.
(* result of a statement: falls through with the (re)bound variables J, or leaves the enclosing construct *)
Inductive flow (J X : Type) := FNorm (j : J) | FExit (x : X).
Arguments FNorm {J X}. Arguments FExit {J X}.
Definition fbind {J J' X} (m : dres (flow J X)) (k : J -> dres (flow J' X)) : dres (flow J' X) :=
  dbind m (fun f => match f with FNorm j => k j | FExit x => DOk (FExit x) end).
Definition loop_end {S} (f : flow S (ctl S)) : ctl S := match f with FNorm s => CNext s | FExit c => c end.
(* for x in l: ...   inl s: the loop ended (exhausted or break) with state s; inr v: `return v` inside the loop *)
Fixpoint py_loop {S} (l : list pv) (s : S) (body : pv -> S -> dres (ctl S)) : dres (S + pv) :=
  match l with
  | [] => DOk (inl s)
  | x :: r =>
    dbind (body x s) (fun c =>
      match c with
      | CNext s' => py_loop r s' body
      | CBreak s' => DOk (inl s')
      | CRet v => DOk (inr v)
      end)
  end.

(* ---------------------------------------------------------------- prelude: Python operations *)
Fixpoint attr_assoc (fs : list (attr * pv)) (a : attr) : option pv :=
  match fs with [] => None | (b, v) :: r => if attr_eqb a b then Some v else attr_assoc r a end.
Fixpoint str_assoc (d : list (string * pv)) (k : string) : option pv :=
  match d with [] => None | (k', v) :: r => if String.eqb k k' then Some v else str_assoc r k end.
(* d[k] = v: an existing key keeps its position, a new key is appended *)
Fixpoint str_set (d : list (string * pv)) (k : string) (v : pv) : list (string * pv) :=
  match d with
  | [] => [(k, v)]
  | (k', v') :: r => if String.eqb k k' then (k, v) :: r else (k', v') :: str_set r k v
  end.

(* x.a : AttributeError when x has no such attribute (None, int, str, dict, list have none of the modelled ones) *)
Definition py_getattr (x : pv) (a : attr) : dres pv :=
  match x with
  | VObj _ fs => match attr_assoc fs a with Some v => DOk v | None => DErr EAttribute end
  | _ => DErr EAttribute
  end.
(* bool(x); the operand classes define neither __bool__ nor __len__: instances are true *)
Definition py_truth (x : pv) : bool :=
  match x with
  | VNone => false
  | VBool b => b
  | VInt z => negb (Z.eqb z 0)
  | VStr s => match s with EmptyString => false | _ => true end
  | VObj _ _ => true
  | VDict d => match d with [] => false | _ => true end
  | VList l => match l with [] => false | _ => true end
  | VTuple l => match l with [] => false | _ => true end
  end.
Definition py_is_none (x : pv) : bool := match x with VNone => true | _ => false end.
Definition py_isinstance (x : pv) (c : cls) : bool :=
  match x with
  | VObj c' _ => cls_eqb c c'
  | VDict _ => cls_eqb c C_dict
  | _ => false
  end.
Definition as_int (x : pv) : option Z := match x with VInt z => Some z | VBool b => Some (Z.b2z b) | _ => None end.
(* x == y.  None, bool/int, str structurally; MemoryOperand.__eq__ through the class key the embedding carries;
   everything else is outside the universe *)
Definition py_eq (x y : pv) : dres bool :=
  match x, y with
  | VNone, VNone => DOk true
  | VStr a, VStr b => DOk (String.eqb a b)
  | VObj C_MemoryOperand fa, VObj C_MemoryOperand fb =>
    match attr_assoc fa A_eqkey, attr_assoc fb A_eqkey with
    | Some (VInt a), Some (VInt b) => DOk (Z.eqb a b)
    | _, _ => DErr EUnmodelled
    end
  | VObj C_MemoryOperand _, (VNone | VBool _ | VInt _ | VStr _) => DOk false      (* __eq__ returns False for other types *)
  | _, _ =>
    match as_int x, as_int y with
    | Some a, Some b => DOk (Z.eqb a b)
    | Some _, None => match y with VNone | VStr _ => DOk false | _ => DErr EUnmodelled end
    | None, Some _ => match x with VNone | VStr _ => DOk false | _ => DErr EUnmodelled end
    | None, None =>
      match x, y with
      | VNone, VStr _ | VStr _, VNone => DOk false
      | _, _ => DErr EUnmodelled
      end
    end
  end.
Definition py_ne (x y : pv) : dres bool := dbind (py_eq x y) (fun b => DOk (negb b)).
(* x + y: int + int, str + str; list concatenation is outside (it would create aliases) *)
Definition py_add (x y : pv) : dres pv :=
  match x, y with
  | VStr a, VStr b => DOk (VStr (a ++ b))
  | _, _ =>
    match as_int x, as_int y with
    | Some a, Some b => DOk (VInt (a + b))
    | _, _ => match x, y with
              | (VList _ | VTuple _ | VDict _ | VObj _ _), _ | _, (VList _ | VTuple _ | VDict _ | VObj _ _) => DErr EUnmodelled
              | _, _ => DErr EType
              end
    end
  end.
Definition py_sub (x y : pv) : dres pv :=
  match as_int x, as_int y with
  | Some a, Some b => DOk (VInt (a - b))
  | _, _ => match x, y with
            | (VList _ | VTuple _ | VDict _ | VObj _ _), _ | _, (VList _ | VTuple _ | VDict _ | VObj _ _) => DErr EUnmodelled
            | _, _ => DErr EType
            end
  end.
Definition py_mul (x y : pv) : dres pv :=
  match as_int x, as_int y with
  | Some a, Some b => DOk (VInt (a * b))
  | _, _ => match x, y with
            | VNone, _ | _, VNone => DErr EType
            | _, _ => DErr EUnmodelled          (* str * int, list * int ... *)
            end
  end.
(* x[k] *)
Definition py_getitem (x k : pv) : dres pv :=
  match x with
  | VDict d =>
    match k with
    | VStr s => match str_assoc d s with Some v => DOk v | None => DErr EKey end
    | VNone | VBool _ | VInt _ => DErr EKey          (* hashable, but every key of a modelled dict is a str *)
    | VTuple _ => DErr EUnmodelled
    | _ => DErr EType                                (* unhashable *)
    end
  | VNone | VBool _ | VInt _ => DErr EType           (* not subscriptable *)
  | _ => DErr EUnmodelled
  end.
(* x[k] = v (returns the updated container: dicts are values) *)
Definition py_setitem (x k v : pv) : dres pv :=
  match x with
  | VDict d => match k with VStr s => DOk (VDict (str_set d s v)) | _ => DErr EUnmodelled end
  | VNone | VBool _ | VInt _ | VStr _ | VTuple _ => DErr EType      (* does not support item assignment *)
  | _ => DErr EUnmodelled
  end.
(* x.get(k, dflt) *)
Definition py_dict_get (x k dflt : pv) : dres pv :=
  match x with
  | VDict d =>
    match k with
    | VStr s => match str_assoc d s with Some v => DOk v | None => DOk dflt end
    | VNone | VBool _ | VInt _ => DOk dflt
    | VTuple _ => DErr EUnmodelled
    | _ => DErr EType
    end
  | VNone | VBool _ | VInt _ | VStr _ | VList _ | VTuple _ => DErr EAttribute
  | VObj _ _ => DErr EUnmodelled
  end.
(* x.items() as the list of (key, value) tuples in dict order *)
Definition py_items (x : pv) : dres pv :=
  match x with
  | VDict d => DOk (VList (map (fun kv => VTuple [VStr (fst kv); snd kv]) d))
  | VObj _ _ => DErr EUnmodelled
  | _ => DErr EAttribute
  end.
(* itertools.chain(a, b), consumed by a for loop *)
Definition py_chain (a b : pv) : dres pv :=
  match a, b with
  | VList x, VList y => DOk (VList (x ++ y))
  | (VNone | VBool _ | VInt _), _ | VList _, (VNone | VBool _ | VInt _) => DErr EType      (* not iterable *)
  | _, _ => DErr EUnmodelled
  end.
(* the items a for loop visits *)
Definition py_iter (x : pv) : dres (list pv) :=
  match x with
  | VList l | VTuple l => DOk l
  | VNone | VBool _ | VInt _ => DErr EType
  | _ => DErr EUnmodelled
  end.
Definition py_enumerate (x : pv) : dres pv :=
  dbind (py_iter x) (fun l => DOk (VList (map (fun p => VTuple [VInt (Z.of_nat (fst p)); snd p]) (combine (seq 0 (List.length l)) l)))).
(* a, b = x *)
Definition py_unpack2 (x : pv) : dres (pv * pv) :=
  match x with
  | VTuple [a; b] | VList [a; b] => DOk (a, b)
  | VTuple _ | VList _ => DErr EValue
  | VNone | VBool _ | VInt _ => DErr EType
  | _ => DErr EUnmodelled
  end.
(* out.append(x) on the list of values a generator has yielded so far (the list is local to the translation) *)
Definition py_append (out x : pv) : dres pv :=
  match out with VList l => DOk (VList (l ++ [x])) | _ => DErr EUnmodelled end.
(* guards emitted by the translator *)
Definition py_scalar (x : pv) : dres pv :=
  match x with VNone | VBool _ | VInt _ | VStr _ => DOk x | _ => DErr EAlias end.
Definition py_not_none (x : pv) : dres pv := match x with VNone => DErr EAlias | _ => DOk x end.
(* a view taken at key k1 must not be the object updated in place at key k2 *)
Definition py_distinct_keys (k1 k2 : pv) : dres unit :=
  match k1, k2 with
  | VStr a, VStr b => if String.eqb a b then DErr EAlias else DOk tt
  | _, _ => DErr EAlias
  end.
(* self.arch_sem.get_reg_changes(iform, only_postindexed): its RESULT is an input carried by the instruction form *)
Definition py_get_reg_changes (iform only_post : pv) : dres pv :=
  if py_truth only_post then py_getattr iform A_reg_changes_post else py_getattr iform A_reg_changes.

(* ---------------------------------------------------------------- embedding of the hand model's types (Model/Deps.v) *)
(* prefix: None on x86 (the model's empty string), a str on AArch64 *)
Definition emb_prefix (p : string) : pv := match p with EmptyString => VNone | _ => VStr p end.
(* r_pidx abstracts `pre_indexed or post_indexed or isinstance(post_indexed, dict)` of the register object *)
Definition emb_reg (r : regop) : pv :=
  VObj C_RegisterOperand [(A_name, VStr (r_name r)); (A_prefix, emb_prefix (r_prefix r));
                          (A_pre_indexed, VBool (r_pidx r)); (A_post_indexed, VBool false)].
Definition emb_oreg (o : option regop) : pv := match o with Some r => emb_reg r | None => VNone end.
(* OSym: an IdentifierOperand (an ImmediateOperand whose value is None behaves alike) *)
Definition emb_off (o : offs) : pv :=
  match o with
  | ONone => VNone
  | OImm v => VObj C_ImmediateOperand [(A_value, VInt v)]
  | OSym => VObj C_IdentifierOperand [(A_name, VStr "sym")]
  end.
Definition emb_mem (m : memop) : pv :=
  VObj C_MemoryOperand [(A_offset, emb_off (m_off m)); (A_base, emb_oreg (m_base m)); (A_index, emb_oreg (m_index m));
                        (A_scale, VInt (m_scale m)); (A_pre_indexed, VBool (m_pre m)); (A_post_indexed, VBool (m_post m));
                        (A_eqkey, VInt (Z.of_nat (m_key m)))].
Definition emb_flag (n : string) : pv := VObj C_FlagOperand [(A_name, VStr n)].
Definition emb_opnd (o : opnd) : pv :=
  match o with
  | OReg r => emb_reg r
  | OFlag n => emb_flag n
  | OMem m => emb_mem m
  | OOther => VObj C_Other []
  end.
Definition emb_change (c : change) : pv :=
  match c with None => VNone | Some (nm, v) => VDict [("name"%string, VStr nm); ("value"%string, VInt v)] end.
Definition emb_changes (cs : list (string * change)) : pv := VDict (map (fun kc => (fst kc, emb_change (snd kc))) cs).
Definition emb_sem (sem : option (list opnd * list opnd * list opnd)) : pv :=
  match sem with
  | None => VNone
  | Some (s, d, sd) => VDict [("source"%string, VList (map emb_opnd s)); ("destination"%string, VList (map emb_opnd d));
                              ("src_dst"%string, VList (map emb_opnd sd))]
  end.
Definition emb_line {T} (l : line (T:=T)) : pv :=
  VObj C_InstructionForm [(A_semantic_operands, emb_sem (l_sem l)); (A_line_number, VInt (Z.of_nat (l_no l)));
                          (A_reg_changes, emb_changes (l_chg l)); (A_reg_changes_post, emb_changes (l_chg_post l))].
(* what find_depending yields: (instruction form, list of flag strings) *)
Definition emb_dflag (f : dflag) : pv :=
  match f with FPlain => VList [] | FPIndexed => VList [VStr "p_indexed"] | FStoreLoad => VList [VStr "storeload_dep"] end.
Definition emb_report {T} (p : line (T:=T) * dflag) : pv := VTuple [emb_line (fst p); emb_dflag (snd p)].

(* ---------------------------------------------------------------- the register alias test as a function on values *)
(* parser.is_reg_dependend_of is property C12's subject: tools/gen_c12.py translates it to a typed function on the record
   `reg` (name, prefix; Model/RegRec.v).  `pdep_of f` applies such a function to RegisterOperand values.  Handed a FlagOperand
   as first argument (find_depending asks is_read / is_written about flag destinations too) it answers False: flag names
   are not register names -- the assumption the hand model makes in `reg_vs_reg`. *)
Definition reg_view (x : pv) : option reg :=
  match x with
  | VObj C_RegisterOperand fs =>
    match attr_assoc fs A_name, attr_assoc fs A_prefix with
    | Some (VStr n), Some VNone => Some (mkreg n EmptyString)
    | Some (VStr n), Some (VStr p) => Some (mkreg n p)
    | _, _ => None
    end
  | _ => None
  end.
Definition pdep_of (f : reg -> reg -> bool) (a b : pv) : dres pv :=
  match a with
  | VObj C_FlagOperand _ => match reg_view b with Some _ => DOk (VBool false) | None => DErr EUnmodelled end
  | _ => match reg_view a, reg_view b with Some ra, Some rb => DOk (VBool (f ra rb)) | _, _ => DErr EUnmodelled end
  end.
Definition dep_of (f : reg -> reg -> bool) (a b : regop) : bool :=
  f (mkreg (r_name a) (r_prefix a)) (mkreg (r_name b) (r_prefix b)).

(* ---------------------------------------------------------------- structural equality on values (correspondence shards) *)
Fixpoint pv_eqb (x y : pv) {struct x} : bool :=
  let fix list_eqb (a b : list pv) {struct a} : bool :=
      match a, b with [], [] => true | p :: r, q :: s => andb (pv_eqb p q) (list_eqb r s) | _, _ => false end in
  match x, y with
  | VNone, VNone => true
  | VBool a, VBool b => Bool.eqb a b
  | VInt a, VInt b => Z.eqb a b
  | VStr a, VStr b => String.eqb a b
  | VObj c fa, VObj c' fb =>
    andb (cls_eqb c c')
         ((fix fs_eqb (a b : list (attr * pv)) {struct a} : bool :=
             match a, b with
             | [], [] => true
             | (k, p) :: r, (k', q) :: s => andb (attr_eqb k k') (andb (pv_eqb p q) (fs_eqb r s))
             | _, _ => false
             end) fa fb)
  | VDict da, VDict db =>
    (fix d_eqb (a b : list (string * pv)) {struct a} : bool :=
       match a, b with
       | [], [] => true
       | (k, p) :: r, (k', q) :: s => andb (String.eqb k k') (andb (pv_eqb p q) (d_eqb r s))
       | _, _ => false
       end) da db
  | VList a, VList b => list_eqb a b
  | VTuple a, VTuple b => list_eqb a b
  | _, _ => false
  end.
Definition derr_eqb (a b : derr) : bool :=
  match a, b with
  | EAttribute, EAttribute | EKey, EKey | EType, EType | EValue, EValue | EIndex, EIndex | EAlias, EAlias
  | EUnmodelled, EUnmodelled => true
  | _, _ => false
  end.
Definition dres_eqb (a b : dres pv) : bool :=
  match a, b with DOk x, DOk y => pv_eqb x y | DErr e, DErr f => derr_eqb e f | _, _ => false end.
