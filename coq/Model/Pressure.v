(* Port-pressure stage of OSACA, generic in the numeric instance (DESIGN.md C01/C02):
   hw_model.average_port_pressure, ArchSemantics.get_throughput_sum,
   ArchSemantics.assign_optimal_throughput (incl. alternatives) and the CLI's two passes.
   Python list operations are written out one by one; every place where Python would raise
   is an explicit error value.  No proofs in this file. *)
From Coq Require Import ZArith List Bool String.
From OV Require Import Model.Num.
Import ListNotations.

Inductive err := EIndex | EEmptyGetter | EValue | EKey | EType | EFuel.
Inductive res (A : Type) := Ok (a : A) | Err (e : err).
Arguments Ok {A}. Arguments Err {A}.
Definition bind {A B} (r : res A) (f : A -> res B) : res B :=
  match r with Ok a => f a | Err e => Err e end.
Notation "x <- r ;; k" := (bind r (fun x => k)) (at level 61, r at next level, right associativity).
Notation "' p <- r ;; k" := (bind r (fun x => let p := x in k))
  (at level 61, p pattern, r at next level, right associativity).

Section Lists.
  Context {A : Type}.
  Definition nth_res (l : list A) (i : nat) : res A :=
    match nth_error l i with Some x => Ok x | None => Err EIndex end.
  Fixpoint set_nth (l : list A) (i : nat) (v : A) : res (list A) :=
    match l, i with
    | [], _ => Err EIndex
    | _ :: r, O => Ok (v :: r)
    | x :: r, S j => r' <- set_nth r j v ;; Ok (x :: r')
    end.
  Fixpoint del_nth (l : list A) (i : nat) : res (list A) :=
    match l, i with
    | [], _ => Err EIndex
    | _ :: r, O => Ok r
    | x :: r, S j => r' <- del_nth r j ;; Ok (x :: r')
    end.
  (* itemgetter( *idx)(l), wrapped by _to_list *)
  Fixpoint getmany_go (l : list A) (idx : list nat) : res (list A) :=
    match idx with
    | [] => Ok []
    | i :: r => x <- nth_res l i ;; xs <- getmany_go l r ;; Ok (x :: xs)
    end.
  Definition getmany (l : list A) (idx : list nat) : res (list A) :=
    match idx with [] => Err EEmptyGetter | _ => getmany_go l idx end.
  (* _itemsetter( *idx)(l, *vals) *)
  Fixpoint setzip (l : list A) (idx : list nat) (vals : list A) : res (list A) :=
    match idx, vals with
    | i :: ir, v :: vr => l' <- set_nth l i v ;; setzip l' ir vr
    | _, _ => Ok l
    end.
  Definition setmany (l : list A) (idx : list nat) (vals : list A) : res (list A) :=
    match idx with
    | [i] => match vals with [v] => set_nth l i v | _ => Err EType end
    | _ => setzip l idx vals
    end.
  Fixpoint find_index (f : A -> bool) (l : list A) (k : nat) : option nat :=
    match l with [] => None | x :: r => if f x then Some k else find_index f r (S k) end.
End Lists.

Section Pressure.
  Context {T : Type} (N : NumOps T).

  Definition INC : T := nofQ N 1 100.
  Definition zero : T := n0 N.

  (* ---- ports and micro-ops ---- *)
  Definition uop := (T * list string)%type.            (* cycles, port names *)
  Inductive uops := UList (l : list uop) | UDict (alts : list (list uop)).

  Record instr := mkinstr { i_tp : T; i_pp : list T; i_uops : uops }.

  Definition port_index (ports : list string) (p : string) : option nat :=
    find_index (String.eqb p) ports 0.

  (* hw_model.average_port_pressure *)
  Fixpoint avg_add_ports (ports : list string) (acc : list T) (share : T) (ps : list string) : res (list T) :=
    match ps with
    | [] => Ok acc
    | p :: r => match port_index ports p with
                | None => Err EKey
                | Some i => x <- nth_res acc i ;; acc' <- set_nth acc i (nadd N x share) ;;
                            avg_add_ports ports acc' share r
                end
    end.
  Fixpoint avg_go (ports : list string) (acc : list T) (us : list uop) : res (list T) :=
    match us with
    | [] => Ok acc
    | (c, ps) :: r =>
      (* cycles / len(ports) is evaluated inside the inner loop: no division for an empty collection *)
      acc' <- avg_add_ports ports acc (ndiv N c (nofZ N (Z.of_nat (List.length ps)))) ps ;;
      avg_go ports acc' r
    end.
  Definition avg_pressure_list (ports : list string) (us : list uop) : res (list T) :=
    avg_go ports (map (fun _ => zero) ports) us.
  Definition avg_pressure (ports : list string) (u : uops) : res (list T) :=
    match u with
    | UList l => avg_pressure_list ports l
    | UDict (a :: _) => avg_pressure_list ports a
    | UDict [] => Err EKey
    end.

  (* ---- get_throughput_sum ---- *)
  Definition min_len (rows : list (list T)) : nat :=
    match rows with [] => 0 | r :: rs => fold_left (fun m x => Nat.min m (List.length x)) rs (List.length r) end.
  Definition columns (rows : list (list T)) : list (list T) :=
    map (fun j => map (fun r => nth j r zero) rows) (seq 0 (min_len rows)).
  Definition counted (i : instr) : bool := negb (neqb N (i_tp i) zero).
  Definition tp_sum (k : list instr) : list T :=
    map (fun col => nround2 N (nsum N col)) (columns (map i_pp (filter counted k))).

  (* ---- Python max / min / index on lists of numbers ---- *)
  Definition list_max (l : list T) : res T :=
    match l with [] => Err EValue | x :: r => Ok (fold_left (fun m y => if nltb N m y then y else m) r x) end.
  Definition list_min (l : list T) : res T :=
    match l with [] => Err EValue | x :: r => Ok (fold_left (fun m y => if nltb N y m then y else m) r x) end.
  Definition index_of (l : list T) (v : T) : res nat :=
    match find_index (fun x => neqb N x v) l 0 with Some i => Ok i | None => Err EValue end.
  Definition all_equal (l : list T) : bool :=
    match l with [] => true | x :: r => forallb (fun y => neqb N y x) r end.

  Definition set_pp (k : list instr) (idx : nat) (pp : list T) : list instr :=
    match nth_error k idx with
    | Some i => match set_nth k idx (mkinstr (i_tp i) pp (i_uops i)) with Ok k' => k' | Err _ => k end
    | None => k
    end.

  (* ---- one pass of the inner `for _ in range(...)` body ---- *)
  Record bstate := mkb { b_pp : list T; b_ind : list nat; b_ip : list T; b_df : list T; b_ps : list T;
                         b_exact0 : nat (* how often rule 1 met an exact 0.0 (alignment hypothesis) *) }.

  Definition add_at (l : list T) (i : nat) (d : T) : res (list T) :=
    x <- nth_res l i ;; set_nth l i (nadd N x d).
  Definition sub_at (l : list T) (i : nat) (d : T) : res (list T) :=
    x <- nth_res l i ;; set_nth l i (nsub N x d).

  Definition filter_res (f : nat -> res bool) : list nat -> res (list nat) :=
    fix go l := match l with
                | [] => Ok []
                | p :: r => b <- f p ;; r' <- go r ;; Ok (if b then p :: r' else r')
                end.

  (* [d for p, d in zip(indices, differences) if f p] *)
  Definition zipfilter_res (f : nat -> res bool) : list nat -> list T -> res (list T) :=
    fix go ind df := match ind, df with
                     | p :: r, d :: rd => b <- f p ;; r' <- go r rd ;; Ok (if b then d :: r' else r')
                     | _, _ => Ok []
                     end.

  (* rule 1: `if round(min(instr_ports), 2) <= 0:` ... residual hand-over, zeroing, removal from indices *)
  Definition rule1 (ps : list T) (mn : T) (pp1 : list T) (ind : list nat) (ip2 df2 : list T)
    : res (list T * list nat * list T * list T * nat) :=
    m <- list_min ip2 ;;
    if nleb N (nround2 N m) zero then
      r0 <- (if negb (neqb N m zero) then
               mini <- index_of ps mn ;;
               ipa <- add_at ip2 mini m ;;
               m2 <- list_min ipa ;;
               dfa <- add_at df2 mini m2 ;;
               m3 <- list_min ipa ;; kk <- index_of ipa m3 ;;
               dfb <- del_nth dfa kk ;;
               ppa <- setmany pp1 ind ipa ;;
               zs <- filter_res (fun p => v <- nth_res ppa p ;;
                                          Ok (orb (neqb N (nround2 N v) zero) (nltb N v zero))) ind ;;
               match zs with
               | [] => Err EIndex
               | zi :: _ => ppb <- set_nth ppa zi zero ;; Ok (ppb, ipa, dfb, 0)
               end
             else
               (* drained to exactly 0.0: the budget entries of the ports that leave `indices` below leave too *)
               dfz <- zipfilter_res (fun p => v <- nth_res pp1 p ;; Ok (nltb N zero v)) ind df2 ;;
               Ok (pp1, ip2, dfz, 1)) ;;
      let '(pp', ip', df', ex) := r0 in
      ind' <- filter_res (fun p => v <- nth_res pp' p ;; Ok (nltb N zero v)) ind ;;
      ip'' <- getmany pp' ind' ;;
      Ok (pp', ind', ip'', df', ex)
    else Ok (pp1, ind, ip2, df2, 0).

  (* rule 2: `if round(min(differences), 2) <= 0:` ... never remove more than cycles/len(ports) *)
  Definition rule2 (pp2 : list T) (ind2 : list nat) (ip3 df3 : list T) : res (list nat * list T * list T) :=
    md <- list_min df3 ;;
    if nleb N (nround2 N md) zero then
      kd <- index_of df3 md ;;
      ind' <- del_nth ind2 kd ;;
      ip' <- getmany pp2 ind' ;;
      df' <- del_nth df3 kd ;;
      Ok (ind', ip', df')
    else Ok (ind2, ip3, df3).

  Definition bstep (k : list instr) (idx : nat) (s : bstate) : res bstate :=
    let pp := b_pp s in let ind := b_ind s in let ip := b_ip s in let df := b_df s in let ps := b_ps s in
    mx <- list_max ps ;; maxi <- index_of ps mx ;;
    mn <- list_min ps ;; mini <- index_of ps mn ;;
    ip1 <- sub_at ip maxi INC ;; ip2 <- add_at ip1 mini INC ;;
    df1 <- sub_at df maxi INC ;; df2 <- add_at df1 mini INC ;;
    pp1 <- setmany pp ind ip2 ;;
    r1 <- rule1 ps mn pp1 ind ip2 df2 ;;
    let '(pp2, ind2, ip3, df3, ex) := r1 in
    r2 <- rule2 pp2 ind2 ip3 df3 ;;
    let '(ind3, ip4, df4) := r2 in
    ps' <- getmany (tp_sum (set_pp k idx pp2)) ind3 ;;
    Ok (mkb pp2 ind3 ip4 df4 ps' (b_exact0 s + ex)).

  Fixpoint bloop (n : nat) (k : list instr) (idx : nat) (s : bstate) : res bstate :=
    match n with
    | O => Ok s
    | S n' => match b_ip s with
              | [_] => Ok s                       (* len(instr_ports) == 1: break *)
              | _ => s' <- bstep k idx s ;; bloop n' k idx s'
              end
    end.

  Fixpoint indices_of (ports : list string) (ps : list string) : res (list nat) :=
    match ps with
    | [] => Ok []
    | p :: r => match port_index ports p with
                | None => Err EValue
                | Some i => r' <- indices_of ports r ;; Ok (i :: r')
                end
    end.

  (* the body of `for uop in instruction_form.port_uops` ; returns the new pressure vector *)
  Definition balance_uop (ports : list string) (k : list instr) (idx : nat) (pp : list T) (u : uop)
    : res (list T * nat) :=
    let '(c, ps) := u in
    ind <- indices_of ports ps ;;
    psums <- getmany (tp_sum (set_pp k idx pp)) ind ;;
    ip <- getmany pp ind ;;
    if all_equal psums then Ok (pp, 0)
    else
      let share := ndiv N c (nofZ N (Z.of_nat (List.length ps))) in
      let df := map (fun _ => share) ps in
      let n := Z.to_nat (ntrunc N (nmul N c (ndiv N (nofZ N 1) INC))) in
      s <- bloop n k idx (mkb pp ind ip df psums 0) ;;
      Ok (b_pp s, b_exact0 s).

  Fixpoint balance_uops (ports : list string) (k : list instr) (idx : nat) (pp : list T) (us : list uop) (ex : nat)
    : res (list T * nat) :=
    match us with
    | [] => Ok (pp, ex)
    | u :: r => '(pp', e) <- balance_uop ports k idx pp u ;;
                balance_uops ports (set_pp k idx pp') idx pp' r (ex + e)
    end.

  Definition list_max_res (l : list T) : res T := list_max l.

  (* assign_optimal_throughput(kernel, start) on the kernel in PROGRAM order; returns it in program order.
     fuel bounds the nesting of the alternative search (<= number of instructions). *)
  Definition set_instr (k : list instr) (idx : nat) (i : instr) : list instr :=
    match set_nth k idx i with Ok k' => k' | Err _ => k end.

  Fixpoint balance_from (fuel : nat) (ports : list string) (kprog : list instr) (start : nat) {struct fuel}
    : res (list instr * nat) :=
    match fuel with
    | O => Err EFuel
    | S fuel' =>
      (* `if not self.get_throughput_sum(kernel): return` -- no line carries a throughput *)
      match tp_sum kprog with
      | [] => Ok (kprog, 0)
      | _ :: _ =>
      let krev := rev kprog in
      let n := List.length krev in
      (* loop over idx = start .. n-1 on the reversed kernel; state: kernel, last-dict info, exact0 counter *)
      let body :=
        fix go (todo : list nat) (k : list instr) (multi : bool) (best : option (list instr * T)) (ex : nat)
          : res (list instr * bool * option (list instr * T) * nat) :=
          match todo with
          | [] => Ok (k, multi, best, ex)
          | idx :: rest =>
            match nth_error k idx with
            | None => Err EIndex
            | Some ins =>
              r <- (match i_uops ins with
                    | UList us => Ok (k, us, false, None, ex)
                    | UDict alts =>
                      match alts with
                      | [] => Err EIndex
                      | first :: others =>
                        (* explore every other alternative recursively *)
                        b <- (fix alts_go (al : list (list uop)) (best : option (list instr * T)) (ex : nat)
                                : res (option (list instr * T) * nat) :=
                                match al with
                                | [] => Ok (best, ex)
                                | alt :: more =>
                                  pp0 <- avg_pressure_list ports alt ;;
                                  let ktmp := set_instr k idx (mkinstr (i_tp ins) pp0 (UList alt)) in
                                  '(kres, e) <- balance_from fuel' ports (rev ktmp) idx ;;
                                  m <- list_max (tp_sum kres) ;;
                                  let better := match best with
                                                | None => true       (* best_kernel_tp = sys.maxsize *)
                                                | Some (_, btp) => nltb N m btp
                                                end in
                                  alts_go more (if better then Some (kres, m) else best) (ex + e)
                                end) others None ex ;;
                        let '(best', ex') := b in
                        Ok (set_instr k idx (mkinstr (i_tp ins) (i_pp ins) (UList first)), first, true, best', ex')
                      end
                    end) ;;
              let '(k1, us, multi', best', ex1) := r in
              match nth_error k1 idx with
              | None => Err EIndex
              | Some ins1 =>
                '(pp', ex2) <- balance_uops ports k1 idx (i_pp ins1) us ex1 ;;
                go rest (set_pp k1 idx pp') multi' (if multi' then best' else best) ex2
              end
            end
          end in
      '(kfin, multi, best, ex) <- body (seq start (n - start)) krev false None 0 ;;
      let kout := rev kfin in
      if multi then
        m <- list_max (tp_sum kout) ;;
        match best with
        | Some (bk, btp) =>
          if nltb N btp m
          then Ok (map (fun p => mkinstr (i_tp (fst p)) (i_pp (snd p)) (i_uops (snd p))) (combine kout bk), ex)
          else Ok (kout, ex)
        | None => Ok (kout, ex)
        end
      else Ok (kout, ex)
      end
    end.

  Definition balance (ports : list string) (k : list instr) : res (list instr * nat) :=
    balance_from (S (List.length k)) ports k 0.

  (* osaca.inspect: two passes *)
  Definition balance_cli (ports : list string) (k : list instr) : res (list instr * nat) :=
    '(k1, e1) <- balance ports k ;; '(k2, e2) <- balance ports k1 ;; Ok (k2, e1 + e2).

  Definition bottleneck (k : list instr) : res T := list_max (tp_sum k).
End Pressure.

Arguments mkinstr {T}. Arguments i_tp {T}. Arguments i_pp {T}. Arguments i_uops {T}.
Arguments UList {T}. Arguments UDict {T}.
