(* C18 -- the shared store of one OSACA process and how an analysis request threads it.

   A pure model has no history by construction, so what the Python code shares BY REFERENCE between analyses is made an
   explicit state, the *store*:
     - cache        : MachineModel._runtime_cache, model-file id -> the loaded `_data` object (mdata):
                        entries : the instruction entries' micro-op lists  (iform.port_pressure of the entry)
                        lrows / srows : the micro-op lists of the load_throughput / store_throughput table rows
                        ldef / sdef   : load_throughput_default / store_throughput_default
                        hidden        : the hidden-operand lists of the (ISA) entries
     - dflt_operands, dflt_hidden, dflt_sem : the list objects in InstructionForm.__init__.__defaults__
                        (operands=[], hidden_operands=[], semantic_operands={...}) shared by every instance built without them
     - parser_x86, parser_a64 : the non-grammar state of the two parser singletons (nothing in the shipped code).
   A micro-op is an opaque code (nat); the harness numbers the distinct (cycles, ports) pairs.

   `analyse disk st md s r` = (report, store afterwards), performing list operations IN PLACE exactly where
   arch_semantics.assign_tp_lt does:
     Direct e          instruction_form.port_uops = entry.port_pressure           -- an alias, nothing written
     Composed e l s    data_port_uops = <row list of the load table>  (alias of the row: LRow)
                                      | <copy of the default row> (LDef) | [] (no load)
                       st_data_port_uops = store row | copy of default | [] (AArch64 write-back only: SEmpty)
                       ExtendInPlace  (shipped):  data_port_uops += st_data_port_uops   -- extends the ALIASED ROW
                       CopyThenExtend (repaired): data_port_uops = data_port_uops + st_data_port_uops  -- new list
                       port_uops = list(chain(entry.port_pressure, data_port_uops))     -- new list
     Unknown           port_uops = [] (fresh)
     NonInstr          label / comment / directive line, built with the DEFAULT operand list
   `style` says what MachineModel(arch=..) does when the file was loaded before in this process: the shipped
   constructor looks the runtime cache up but then re-reads the (pickled) file anyway (Reload); an embedding that keeps
   its model object, or a constructor that returned the cached object, is Reuse.
   Out-of-range indices are totalised (empty list / no-op); the harness only produces in-range ones. *)
From Coq Require Import List Arith Bool PeanoNat String.
From OV Require Import Model.PyString.
Import ListNotations.

Definition uop := nat.

Fixpoint lookup {A : Type} (k : nat) (c : list (nat * A)) : option A :=
  match c with
  | [] => None
  | (k', v) :: t => if Nat.eqb k k' then Some v else lookup k t
  end.

Fixpoint update {A : Type} (k : nat) (v : A) (c : list (nat * A)) : list (nat * A) :=
  match c with
  | [] => [(k, v)]
  | (k', v') :: t => if Nat.eqb k k' then (k, v) :: t else (k', v') :: update k v t
  end.

Fixpoint set_nth {A : Type} (i : nat) (v : A) (l : list A) : list A :=
  match l, i with
  | [], _ => []
  | _ :: t, O => v :: t
  | x :: t, S j => x :: set_nth j v t
  end.

Definition nthl {A : Type} (i : nat) (l : list (list A)) : list A := nth i l [].

Record mdata := MData {
  entries : list (list uop);
  lrows : list (list uop);
  srows : list (list uop);
  ldef : list uop;
  sdef : list uop;
  hidden : list (list nat) }.

Record store := Store {
  cache : list (nat * mdata);
  dflt_operands : list nat;
  dflt_hidden : list nat;
  dflt_sem : list nat;
  parser_x86 : list nat;
  parser_a64 : list nat }.

Inductive mode := ExtendInPlace | CopyThenExtend.
Inductive style := Reload | Reuse.

Inductive lref := LRow (i : nat) | LDef | LLit (l : list uop).
Inductive sref := SRow (j : nat) | SDef | SEmpty | SLit (l : list uop).

Inductive instr :=
| NonInstr
| Unknown
| Direct (e : nat) (h : option nat)
| Composed (e : nat) (l : option lref) (s : option sref) (h : option nat).

Record request := Req { r_arch : nat; r_isa : nat; r_instrs : list instr }.

(* what the report shows of one line: its micro-op list (port pressure is a function of it:
   MachineModel.average_port_pressure), the hidden operands attached from the ISA entry, the operand list it was built with *)
Record line_report := LR { lr_uops : list uop; lr_hidden : list nat; lr_operands : list nat }.

Definition set_lrow (i : nat) (v : list uop) (d : mdata) : mdata :=
  MData (entries d) (set_nth i v (lrows d)) (srows d) (ldef d) (sdef d) (hidden d).

Definition hid (isa : mdata) (h : option nat) : list nat :=
  match h with None => [] | Some k => nthl k (hidden isa) end.

Definition load_list (d : mdata) (l : option lref) : list uop :=
  match l with
  | None => []
  | Some (LRow i) => nthl i (lrows d)
  | Some LDef => ldef d
  | Some (LLit x) => x
  end.

Definition store_list (d : mdata) (s : sref) : list uop :=
  match s with
  | SRow j => nthl j (srows d)
  | SDef => sdef d
  | SEmpty => []
  | SLit x => x
  end.

Definition cost (md : mode) (isa : mdata) (dflt : list nat) (d : mdata) (i : instr) : line_report * mdata :=
  match i with
  | NonInstr => (LR [] [] dflt, d)
  | Unknown => (LR [] [] [], d)
  | Direct e h => (LR (nthl e (entries d)) (hid isa h) [], d)
  | Composed e l s h =>
      let data := load_list d l in
      match s with
      | None => (LR (nthl e (entries d) ++ data) (hid isa h) [], d)
      | Some sr =>
          let st := store_list d sr in
          let d' := match md, l with
                    | ExtendInPlace, Some (LRow i) => set_lrow i (data ++ st) d
                    | _, _ => d
                    end in
          (LR (nthl e (entries d) ++ data ++ st) (hid isa h) [], d')
      end
  end.

Fixpoint cost_all (md : mode) (isa : mdata) (dflt : list nat) (d : mdata) (is : list instr)
  : list line_report * mdata :=
  match is with
  | [] => ([], d)
  | i :: t =>
      let '(r, d1) := cost md isa dflt d i in
      let '(rs, d2) := cost_all md isa dflt d1 t in
      (r :: rs, d2)
  end.

Definition load (disk : nat -> mdata) (st : style) (p : nat) (c : list (nat * mdata)) : mdata :=
  match st, lookup p c with
  | Reuse, Some d => d
  | _, _ => disk p
  end.

Definition with_cache (s : store) (c : list (nat * mdata)) : store :=
  Store c (dflt_operands s) (dflt_hidden s) (dflt_sem s) (parser_x86 s) (parser_a64 s).

Definition analyse (disk : nat -> mdata) (st : style) (md : mode) (s : store) (r : request)
  : list line_report * store :=
  let isa := load disk st (r_isa r) (cache s) in
  let c1 := update (r_isa r) isa (cache s) in
  let d := load disk st (r_arch r) c1 in
  let '(rep, d') := cost_all md isa (dflt_operands s) d (r_instrs r) in
  (rep, with_cache s (update (r_arch r) d' c1)).

Fixpoint run (disk : nat -> mdata) (st : style) (md : mode) (h : list request) (s : store) : store :=
  match h with
  | [] => s
  | r :: t => run disk st md t (snd (analyse disk st md s r))
  end.

(* the store of a process that has analysed nothing yet *)
Definition fresh : store := Store [] [] [] [] [] [].

(* every loaded model still has the content of its file *)
Definition pristine (disk : nat -> mdata) (s : store) : Prop :=
  forall p d, lookup p (cache s) = Some d -> d = disk p.

Definition loaded (s : store) (r : request) : Prop :=
  lookup (r_isa r) (cache s) <> None /\ lookup (r_arch r) (cache s) <> None.

(* ---- executable comparison, for evaluating recorded traces of the real process ---- *)
Fixpoint list_eqb {A : Type} (eqb : A -> A -> bool) (a b : list A) : bool :=
  match a, b with
  | [], [] => true
  | x :: a', y :: b' => eqb x y && list_eqb eqb a' b'
  | _, _ => false
  end.

Definition uops_eqb := list_eqb Nat.eqb.
Definition rows_eqb := list_eqb uops_eqb.

Definition mdata_eqb (a b : mdata) : bool :=
  rows_eqb (entries a) (entries b) && rows_eqb (lrows a) (lrows b) && rows_eqb (srows a) (srows b)
  && uops_eqb (ldef a) (ldef b) && uops_eqb (sdef a) (sdef b) && rows_eqb (hidden a) (hidden b).

Definition pristineb (disk : nat -> mdata) (s : store) : bool :=
  forallb (fun kv => mdata_eqb (snd kv) (disk (fst kv))) (cache s).

(* a recorded history: requests with the micro-op lists the real process gave the lines.
   Result: index of the first call whose lines the model does not reproduce (None = all reproduced), and whether the
   final store is pristine *)
Fixpoint trace_from (disk : nat -> mdata) (st : style) (md : mode) (s : store)
         (calls : list (request * list (list uop))) (k : nat) : option nat * store :=
  match calls with
  | [] => (None, s)
  | (r, obs) :: t =>
      let '(rep, s') := analyse disk st md s r in
      if rows_eqb (map lr_uops rep) obs then trace_from disk st md s' t (S k)
      else (Some k, s')
  end.

Definition trace_result (disk : nat -> mdata) (st : style) (md : mode)
           (calls : list (request * list (list uop))) : string :=
  let '(m, s) := trace_from disk st md fresh calls 0 in
  String.append (match m with None => "ok" | Some k => String.append "mismatch@" (string_of_nat k) end)
                (if pristineb disk s then "/pristine" else "/mutated").
