(* Functional reading of the parts of KernelDG.check_for_loopcarried_dep / _paths_to_next_iteration / _extend_path /
   _get_node_by_lineno that tools/gen_lcd.py translates (Gen/KdgNode.v, Gen/KdgLcd.v), at the data level of the code:
   line numbers are ints (Z), a path is the list of its nodes, latencies are looked up edge by edge, self.kernel is a list of
   objects of which only line_number is read.  PropsGen/C05gen.v proves the regenerated definitions equal to these for every
   input; Proofs/LcdPost.v connects them with the hand model of Model/Deps.v (paths as (source, weight) lists over nat,
   entry_of / sort_pairs / dedup / lcd_entries) and of Model/Parallel.v (post).  No proofs in this file. *)
From Coq Require Import ZArith List Bool String.
From OV Require Import Model.Num Model.PyLcd.
Import ListNotations.
Local Open Scope list_scope.

Section LcdPost.
  Context {T : Type} (N : NumOps T) {I : Type} (get : I -> Z).

  (* ---- _get_node_by_lineno(lineno): position in self.kernel of the FIRST object with that line number *)
  Definition node_by_lineno (heap : list I) (z : Z) : pres nat :=
    match py_filter_idx (fun i => Z.eqb (get i) z) heap with k :: _ => POk k | [] => PErr PIndexError end.

  (* ---- offset = max(1000, max(line numbers) + 1); tmp_kernel = kernel + copies with line_number + offset *)
  Definition prepare_model (set : I -> Z -> I) (k : list I) : pres (Z * list I) :=
    match map get k with
    | [] => PErr PValueError
    | x :: r => let off := Z.max 1000 (fold_left Z.max r x + 1) in
                POk (off, k ++ map (fun i => set i (get i + off)%Z) k)
    end.

  (* ---- per path *)
  Definition zback (off s : Z) : Z := if Z.leb off s then (s - off)%Z else s.
  Definition lt_pair : Z * T -> Z * T -> bool := py_tuple_lt Z.eqb Z.ltb (neqb N) (nltb N).
  Definition eq_pair : Z * T -> Z * T -> bool := py_tuple_eq Z.eqb (neqb N).
  Definition eq_pairs : list (Z * T) -> list (Z * T) -> bool := py_list_eq eq_pair.
  Definition item := (T * list (Z * T))%type.                     (* (lat_sum, lat_path) *)
  Definition lt_item : item -> item -> bool := py_tuple_lt (neqb N) (nltb N) eq_pairs (py_list_lt eq_pair lt_pair).

  (* one (s, d) of pairwise(path): state = (d as the loops leave it behind, lat_path) *)
  Definition step_edge (lat : Z -> Z -> pres T) (off : Z) (sd : Z * Z) (st : option Z * list (Z * T))
    : pres (option Z * list (Z * T)) :=
    w <- lat (fst sd) (snd sd) ;;
    POk (Some (snd sd), snd st ++ [(zback off (fst sd), w)]).

  (* lat_sum: `lat_sum = 0.0; for _, lat in lat_path: lat_sum += lat` over the SORTED lat_path (plain left-to-right addition) *)
  Definition sum_sorted (lp : list (Z * T)) : T := fold_left (fun a il => nadd N a (snd il)) lp (n0 N).

  (* one path: state = (d, paths_set, loopcarried_deps) *)
  Definition step_path (lat : Z -> Z -> pres T) (off : Z) (path : list Z) (st : option Z * list (list (Z * T)) * list item)
    : pres (option Z * list (list (Z * T)) * list item) :=
    r <- py_for (py_pairwise path) (fst (fst st), []) (step_edge lat off) ;;
    d <- py_bound (fst r) ;;                                        (* `if d >= offset`: UnboundLocalError if no edge was seen yet *)
    let d' := Some (zback off d) in
    let lp := py_sort lt_pair (snd r) in
    if py_set_mem eq_pairs lp (snd (fst st)) then POk (d', snd (fst st), snd st)
    else POk (d', py_set_add lp (snd (fst st)), snd st ++ [(sum_sorted lp, lp)]).

  (* ---- the dictionary *)
  Definition lcd_key (lp : list (Z * T)) : string := py_join "-" (map (fun il => py_str_Z (fst il)) lp).
  Definition lcd_value := (nat * list (nat * T) * T)%type.         (* root, dependencies, latency (objects as positions in self.kernel) *)
  Definition item_value (heap : list I) (it : item) : pres lcd_value :=
    first <- py_nth (snd it) 0 ;;
    root <- node_by_lineno heap (fst first) ;;
    deps <- py_mapM (fun ll => r <- node_by_lineno heap (fst ll) ;; POk (r, snd ll)) (snd it) ;;
    POk (root, deps, fst it).
  Definition step_item (heap : list I) (it : item) (d : list (string * lcd_value)) : pres (list (string * lcd_value)) :=
    v <- item_value heap it ;; POk (py_dict_set d (lcd_key (snd it)) v).
  Definition dict_of (heap : list I) (items : list item) : pres (list (string * lcd_value)) :=
    py_for items [] (step_item heap).

  (* ---- from `paths_set = set()` to `return loopcarried_deps_dict` *)
  Definition dedup_model (lat : Z -> Z -> pres T) (off : Z) (all_paths : list (list Z)) (deps0 : list item) : pres (list item) :=
    r <- py_for all_paths (None, [], deps0) (step_path lat off) ;; POk (snd r).
  Definition post_model (lat : Z -> Z -> pres T) (heap : list I) (off : Z) (all_paths : list (list Z)) (deps0 : list item)
    : pres (list (string * lcd_value)) :=
    deps <- dedup_model lat off all_paths deps0 ;; dict_of heap (py_sort_rev lt_item deps).

  (* ---- the searches *)
  (* sequential (timeout == -1): the paths of every instruction, in kernel order *)
  Definition search_seq_model {G} (p2n : G -> Z -> Z -> pres (list (list Z))) (k : list I) (dg : G) (off : Z) (all_paths : list (list Z))
    : pres (list (list Z)) :=
    found <- py_mapM (fun i => p2n dg (get i) off) k ;; POk (all_paths ++ List.concat found).
  (* one worker *)
  Definition extend_model {G} (asp : G -> Z -> Z -> list (list Z)) (dst : list (list Z)) (k : list I) (dg : G) (off : Z) : list (list Z) :=
    dst ++ flat_map (fun i => asp dg (get i) (get i + off)%Z) k.
End LcdPost.

(* _paths_to_next_iteration: search only among the ancestors of the target (plus the target) *)
Definition p2n_model {G NS} (ns_mem : Z -> NS -> bool) (ns_add : Z -> NS -> NS) (anc : G -> Z -> NS) (sub : G -> NS -> G)
           (asp : G -> Z -> Z -> list (list Z)) (dg : G) (ln off : Z) : list (list Z) :=
  let target := (ln + off)%Z in
  if ns_mem ln (anc dg target) then asp (sub dg (ns_add target (anc dg target))) ln target else [].
