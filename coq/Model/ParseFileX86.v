(* C09 -- model of BaseParser.parse_file (osaca/parser/base_parser.py) instantiated with the x86 line
   parser:  lines = file_content.split("\n"); a line whose .strip() is empty is skipped; line i
   (0-based) is parsed with line_number = i + 1 + start_line and keeps its verbatim text.
   Strings are Latin-1 (one Coq ascii per Python code point < 256).  No proofs in this file. *)
From Coq Require Import String Ascii List Bool NArith Arith.
From OV Require Import Model.ParseX86.
Import ListNotations.

(* str.isspace() restricted to code points < 256 (checked exhaustively against Python on every run) *)
Definition is_py_space (c : ascii) : bool :=
  let n := code c in
  orb (andb (N.leb 9 n) (N.leb n 13)) (orb (andb (N.leb 28 n) (N.leb n 32)) (orb (N.eqb n 133) (N.eqb n 160))).
Definition blank (l : chars) : bool := forallb is_py_space l.      (* line.strip() == "" *)

Definition is_nl (c : ascii) : bool := Ascii.eqb c "010"%char.

(* Python's s.split("\n"): always at least one piece *)
Fixpoint split_nl (l : chars) : list chars :=
  match l with
  | [] => [[]]
  | c :: r => if is_nl c then [] :: split_nl r
              else match split_nl r with h :: t => (c :: h) :: t | [] => [[c]] end
  end.

Record fline := mkFline { fl_number : nat; fl_text : string; fl_parsed : outcome }.

Fixpoint parse_lines (i : nat) (ls : list chars) : list fline :=
  match ls with
  | [] => []
  | l :: r => if blank l then parse_lines (S i) r
              else mkFline i (S_ l) (parse_chars l) :: parse_lines (S i) r
  end.

Definition parse_file (content : string) (start_line : nat) : list fline :=
  parse_lines (1 + start_line) (split_nl (L content)).

(* independent description used by the theorems: 0-based positions of the non-blank lines *)
Fixpoint positions_from (i : nat) (ls : list chars) : list nat :=
  match ls with
  | [] => []
  | l :: r => if blank l then positions_from (S i) r else i :: positions_from (S i) r
  end.
Definition file_lines (content : string) : list chars := split_nl (L content).
Fixpoint join_nl (ls : list chars) : chars :=
  match ls with
  | [] => []
  | [l] => l
  | l :: r => l ++ "010"%char :: join_nl r
  end.
