(* C10 -- the sub-language the property quantifies over: written syntax trees of AArch64 lines,
   their rendering under an arbitrary layout, and their meaning `denote` (= what the property says
   the parser has to return).  Executable, no proofs. *)
From Coq Require Import String Ascii List Bool Arith NArith ZArith.
From OV Require Import Model.LexA64 Model.ParseA64.
Import ListNotations.
Open Scope string_scope.

(* ---------------------------------------------------------------- numerals as written *)
Record numeral := mknum { n_neg : bool; n_hex : bool; n_digits : string }.
Definition num_okb (n : numeral) : bool := if n_hex n then hex_ok (n_digits n) else dec_ok (n_digits n).
Definition num_word (n : numeral) : string :=
  (if n_neg n then "-" else "") ++ (if n_hex n then "0x" else "") ++ n_digits n.
Definition num_value (n : numeral) : Z :=
  let v := if n_hex n then hex_val (n_digits n) else dec_val (n_digits n) in if n_neg n then Z.opp v else v.

(* ---------------------------------------------------------------- registers as written *)
Definition nat_str (n : nat) : string := string_of_Z (Z.of_nat n).
Record wreg := mkwreg { w_pre : ascii; w_num : nat; w_arr : option (string * ascii) }.
Definition scalar_pres : list ascii := ["x";"w";"b";"h";"s";"d";"q";"X";"W";"B";"H";"S";"D";"Q"]%char.
Definition vec_pres : list ascii := ["v";"z";"V";"Z"]%char.
Definition pred_pres : list ascii := ["p";"P"]%char.
Definition lanes_all : list string := ["";"1";"2";"4";"8";"16"].
Definition shapes_all : list ascii := ["b";"h";"s";"d";"q";"B";"H";"S";"D";"Q"]%char.
Definition memb (c : ascii) (l : list ascii) : bool := existsb (ceq c) l.
Definition wreg_okb (r : wreg) : bool :=
  andb (Nat.ltb (w_num r) 32)
       (match w_arr r with
        | None => memb (w_pre r) (scalar_pres ++ vec_pres ++ pred_pres)
        | Some (l, s) => andb (memb (w_pre r) (vec_pres ++ pred_pres)) (andb (mem_str l lanes_all) (memb s shapes_all))
        end).
Definition reg_word (r : wreg) : string :=
  String (w_pre r) (nat_str (w_num r)) ++
  match w_arr r with None => "" | Some (l, s) => "." ++ l ++ s1 s end.
Definition den_wreg (r : wreg) : reg :=
  mkreg (s1 (low (w_pre r))) (nat_str (w_num r))
        (match w_arr r with None => None | Some (_, s) => Some (s1 (low s)) end)
        (match w_arr r with None => None | Some (l, _) => if nonempty l then Some l else None end)
        None None.
Definition is_vec (r : wreg) : bool := memb (w_pre r) vec_pres.
Definition is_pred (r : wreg) : bool := memb (w_pre r) pred_pres.
Definition is_scalar (r : wreg) : bool := memb (w_pre r) scalar_pres.

Definition sp_words : list string := ["sp";"SP";"wsp";"wSP";"Wsp";"WSP";"xsp";"xSP";"Xsp";"XSP"].
Definition zr_words : list string := ["wzr";"wZR";"Wzr";"WZR";"xzr";"xZR";"Xzr";"XZR"].

Inductive wregop :=
| RPlain (r : wreg)
| RIndexed (r : wreg) (i : string)       (* v0.s[1] *)
| RPredicated (r : wreg) (m : ascii)     (* p0/z *)
| RSp (w : string)
| RZr (w : string).
Definition wregop_okb (o : wregop) : bool :=
  match o with
  | RPlain r => wreg_okb r
  | RIndexed r i => andb (wreg_okb r) (andb (is_vec r) (all_digits i))
  | RPredicated r m => andb (wreg_okb r) (andb (is_pred r) (andb (match w_arr r with None => true | _ => false end)
                                                                (memb m ["z";"m";"Z";"M"]%char)))
  | RSp w => mem_str w sp_words
  | RZr w => mem_str w zr_words
  end.
Definition den_wregop (o : wregop) : reg :=
  match o with
  | RPlain r => den_wreg r
  | RIndexed r i => let d := den_wreg r in mkreg (r_prefix d) (r_name d) (r_shape d) (r_lanes d) (Some (IdxS i)) None
  | RPredicated r m => let d := den_wreg r in mkreg (r_prefix d) (r_name d) None None None (Some (s1 (low m)))
  | RSp _ => plain "x" "sp"                         (* the implementation's normal form of the stack pointer *)
  | RZr w => match w with String c t => plain (s1 (low c)) t | _ => plain "" "" end   (* name kept as written *)
  end.
Definition toks_wregop (o : wregop) : list tok :=
  match o with
  | RPlain r => [TW (reg_word r)]
  | RIndexed r i => [TW (reg_word r); TP "["; TW i; TP "]"]
  | RPredicated r m => [TW (reg_word r); TP "/"; TW (s1 m)]
  | RSp w => [TW w]
  | RZr w => [TW w]
  end.

(* ---------------------------------------------------------------- operands as written *)
Record wfloat := mkwfloat { f_neg : bool; f_int : string; f_frac : string;
                            f_exp : option (ascii * ascii * string);   (* e|E, sign, digits *)
                            f_suffix : option ascii }.                  (* f|F *)
Definition wfloat_okb (f : wfloat) : bool :=
  andb (all_digits (f_int f)) (andb (all_digits (f_frac f))
  (andb (match f_exp f with None => true | Some (e, sg, d) => andb (is_e e) (andb (is_sign sg) (all_digits d)) end)
        (match f_suffix f with None => true | Some c => orb (ceq c "f") (ceq c "F") end))).
Definition float_mant (f : wfloat) : string := (if f_neg f then "-" else "") ++ f_int f ++ "." ++ f_frac f.
Definition float_word (f : wfloat) : string :=
  float_mant f ++ (match f_exp f with None => "" | Some (e, sg, d) => String e (String sg d) end)
               ++ (match f_suffix f with None => "" | Some c => s1 c end).

Inductive wext := mkwext (op : string) (amount : option (bool * numeral)).   (* lsl #3 / sxtw / ... *)
Inductive wmemtail :=
| MTNone                                         (* [base] *)
| MTOff (hash : bool) (n : numeral)              (* [base, #imm] *)
| MTIdx (pre : ascii) (num : nat) (ext : option wext).   (* [base, xN (, lsl #n)?] *)
Inductive wmemclose := MCNone | MCPre | MCPost (hash : bool) (n : numeral).
Inductive wbase := BX (upper : bool) (num : nat) | BSp (w : string).

Inductive wop :=
| WReg (r : wregop)
| WList (els : list wreg) (idx : option string)
| WRange (a b : wreg) (idx : option string)
| WInt (hash : bool) (n : numeral)
| WFlt (hash : bool) (f : wfloat)
| WIdent (hash : bool) (name : string)
| WCond (w : string)
| WMem (b : wbase) (t : wmemtail) (c : wmemclose).

(* a word the grammar reads as a shift operator when it follows `operand ,`: a word starting with a shift
   operator as the parser was found, the operator itself once shift operators are whole words (fx_word) *)
Definition has_shift_prefix (fx : fixes) (w : string) : bool :=
  orb (match shift_split fx w with Some _ => true | None => false end) (String.eqb (lower w) "mul").
(* an identifier that does not spell a register, an alias or a condition code *)
Definition plain_ident (w : string) : bool := match classify w with CIdent => is_ident w | _ => false end.
Definition elem_okb (r : wreg) : bool := andb (wreg_okb r) (orb (is_vec r) (is_scalar r)).
Definition idx_okb (i : option string) : bool := match i with None => true | Some d => dec_ok d end.
(* extend/shift operators of the A64 addressing modes: what the implementation understands; the
   architecture's sxtx only with the repair fx_sxtx *)
Definition ext_ops (fx : fixes) : list string :=
  (["lsl";"uxtw";"sxtw";"uxtb"] ++ (if fx_sxtx fx then ["sxtx"] else []))%list.
(* every upper/lower-case spelling of a lower-case word *)
Fixpoint variants (s : string) : list string :=
  match s with
  | EmptyString => [""]
  | String c r => flat_map (fun t => [String c t; String (upc c) t]) (variants r)
  end.
Definition ext_words (fx : fixes) : list string := flat_map variants (ext_ops fx).
Definition cond_words : list string := flat_map variants cond_codes.
Definition wext_okb (fx : fixes) (e : wext) : bool :=
  match e with mkwext op am =>
    andb (mem_str op (ext_words fx))
         (match am with None => true
                   | Some (_, n) => andb (num_okb n) (andb (negb (n_neg n)) (negb (n_hex n))) end)
  end.
Definition wbase_okb (b : wbase) : bool :=
  match b with BX _ n => Nat.ltb n 32 | BSp w => mem_str w sp_words end.
Definition nonempty_l {A} (l : list A) : bool := match l with [] => false | _ => true end.
Definition wop_okb (fx : fixes) (o : wop) : bool :=
  match o with
  | WReg r => wregop_okb r
  | WList els i => andb (nonempty_l els) (andb (forallb elem_okb els) (idx_okb i))
  | WRange a b i => andb (elem_okb a) (andb (elem_okb b) (idx_okb i))
  | WInt _ n => num_okb n
  | WFlt _ f => wfloat_okb f
  | WIdent _ w => plain_ident w
  | WCond w => mem_str w cond_words
  | WMem b t c =>
    andb (wbase_okb b)
    (andb (match t with
           | MTNone => true
           | MTOff _ n => num_okb n
           | MTIdx p n e => andb (memb p ["x";"w";"X";"W"]%char)
                                 (andb (Nat.ltb n 32) (match e with None => true | Some e' => wext_okb fx e' end))
           end)
          (match c with MCPost _ n => num_okb n | _ => true end))
  end.

(* ---------------------------------------------------------------- tokens of an operand *)
Definition hash_toks (h : bool) : list tok := if h then [TP "#"] else [].
Definition num_toks (h : bool) (n : numeral) : list tok := (hash_toks h ++ [TW (num_word n)])%list.
Definition idx_toks (i : option string) : list tok :=
  match i with None => [] | Some d => [TP "["; TW d; TP "]"] end.
Fixpoint sep_by (sep : tok) (l : list tok) : list tok :=
  match l with [] => [] | [x] => [x] | x :: r => x :: sep :: sep_by sep r end.
Definition base_word (b : wbase) : string :=
  match b with BX up n => String (if up then "X" else "x")%char (nat_str n) | BSp w => w end.
Definition toks_wop (o : wop) : list tok :=
  (match o with
  | WReg r => toks_wregop r
  | WList els i => TP "{" :: sep_by (TP ",") (map (fun e => TW (reg_word e)) els) ++ TP "}" :: idx_toks i
  | WRange a b i => TP "{" :: TW (reg_word a) :: TP "-" :: TW (reg_word b) :: TP "}" :: idx_toks i
  | WInt h n => num_toks h n
  | WFlt h f => hash_toks h ++ [TW (float_word f)]
  | WIdent h w => hash_toks h ++ [TW w]
  | WCond w => [TW w]
  | WMem b t c =>
    TP "[" :: TW (base_word b) ::
    (match t with
     | MTNone => []
     | MTOff h n => TP "," :: num_toks h n
     | MTIdx p n e => TP "," :: TW (String p (nat_str n)) ::
                      match e with
                      | None => []
                      | Some (mkwext op am) => TP "," :: TW op :: match am with None => [] | Some (h, k) => num_toks h k end
                      end
     end) ++ TP "]" ::
    (match c with MCNone => [] | MCPre => [TP "!"] | MCPost h n => TP "," :: num_toks h n end)
  end)%list.

(* ---------------------------------------------------------------- meaning of an operand *)
Definition den_idx (i : option string) : option idx := option_map (fun d => IdxI (dec_val d)) i.
Definition den_base_name (b : wbase) : string :=
  match b with
  | BX _ n => nat_str n
  | BSp w => if orb (String.eqb w "sp") (String.eqb w "SP") then w else drop 1 w
  end.
Definition den_wop (o : wop) : list operand :=
  match o with
  | WReg r => [OReg (den_wregop r)]
  | WList els i => map (fun e => OReg (set_index (den_idx i) (den_wreg e))) els
  | WRange a b i =>
    map (fun r => OReg (set_index (den_idx i) r))
        (range_members (den_wreg a) (Z.of_nat (w_num a)) (Z.of_nat (w_num b)))
  | WInt _ n => [OImmInt (num_value n)]
  | WFlt _ f => [OImmFlt (match f_suffix f with Some _ => true | None => false end) (float_mant f)
                         (match f_exp f with None => None | Some (_, sg, d) => Some (s1 sg, d) end)]
  | WIdent _ w => [OIdent w]
  | WCond w => [OCond (upper w)]
  | WMem b t c =>
    [OMem (match t with MTOff _ n => MOffImm (num_value n) | _ => MOffNone end)
          "x" (den_base_name b)
          (match t with
           | MTIdx p n e => Some (mkmindex (s1 (low p)) (nat_str n)
                                           (match e with Some (mkwext op _) => Some (lower op) | None => None end)
                                           (match e with Some (mkwext _ (Some (_, k))) => Some (num_word k) | _ => None end))
           | _ => None
           end)
          (match t with MTIdx _ _ (Some (mkwext _ (Some (_, k)))) => Z.pow 2 (num_value k) | _ => 1%Z end)
          (match c with MCPre => true | _ => false end)
          (match c with MCPost _ n => Some (num_value n) | _ => None end)]
  end.

(* ---------------------------------------------------------------- lines *)
Inductive wline :=
| WLInstr (mn : string) (ops : list wop) (comment : option string)
| WLLabel (name : string) (comment : option string)
| WLDirective (name : string) (params : list string) (comment : option string)
| WLComment (raw : string).

Definition comment_toks (c : option string) : list tok := match c with None => [] | Some raw => [TC raw] end.
Fixpoint ops_toks (ops : list wop) : list tok :=
  match ops with
  | [] => []
  | [o] => toks_wop o
  | o :: r => (toks_wop o ++ TP "," :: ops_toks r)%list
  end.
Definition toks_line (l : wline) : list tok :=
  (match l with
  | WLInstr mn ops c => TW mn :: ops_toks ops ++ comment_toks c
  | WLLabel n c => TW n :: TP ":" :: comment_toks c
  | WLDirective n ps c => TW ("." ++ n) :: sep_by (TP ",") (map TW ps) ++ comment_toks c
  | WLComment raw => [TC raw]
  end)%list.
Definition den_comment (c : option string) : option string := option_map comment_text c.
Definition denote (l : wline) : pline :=
  match l with
  | WLInstr mn ops c => mkpline (Some mn) (flat_map den_wop ops) None None (den_comment c)
  | WLLabel n c => mkpline None [] (Some n) None (den_comment c)
  | WLDirective n _ _ => mkpline None [] None (Some n) None
  | WLComment raw => mkpline None [] None None (Some (comment_text raw))
  end.

(* ---------------------------------------------------------------- well-formedness *)
Definition raw_okb (raw : string) : bool := sall (fun c => orb (is_printable c) (is_ws c)) raw.
Definition comment_okb (c : option string) : bool := match c with None => true | Some r => raw_okb r end.
Definition is_mem (o : wop) : bool := match o with WMem _ _ _ => true | _ => false end.
Definition swallows_shift (o : wop) : bool :=     (* operand kinds whose grammar element continues with `, shift_op` *)
  negb (is_mem o).
Definition shiftlike (fx : fixes) (o : wop) : bool :=
  match o with WIdent false w => has_shift_prefix fx w | WCond w => has_shift_prefix fx w | _ => false end.
(* valid operand order: the memory operand is last; a condition code is never the first operand *)
Fixpoint order_okb (ops : list wop) : bool :=
  match ops with
  | [] => true
  | [o] => true
  | o :: r => andb (negb (is_mem o)) (order_okb r)
  end.
(* no label the grammar reads as a shift operator after an operand whose grammar element may be followed
   by a shift: as the parser was found every label with a shift-operator prefix (`cbz x1, lsl_loop`, a
   defect), with the repair fx_word only a label spelled exactly like a shift operator (`cbz x1, lsl`,
   inherently ambiguous in this grammar) *)
Fixpoint noswallow_okb (fx : fixes) (ops : list wop) : bool :=
  match ops with
  | o :: ((o' :: _) as r) => andb (negb (andb (swallows_shift o) (shiftlike fx o'))) (noswallow_okb fx r)
  | _ => true
  end.
Definition first_okb (ops : list wop) : bool :=
  match ops with
  | WCond _ :: _ => false
  | WIdent _ w :: _ => negb (prefetch_word w)
  | _ => true
  end.
(* The sub-language of configuration fx.  `wline_okb fx_all` is the language the property quantifies over;
   a configuration that lacks a repair excludes exactly the lines on which that defect shows:
     fx_word = false   noswallow_okb also excludes labels that merely START with a shift operator,
     fx_sxtx = false   ext_words lacks sxtx,
     fx_dir  = false   no comment containing ',' after a directive parameter starting with a letter or '.',
     fx_cond = false   (a restriction on the layout, cond_tight below). *)
Definition wline_okb (fx : fixes) (l : wline) : bool :=
  match l with
  | WLInstr mn ops c =>
    andb (mnemonic_ok mn) (andb (negb (head_is (ceq ".") mn))
    (andb (Nat.leb (length ops) 5) (andb (forallb (wop_okb fx) ops)
    (andb (order_okb ops) (andb (first_okb ops) (andb (comment_okb c) (noswallow_okb fx ops)))))))
  | WLLabel n c => andb (is_ident n) (comment_okb c)
  | WLDirective n ps c =>
    andb (dir_name_ok ("." ++ n)) (andb (forallb (fun p => andb (dir_param_ok p) (sall is_wordch p)) ps) (andb (comment_okb c)
         (orb (fx_dir fx) (negb (match c with
                          | Some raw => andb (has_comma raw) (swallowing_param (last ps "0"))
                          | None => false end)))))
  | WLComment raw => raw_okb raw
  end.

(* ---------------------------------------------------------------- layout *)
Fixpoint zip_lay (lay : list string) (ts : list tok) : list (string * tok) :=
  match ts with
  | [] => []
  | t :: r => (hd "" lay, t) :: zip_lay (tl lay) r
  end.
Fixpoint word_run (w acc : string) : bool :=
  match w with
  | EmptyString => true
  | String c r => andb (orb (is_wordch c) (andb (is_sign c) (sign_ctx acc))) (word_run r (snoc acc c))
  end.
Definition word_ok (w : string) : bool :=
  match w with
  | String c r =>
    if ceq c "-" then match r with String d _ => andb (is_digit d) (word_run r "-") | EmptyString => false end
    else andb (is_wordch c) (word_run w "")
  | EmptyString => false
  end.
Definition clash (prev : option tok) (t : tok) : bool :=
  match prev, t with
  | Some (TW _), TW _ => true
  | Some (TW w), TP c => andb (ceq c "-") (sign_ctx w)
  | Some (TP p), TW w => andb (ceq p "-") (head_is is_digit w)
  | Some (TP p), TP c => andb (ceq p "/") (ceq c "/")
  | Some (TP p), TC _ => ceq p "/"
  | _, _ => false
  end.
Definition tok_okb (t : tok) (last : bool) : bool :=
  match t with TW w => word_ok w | TWI _ => false | TP c => is_punct c | TC raw => andb last (raw_okb raw) end.
Fixpoint lay_okb (prev : option tok) (lay : list string) (ts : list tok) : bool :=
  match ts with
  | [] => true
  | t :: r =>
    let ws := hd "" lay in
    andb (sall is_ws ws) (andb (orb (nonempty ws) (negb (clash prev t)))
         (andb (tok_okb t (match r with [] => true | _ => false end)) (lay_okb (Some t) (tl lay) r)))
  end.
Fixpoint ends_with_comment (ts : list tok) : bool :=   (* a comment token is always the last one (tok_okb) *)
  match ts with [] => false | TC _ :: _ => true | _ :: r => ends_with_comment r end.
(* the line: white space lay_i before token i, `trail` after the last token unless it is a comment
   (a comment extends to the end of the line, so trailing blanks belong to its raw text) *)
Definition render (lay : list string) (trail : string) (l : wline) : string :=
  let ts := toks_line l in
  render_toks (zip_lay lay ts) (if ends_with_comment ts then "" else trail).
Definition layout_okb (lay : list string) (trail : string) (l : wline) : bool :=
  andb (sall is_ws trail) (lay_okb None lay (toks_line l)).

(* what the lexer returns for a rendered line: a condition-code word followed by white space is marked *)
Fixpoint mark (lay : list string) (trail : string) (ts : list tok) : list tok :=
  match ts with
  | [] => []
  | t :: r =>
    let next_ws := match r with [] => trail | _ => hd "" (tl lay) end in
    (match t with
     | TW w => if andb (nonempty next_ws) (is_cond w) then TWI w else TW w
     | _ => t
     end) :: mark (tl lay) trail r
  end.
(* the layout restriction of a configuration without the repair fx_cond: no white space directly after a
   condition-code word *)
Fixpoint tightb (lay : list string) (trail : string) (ts : list tok) : bool :=
  match ts with
  | [] => true
  | t :: r =>
    let next_ws := match r with [] => trail | _ => hd "" (tl lay) end in
    andb (match t with TW w => negb (andb (nonempty next_ws) (is_cond w)) | _ => true end) (tightb (tl lay) trail r)
  end.
Definition cond_tight (fx : fixes) (lay : list string) (trail : string) (l : wline) : bool :=
  orb (fx_cond fx)
      (let ts := toks_line l in tightb lay (if ends_with_comment ts then "" else trail) ts).

(* layout_okb = the tokens are lexable (a property of the tree: Proofs/ParseA64Words.v shows it for every
   well-formed line) + the spacing proper *)
Fixpoint sep_okb (prev : option tok) (lay : list string) (ts : list tok) : bool :=
  match ts with
  | [] => true
  | t :: r =>
    let ws := hd "" lay in
    andb (sall is_ws ws) (andb (orb (nonempty ws) (negb (clash prev t))) (sep_okb (Some t) (tl lay) r))
  end.
Fixpoint toks_okb (ts : list tok) : bool :=
  match ts with
  | [] => true
  | t :: r => andb (tok_okb t (match r with [] => true | _ => false end)) (toks_okb r)
  end.
(* all that is asked of a layout: white space only, and non-empty where two tokens would otherwise fuse *)
Definition spacing_okb (lay : list string) (trail : string) (l : wline) : bool :=
  andb (sall is_ws trail) (sep_okb None lay (toks_line l)).
