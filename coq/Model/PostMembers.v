(* C10 -- `members_okb`: the members of the register lists of a written line that are spelled alike (gr_elem_word) are the same
   register as far as the grammar result is concerned, i.e. the grammar element list_element is a function of the member's text
   (Model/PostA64.v gr_stage answers list_element by the FIRST member with that spelling).  Decidable; hypothesis of
   PropsGen/C10post2.v C10post_instr_line / C10post_line, evaluated on every generated tree by harness/parsepost_tie.py. *)
From Coq Require Import String Ascii List Bool Arith.
From OV Require Import Model.PyString Model.PyDyn Model.PyPost Model.LexA64 Model.ParseA64 Model.SyntaxA64 Model.PostA64.
Import ListNotations.
Open Scope string_scope.

Definition arr_eqb (a b : option (string * ascii)) : bool :=
  match a, b with
  | None, None => true
  | Some (l, s), Some (l', s') => String.eqb l l' && Ascii.eqb s s'
  | _, _ => false
  end.
Definition gr_same (a b : wreg) : bool :=
  String.eqb (gr_prefix a) (gr_prefix b) && Nat.eqb (w_num a) (w_num b) && arr_eqb (w_arr a) (w_arr b).
Definition members_okb (l : wline) : bool :=
  forallb (fun e => forallb (fun e' => implb (String.eqb (gr_elem_word e') (gr_elem_word e)) (gr_same e' e)) (line_members l)) (line_members l).
