(* Role assignment (Model/Roles.v) in the form PropsGen/C03roles.v needs to state what the regenerated code of
   osaca/semantics/isa_semantics.py (Gen/RolesGen.v) computes: the role filter on arbitrary items, the embedding of an ISA
   entry / an instruction form into the value universe of Model/RolesDyn.v, and the ISA look-ups of assign_src_dst with their
   suffix fall-backs as a function of the look-up (a parameter: property C07).  No proofs in this file. *)
From Coq Require Import ZArith List Bool String.
From OV Require Import Model.PyString Model.Deps Model.Roles Model.RolesDyn.
Import ListNotations.

(* by_role of Model/Roles.v on items of any type *)
Definition by_role_g {A} (xs : list A) (roles : list (bool * bool)) (want : bool * bool -> bool) : list A :=
  map fst (filter (fun p => want (snd p)) (combine xs roles)).

Section Emb.
  Context {T : Type}.
  Notation pv := (pv T).
  (* an operand of an ISA entry: only its roles are read *)
  Definition emb_role (r : bool * bool) : pv := VObj C_OtherOperand [(A_source, VBool (fst r)); (A_destination, VBool (snd r))].
  (* a hidden operand: an Operand object (class c, further attributes fs) with its roles *)
  Definition emb_hidden (c : cls) (fs : list (attr * pv)) (r : bool * bool) : pv :=
    VObj c ((A_source, VBool (fst r)) :: (A_destination, VBool (snd r)) :: fs).
  Definition emb_entry (roles : list (bool * bool)) (hidden : list pv) (idiom : bool) : pv :=
    VObj C_InstructionForm [(A_operands, VList (map emb_role roles)); (A_hidden_operands, VList hidden);
                            (A_breaks_dependency_on_equal_operands, VBool idiom)].
  Definition emb_opdict (s d sd : list pv) : pv :=
    VDict [("source"%string, VList s); ("destination"%string, VList d); ("src_dst"%string, VList sd)].
  (* an operand of the instruction with its ==-class *)
  Definition emb_popnd (baseid : Z) (p : popnd) : pv := emb_opnd_k baseid (fst p) (Z.of_nat (snd p)).
End Emb.

(* ---- the look-ups of assign_src_dst: direct, then without the GAS suffix (x86) / without the part behind the first '.'
   (AArch64); None = IndexError (mnemonic[-1] of an empty mnemonic) ---- *)
Definition gas_suffixes : string := "bswlqt".
Definition str_last (m : string) : option string :=
  match norm_index (String.length m) (-1) with
  | Some n => option_map (fun c => String c EmptyString) (nth_error (chars m) n)
  | None => None
  end.
Definition str_drop_last (m : string) : string :=
  str_slice m 0 (Z.to_nat (Z.max 0 (Z.of_nat (String.length m) + -1))).
Definition str_before_dot (m : string) : string :=
  match str_find "." m 0 with Some i => str_slice m 0 (Z.to_nat (Z.min (Z.of_nat i) (Z.of_nat (String.length m)))) | None => m end.
Definition lookup_fb {E} (x86 : bool) (look : string -> option E) (m : string) : option (option E) :=
  match look m with
  | Some e => Some (Some e)
  | None =>
    if x86 then match str_last m with
                | None => None
                | Some c => Some (if py_substr c gas_suffixes then look (str_drop_last m) else None)
                end
    else Some (if py_substr "." m then look (str_before_dot m) else None)
  end.
(* look_direct: get_instruction(name, operands); look_reg: get_instruction(name, operands with every memory operand
   replaced by the wildcard).  The register form is only consulted for an instruction with a memory operand. *)
Definition select_entry {E} (x86 : bool) (look_direct look_reg : string -> option E) (m : string) (ops : list popnd)
  : option (option E) :=
  match lookup_fb x86 look_direct m with
  | None => None
  | Some (Some e) => Some (Some e)
  | Some None =>
    if existsb (fun p => match fst p with OMem _ => true | _ => false end) ops then lookup_fb x86 look_reg m else Some None
  end.
