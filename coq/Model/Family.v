(* The bounded family of property C02: every ordered kernel of length <= 4 (<= 3 when a 2-cycle form
   occurs) over all single-micro-op forms on every non-empty subset of 3 ports. 5355 kernels.
   Generated inside Coq; evaluated with the bit-exact binary64 instance. No proofs here. *)
From Coq Require Import ZArith List Bool String PrimFloat.
From OV Require Import Model.Num Model.Pressure.
Import ListNotations.
Open Scope string_scope.

Definition fam_ports : list string := ["A"; "B"; "C"].
Definition subsets3 : list (list string) :=
  [["A"]; ["B"]; ["C"]; ["A"; "B"]; ["A"; "C"]; ["B"; "C"]; ["A"; "B"; "C"]].

(* a form = (cycles in {1,2}, port subset) ; 14 forms *)
Definition fam_form := (bool * list string)%type.      (* true = 2-cycle form *)
Definition forms1 : list fam_form := map (fun s => (false, s)) subsets3.
Definition forms2 : list fam_form := map (fun s => (true, s)) subsets3.
Definition all_forms : list fam_form := forms1 ++ forms2.

Fixpoint words {A} (alphabet : list A) (n : nat) : list (list A) :=
  match n with
  | O => [[]]
  | S k => List.concat (map (fun w => map (fun a => a :: w) alphabet) (words alphabet k))
  end.

Definition has2 (w : list fam_form) : bool := existsb fst w.

(* length 1..3 over all 14 forms, length 4 over the 1-cycle forms only *)
Definition family : list (list fam_form) :=
  words all_forms 1 ++ words all_forms 2 ++ words all_forms 3 ++ words forms1 4.

Definition in_shape (w : list fam_form) : bool :=
  andb (forallb (fun f => existsb (fun g => andb (Bool.eqb (fst f) (fst g))
                                             (if list_eq_dec string_dec (snd f) (snd g) then true else false)) all_forms) w)
       (orb (andb (Nat.leb 1 (List.length w)) (Nat.leb (List.length w) 3))
            (andb (Nat.eqb (List.length w) 4) (negb (has2 w)))).

Section Eval.
  Context {T : Type} (N : NumOps T).
  Definition cyc (f : fam_form) : T := if fst f then nofZ N 2 else nofZ N 1.
  Definition to_instr (f : fam_form) : res (instr (T:=T)) :=
    let us := [(cyc f, snd f)] in
    pp <- avg_pressure_list N fam_ports us ;; Ok (mkinstr (nofZ N 1) pp (UList us)).
  Fixpoint to_kernel (w : list fam_form) : res (list (instr (T:=T))) :=
    match w with [] => Ok [] | f :: r => i <- to_instr f ;; k <- to_kernel r ;; Ok (i :: k) end.
  (* bottleneck reported by the CLI path (two passes) *)
  Definition cli_bottleneck (w : list fam_form) : res T :=
    k <- to_kernel w ;; r <- balance_cli N fam_ports k ;; bottleneck N (fst r).
  Definition uniform_bottleneck (w : list fam_form) : res T :=
    k <- to_kernel w ;; bottleneck N k.
End Eval.

(* exact optimum: max over non-empty S of (cycles confined to S) / |S|, in units of 1/6 cycle (Z) *)
Definition subset_of (a b : list string) : bool := forallb (fun x => existsb (String.eqb x) b) a.
Definition opt6 (w : list fam_form) : Z :=
  fold_left Z.max
    (map (fun S => (fold_left Z.add (map (fun f : fam_form => if subset_of (snd f) S then (if fst f then 2 else 1)%Z else 0%Z) w) 0%Z
                    * (6 / Z.of_nat (List.length S)))%Z) subsets3) 0%Z.
