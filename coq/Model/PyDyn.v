(* PyDyn -- a small semantic layer for DYNAMICALLY TYPED Python, target of tools/py2coq_dyn.py.
   Executable definitions only (no proofs); lemmas are in Proofs/PyDyn.v.

   Values.  `pyval` covers None, bool, int, str, str-keyed dicts, lists (tuples are lists too) and
   objects of user classes.  An object is its class name, an identity and the list of its PUBLIC
   attributes (a property `x` whose getter is `return self._x` is the attribute `x`; the translator
   checks this shape of the getters it relies on).  Not representable: float, bytes, sets, dicts with
   non-str keys, objects with __getattr__/__bool__/__len__/__contains__ (the generator refuses classes
   that define them where it matters).  There is no subclassing: `isinstance(v, C)` is `type(v) is C`
   (the generator checks that no class it is asked about has subclasses), except bool <: int.

   Errors.  Every operation that can raise in Python returns `res`: `Raise AttributeError` ...; an
   operation whose Python meaning lies outside this layer returns `Raise Unmodelled` -- never a default
   value -- so a theorem `translated f x = Ok ...` cannot hold for the wrong reason.

   Two string equalities on purpose: `key_eqb` compares attribute and class names (always literal on
   both sides in translated code: proofs let it compute), `String.eqb` compares DATA strings (register
   names, dict keys, ...: proofs keep it symbolic and case-split on it). *)
From Coq Require Import String Ascii List Bool ZArith NArith.
From OV Require Import Model.PyString.
Import ListNotations.
Open Scope string_scope.

Inductive pyval :=
| PNone
| PBool (b : bool)
| PInt (z : Z)
| PStr (s : string)
| PObj (cls : string) (oid : N) (fields : list (string * pyval))
| PDict (items : list (string * pyval))
| PList (l : list pyval).

Inductive exn := AttributeError | TypeError | KeyError | IndexError | ValueError | StopIteration | Unmodelled.

Inductive res (A : Type) := Ok (a : A) | Raise (e : exn).
Arguments Ok {A} a.
Arguments Raise {A} e.

Definition bind {A B} (r : res A) (k : A -> res B) : res B :=
  match r with Ok a => k a | Raise e => Raise e end.
Notation "x <- e ;; k" := (bind e (fun x => k)) (at level 61, e at next level, right associativity).

(* ------------------------------------------------------------------ names *)
Fixpoint key_eqb (a b : string) : bool :=
  match a, b with
  | EmptyString, EmptyString => true
  | String c1 r1, String c2 r2 => if Ascii.eqb c1 c2 then key_eqb r1 r2 else false
  | _, _ => false
  end.

Fixpoint assoc (k : string) (l : list (string * pyval)) : option pyval :=
  match l with
  | [] => None
  | (k', v) :: t => if key_eqb k k' then Some v else assoc k t
  end.

Fixpoint dict_find (k : string) (l : list (string * pyval)) : option pyval :=
  match l with
  | [] => None
  | (k', v) :: t => if String.eqb k k' then Some v else dict_find k t
  end.

(* ------------------------------------------------------------------ truth, None, not *)
(* bool(v); objects are truthy (no __bool__/__len__ in the classes the generator accepts) *)
Definition py_truth (v : pyval) : bool :=
  match v with
  | PNone => false
  | PBool b => b
  | PInt z => negb (Z.eqb z 0)
  | PStr s => match s with EmptyString => false | _ => true end
  | PObj _ _ _ => true
  | PDict d => match d with [] => false | _ => true end
  | PList l => match l with [] => false | _ => true end
  end.

Definition py_is_none (v : pyval) : bool := match v with PNone => true | _ => false end.
Definition py_not (v : pyval) : pyval := PBool (negb (py_truth v)).

(* ------------------------------------------------------------------ == *)
(* `a == b`.  tab C = Some fs : class C defines  __eq__(self, other) = isinstance(other, C) and all of the
   attributes fs are == ;  tab C = None : identity (object.__eq__).  A str/None/int on the left delegates to
   the object's __eq__ (reflected), which answers False for a foreign type.  bool is an int.  Dicts compare
   as finite maps (keys are assumed distinct), lists element-wise. *)
Definition zbool (b : bool) : Z := if b then 1%Z else 0%Z.

Fixpoint py_eqb (tab : string -> option (list string)) (a b : pyval) {struct a} : bool :=
  match a with
  | PNone => match b with PNone => true | _ => false end
  | PBool x => match b with PBool y => Bool.eqb x y | PInt z => Z.eqb (zbool x) z | _ => false end
  | PInt x => match b with PInt y => Z.eqb x y | PBool y => Z.eqb x (zbool y) | _ => false end
  | PStr x => match b with PStr y => String.eqb x y | _ => false end
  | PObj c1 i1 f1 =>
    match b with
    | PObj c2 i2 f2 =>
      match tab c1 with
      | None => if key_eqb c1 c2 then N.eqb i1 i2 else false
      | Some flds =>
        if key_eqb c1 c2 then
          forallb (fun f =>
            (fix find (l : list (string * pyval)) : bool :=
               match l with
               | [] => false
               | (k, x) :: t =>
                 if key_eqb f k
                 then match assoc f f2 with Some y => py_eqb tab x y | None => false end
                 else find t
               end) f1) flds
        else false
      end
    | _ => false
    end
  | PDict d1 =>
    match b with
    | PDict d2 =>
      if Nat.eqb (length d1) (length d2) then
        (fix all (l : list (string * pyval)) : bool :=
           match l with
           | [] => true
           | (k, x) :: t =>
             match dict_find k d2 with
             | Some y => if py_eqb tab x y then all t else false
             | None => false
             end
           end) d1
      else false
    | _ => false
    end
  | PList l1 =>
    match b with
    | PList l2 =>
      (fix all (l : list pyval) (m : list pyval) : bool :=
         match l, m with
         | [], [] => true
         | x :: t, y :: u => if py_eqb tab x y then all t u else false
         | _, _ => false
         end) l1 l2
    | _ => false
    end
  end.

(* ------------------------------------------------------------------ attributes, items, membership *)
Definition py_getattr (v : pyval) (a : string) : res pyval :=
  match v with
  | PObj _ _ f => match assoc a f with Some x => Ok x | None => Raise AttributeError end
  | _ => Raise AttributeError          (* data attributes only; methods are separate operations *)
  end.

Definition zlen {A} (l : list A) : Z := Z.of_nat (length l).

Definition list_index (l : list pyval) (z : Z) : res pyval :=
  let i := if Z.ltb z 0 then (z + zlen l)%Z else z in
  if Z.ltb i 0 then Raise IndexError
  else match nth_error l (Z.to_nat i) with Some x => Ok x | None => Raise IndexError end.

(* c[k] *)
Definition py_getitem (c k : pyval) : res pyval :=
  match c with
  | PDict d =>
    match k with
    | PStr s => match dict_find s d with Some v => Ok v | None => Raise KeyError end
    | PNone | PBool _ | PInt _ => Raise KeyError          (* hashable, and no such key in a str-keyed dict *)
    | PDict _ | PList _ => Raise TypeError                (* unhashable *)
    | PObj _ _ _ => Raise Unmodelled
    end
  | PList l =>
    match k with
    | PInt z => list_index l z
    | PBool b => list_index l (zbool b)
    | PObj _ _ _ => Raise Unmodelled
    | _ => Raise TypeError
    end
  | PNone | PBool _ | PInt _ => Raise TypeError             (* not subscriptable *)
  | PStr _ | PObj _ _ _ => Raise Unmodelled
  end.

(* c["literal"]: the key is a string literal of the program text, so it is compared like a name (computes in proofs);
   Proofs/PyDyn.v shows key_eqb = String.eqb, i.e. this is py_getitem c (PStr k) *)
Definition py_getitem_lit (c : pyval) (k : string) : res pyval :=
  match c with
  | PDict d => match assoc k d with Some v => Ok v | None => Raise KeyError end
  | _ => py_getitem c (PStr k)
  end.

(* x in c *)
Definition py_in (tab : string -> option (list string)) (x c : pyval) : res pyval :=
  match c with
  | PDict d =>
    match x with
    | PStr s => Ok (PBool (match dict_find s d with Some _ => true | None => false end))
    | PNone | PBool _ | PInt _ => Ok (PBool false)
    | PDict _ | PList _ => Raise TypeError
    | PObj _ _ _ => Raise Unmodelled
    end
  | PList l => Ok (PBool (existsb (fun y => py_eqb tab x y) l))
  | PStr t => match x with PStr s => Ok (PBool (py_substr s t)) | _ => Raise TypeError end
  | PNone | PBool _ | PInt _ => Raise TypeError             (* not iterable *)
  | PObj _ _ _ => Raise Unmodelled
  end.

(* isinstance(v, C) for C among the builtins below or a user class without subclasses *)
Definition py_isinstance1 (v : pyval) (c : string) : bool :=
  match v with
  | PNone => false
  | PBool _ => key_eqb c "bool" || key_eqb c "int"
  | PInt _ => key_eqb c "int"
  | PStr _ => key_eqb c "str"
  | PObj cls _ _ => key_eqb c cls
  | PDict _ => key_eqb c "dict"
  | PList _ => key_eqb c "list"
  end.
Definition py_isinstance (v : pyval) (cs : list string) : pyval := PBool (existsb (py_isinstance1 v) cs).

(* ------------------------------------------------------------------ builtins and methods *)
Definition py_len (v : pyval) : res pyval :=
  match v with
  | PList l => Ok (PInt (zlen l))
  | PDict d => Ok (PInt (zlen d))
  | PStr s => Ok (PInt (Z.of_nat (String.length s)))
  | PObj _ _ _ => Raise Unmodelled
  | _ => Raise TypeError
  end.

(* a + b *)
Definition py_add (a b : pyval) : res pyval :=
  match a, b with
  | PStr x, PStr y => Ok (PStr (x ++ y))
  | PInt x, PInt y => Ok (PInt (x + y))
  | PInt x, PBool y => Ok (PInt (x + zbool y))
  | PBool x, PInt y => Ok (PInt (zbool x + y))
  | PBool x, PBool y => Ok (PInt (zbool x + zbool y))
  | PList x, PList y => Ok (PList (x ++ y))
  | PObj _ _ _, _ | _, PObj _ _ _ => Raise Unmodelled
  | _, _ => Raise TypeError
  end.

(* v.lower() / v.upper() / v.rstrip(string.digits): str methods; None, numbers, dicts, lists do not have them *)
Definition py_str_method (f : string -> string) (v : pyval) : res pyval :=
  match v with
  | PStr s => Ok (PStr (f s))
  | PObj _ _ _ => Raise Unmodelled
  | _ => Raise AttributeError
  end.
Definition py_lower_m := py_str_method py_lower.
Definition py_upper_m := py_str_method py_upper.
Definition py_rstrip_digits_m := py_str_method py_rstrip_digits.

(* d.get(k, default) *)
Definition py_dict_get (d k default : pyval) : res pyval :=
  match d with
  | PDict items =>
    match k with
    | PStr s => Ok (match dict_find s items with Some v => v | None => default end)
    | PNone | PBool _ | PInt _ => Ok default
    | PDict _ | PList _ => Raise TypeError
    | PObj _ _ _ => Raise Unmodelled
    end
  | PObj _ _ _ => Raise Unmodelled
  | _ => Raise AttributeError
  end.

(* ------------------------------------------------------------------ and / or (value-returning, short-circuit) *)
Definition py_and (a : res pyval) (k : unit -> res pyval) : res pyval :=
  bind a (fun v => if py_truth v then k tt else Ok v).
Definition py_or (a : res pyval) (k : unit -> res pyval) : res pyval :=
  bind a (fun v => if py_truth v then Ok v else k tt).

(* ------------------------------------------------------------------ iteration *)
(* iter(v): the items a for-loop sees *)
Definition py_iter (v : pyval) : res (list pyval) :=
  match v with
  | PList l => Ok l
  | PDict d => Ok (map (fun kv => PStr (fst kv)) d)
  | PStr _ | PObj _ _ _ => Raise Unmodelled
  | _ => Raise TypeError
  end.

Fixpoint enum_from (i : Z) (l : list pyval) : list pyval :=
  match l with [] => [] | x :: t => PList [PInt i; x] :: enum_from (i + 1) t end.
(* list(enumerate(v)) *)
Definition py_enumerate (v : pyval) : res pyval := l <- py_iter v ;; Ok (PList (enum_from 0 l)).

(* a, b = v *)
Definition py_unpack2 (v : pyval) : res (pyval * pyval) :=
  match v with
  | PList [a; b] => Ok (a, b)
  | PList _ => Raise ValueError
  | PStr _ | PDict _ | PObj _ _ _ => Raise Unmodelled
  | _ => Raise TypeError
  end.

(* for x in l: body   -- the body either falls through with a new state or returns a value *)
Inductive ctl (S : Type) := Next (s : S) | Return (v : pyval).
Arguments Next {S} s.
Arguments Return {S} v.

Fixpoint py_for {S} (l : list pyval) (body : pyval -> S -> res (ctl S)) (s : S) : res (ctl S) :=
  match l with
  | [] => Ok (Next s)
  | x :: t => bind (body x s) (fun c => match c with Next s' => py_for t body s' | Return v => Ok (Return v) end)
  end.

(* next(x for x in l if cond(x)) with `except StopIteration` supplying a default *)
Fixpoint py_first (l : list pyval) (cond : pyval -> res pyval) : res (option pyval) :=
  match l with
  | [] => Ok None
  | x :: t => bind (cond x) (fun c => if py_truth c then Ok (Some x) else py_first t cond)
  end.

(* ------------------------------------------------------------------ comparison of a dumped real object with an embedding *)
(* `agrees m d`: every attribute / item / element that the embedding m fixes is present in the dump d with an
   agreeing value; d may carry further attributes; identities are not compared.  Two markers may occur in m:
   an object of class "?" stands for any value but None, the dict {"?": _} for any dict. *)
Fixpoint agrees (m d : pyval) {struct m} : bool :=
  match m with
  | PNone => match d with PNone => true | _ => false end
  | PBool x => match d with PBool y => Bool.eqb x y | _ => false end
  | PInt x => match d with PInt y => Z.eqb x y | _ => false end
  | PStr x => match d with PStr y => String.eqb x y | _ => false end
  | PObj c _ f =>
    if key_eqb c "?" then negb (py_is_none d)
    else match d with
         | PObj c2 _ f2 =>
           key_eqb c c2 &&
           (fix all (l : list (string * pyval)) : bool :=
              match l with
              | [] => true
              | (k, x) :: t => match assoc k f2 with Some y => agrees x y && all t | None => false end
              end) f
         | _ => false
         end
  | PDict items =>
    match d with
    | PDict items2 =>
      (match items with [(k, _)] => String.eqb k "?" | _ => false end) ||
      Nat.eqb (length items) (length items2) &&
      (fix all (l : list (string * pyval)) : bool :=
         match l with
         | [] => true
         | (k, x) :: t => match dict_find k items2 with Some y => agrees x y && all t | None => false end
         end) items
    | _ => false
    end
  | PList l =>
    match d with
    | PList l2 =>
      (fix all (l : list pyval) (m : list pyval) : bool :=
         match l, m with
         | [], [] => true
         | x :: t, y :: u => agrees x y && all t u
         | _, _ => false
         end) l l2
    | _ => false
    end
  end.

(* ------------------------------------------------------------------ relating translated code to a hand model *)
(* what a hand model says about a Python expression: Some b = evaluates to a value of truth b, None = raises AttributeError *)
Definition lift (r : option bool) : res pyval :=
  match r with Some b => Ok (PBool b) | None => Raise AttributeError end.

Definition tvl (r : res pyval) (h : option bool) : Prop :=
  match h with
  | Some b => exists v, r = Ok v /\ py_truth v = b
  | None => r = Raise AttributeError
  end.

Definition hor (a b : option bool) : option bool :=
  match a with Some true => Some true | Some false => b | None => None end.
Definition hand (a b : option bool) : option bool :=
  match a with Some false => Some false | Some true => b | None => None end.


(* ------------------------------------------------------------------ printing for evaluation shards *)
Definition show_exn (e : exn) : string :=
  match e with
  | AttributeError => "AttributeError" | TypeError => "TypeError" | KeyError => "KeyError"
  | IndexError => "IndexError" | ValueError => "ValueError" | StopIteration => "StopIteration"
  | Unmodelled => "Unmodelled"
  end.
(* the result classes a harness compares: T/F for bools, N for None, !<exception>, ?other *)
Definition show_res (r : res pyval) : string :=
  match r with
  | Ok (PBool true) => "T"
  | Ok (PBool false) => "F"
  | Ok PNone => "N"
  | Ok _ => "?"
  | Raise e => "!" ++ show_exn e
  end.
