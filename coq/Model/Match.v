(* C07 -- instruction-form lookup.  Executable model only (no proofs).

   Python anchors (osaca/semantics/hw_model.py unless stated):
     MachineModel.get_instruction            -> get_instruction / find_first
     MachineModel._match_operands            -> match_operands
     MachineModel._check_operands            -> check_operand          (the {"*": "*"} wildcard first)
     MachineModel._check_AArch64_operands    -> check_a64
     MachineModel._check_x86_operands        -> check_x86              (fall-through to _compare_db_entries = True)
     MachineModel._is_AArch64_reg_type       -> is_a64_reg_type
     MachineModel._is_x86_reg_type           -> is_x86_reg_type        (consider_masking is always False)
     MachineModel._is_AArch64_mem_type       -> is_a64_mem_type
     MachineModel._is_x86_mem_type           -> is_x86_mem_type
     ParserX86ATT.is_vector_register         -> x86_is_vector_register
     arch_semantics.assign_tp_lt / isa_semantics.assign_src_dst (suffix fall-backs) -> lookup_with_suffix

   The branches are transcribed in the order of the Python, `and`/`or` keep their short-circuit
   behaviour, and the one place where the Python raises on values of this vocabulary
   (`reg.name.rstrip` with `reg.name is None`, AttributeError) is an explicit error value
   (`None : res`), not a default. *)
From Coq Require Import String Ascii List Bool Arith ZArith.
From OV Require Import Model.PyString.
Import ListNotations.
Open Scope string_scope.

Inductive isa := X86 | A64.

(* ------------------------------------------------------------------ operands (what the parsers deliver) *)
(* RegisterOperand: the attributes the matcher reads.  `prefix`/`shape` are lower-cased by the
   constructor, the serialiser reads them after construction. *)
Record regop := R {
  r_name : option string;
  r_prefix : option string;
  r_shape : option string;
  r_lanes : option string }.

(* ImmediateOperand.value *)
Inductive immval :=
| IVNone                       (* value is None *)
| IVInt (z : Z)                (* what both parsers produce for integers *)
| IVStr (s : string)           (* x86 displacement that int() rejected; DB text *)
| IVOther.                     (* float / dict (AArch64 float, double immediates) *)

(* MemoryOperand.offset of a parsed operand *)
Inductive offs := ONone | OImm (v : immval) | OIdent.
(* MemoryOperand.post_indexed of a parsed operand: False, True or a dict ({"value": n} / register) *)
Inductive postix := PostFalse | PostTrue | PostDict.

Record memop := M {
  m_base : option regop;
  m_offset : offs;
  m_index : option regop;
  m_scale : Z;
  m_pre : bool;
  m_post : postix }.

Inductive operand :=
| OReg (r : regop)
| OMem (m : memop)
| OImmediate (ty : option string) (v : immval) (has_ident : bool)   (* imd_type, value, identifier is not None *)
| OIdentifier
| OCond (cc : string)
| OPrefetch
| OWild                        (* {"*": "*"} : register wildcard of the load/store composition path *)
| ODict (k : string)           (* any other dict (DB-format operand of the importers), k = canonical text *)
| OOther.                      (* an object of any other class (flag, label/directive tuple ...) *)

(* ------------------------------------------------------------------ entry patterns (what the loader builds) *)
(* base / index of an entry's MemoryOperand: None, a string ("gpr", "x", "*" ...) or a RegisterOperand
   (the loader converts a YAML dict) *)
Inductive mreg := MNone | MStr (s : string) | MReg (r : regop).
(* offset of an entry's MemoryOperand: None, a string ("imd", "id", "*") or an IdentifierOperand
   (entries created in-process from parsed operands) *)
Inductive moff := FNone | FStr (s : string) | FIdent.
Inductive mscale := SNone | SInt (z : Z) | SStr (s : string).
Inductive mflag := GBool (b : bool) | GStr (s : string).

Record mempat := MP {
  mp_base : mreg;
  mp_offset : moff;
  mp_index : mreg;
  mp_scale : mscale;
  mp_pre : mflag;
  mp_post : mflag }.

Inductive pattern :=
| PReg (r : regop)
| PMem (m : mempat)
| PImm (ty : option string)
| PIdent
| PCond (cc : string)
| PPrefetch
| PFlag
| PRaw (k : string).           (* a dict the loader left as it was (unknown class) / DB-format operand *)

Record entry := E { e_name : string; e_pats : list pattern }.

(* ------------------------------------------------------------------ Python value helpers *)
(* None = the Python raises *)
Definition res := option bool.
Definition por (a b : res) : res :=           (* a or b *)
  match a with Some true => Some true | Some false => b | None => None end.
Definition pand (a b : res) : res :=          (* a and b *)
  match a with Some false => Some false | Some true => b | None => None end.
Definition pure (b : bool) : res := Some b.

Definition opt_str_eqb (a b : option string) : bool :=
  match a, b with
  | None, None => true
  | Some x, Some y => String.eqb x y
  | _, _ => false
  end.
Definition opt_is (a : option string) (s : string) : bool := opt_str_eqb a (Some s).
Definition is_none {A} (a : option A) : bool := match a with None => true | Some _ => false end.

(* RegisterOperand.__eq__ on the attributes of this vocabulary *)
Definition regop_eqb (a b : regop) : bool :=
  opt_str_eqb (r_name a) (r_name b) && opt_str_eqb (r_prefix a) (r_prefix b)
  && opt_str_eqb (r_shape a) (r_shape b) && opt_str_eqb (r_lanes a) (r_lanes b).

Definition WILDCARD := "*".

(* str == <entry field> *)
Definition mreg_is (i : mreg) (s : string) : bool := match i with MStr t => String.eqb t s | _ => false end.
Definition moff_is (i : moff) (s : string) : bool := match i with FStr t => String.eqb t s | _ => false end.
(* (register or None) == <entry field> *)
Definition reg_eq_mreg (r : option regop) (i : mreg) : bool :=
  match r, i with
  | None, MNone => true
  | Some a, MReg b => regop_eqb a b
  | _, _ => false
  end.
(* (prefix : str or None) == <entry field> *)
Definition optstr_eq_mreg (p : option string) (i : mreg) : bool :=
  match p, i with
  | None, MNone => true
  | Some a, MStr b => String.eqb a b
  | _, _ => false
  end.

(* ------------------------------------------------------------------ x86 *)
Definition vec_names : list string := ["mm"; "xmm"; "ymm"; "zmm"].
Definition strip_lower (n : string) : string := py_lower (py_rstrip_digits n).

(* ParserX86ATT.is_vector_register *)
Definition x86_is_vector_register (r : regop) : bool :=
  match r_name r with
  | None => false
  | Some n => py_in_list (strip_lower n) vec_names
  end.

(* i_reg_name = i_reg.name if isinstance(i_reg, RegisterOperand) else i_reg *)
Definition mreg_name (i : mreg) : option string :=
  match i with MNone => None | MStr s => Some s | MReg r => r_name r end.

Definition is_x86_reg_type (i_reg : mreg) (reg : option regop) : res :=
  match reg with
  | None => pure (match i_reg with MNone => true | _ => false end)
  | Some r =>
    let iname := mreg_name i_reg in
    if is_none iname && is_none (r_name r) then pure true
    else if opt_is iname WILDCARD || opt_is (r_name r) WILDCARD then pure true
    else if x86_is_vector_register r then
      match r_name r with
      | None => pure false
      | Some n => pure (opt_str_eqb (Some (strip_lower n)) iname)
      end
    else
      match r_name r with
      | None => None                        (* AttributeError: None has no rstrip *)
      | Some n => pure (opt_str_eqb (Some (strip_lower n)) iname || opt_is iname "gpr")
      end
  end.

Definition is_ident (o : offs) : bool := match o with OIdent => true | _ => false end.

(* mem.scale == i.scale or i.scale == "*" or (mem.scale != 1 and i.scale != 1)   -- both ISAs *)
Definition scale_ok (s : Z) (i : mscale) : bool :=
  (match i with SInt z => Z.eqb s z | _ => false end)
  || (match i with SStr t => String.eqb t WILDCARD | _ => false end)
  || (negb (Z.eqb s 1) && match i with SInt z => negb (Z.eqb z 1) | _ => true end).

(* the four offset disjuncts common to both ISAs are written out per ISA, as in the Python *)
Definition is_x86_mem_type (i : mempat) (m : memop) : res :=
  pand
    (* base *)
    (por (pure (is_none (m_base m) && match mp_base i with MNone => true | _ => false end))
    (por (pure (mreg_is (mp_base i) WILDCARD))
         (is_x86_reg_type (mp_base i) (m_base m))))
  (pand
    (* offset *)
    (pure (
       (match m_offset m, mp_offset i with ONone, FNone => true | _, _ => false end)
       || moff_is (mp_offset i) WILDCARD
       || (is_ident (m_offset m) && match mp_offset i with FIdent => true | _ => false end)
       || (match m_offset m with
           | OImm v => moff_is (mp_offset i) "imd"
                       || (match mp_offset i with FNone => true | _ => false end
                           && match v with IVStr s => String.eqb s "0" | _ => false end)
           | _ => false end)
       || (is_ident (m_offset m) && moff_is (mp_offset i) "id")))
  (pand
    (* index *)
    (por (pure (reg_eq_mreg (m_index m) (mp_index i)))
    (por (pure (mreg_is (mp_index i) WILDCARD))
         (match m_index m with
          | None => pure false
          | Some _ => is_x86_reg_type (mp_index i) (m_index m)
          end)))
    (* scale *)
    (pure (scale_ok (m_scale m) (mp_scale i))))).

(* ------------------------------------------------------------------ AArch64 *)
(* reg.shape == i.shape or "*" in (reg.shape + i.shape) ; same for lanes *)
Definition attr_ok (a : string) (ia : option string) : bool :=
  match ia with
  | None => false
  | Some b => String.eqb a b || py_substr WILDCARD (a ++ b)
  end.

Definition is_a64_reg_type (i_reg reg : regop) : bool :=
  if opt_is (r_prefix reg) WILDCARD || opt_is (r_prefix i_reg) WILDCARD then
    match r_shape reg with
    | Some sh => attr_ok sh (r_shape i_reg)
    | None => true
    end
  else if negb (opt_str_eqb (r_prefix reg) (r_prefix i_reg)) then false
  else match r_shape reg with
       | Some sh => attr_ok sh (r_shape i_reg)
       | None =>
         match r_lanes reg with
         | Some ln => attr_ok ln (r_lanes i_reg)
         | None => true
         end
       end.

Definition mflag_is_wild (g : mflag) : bool := match g with GStr s => String.eqb s WILDCARD | _ => false end.
(* truthiness of an entry's post_indexed *)
Definition mflag_truthy (g : mflag) : bool :=
  match g with GBool b => b | GStr s => negb (String.eqb s "") end.

Definition is_a64_mem_type (i : mempat) (m : memop) : bool :=
  (* base *)
  ((is_none (m_base m) && match mp_base i with MNone => true | _ => false end)
   || mreg_is (mp_base i) WILDCARD
   || match m_base m with Some b => optstr_eq_mreg (r_prefix b) (mp_base i) | None => false end)
  (* offset *)
  && ((match m_offset m, mp_offset i with ONone, FNone => true | _, _ => false end)
      || moff_is (mp_offset i) WILDCARD
      || (is_ident (m_offset m) && match mp_offset i with FIdent => true | _ => false end)
      || (match m_offset m with OImm _ => moff_is (mp_offset i) "imd" | _ => false end))
  (* index *)
  && (reg_eq_mreg (m_index m) (mp_index i)
      || mreg_is (mp_index i) WILDCARD
      || match m_index m with
         | Some x => match r_prefix x with
                     | Some p => optstr_eq_mreg (Some p) (mp_index i)
                     | None => false
                     end
         | None => false
         end)
  (* scale *)
  && scale_ok (m_scale m) (mp_scale i)
  (* pre-indexing *)
  && (mflag_is_wild (mp_pre i)
      || match mp_pre i with GBool b => Bool.eqb (m_pre m) b | _ => false end)
  (* post-indexing *)
  && (mflag_is_wild (mp_post i)
      || match mp_post i, m_post m with
         | GBool true, PostTrue => true
         | GBool false, PostFalse => true
         | _, _ => false
         end
      || match m_post m with PostDict => mflag_truthy (mp_post i) | _ => false end).

Definition value_present (v : immval) : bool := match v with IVNone => false | _ => true end.

Definition pimm_ty (p : pattern) : option string :=      (* i_operand.imd_type if it is an immediate *)
  match p with PImm (Some t) => Some t | _ => None end.

Definition check_a64 (p : pattern) (o : operand) : bool :=
  match o with
  | OReg r => match p with PReg ir => is_a64_reg_type ir r | _ => false end
  | OMem m => match p with PMem im => is_a64_mem_type im m | _ => false end
  | _ =>
    let imm_typed (t : string) :=
        match o with
        | OImmediate ty v _ => opt_is ty t && value_present v
        | _ => false
        end in
    if opt_is (pimm_ty p) WILDCARD then
      match o with OImmediate _ v _ => value_present v | _ => false end
    else if opt_is (pimm_ty p) "int" then imm_typed "int"
    else if opt_is (pimm_ty p) "float" then imm_typed "float"
    else if opt_is (pimm_ty p) "double" then imm_typed "double"
    else
      match o with
      | OIdentifier => match p with PIdent => true | _ => false end
      | OImmediate _ _ true => match p with PIdent => true | _ => false end
      | OPrefetch => match p with PPrefetch => true | _ => false end
      | OCond cc => match p with
                    | PCond icc => String.eqb icc WILDCARD || String.eqb icc cc
                    | _ => false
                    end
      | _ => false
      end
  end.

Definition check_x86 (p : pattern) (o : operand) : res :=
  match o with
  | OReg r => match p with PReg ir => is_x86_reg_type (MReg ir) (Some r) | _ => pure false end
  | OMem m => match p with PMem im => is_x86_mem_type im m | _ => pure false end
  | OImmediate _ _ _ => pure (match p with PImm ty => opt_is ty "int" | _ => false end)
  | OIdentifier => pure (match p with PIdent => true | _ => false end)
  | OWild => pure (match p with PRaw k => String.eqb k "{'*': '*'}" | _ => false end)  (* unreachable: handled before *)
  | ODict k => pure (match p with PRaw k' => String.eqb k' k | _ => false end)
  | OCond _ | OPrefetch | OOther => pure true     (* return self._compare_db_entries(...) : `return True` *)
  end.

(* _check_operands *)
Definition check_operand (a : isa) (p : pattern) (o : operand) : res :=
  match o with
  | OWild => pure (match p with PReg _ => true | _ => false end)
  | _ => match a with
         | A64 => pure (check_a64 p o)
         | X86 => check_x86 p o
         end
  end.

(* _match_operands: length test, then `operands_ok = operands_ok and check(...)` over all operands:
   after the first False nothing is evaluated any more *)
Fixpoint match_all (a : isa) (pats : list pattern) (ops : list operand) : res :=
  match pats, ops with
  | [], [] => pure true
  | p :: ps, o :: os =>
    match check_operand a p o with
    | Some true => match_all a ps os
    | Some false => Some false
    | None => None
    end
  | _, _ => pure false
  end.

Definition match_operands (a : isa) (pats : list pattern) (ops : list operand) : res :=
  if Nat.eqb (length ops) (length pats) then match_all a pats ops else pure false.

(* get_instruction: the forms stored under name.upper(), in file order, first match.
   The table is the flat list of entries in file order; e_name is the dictionary key
   (the loader upper-cases it).  The result is the position in that list. *)
Inductive lookup := Found (i : nat) | NotFound | Raised.

Fixpoint find_first (a : isa) (tbl : list entry) (key : string) (ops : list operand) (i : nat) : lookup :=
  match tbl with
  | [] => NotFound
  | e :: t =>
    if String.eqb (e_name e) key then
      match match_operands a (e_pats e) ops with
      | Some true => Found i
      | Some false => find_first a t key ops (S i)
      | None => Raised
      end
    else find_first a t key ops (S i)
  end.

Definition get_instruction (a : isa) (tbl : list entry) (name : option string) (ops : list operand) : lookup :=
  match name with
  | None => NotFound
  | Some n => find_first a tbl (py_upper n) ops 0
  end.

(* ------------------------------------------------------------------ suffix fall-backs *)
Fixpoint last_char (s : string) : option ascii :=
  match s with
  | EmptyString => None
  | String c EmptyString => Some c
  | String _ r => last_char r
  end.

(* s[:s.index(".")] *)
Fixpoint cut_at_dot (s : string) : string :=
  match s with
  | EmptyString => EmptyString
  | String c r => if Ascii.eqb c "."%char then EmptyString else String c (cut_at_dot r)
  end.

Definition GAS_SUFFIXES := "bswlqt".

(* the mnemonic that the second lookup uses, if there is one; inl tt = IndexError on mnemonic[-1] *)
Definition fallback_name (a : isa) (mn : string) : option (option string) :=
  match a with
  | X86 => match last_char mn with
           | None => None
           | Some c => Some (if py_substr (String c "") GAS_SUFFIXES then Some (py_slice_to_m1 mn) else None)
           end
  | A64 => Some (if py_substr "." mn then Some (cut_at_dot mn) else None)
  end.

Definition lookup_with_suffix (a : isa) (tbl : list entry) (mn : string) (ops : list operand) : lookup :=
  match get_instruction a tbl (Some mn) ops with
  | NotFound =>
    match fallback_name a mn with
    | None => Raised
    | Some None => NotFound
    | Some (Some mn') => get_instruction a tbl (Some mn') ops
    end
  | r => r
  end.

(* ------------------------------------------------------------------ printing for the correspondence shards *)
Definition show_lookup (l : lookup) : string :=
  match l with Found i => string_of_nat i | NotFound => "-" | Raised => "!" end.
Definition show_res (r : res) : string :=
  match r with Some true => "T" | Some false => "F" | None => "!" end.

(* case shards: (model's answer, implementation's answer); only disagreements are printed *)
Fixpoint mismatches (i : nat) (l : list (string * string)) : list string :=
  match l with
  | [] => []
  | (a, b) :: t =>
    if String.eqb a b then mismatches (S i) t
    else (string_of_nat i ++ ":" ++ a ++ "/" ++ b) :: mismatches (S i) t
  end.
Definition report (l : list (string * string)) : string :=
  String.concat "," (firstn 20 (mismatches 0 l)) ++ "|" ++ string_of_nat (length (mismatches 0 l))
  ++ "|" ++ string_of_nat (length l).
