(* Python prelude for the translation of osaca.py:get_line_range (tools/gen_c11.py).  No proofs here. *)
From Coq Require Import String Ascii List Bool Arith ZArith.
From OV Require Import Model.Select.
Import ListNotations.
Open Scope string_scope.

(* s.replace(a, b) for one-character a, b *)
Fixpoint py_replace_char (a b : ascii) (s : string) : string :=
  match s with
  | EmptyString => EmptyString
  | String c r => String (if Ascii.eqb c a then b else c) (py_replace_char a b r)
  end.

(* s.split(sep) for a one-character sep: never empty, "".split(",") = [""] *)
Fixpoint py_split_char (sep : ascii) (s : string) : list string :=
  match s with
  | EmptyString => [EmptyString]
  | String c r =>
    match py_split_char sep r with
    | h :: t => if Ascii.eqb c sep then EmptyString :: h :: t else String c h :: t
    | [] => [String c EmptyString]   (* unreachable *)
    end
  end.

(* l[n] for a constant n >= 0 *)
Definition py_index {A} (l : list A) (n : nat) : result A :=
  match nth_error l n with Some x => Ok x | None => Err IndexError end.

(* list(range(a, b)) *)
Definition py_range (a b : Z) : list Z := map (fun k => (a + Z.of_nat k)%Z) (seq 0 (Z.to_nat (b - a))).

(* acc = init; for x in l: acc = body(x, acc) [may raise]; k(acc) *)
Fixpoint py_fold {A S R} (l : list A) (acc : S) (body : A -> S -> result S) (k : S -> result R) : result R :=
  match l with
  | [] => k acc
  | x :: r => bind (body x acc) (fun acc' => py_fold r acc' body k)
  end.
