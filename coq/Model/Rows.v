(* C08 -- which rows of the machine model's load_throughput / store_throughput tables a memory operand gets.

   Python anchors (osaca/semantics/hw_model.py, osaca/semantics/arch_semantics.py):
     MachineModel._match_mem_entries      -> match_mem      (the matcher itself is Model/Match.v: is_x86_mem_type /
                                                             is_a64_mem_type, the functions C07 models and ties)
     MachineModel.get_load_throughput     -> get_load_throughput
     MachineModel.get_store_throughput    -> get_store_throughput   (src_reg = None / a register)
     assign_tp_lt, "if multiple options, choose based on reg type" and `store_perf_data[0][1]`
                                          -> to_ldrows + Costing.choose_load_row / Costing.store_uops,
                                             characterised by load_choice / store_choice
   The tables are the RAW tables of the model: every row is (memory pattern, `dst`/`src` attribute, micro-ops), in
   file order, plus the two defaults.  The result of a selection depends on (isa, table, default, operand, register
   type) and on nothing else: there is no state.  Where the Python can raise (the x86 matcher on a register without a
   name: AttributeError) the result is None, never a default.  No proofs in this file. *)
From Coq Require Import ZArith List Bool String.
From OV Require Import Model.PyString Model.Match.
Import ListNotations.
Open Scope string_scope.

Section Select.
  Context {U : Type}.                  (* the micro-op list of a row; nothing in the selection looks inside *)

  Record row := mkrow {
    rw_pat : mempat;                   (* base / offset / index / scale / pre_indexed / post_indexed of the row *)
    rw_typ : option string;            (* load table: `dst`, store table: `src` (None when the row does not name one) *)
    rw_uops : U }.

  (* _match_mem_entries(mem, i_mem) *)
  Definition match_mem (a : isa) (m : memop) (i : mempat) : res :=
    match a with
    | A64 => pure (is_a64_mem_type i m)
    | X86 => is_x86_mem_type i m
    end.

  (* [x for x in l if f(x)] where f may raise: the comprehension raises as soon as one test raises *)
  Fixpoint filter_opt {A} (f : A -> res) (l : list A) : option (list A) :=
    match l with
    | [] => Some []
    | x :: t =>
      match f x with
      | None => None
      | Some b => match filter_opt f t with
                  | None => None
                  | Some r => Some (if b then x :: r else r)
                  end
      end
    end.

  (* RegisterOperand(name=s) *)
  Definition reg_named (s : string) : regop := R (Some s) None None None.
  (* _check_operands(RegisterOperand(name=reg_type), RegisterOperand(name=typ)) *)
  Definition type_ok (a : isa) (rt typ : string) : res :=
    check_operand a (PReg (reg_named rt)) (OReg (reg_named typ)).
  (* `tp[0].src is not None and self._check_operands(src_reg, RegisterOperand(name=tp[0].src))` (same test on `dst`) *)
  Definition typed_test (a : isa) (rt : string) (r : row) : res :=
    match rw_typ r with None => pure false | Some s => type_ok a rt s end.

  (* the rows of the table whose pattern matches the operand, in table order *)
  Definition shape_rows (a : isa) (tbl : list row) (m : memop) : option (list row) :=
    filter_opt (fun r => match_mem a m (rw_pat r)) tbl.

  (* what a getter hands back per row: (dst/src attribute, micro-ops).  `[(memory, default.copy())]`: the pattern of the
     default row is the operand itself, whose dst/src attribute is None for every operand a parser delivers *)
  Definition view (r : row) : option string * U := (rw_typ r, rw_uops r).
  Definition or_default (d : U) (l : list row) : list (option string * U) :=
    match l with [] => [(None, d)] | _ => map view l end.

  Definition get_load_throughput (a : isa) (tbl : list row) (d : U) (m : memop) : option (list (option string * U)) :=
    option_map (or_default d) (shape_rows a tbl m).

  Definition get_store_throughput (a : isa) (tbl : list row) (d : U) (m : memop) (src_reg : option string)
    : option (list (option string * U)) :=
    match shape_rows a tbl m with
    | None => None
    | Some l =>
      match src_reg with
      | None => Some (or_default d l)
      | Some rt => option_map (or_default d) (filter_opt (typed_test a rt) l)
      end
    end.

  (* ---- the row that assign_tp_lt finally uses, as a function of (table, operand, register type) ---- *)
  Inductive choice := CRow (r : row) | CDefault.
  Definition choice_uops (d : U) (c : choice) : U := match c with CRow r => rw_uops r | CDefault => d end.

  (* load: first shape row that names a matching register type, else the first shape row, else the default *)
  Definition load_choice (a : isa) (tbl : list row) (m : memop) (rt : string) : option choice :=
    match shape_rows a tbl m with
    | None => None
    | Some [] => Some CDefault
    | Some (r0 :: rest) =>
      match filter_opt (typed_test a rt) (r0 :: rest) with
      | None => None
      | Some (t :: _) => Some (CRow t)
      | Some [] => Some (CRow r0)
      end
    end.

  (* store (a source register is always given): first shape row that names a matching register type, else the default *)
  Definition store_choice (a : isa) (tbl : list row) (m : memop) (rt : string) : option choice :=
    match shape_rows a tbl m with
    | None => None
    | Some l =>
      match filter_opt (typed_test a rt) l with
      | None => None
      | Some (t :: _) => Some (CRow t)
      | Some [] => Some CDefault
      end
    end.

  (* ---- a memoising getter (what a cache in front of the selection does), for the history theorems ---- *)
  Section Memo.
    Context {K A : Type} (keq : K -> K -> bool) (key : memop -> K) (sel : memop -> A).
    Fixpoint cache_find (k : K) (c : list (K * A)) : option A :=
      match c with
      | [] => None
      | (k', x) :: t => if keq k k' then Some x else cache_find k t
      end.
    Definition memo_step (c : list (K * A)) (m : memop) : list (K * A) * A :=
      match cache_find (key m) c with
      | Some x => (c, x)
      | None => ((key m, sel m) :: c, sel m)
      end.
    Fixpoint memo_run (c : list (K * A)) (ms : list memop) : list A :=
      match ms with
      | [] => []
      | m :: t => let '(c', x) := memo_step c m in x :: memo_run c' t
      end.
  End Memo.
End Select.

Arguments row : clear implicits.
Arguments choice : clear implicits.

(* the key of the seeded regression C08-2: (str(base), str(index), scale, offset is not None, pre, post) *)
Definition opt_regop_eqb (a b : option regop) : bool :=
  match a, b with None, None => true | Some x, Some y => regop_eqb x y | _, _ => false end.
Definition postix_eqb (a b : postix) : bool :=
  match a, b with PostFalse, PostFalse | PostTrue, PostTrue | PostDict, PostDict => true | _, _ => false end.
Definition coarse_key (m : memop) : option regop * option regop * Z * bool * bool * postix :=
  (m_base m, m_index m, m_scale m, match m_offset m with ONone => false | _ => true end, m_pre m, m_post m).
Definition coarse_keq (a b : option regop * option regop * Z * bool * bool * postix) : bool :=
  let '(b1, i1, s1, o1, p1, q1) := a in
  let '(b2, i2, s2, o2, p2, q2) := b in
  opt_regop_eqb b1 b2 && opt_regop_eqb i1 i2 && Z.eqb s1 s2 && Bool.eqb o1 o2 && Bool.eqb p1 p2 && postix_eqb q1 q2.

(* ------------------------------------------------------------------ glue to Model/Costing.v *)
From OV Require Import Model.Num Model.Pressure Model.Costing.

Definition isa_of (i : Costing.isa) : Match.isa :=
  match i with Costing.X86 => Match.X86 | Costing.A64 => Match.A64 end.

Section Glue.
  Context {T : Type} (N : NumOps T).
  Definition UL := list (@uop T).

  (* the raw tables of a machine model *)
  Record tables := mktables {
    t_ld : list (row UL); t_ld_default : UL;
    t_st : list (row UL); t_st_default : UL }.

  (* the operands assign_tp_lt hands to the getters: the first memory operand of source + src_dst and of
     destination + src_dst (None: there is none -> IndexError, as before) *)
  Record memq := mkmemq { q_ld : option memop; q_st : option memop }.

  (* the register-type test of every returned row never raises (Proofs/Rows.v: type_ok_total) *)
  Definition type_okb (a : Match.isa) (rt typ : string) : bool :=
    match type_ok a rt typ with Some b => b | None => false end.

  Definition to_ldrows (a : Match.isa) (rt : string) (rows : list (option string * UL)) : list (ldrow (T:=T)) :=
    map (fun p => mkldrow (fst p) (match fst p with Some s => type_okb a rt s | None => false end) (snd p)) rows.

  Definition ld_rows_of (a : Match.isa) (tb : tables) (q : memq) (rt : string) : option (list (ldrow (T:=T))) :=
    match q_ld q with
    | None => Some []
    | Some mem => option_map (to_ldrows a rt) (get_load_throughput a (t_ld tb) (t_ld_default tb) mem)
    end.

  Definition st_rows_of (a : Match.isa) (tb : tables) (q : memq) (rt : string) : option (list UL) :=
    match q_st q with
    | None => Some []
    | Some mem => option_map (map snd) (get_store_throughput a (t_st tb) (t_st_default tb) mem (Some rt))
    end.

  (* the look-up record with the two row lists COMPUTED (only fetched when the flag is set, as in the code) *)
  Definition fill_rows (m : mach (T:=T)) (tb : tables) (q : memq) (rt : string) (lk : lookup (T:=T))
    : option (lookup (T:=T)) :=
    match (if lk_has_ld lk then ld_rows_of (isa_of (m_isa m)) tb q rt else Some []) with
    | None => None
    | Some ld =>
      match (if lk_has_st lk then st_rows_of (isa_of (m_isa m)) tb q rt else Some []) with
      | None => None
      | Some st =>
        Some (mklookup (lk_has_ld lk) (lk_has_st lk) (lk_suffix lk) (lk_direct lk) (lk_direct_s lk) (lk_reg lk)
                       (lk_reg_s lk) ld st (lk_dest_has_mem lk) (lk_srcdst_wb lk))
      end
    end.

  (* assign_tp_lt with the row selection inside.  lk_ld_rows / lk_st_rows of the argument are ignored.
     None = the matcher raised (outside the operands a parser delivers: Proofs/Rows.v, rows_total). *)
  Definition cost_instr_rows (m : mach (T:=T)) (tb : tables) (q : memq) (lk : lookup (T:=T)) : option (res (cost (T:=T))) :=
    match with_fallback (lk_suffix lk) (lk_direct lk) (lk_direct_s lk) with
    | Some e => Some (found N m lk e)
    | None =>
      match regform lk with
      | Some (e, Ok rt) => option_map (fun lk' => compose N m lk' e (Ok rt)) (fill_rows m tb q rt lk)
      | Some (e, Err x) => Some (Err x)
      | None => Some (Ok (unknown N m lk))
      end
    end.

  Inductive rline := RNoInstr | RInstr (lk : lookup (T:=T)) (q : memq).

  Definition cost_line_rows (m : mach (T:=T)) (tb : tables) (l : rline) : option (res (cost (T:=T))) :=
    match l with
    | RNoInstr => Some (cost_line N m LNoInstr)
    | RInstr lk q => cost_instr_rows m tb q lk
    end.

  Definition cost_kernel_rows (m : mach (T:=T)) (tb : tables) (k : list rline) : list (option (res (cost (T:=T)))) :=
    map (cost_line_rows m tb) k.
End Glue.

Arguments mktables {T}. Arguments mkmemq. Arguments RNoInstr {T}. Arguments RInstr {T}.
