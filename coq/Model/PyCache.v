(* C17 -- prelude of the translator tie (tools/gen_c17.py): the Python constructs and the library API the cache protocol
   of osaca/semantics/hw_model.py uses, interpreted over the abstract world of Model/Cache.v.

   The translator turns MachineModel.__init__ / _get_cached / _write_in_cache / _write_cachefile into terms of the free
   monad `M` below: a tree whose nodes are *world operations* (`op`: the calls into pathlib / open / pickle / hashlib /
   os / ruamel.yaml / utils.find_datafile and the accesses of the class attribute MachineModel._runtime_cache) and whose
   leaves are a Python value or a raised exception.  Nothing about the file system, pickle, the hash or the YAML parser
   is in the generated text: they are the interpretation `do_op` of the operations over

       gs_yaml  : path -> content          the model files                         (Model/Cache.v `yaml`)
       gs_files : loc -> option bytes      the cache files, chunk lists            (Model/Cache.v `files`)
       gs_rt    : the process' MachineModel._runtime_cache,   gs_pid : os.getpid()
       genv     : chunks per pickle, loader code identity, os.access / os.makedirs answers, the exception class
                  pickle.load raises on a garbage file, utils.find_datafile

   What is abstract (same as Model/Cache.v): sha256 is the identity on contents (injective); a file name is a list of
   atoms (string literals, the stem of a model file, a hex digest, a decimal number) -- stems, digests and numbers
   contain no '.'; pickle.load succeeds exactly on the complete pickle of one data (`decode`), raises EOFError on an
   empty file, UnpicklingError on a proper prefix and an arbitrary Exception subclass (ge_garbage) on anything else.
   Python values are dynamically typed (`val`); an operation the prelude does not know, or a value of the wrong kind,
   raises `EModel` which no `except` clause catches: the equalities of PropsGen/C17gen.v then fail (fail closed).

   No proofs in this file. *)
From Coq Require Import List Arith Bool String Ascii.
From OV Require Import Model.Cache.
Import ListNotations.
Open Scope string_scope. Open Scope nat_scope.

(* ------------------------------------------------------------------ symbolic strings and paths *)
Inductive atom := ALit (s : string) | AStem (n : nat) | AHash (h : content) | AInt (n : nat).
Definition name := list atom.
Inductive pdir := DData (d : nat) | DCache.
Record pypath := mkPP { pp_dir : pdir; pp_name : name }.

Definition atom_eqb (a b : atom) : bool :=
  match a, b with
  | ALit s, ALit t => String.eqb s t
  | AStem n, AStem m => n =? m
  | AHash n, AHash m => n =? m
  | AInt n, AInt m => n =? m
  | _, _ => false
  end.
Fixpoint name_eqb (a b : name) : bool :=
  match a, b with
  | [], [] => true
  | x :: r, y :: r' => atom_eqb x y && name_eqb r r'
  | _, _ => false
  end.
Definition pdir_eqb (a b : pdir) : bool :=
  match a, b with DData d, DData d' => d =? d' | DCache, DCache => true | _, _ => false end.
Definition pp_eqb (a b : pypath) : bool := pdir_eqb (pp_dir a) (pp_dir b) && name_eqb (pp_name a) (pp_name b).

(* canonical form of a name: adjacent literals merged, empty literals dropped *)
Fixpoint norm (n : name) : name :=
  match n with
  | [] => []
  | ALit s :: r =>
      match norm r with
      | ALit t :: r' => ALit (s ++ t) :: r'
      | r' => if String.eqb s "" then r' else ALit s :: r'
      end
  | a :: r => a :: norm r
  end.

Fixpoint has_dot (s : string) : bool :=
  match s with EmptyString => false | String c r => if Ascii.eqb c "."%char then true else has_dot r end.
Definition str_tail (s : string) : string := match s with EmptyString => EmptyString | String _ r => r end.
Definition starts_with_dot (s : string) : bool :=
  match s with String c _ => Ascii.eqb c "."%char | _ => false end.
Definition atom_has_dot (a : atom) : bool := match a with ALit s => has_dot s | _ => false end.
(* pathlib: the suffix starts at the last '.' that is not the first character of the name *)
Definition name_has_suffix (n : name) : bool :=
  match norm n with
  | [] => false
  | ALit s :: r => has_dot (str_tail s) || existsb atom_has_dot r
  | _ :: r => existsb atom_has_dot r
  end.
(* split off a final literal ".xyz" (a suffix) when that is the only inner dot *)
Definition split_suffix (n : name) : option (name * string) :=
  match rev (norm n) with
  | ALit s :: r => if starts_with_dot s && negb (has_dot (str_tail s)) && negb (name_has_suffix (rev r)) && negb (match r with [] => true | _ => false end)
                   then Some (rev r, s) else None
  | _ => None
  end.

(* the model file of Model/Cache.v path (dir, stem) is <dir>/<stem>.yml *)
Definition pp_of_path (pa : path) : pypath := mkPP (DData (p_dir pa)) [AStem (p_stem pa); ALit ".yml"].
Definition path_of_pp (p : pypath) : option path :=
  match pp_dir p, norm (pp_name p) with
  | DData d, [AStem s; ALit ".yml"] => Some (mkPath d s)
  | _, _ => None
  end.
(* the cache locations of Model/Cache.v *)
Definition loc_of (p : pypath) : option loc :=
  match pp_dir p, norm (pp_name p) with
  | DData d, [ALit "."; AStem s; ALit "_"; AHash h; ALit ".pickle"] => Some (Comp d s h)
  | DCache, [AStem s; ALit "_"; AHash h; ALit ".pickle"] => Some (Home s h)
  | DData _, [ALit "."; AStem _; ALit "_"; AHash _; ALit ".pickle."; AInt pid; ALit ".tmp"] => Some (Tmp pid)
  | DCache, [AStem _; ALit "_"; AHash _; ALit ".pickle."; AInt pid; ALit ".tmp"] => Some (Tmp pid)
  | _, _ => None
  end.

(* ------------------------------------------------------------------ values, exceptions *)
Inductive handle := HRead (b : bytes) | HWrite (p : pypath) | HText (c : content).

Inductive val :=
| VNone | VBool (b : bool) | VInt (n : nat)
| VStr (n : name)                   (* str *)
| VPath (p : pypath)                (* a str or pathlib.Path that denotes a file-system path *)
| VBytes (c : content)              (* the bytes of a model file *)
| VHashObj (c : content)            (* hashlib.sha256(<bytes>) *)
| VData (d : data)                  (* the dict MachineModel._data; d_iv d = 0: no "internal_version" key, S v: value v *)
| VHeader (c : content)             (* the text of a model file up to "instruction_forms:" *)
| VLazy (c : content)               (* the header-only dict of the lazy load *)
| VFile (h : handle)
| VTuple (l : list val)
| VObj (flds : list (string * val)) (* self *)
| VYaml                             (* ruamel.yaml.YAML() *)
| VWOK                              (* os.W_OK *)
| VUnbound.

Inductive exncls :=
| CBaseException | CException | COSError | CFileNotFoundError | CPermissionError | CEOFError
| CPickleError | CUnpicklingError | CPicklingError | CValueError | CTypeError | CKeyError | CIndexError | CLookupError
| CAttributeError | CImportError | CModuleNotFoundError | CMemoryError | CRuntimeError | CRecursionError
| CUnicodeDecodeError | CNameError | CUnboundLocalError | CKeyboardInterrupt | CSystemExit.

Definition cls_parent (c : exncls) : option exncls :=
  match c with
  | CBaseException => None
  | CException | CKeyboardInterrupt | CSystemExit => Some CBaseException
  | CFileNotFoundError | CPermissionError => Some COSError
  | CUnpicklingError | CPicklingError => Some CPickleError
  | CKeyError | CIndexError => Some CLookupError
  | CModuleNotFoundError => Some CImportError
  | CRecursionError => Some CRuntimeError
  | CUnicodeDecodeError => Some CValueError
  | CUnboundLocalError => Some CNameError
  | _ => Some CException
  end.
Definition cls_eqb (a b : exncls) : bool :=
  match a, b with
  | CBaseException, CBaseException | CException, CException | COSError, COSError | CFileNotFoundError, CFileNotFoundError
  | CPermissionError, CPermissionError | CEOFError, CEOFError | CPickleError, CPickleError
  | CUnpicklingError, CUnpicklingError | CPicklingError, CPicklingError | CValueError, CValueError | CTypeError, CTypeError
  | CKeyError, CKeyError | CIndexError, CIndexError | CLookupError, CLookupError | CAttributeError, CAttributeError
  | CImportError, CImportError | CModuleNotFoundError, CModuleNotFoundError | CMemoryError, CMemoryError
  | CRuntimeError, CRuntimeError | CRecursionError, CRecursionError | CUnicodeDecodeError, CUnicodeDecodeError
  | CNameError, CNameError | CUnboundLocalError, CUnboundLocalError | CKeyboardInterrupt, CKeyboardInterrupt
  | CSystemExit, CSystemExit => true
  | _, _ => false
  end.
Fixpoint subclass_fuel (f : nat) (c of : exncls) : bool :=
  cls_eqb c of ||
  match f with O => false | S f' => match cls_parent c with Some p => subclass_fuel f' p of | None => false end end.
Definition subclass (c of : exncls) : bool := subclass_fuel 4 c of.

Inductive exn :=
| EPy (c : exncls)                 (* a Python exception of class c *)
| EModel (why : string)            (* outside the modelled subset; never caught *)
| XRet (v : val)                   (* `return v` on its way to the function boundary *)
| XCont | XBreak.                  (* `continue` / `break` on their way to the loop *)

(* ------------------------------------------------------------------ world operations and the program monad *)
Inductive op :=
| OReadBytes (p : pypath)           (* Path(p).read_bytes() of a model file *)
| OOpenText (p : pypath)            (* open(p, "r") of a model file *)
| OExists (p : pypath)              (* Path.exists() *)
| OOpenRb (p : pypath)              (* Path.open("rb") *)
| OOpenWb (p : pypath)              (* Path.open("wb"): create / truncate *)
| ODump (d : data) (p : pypath)     (* pickle.dump(d, f): ge_nch chunk writes *)
| OClose (h : handle)               (* f.__exit__ *)
| OReplace (src dst : pypath)       (* os.replace *)
| OUnlink (p : pypath)              (* Path.unlink() *)
| OAccessW (p : pypath)             (* os.access(dir, os.W_OK) *)
| OMakedirs (p : pypath)            (* os.makedirs(dir, exist_ok=True) *)
| OGetPid                           (* os.getpid() *)
| OFind (n : name)                  (* utils.find_datafile(n) *)
| OYamlNew                          (* self._create_yaml_object() *)
| OYamlLoad (v : val)               (* yaml.load(bytes | header text) *)
| OPickleLoad (b : bytes)           (* pickle.load(f) on the bytes the open file holds *)
| ORtHas (p : pypath)               (* p in MachineModel._runtime_cache *)
| ORtGet (p : pypath)               (* MachineModel._runtime_cache[p] *)
| ORtSet (p : pypath) (v : val).    (* MachineModel._runtime_cache[p] = v *)

Inductive ores := ROk (v : val) | RErr (e : exn).

Inductive M := Ret (v : val) | Raise (e : exn) | Op (o : op) (k : ores -> M).

Definition perform (o : op) : M := Op o (fun r => match r with ROk v => Ret v | RErr e => Raise e end).

Fixpoint bind (m : M) (f : val -> M) : M :=
  match m with
  | Ret v => f v
  | Raise e => Raise e
  | Op o k => Op o (fun r => bind (k r) f)
  end.
Notation "x <- m ;; f" := (bind m (fun x => f)) (at level 61, m at next level, right associativity).
Notation "m ;;; f" := (bind m (fun _ => f)) (at level 61, right associativity).

(* handlers see Python exceptions only; return / continue / break and model-boundary errors pass through *)
Fixpoint catch (m : M) (h : exncls -> option M) : M :=
  match m with
  | Ret v => Ret v
  | Raise (EPy c) => match h c with Some m' => m' | None => Raise (EPy c) end
  | Raise e => Raise e
  | Op o k => Op o (fun r => catch (k r) h)
  end.
(* try: m finally: c   (c runs on every exit; an exception of c replaces the pending one) *)
Fixpoint finally (m : M) (c : M) : M :=
  match m with
  | Ret v => c ;;; Ret v
  | Raise e => c ;;; Raise e
  | Op o k => Op o (fun r => finally (k r) c)
  end.
(* a call: `return v` of the callee becomes the value, falling off the end is None *)
Fixpoint py_call (m : M) : M :=
  match m with
  | Ret _ => Ret VNone
  | Raise (XRet v) => Ret v
  | Raise XCont | Raise XBreak => Raise (EModel "continue/break outside a loop")
  | Raise e => Raise e
  | Op o k => Op o (fun r => py_call (k r))
  end.
(* one loop iteration: Ret (VBool true) = go on with the next element, Ret (VBool false) = break *)
Fixpoint py_iter (m : M) : M :=
  match m with
  | Ret _ => Ret (VBool true)
  | Raise XCont => Ret (VBool true)
  | Raise XBreak => Ret (VBool false)
  | Raise e => Raise e
  | Op o k => Op o (fun r => py_iter (k r))
  end.
(* for x in l: body x     (no loop-carried variables: the translator rejects loops that need them) *)
Fixpoint py_for (l : list val) (body : val -> M) : M :=
  match l with
  | [] => Ret VNone
  | x :: r => bind (py_iter (body x)) (fun go => match go with VBool true => py_for r body | _ => Ret VNone end)
  end.
Definition py_iterable (v : val) : M :=
  match v with VTuple l => Ret (VTuple l) | _ => Raise (EModel "iteration over a non-tuple") end.
Definition py_for_in (v : val) (body : val -> M) : M :=
  match v with VTuple l => py_for l body | _ => Raise (EModel "iteration over a non-tuple") end.

(* with <ctx> as f: body *)
Definition py_with (ctx : M) (body : val -> M) : M :=
  f <- ctx ;;
  match f with
  | VFile h => finally (body f) (perform (OClose h))
  | _ => Raise (EModel "with: not a file object")
  end.

(* ------------------------------------------------------------------ pure Python operations on values *)
Definition py_truth (v : val) : M :=
  match v with
  | VNone => Ret (VBool false)
  | VBool b => Ret (VBool b)
  | VInt n => Ret (VBool (negb (n =? 0)))
  | VStr n => Ret (VBool (match norm n with [] => false | _ => true end))
  | VPath _ => Ret (VBool true)                (* a path string is never empty *)
  | VData _ | VLazy _ => Ret (VBool true)      (* the model dict is never empty *)
  | VTuple l => Ret (VBool (match l with [] => false | _ => true end))
  | VObj _ | VYaml | VFile _ | VHashObj _ => Ret (VBool true)
  | VUnbound => Raise (EPy CUnboundLocalError)
  | _ => Raise (EModel "truth value of this kind of value")
  end.
Definition truth_of (v : val) (t e : M) : M :=
  b <- py_truth v ;; match b with VBool true => t | _ => e end.
Definition py_not (v : val) : M := b <- py_truth v ;; match b with VBool x => Ret (VBool (negb x)) | _ => Ret VNone end.

Definition py_is_none (v : val) : M :=
  match v with VNone => Ret (VBool true) | VUnbound => Raise (EPy CUnboundLocalError) | _ => Ret (VBool false) end.

Definition py_eq (a b : val) : M :=
  match a, b with
  | VUnbound, _ | _, VUnbound => Raise (EPy CUnboundLocalError)
  | VNone, VNone => Ret (VBool true)
  | VInt n, VInt m => Ret (VBool (n =? m))
  | VBool x, VBool y => Ret (VBool (Bool.eqb x y))
  | VStr x, VStr y => Ret (VBool (name_eqb (norm x) (norm y)))
  | VPath x, VPath y => Ret (VBool (pp_eqb x y))
  | VNone, (VInt _ | VBool _ | VStr _ | VPath _) | (VInt _ | VBool _ | VStr _ | VPath _), VNone => Ret (VBool false)
  | VInt _, (VStr _ | VPath _) | (VStr _ | VPath _), VInt _ => Ret (VBool false)
  | _, _ => Raise (EModel "== on these kinds of values")
  end.
Definition py_ne (a b : val) : M := r <- py_eq a b ;; py_not r.

Definition py_add (a b : val) : M :=
  match a, b with
  | VStr x, VStr y => Ret (VStr (x ++ y)%list)
  | VUnbound, _ | _, VUnbound => Raise (EPy CUnboundLocalError)
  | VStr _, (VNone | VInt _ | VBool _) | (VNone | VInt _ | VBool _), VStr _ => Raise (EPy CTypeError)
  | _, _ => Raise (EModel "+ on these kinds of values")
  end.
(* "a{}b{}c".format(x, y), "%s" % x, f-strings: literal pieces and converted arguments, in order *)
Definition py_str_of (v : val) : M :=
  match v with
  | VStr n => Ret (VStr n)
  | VInt n => Ret (VStr [AInt n])
  | VPath p => Ret (VPath p)
  | VUnbound => Raise (EPy CUnboundLocalError)
  | _ => Raise (EModel "str() of this kind of value")
  end.
Fixpoint py_concat (l : list val) : M :=
  match l with
  | [] => Ret (VStr [])
  | VStr x :: r => t <- py_concat r ;; match t with VStr y => Ret (VStr (x ++ y)%list) | _ => Raise (EModel "concat") end
  | VInt n :: r => t <- py_concat r ;; match t with VStr y => Ret (VStr (AInt n :: y)) | _ => Raise (EModel "concat") end
  | _ => Raise (EModel "string formatting of this kind of value")
  end.

Definition py_truediv (a b : val) : M :=
  match a, b with
  | VPath p, VStr n => match pp_name p with [] => Ret (VPath (mkPP (pp_dir p) n))
                       | _ => Raise (EModel "path / name below a file") end
  | VUnbound, _ | _, VUnbound => Raise (EPy CUnboundLocalError)
  | _, _ => Raise (EModel "/ on these kinds of values")
  end.

Fixpoint assoc (l : list (string * val)) (k : string) : option val :=
  match l with [] => None | (k', v) :: r => if String.eqb k k' then Some v else assoc r k end.
Fixpoint assoc_set (l : list (string * val)) (k : string) (v : val) : list (string * val) :=
  match l with
  | [] => [(k, v)]
  | (k', v') :: r => if String.eqb k k' then (k, v) :: r else (k', v') :: assoc_set r k v
  end.

(* attribute read *)
Definition py_getattr (v : val) (a : string) : M :=
  match v with
  | VObj f => match assoc f a with Some x => Ret x | None => Raise (EPy CAttributeError) end
  | VPath p =>
      if String.eqb a "stem" then
        (if name_has_suffix (pp_name p)
         then match split_suffix (pp_name p) with Some (n, _) => Ret (VStr n) | None => Raise (EModel "stem of a name with several dots") end
         else Ret (VStr (pp_name p)))
      else if String.eqb a "name" then Ret (VStr (pp_name p))
      else if String.eqb a "parent" then
        (match pp_name p with [] => Raise (EModel "parent of a directory") | _ => Ret (VPath (mkPP (pp_dir p) [])) end)
      else Raise (EModel ("attribute of a path: " ++ a))
  | VUnbound => Raise (EPy CUnboundLocalError)
  | VNone => Raise (EPy CAttributeError)
  | _ => Raise (EModel ("attribute " ++ a))
  end.
(* self.<a> = x   (value semantics: the translator rebinds `self`) *)
Definition py_setattr (v : val) (a : string) (x : val) : M :=
  match v with
  | VObj f => Ret (VObj (assoc_set f a x))
  | _ => Raise (EModel "attribute assignment on a non-object")
  end.
(* d[k] = x on the model dict: only the version stamp is visible in the abstraction *)
Definition py_setitem (d : val) (k : val) (x : val) : M :=
  match d, k, x with
  | VData d, VStr [ALit "internal_version"], VInt v => Ret (VData (mkData (S v) (d_code d) (d_src d)))
  | VLazy c, VStr [ALit "internal_version"], VInt _ => Ret (VLazy c)
  | VUnbound, _, _ | _, VUnbound, _ | _, _, VUnbound => Raise (EPy CUnboundLocalError)
  | VNone, _, _ => Raise (EPy CTypeError)
  | _, _, _ => Raise (EModel "item assignment")
  end.

Definition py_isinstance_dict (v : val) : M :=
  match v with
  | VData _ | VLazy _ => Ret (VBool true)
  | VUnbound => Raise (EPy CUnboundLocalError)
  | _ => Ret (VBool false)
  end.

(* method calls without effect on the world *)
Definition py_method_pure (v : val) (m : string) (args : list val) : option M :=
  match v, args with
  | VPath p, [VStr n] =>
      if String.eqb m "with_name" then
        Some (match pp_name p with [] => Raise (EPy CValueError) | _ => Ret (VPath (mkPP (pp_dir p) n)) end)
      else if String.eqb m "with_suffix" then
        Some (match pp_name p with
              | [] => Raise (EPy CValueError)
              | _ => if name_has_suffix (pp_name p)
                     then match split_suffix (pp_name p) with
                          | Some (b, _) => Ret (VPath (mkPP (pp_dir p) (b ++ n)%list))
                          | None => Raise (EModel "with_suffix on a name with several dots")
                          end
                     else Ret (VPath (mkPP (pp_dir p) (pp_name p ++ n)%list))
              end)
      else None
  | VHashObj c, [] => if String.eqb m "hexdigest" then Some (Ret (VStr [AHash c])) else None
  | VData d, [VStr [ALit "internal_version"]] =>
      if String.eqb m "get" then Some (Ret (match d_iv d with O => VNone | S v => VInt v end)) else None
  | VLazy _, [VStr [ALit "internal_version"]] => if String.eqb m "get" then Some (Ret VNone) else None
  | VStr n, [] => if String.eqb m "lower" then Some (Ret (VStr n)) else None     (* architecture names are lower case in the model *)
  | _, _ => None
  end.

(* ------------------------------------------------------------------ interpretation of the operations *)
Record genv := mkGenv { ge_nch : nat; ge_code : nat; ge_dirw : nat -> bool; ge_mkdirs : bool; ge_homew : bool;
                        ge_garbage : bytes -> exncls; ge_find : name -> option path }.
Record gst := mkGst { gs_yaml : path -> content; gs_files : loc -> option bytes; gs_rt : list (pypath * val); gs_pid : nat }.

Definition with_files (s : gst) (f : loc -> option bytes) : gst := mkGst (gs_yaml s) f (gs_rt s) (gs_pid s).

Fixpoint dump_chunks (n i : nat) (d : data) (b : bytes) : bytes :=
  match n with O => b | S m => dump_chunks m (S i) d (put i (Some d) b) end.

Fixpoint is_prefix_of (d : data) (b : bytes) : bool :=
  match b with [] => true | x :: r => chunk_is d x && is_prefix_of d r end.
(* what pickle.load does with the bytes of a file *)
Definition pickle_load (E : genv) (b : bytes) : ores :=
  match decode (ge_nch E) b with
  | Some d => ROk (VData d)
  | None =>
      match b with
      | [] => RErr (EPy CEOFError)                                         (* "Ran out of input" *)
      | Some d :: _ => if is_prefix_of d b && (List.length b <? ge_nch E) then RErr (EPy CUnpicklingError)   (* "pickle data was truncated" *)
                       else RErr (EPy (ge_garbage E b))
      | None :: _ => RErr (EPy (ge_garbage E b))
      end
  end.

Fixpoint rt_get (l : list (pypath * val)) (p : pypath) : option val :=
  match l with [] => None | (q, v) :: r => if pp_eqb p q then Some v else rt_get r p end.

Definition unknown_file : ores := RErr (EModel "a file name the model does not know").

Definition do_op (E : genv) (o : op) (s : gst) : ores * gst :=
  match o with
  | OReadBytes p => match path_of_pp p with Some pa => (ROk (VBytes (gs_yaml s pa)), s) | None => (unknown_file, s) end
  | OOpenText p => match path_of_pp p with Some pa => (ROk (VFile (HText (gs_yaml s pa))), s) | None => (unknown_file, s) end
  | OExists p => match loc_of p with
                 | Some l => (ROk (VBool (match gs_files s l with Some _ => true | None => false end)), s)
                 | None => (unknown_file, s)
                 end
  | OOpenRb p => match loc_of p with
                 | Some l => match gs_files s l with
                             | Some b => (ROk (VFile (HRead b)), s)
                             | None => (RErr (EPy CFileNotFoundError), s)
                             end
                 | None => (unknown_file, s)
                 end
  | OOpenWb p => match loc_of p with
                 | Some l => (ROk (VFile (HWrite p)), with_files s (updf (gs_files s) l (Some [])))
                 | None => (unknown_file, s)
                 end
  | ODump d p => match loc_of p with
                 | Some l => (ROk VNone, with_files s (updf (gs_files s) l
                                 (Some (dump_chunks (ge_nch E) 0 d (match gs_files s l with Some b => b | None => [] end)))))
                 | None => (unknown_file, s)
                 end
  | OClose _ => (ROk VNone, s)
  | OReplace src dst =>
      match loc_of src, loc_of dst with
      | Some ls, Some ld =>
          if pdir_eqb (pp_dir src) (pp_dir dst) then
            match gs_files s ls with
            | Some b => (ROk VNone, with_files s (updf (updf (gs_files s) ld (Some b)) ls None))
            | None => (RErr (EPy CFileNotFoundError), s)
            end
          else (RErr (EPy COSError), s)            (* another directory may be another file system *)
      | _, _ => (unknown_file, s)
      end
  | OUnlink p => match loc_of p with
                 | Some l => match gs_files s l with
                             | Some _ => (ROk VNone, with_files s (updf (gs_files s) l None))
                             | None => (RErr (EPy CFileNotFoundError), s)
                             end
                 | None => (unknown_file, s)
                 end
  | OAccessW p => match pp_dir p, pp_name p with
                  | DData d, [] => (ROk (VBool (ge_dirw E d)), s)
                  | DCache, [] => (ROk (VBool (ge_homew E)), s)
                  | _, _ => (RErr (EModel "os.access on a file"), s)
                  end
  | OMakedirs p => match pp_dir p, pp_name p with
                   | DCache, [] => if ge_mkdirs E then (ROk VNone, s) else (RErr (EPy CPermissionError), s)
                   | _, _ => (RErr (EModel "os.makedirs of another directory"), s)
                   end
  | OGetPid => (ROk (VInt (gs_pid s)), s)
  | OFind n => match ge_find E n with
               | Some pa => (ROk (VPath (pp_of_path pa)), s)
               | None => (RErr (EPy CFileNotFoundError), s)
               end
  | OYamlNew => (ROk VYaml, s)
  | OYamlLoad v => match v with
                   | VBytes c => (ROk (VData (mkData 0 (ge_code E) c)), s)
                   | VHeader c => (ROk (VLazy c), s)
                   | _ => (RErr (EModel "yaml.load of this kind of value"), s)
                   end
  | OPickleLoad b => (pickle_load E b, s)
  | ORtHas p => (ROk (VBool (match rt_get (gs_rt s) p with Some _ => true | None => false end)), s)
  | ORtGet p => match rt_get (gs_rt s) p with Some v => (ROk v, s) | None => (RErr (EPy CKeyError), s) end
  | ORtSet p v => (ROk VNone, mkGst (gs_yaml s) (gs_files s) ((p, v) :: gs_rt s) (gs_pid s))
  end.

(* run to completion *)
Fixpoint exec (E : genv) (m : M) (s : gst) : ores * gst :=
  match m with
  | Ret v => (ROk v, s)
  | Raise e => (RErr e, s)
  | Op o k => let '(r, s') := do_op E o s in exec E (k r) s'
  end.

(* the process is killed when it has written kc chunks of a pickle (no handler, no finally clause runs) *)
Inductive gres := GRes (r : ores) | GKilled.
Fixpoint exec_crash (E : genv) (kc : nat) (m : M) (s : gst) : gres * gst :=
  match m with
  | Ret v => (GRes (ROk v), s)
  | Raise e => (GRes (RErr e), s)
  | Op (ODump d p) k =>
      match loc_of p with
      | Some l => (GKilled, with_files s (updf (gs_files s) l
                     (Some (dump_chunks (Nat.min kc (ge_nch E)) 0 d (match gs_files s l with Some b => b | None => [] end)))))
      | None => let '(r, s') := do_op E (ODump d p) s in exec_crash E kc (k r) s'
      end
  | Op o k => let '(r, s') := do_op E o s in exec_crash E kc (k r) s'
  end.

(* one world operation at a time (the interleaving semantics): None = the program has terminated *)
Definition gstep (E : genv) (m : M) (s : gst) : option (M * gst) :=
  match m with
  | Op o k => let '(r, s') := do_op E o s in Some (k r, s')
  | _ => None
  end.

(* ------------------------------------------------------------------ library calls (names resolved by the translator) *)
Definition as_path (v : val) (k : pypath -> M) : M :=
  match v with
  | VPath p => k p
  | VUnbound => Raise (EPy CUnboundLocalError)
  | VNone => Raise (EPy CTypeError)
  | _ => Raise (EModel "a path was expected")
  end.

Definition lib_Path (args : list val) : M :=
  match args with [v] => as_path v (fun p => Ret (VPath p)) | _ => Raise (EModel "Path(...) with these arguments") end.
Definition lib_str (args : list val) : M :=
  match args with [v] => py_str_of v | _ => Raise (EModel "str(...) with these arguments") end.
Definition lib_sha256 (args : list val) : M :=
  match args with
  | [VBytes c] => Ret (VHashObj c)
  | [VUnbound] => Raise (EPy CUnboundLocalError)
  | [VNone] | [VStr _] | [VPath _] | [VInt _] => Raise (EPy CTypeError)
  | _ => Raise (EModel "hashlib.sha256(...) with these arguments")
  end.
Definition lib_pickle_load (args : list val) : M :=
  match args with
  | [VFile (HRead b)] => perform (OPickleLoad b)
  | [VUnbound] => Raise (EPy CUnboundLocalError)
  | _ => Raise (EModel "pickle.load(...) with these arguments")
  end.
Definition lib_pickle_dump (args : list val) : M :=
  match args with
  | [VData d; VFile (HWrite p)] => perform (ODump d p)
  | [VUnbound; _] | [_; VUnbound] => Raise (EPy CUnboundLocalError)
  | _ => Raise (EModel "pickle.dump(...) with these arguments")
  end.
Definition lib_os_access (args : list val) : M :=
  match args with
  | [v; VWOK] => as_path v (fun p => perform (OAccessW p))
  | _ => Raise (EModel "os.access(...) with these arguments")
  end.
(* os.makedirs(d, exist_ok=True) *)
Definition lib_os_makedirs (args : list val) : M :=
  match args with [v] => as_path v (fun p => perform (OMakedirs p)) | _ => Raise (EModel "os.makedirs(...) with these arguments") end.
Definition lib_os_replace (args : list val) : M :=
  match args with
  | [a; b] => as_path a (fun p => as_path b (fun q => perform (OReplace p q)))
  | _ => Raise (EModel "os.replace(...) with these arguments")
  end.
Definition lib_os_getpid (args : list val) : M :=
  match args with [] => perform OGetPid | _ => Raise (EPy CTypeError) end.
Definition lib_find_datafile (args : list val) : M :=
  match args with
  | [VStr n] => perform (OFind n)
  | [VUnbound] => Raise (EPy CUnboundLocalError)
  | _ => Raise (EModel "utils.find_datafile(...) with these arguments")
  end.
Definition lib_CACHE_DIR : val := VPath (mkPP DCache []).
Definition lib_W_OK : val := VWOK.
(* open(p, "r") *)
Definition lib_open (args : list val) : M :=
  match args with
  | [v; VStr [ALit "r"]] | [v; VStr [ALit "rt"]] => as_path v (fun p => perform (OOpenText p))
  | [v] => as_path v (fun p => perform (OOpenText p))
  | _ => Raise (EModel "open(...) with these arguments")
  end.
Definition lib_rt_has (args : list val) : M :=
  match args with [v] => as_path v (fun p => perform (ORtHas p)) | _ => Raise (EModel "runtime cache lookup") end.
Definition lib_rt_get (args : list val) : M :=
  match args with [v] => as_path v (fun p => perform (ORtGet p)) | _ => Raise (EModel "runtime cache lookup") end.
Definition lib_rt_set (args : list val) : M :=
  match args with
  | [_; VUnbound] => Raise (EPy CUnboundLocalError)
  | [v; x] => as_path v (fun p => perform (ORtSet p x))
  | _ => Raise (EModel "runtime cache store")
  end.
(* the result of a call of a method of self that (transitively) touches nothing of the cache protocol *)
Definition lib_neutral_call (args : list val) : M := perform OYamlNew.

(* method calls *)
Definition py_method (v : val) (m : string) (args : list val) : M :=
  match py_method_pure v m args with
  | Some r => r
  | None =>
      match v, args with
      | VPath p, [] =>
          if String.eqb m "read_bytes" then perform (OReadBytes p)
          else if String.eqb m "exists" then perform (OExists p)
          else if String.eqb m "unlink" then perform (OUnlink p)
          else Raise (EModel ("method of a path: " ++ m))
      | VPath p, [VStr [ALit mode]] =>
          if String.eqb m "open" then
            (if String.eqb mode "rb" then perform (OOpenRb p)
             else if String.eqb mode "wb" then perform (OOpenWb p)
             else Raise (EModel ("open mode " ++ mode)))
          else Raise (EModel ("method of a path: " ++ m))
      | VYaml, [x] => if String.eqb m "load" then perform (OYamlLoad x) else Raise (EModel ("method of an opaque object: " ++ m))
      | VUnbound, _ => Raise (EPy CUnboundLocalError)
      | VNone, _ => Raise (EPy CAttributeError)
      | _, _ => Raise (EModel ("method " ++ m))
      end
  end.

(* a block of statements that touches nothing of the cache protocol (the conversion of the parsed YAML into the internal
   representation): it is part of the loader.  In the abstraction it advances the code identity of self._data, so data
   that went through a different sequence of blocks is different data. *)
Definition py_opaque (self : val) : M :=
  match self with
  | VObj f => match assoc f "_data" with
              | Some (VData d) => Ret (VObj (assoc_set f "_data" (VData (mkData (d_iv d) (S (d_code d)) (d_src d)))))
              | _ => Ret self
              end
  | _ => Raise (EModel "opaque block without self")
  end.
(* the value of an expression that touches nothing of the cache protocol *)
Definition py_opaque_value : val := VYaml.
(* what a block that only reads the open text file f computes: the header of the model file *)
Definition py_header_of (f : val) : M :=
  match f with
  | VFile (HText c) => Ret (VHeader c)
  | VUnbound => Raise (EPy CUnboundLocalError)
  | _ => Raise (EModel "text read of something else than an open model file")
  end.

(* ------------------------------------------------------------------ big-step specification of one non-lazy load
   (what Model/Cache.v's process does when it runs alone under AtomicRename / key = hash of the parsed bytes /
   runtime cache never served; proved in Proofs/PyCache.v) *)
Definition probe1 (w : setup) (fs : loc -> option bytes) (l : loc) : option data :=
  match fs l with
  | Some b => match decode (w_nch w) b with
              | Some d => if d_iv d =? c_iv (w_cfg w) then Some d else None
              | None => None
              end
  | None => None
  end.
Inductive effect := FxNone | FxWrite (tgt : loc) (d : data).
Definition load_spec (w : setup) (y : path -> content) (fs : loc -> option bytes) (pa : path) : data * effect :=
  let h := y pa in
  match probe1 w fs (Comp (p_dir pa) (p_stem pa) h) with
  | Some d => (d, FxNone)
  | None =>
      match probe1 w fs (Home (p_stem pa) h) with
      | Some d => (d, FxNone)
      | None => let d := parse (w_cfg w) h in
                match target (w_env w) pa h with Some l => (d, FxWrite l d) | None => (d, FxNone) end
      end
  end.
Definition apply_fx (nch pid : nat) (fs : loc -> option bytes) (fx : effect) : loc -> option bytes :=
  match fx with
  | FxNone => fs
  | FxWrite tgt d => updf (updf fs tgt (Some (dump_chunks nch 0 d []))) (Tmp pid) None
  end.
(* the writer is killed when kc chunks are written *)
Definition apply_fx_crash (nch pid kc : nat) (fs : loc -> option bytes) (fx : effect) : loc -> option bytes :=
  match fx with
  | FxNone => fs
  | FxWrite tgt d => updf fs (Tmp pid) (Some (dump_chunks (Nat.min kc nch) 0 d []))
  end.
Definition outcome_crash (d : data) (fx : effect) : outcome :=
  match fx with FxNone => ODone d | FxWrite _ _ => OCrashed end.

(* the state in which process pid is about to start a load (what LSpawn builds; prevd = its _runtime_cache entry) *)
Definition start_state (s : state) (pid : nat) (pa : path) (lz : bool) (prevd : option data) : state :=
  mkState (yaml s) (files s) (updp (procs s) pid (Some (mkProc pa lz PStart (yaml s pa) false prevd))).
