(* C07 -- specification of "agrees in kind", written from the property text (properties.jsonl C07):

     "every operand agrees in kind - register class / width prefix / vector shape, immediate type,
      label, condition, memory addressing shape including wildcards"

   `kind` is the classification a user sees in the assembly; `admits` says which kinds an entry
   pattern declares.  Nothing here is derived from the matcher (Model/Match.v); only the data types of
   operands and patterns are shared.  harness/c07_lib.py (spec_kind / spec_admits) is the Python twin
   used as the oracle on the implementation's answers.

   Decisions that the property text leaves open, and what documents them:
   * memory "addressing shape" distinguishes scaled from unscaled, not the scale value: the DB operand
     code of hw_model._get_operand_hash / _create_db_operand_x86 / _create_db_operand_aarch64 has one
     letter `s` for "scale > 1".
   * AVX-512 masks / zeroing on an x86 register are not part of the kind (the property text does not
     list them; _is_x86_reg_type is always called with consider_masking=False).
   * AArch64 lanes are not part of the kind ("vector shape" is the element size b/h/s/d).
   * the {"*": "*"} operand of the load/store composition path (isa_semantics.substitute_mem_address,
     "Create memory wildcard") stands for "some register": every register pattern admits it. *)
From Coq Require Import String Ascii List Bool ZArith.
From OV Require Import Model.PyString Model.Match.
Import ListNotations.
Open Scope string_scope.

Inductive offkind := KNoOff | KImmOff | KLabelOff.

Inductive Kind :=
| KReg86 (cls : string)                              (* gpr xmm ymm zmm mm k *)
| KRegA64 (prefix : option string) (shape : option string)
| KMem (base : option string) (off : offkind) (index : option string) (scaled pre post : bool)
| KImm (ty : option string)
| KLabel
| KCond (cc : string)
| KPrefetch
| KAnyReg
| KForeign.                                          (* not an instruction operand of this ISA *)

(* x86 register class as written: xmm7 -> xmm, k1 -> k, everything else is a general-purpose register *)
Definition x86_class (name : string) : string :=
  let b := py_lower (py_rstrip_digits name) in
  if py_in_list b ["xmm"; "ymm"; "zmm"; "mm"] then b
  else if String.eqb b "k" then "k" else "gpr".

Definition reg_class (a : isa) (r : regop) : option string :=
  match a with
  | X86 => option_map x86_class (r_name r)
  | A64 => r_prefix r
  end.

Definition kind (a : isa) (o : operand) : Kind :=
  match o with
  | OWild => KAnyReg
  | OReg r => match a with
              | X86 => match r_name r with Some n => KReg86 (x86_class n) | None => KForeign end
              | A64 => KRegA64 (r_prefix r) (r_shape r)
              end
  | OMem m =>
    KMem (match m_base m with Some b => reg_class a b | None => None end)
         (match m_offset m with ONone => KNoOff | OImm _ => KImmOff | OIdent => KLabelOff end)
         (match m_index m with Some x => reg_class a x | None => None end)
         (negb (Z.eqb (m_scale m) 1))
         (match a with X86 => false | A64 => m_pre m end)
         (match a with X86 => false | A64 => match m_post m with PostFalse => false | _ => true end end)
  | OImmediate ty v true => match v with IVNone => KLabel | _ => KImm (match a with X86 => Some "int" | A64 => ty end) end
  | OImmediate ty v false => KImm (match a with X86 => Some "int" | A64 => ty end)
  | OIdentifier => KLabel
  | OCond cc => KCond cc
  | OPrefetch => KPrefetch
  | ODict _ | OOther => KForeign
  end.

Definition wild (s : option string) : bool := opt_is s "*".

(* a register class / prefix field of a memory pattern *)
Definition mreg_class (a : isa) (i : mreg) : option string :=
  match i with
  | MNone => None
  | MStr s => Some s
  | MReg r => match a with X86 => r_name r | A64 => r_prefix r end
  end.
Definition regfield_admits (a : isa) (i : mreg) (have : option string) : bool :=
  wild (mreg_class a i) || opt_str_eqb (mreg_class a i) have.

Definition flag_admits (g : mflag) (b : bool) : bool :=
  match g with GStr s => String.eqb s "*" | GBool x => Bool.eqb x b end.

Definition admits (a : isa) (p : pattern) (k : Kind) : bool :=
  match p, k with
  | PReg _, KAnyReg => true
  | PReg r, KReg86 c => match a with X86 => wild (r_name r) || opt_is (r_name r) c | A64 => false end
  | PReg r, KRegA64 pre sh =>
    match a with
    | X86 => false
    | A64 => (wild (r_prefix r) || opt_str_eqb (r_prefix r) pre) && (wild (r_shape r) || opt_str_eqb (r_shape r) sh)
    end
  | PMem m, KMem base off index scaled pre post =>
    regfield_admits a (mp_base m) base
    && (match mp_offset m with
        | FStr s => String.eqb s "*"
                    || (String.eqb s "imd" && match off with KImmOff => true | _ => false end)
                    || (String.eqb s "id" && match off with KLabelOff => true | _ => false end)
        | FNone => match off with KNoOff => true | _ => false end
        | FIdent => match off with KLabelOff => true | _ => false end
        end)
    && regfield_admits a (mp_index m) index
    && (match mp_scale m with
        | SStr s => String.eqb s "*"
        | SInt z => Bool.eqb (negb (Z.eqb z 1)) scaled
        | SNone => negb scaled                              (* no scale declared = unscaled *)
        end)
    && (match a with
        | X86 => true
        | A64 => flag_admits (mp_pre m) pre && flag_admits (mp_post m) post
        end)
  | PImm ty, KImm t => opt_str_eqb ty t || (match a with A64 => wild ty | X86 => false end)
  | PIdent, KLabel => true
  | PCond c, KCond cc => String.eqb c "*" || String.eqb c cc
  | PPrefetch, KPrefetch => true
  | _, _ => false
  end.

(* ------------------------------------------------------------------ the documented vocabulary (DESIGN section 25) *)
Definition x86_classes : list string := ["gpr"; "xmm"; "ymm"; "zmm"; "mm"; "k"].
Definition a64_prefixes : list string := ["x"; "w"; "b"; "h"; "s"; "d"; "q"; "v"; "z"; "p"].
Definition a64_shapes : list string := ["b"; "h"; "s"; "d"].

Definition opt_in (s : option string) (l : list string) : bool :=
  match s with Some x => py_in_list x l | None => false end.

Definition wf_mreg (a : isa) (allow_none : bool) (i : mreg) : bool :=
  match i with
  | MNone => allow_none
  | MStr s => py_in_list s ("*" :: match a with X86 => x86_classes | A64 => a64_prefixes end)
  | MReg _ => false
  end.

Definition wf_pattern (a : isa) (p : pattern) : bool :=
  match p with
  | PReg r =>
    match a with
    | X86 => opt_in (r_name r) ("*" :: x86_classes)
    | A64 => opt_in (r_prefix r) ("*" :: a64_prefixes)
             && (is_none (r_shape r) || opt_in (r_shape r) ("*" :: a64_shapes))
             && is_none (r_lanes r)
    end
  | PMem m =>
    wf_mreg a (match a with X86 => true | A64 => false end) (mp_base m)
    && wf_mreg a true (mp_index m)
    && (match mp_offset m with
        | FNone => true
        | FStr s => py_in_list s (match a with X86 => ["imd"; "id"; "*"] | A64 => ["imd"; "*"] end)
        | FIdent => false
        end)
    && (match mp_scale m with SInt z => Z.leb 1 z | SStr s => String.eqb s "*" | SNone => false end)
    && (match a with
        | X86 => true
        | A64 => (match mp_pre m with GBool _ => true | GStr s => String.eqb s "*" end)
                 && (match mp_post m with GBool _ => true | GStr s => String.eqb s "*" end)
        end)
  | PImm ty => opt_in ty (match a with X86 => ["int"] | A64 => ["int"; "float"; "double"; "*"] end)
  | PIdent => true
  | PCond _ | PPrefetch => match a with X86 => false | A64 => true end
  | PFlag | PRaw _ => false
  end.

(* a register as the parsers deliver it *)
Definition wf_reg (a : isa) (r : regop) : bool :=
  match a with
  | X86 => match r_name r with Some n => negb (String.eqb n "*") | None => false end
  | A64 => opt_in (r_prefix r) a64_prefixes
           && (is_none (r_shape r) || opt_in (r_shape r) a64_shapes)
           && (is_none (r_lanes r) || negb (is_none (r_shape r)))
  end.

Definition wf_operand (a : isa) (o : operand) : bool :=
  match o with
  | OWild => true
  | OReg r => wf_reg a r
  | OMem m =>
    (match m_base m with
     | Some b => wf_reg a b && match a with X86 => opt_str_eqb (reg_class a b) (Some "gpr") | A64 => true end
     | None => match a with X86 => true | A64 => false end
     end)
    && (match m_index m with
        | Some x => wf_reg a x && match a with X86 => negb (opt_str_eqb (reg_class a x) (Some "k")) | A64 => true end
        | None => true
        end)
    && (match m_offset m with OImm (IVInt _) => true | OImm _ => false | _ => true end)
    && Z.leb 1 (m_scale m)
    && (match a with X86 => negb (m_pre m) && match m_post m with PostFalse => true | _ => false end | A64 => true end)
  | OImmediate ty v id =>
    negb id && value_present v
    && match a with X86 => true | A64 => opt_in ty ["int"; "float"; "double"] end
  | OIdentifier => true
  | OCond _ | OPrefetch => match a with X86 => false | A64 => true end
  | ODict _ | OOther => false
  end.

(* the two families where the matcher is more permissive than `admits` (reported as findings):
   x86: a `gpr` pattern is applied to a mask register k0..k7;
   AArch64: a pattern that declares a vector shape is applied to a register written without shape *)
Definition lenient (a : isa) (p : pattern) (o : operand) : bool :=
  match a, p, o with
  | X86, PReg ir, OReg r => opt_is (r_name ir) "gpr" && opt_str_eqb (reg_class X86 r) (Some "k")
  | A64, PReg ir, OReg r => negb (is_none (r_shape ir)) && negb (wild (r_shape ir)) && is_none (r_shape r)
  | _, _, _ => false
  end.
