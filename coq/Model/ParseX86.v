(* C09 -- executable model of OSACA's x86 AT&T line parser (osaca/parser/parser_x86att.py:
   construct_parser, parse_line, parse_instruction, the process_ functions) for the sub-language the property
   quantifies over, together with the renderer `render_line` used by the round-trip theorem.

   The model is scannerless, like pyparsing: before every grammar element white space
   (space, tab, CR -- pyparsing's default " \t\r\n" minus the newline a line cannot contain)
   is skipped; inside `Combine`d pieces (numbers, identifiers) it is not.
   Everything outside the sub-language yields `Unmodelled` (never a guess); `Reject` is only
   answered where the implementation provably raises ValueError.  No proofs in this file. *)
From Coq Require Import String Ascii List Bool NArith ZArith Decimal Hexadecimal DecimalN HexadecimalN.
Import ListNotations.
Local Open Scope char_scope.

Definition chars := list ascii.
Definition L (s : string) : chars := list_ascii_of_string s.
Definition S_ (l : chars) : string := string_of_list_ascii l.

(* ------------------------------------------------------------------ character classes *)
Definition code (c : ascii) : N := N_of_ascii c.
Definition between (lo hi : N) (c : ascii) : bool := andb (N.leb lo (code c)) (N.leb (code c) hi).
Definition is_ws (c : ascii) : bool := orb (Ascii.eqb c " ") (orb (Ascii.eqb c "009") (Ascii.eqb c "013")).
Definition is_digit := between 48 57.
Definition is_alpha (c : ascii) : bool := orb (between 65 90 c) (between 97 122 c).
Definition is_alnum (c : ascii) : bool := orb (is_digit c) (is_alpha c).
Definition is_hex (c : ascii) : bool := orb (is_digit c) (orb (between 65 70 c) (between 97 102 c)).
Definition is_print := between 33 126.                       (* pyparsing.printables *)
Definition one_of (s : string) (c : ascii) : bool := existsb (Ascii.eqb c) (L s).
Definition is_idfirst (c : ascii) : bool := orb (is_alpha c) (one_of "_." c).
Definition is_idrest (c : ascii) : bool := orb (is_alnum c) (one_of "$_.+-" c).
Definition is_lblfirst (c : ascii) : bool := orb (is_alpha c) (one_of "-_." c).
Definition is_lblrest (c : ascii) : bool := orb (is_alnum c) (one_of "$_.+-()" c).
Definition is_mnem (c : ascii) : bool := orb (is_alnum c) (Ascii.eqb c ",").
Definition is_dirname (c : ascii) : bool := orb (is_alnum c) (Ascii.eqb c "_").
Definition is_quote (c : ascii) : bool := orb (Ascii.eqb c """") (Ascii.eqb c "'").
Definition is_textc (c : ascii) : bool := orb (is_print c) (is_ws c).   (* what a comment may contain *)

Fixpoint span (P : ascii -> bool) (l : chars) : chars * chars :=
  match l with
  | [] => ([], [])
  | c :: r => if P c then let (a, b) := span P r in (c :: a, b) else ([], l)
  end.
Definition skip (l : chars) : chars := snd (span is_ws l).

Fixpoint starts (p l : chars) : bool :=
  match p, l with
  | [], _ => true
  | a :: p', b :: l' => andb (Ascii.eqb a b) (starts p' l')
  | _ :: _, [] => false
  end.

(* ------------------------------------------------------------------ digits <-> numbers *)
Definition dec_digit (c : ascii) : option (Decimal.uint -> Decimal.uint) :=
  match c with
  | "0" => Some Decimal.D0 | "1" => Some Decimal.D1 | "2" => Some Decimal.D2 | "3" => Some Decimal.D3
  | "4" => Some Decimal.D4 | "5" => Some Decimal.D5 | "6" => Some Decimal.D6 | "7" => Some Decimal.D7
  | "8" => Some Decimal.D8 | "9" => Some Decimal.D9 | _ => None
  end.
Fixpoint dec_of_chars (l : chars) : option Decimal.uint :=
  match l with
  | [] => Some Decimal.Nil
  | c :: r => match dec_digit c, dec_of_chars r with Some f, Some d => Some (f d) | _, _ => None end
  end.
Fixpoint chars_of_dec (d : Decimal.uint) : chars :=
  match d with
  | Decimal.Nil => []
  | Decimal.D0 d => "0" :: chars_of_dec d | Decimal.D1 d => "1" :: chars_of_dec d
  | Decimal.D2 d => "2" :: chars_of_dec d | Decimal.D3 d => "3" :: chars_of_dec d
  | Decimal.D4 d => "4" :: chars_of_dec d | Decimal.D5 d => "5" :: chars_of_dec d
  | Decimal.D6 d => "6" :: chars_of_dec d | Decimal.D7 d => "7" :: chars_of_dec d
  | Decimal.D8 d => "8" :: chars_of_dec d | Decimal.D9 d => "9" :: chars_of_dec d
  end.

Definition hex_digit (c : ascii) : option (Hexadecimal.uint -> Hexadecimal.uint) :=
  match c with
  | "0" => Some Hexadecimal.D0 | "1" => Some Hexadecimal.D1 | "2" => Some Hexadecimal.D2 | "3" => Some Hexadecimal.D3
  | "4" => Some Hexadecimal.D4 | "5" => Some Hexadecimal.D5 | "6" => Some Hexadecimal.D6 | "7" => Some Hexadecimal.D7
  | "8" => Some Hexadecimal.D8 | "9" => Some Hexadecimal.D9
  | "a" => Some Hexadecimal.Da | "b" => Some Hexadecimal.Db | "c" => Some Hexadecimal.Dc
  | "d" => Some Hexadecimal.Dd | "e" => Some Hexadecimal.De | "f" => Some Hexadecimal.Df
  | "A" => Some Hexadecimal.Da | "B" => Some Hexadecimal.Db | "C" => Some Hexadecimal.Dc
  | "D" => Some Hexadecimal.Dd | "E" => Some Hexadecimal.De | "F" => Some Hexadecimal.Df
  | _ => None
  end.
Fixpoint hex_of_chars (l : chars) : option Hexadecimal.uint :=
  match l with
  | [] => Some Hexadecimal.Nil
  | c :: r => match hex_digit c, hex_of_chars r with Some f, Some d => Some (f d) | _, _ => None end
  end.
Fixpoint chars_of_hex (upper : bool) (d : Hexadecimal.uint) : chars :=
  let u (lo up : ascii) := if upper then up else lo in
  match d with
  | Hexadecimal.Nil => []
  | Hexadecimal.D0 d => "0" :: chars_of_hex upper d | Hexadecimal.D1 d => "1" :: chars_of_hex upper d
  | Hexadecimal.D2 d => "2" :: chars_of_hex upper d | Hexadecimal.D3 d => "3" :: chars_of_hex upper d
  | Hexadecimal.D4 d => "4" :: chars_of_hex upper d | Hexadecimal.D5 d => "5" :: chars_of_hex upper d
  | Hexadecimal.D6 d => "6" :: chars_of_hex upper d | Hexadecimal.D7 d => "7" :: chars_of_hex upper d
  | Hexadecimal.D8 d => "8" :: chars_of_hex upper d | Hexadecimal.D9 d => "9" :: chars_of_hex upper d
  | Hexadecimal.Da d => u "a" "A" :: chars_of_hex upper d | Hexadecimal.Db d => u "b" "B" :: chars_of_hex upper d
  | Hexadecimal.Dc d => u "c" "C" :: chars_of_hex upper d | Hexadecimal.Dd d => u "d" "D" :: chars_of_hex upper d
  | Hexadecimal.De d => u "e" "E" :: chars_of_hex upper d | Hexadecimal.Df d => u "f" "F" :: chars_of_hex upper d
  end.

Definition hd_eqb (x : ascii) (l : chars) : bool :=
  match l with c :: _ => Ascii.eqb c x | [] => false end.

(* ------------------------------------------------------------------ AST *)
(* DIdR: identifier@relocation[+-offset] AS WRITTEN; the code keeps the name only (see code_view) *)
Inductive disp := DNone | DInt (z : Z) | DId (s : string) | DIdR (s rel : string) (off : option string).
(* displacement of a segment-override reference, AS WRITTEN (parser_x86att.py keeps the text: '0x28', '-8', '010'):
   SNum "0x28" | SId name (relocation without "@") (signed decimal offset text) *)
Inductive sdisp := SNone | SNum (t : string) | SId (n : string) (rel : option string) (off : option string).
Inductive starred := StReg (name : string) | StDisp (d : sdisp).
Inductive operand :=
| OReg (name : string)                                   (* %name, name as written *)
| OImm (z : Z)                                           (* $dec, $hex : the integer *)
| OId (name : string)                                    (* label / $label *)
| OMem (d : disp) (base index : option string) (scale : Z)
| OSeg (seg : string) (d : sdisp) (base index : option string) (scale : Z)    (* %seg:disp(base,index,scale) *)
| OStar (x : starred)                                    (* *%reg  *number  *identifier[@reloc[+-off]]  (memory_abs) *)
(* written forms whose extra information the code drops (code_view): *)
| ORegK (name mask : string) (zero : bool)               (* %zmm3{%k1}{z} *)
| OMemK (d : disp) (base index : option string) (scale : Z) (mask : string)   (* disp(base,index,scale){%k1} *)
| OIdR (name rel : string) (off : option string)         (* foo@PLT  $foo@GOT+8 *)
| ONumLbl (digits : string) (suffix : ascii).            (* 1b 2f : first operand only *)

(* what parser_x86att.py keeps of a written operand: process_register drops mask/zeroing, process_identifier and
   process_memory_address drop relocation and offset of an identifier and the b/f suffix of a numeric label,
   process_memory_address drops the mask of a memory reference *)
Definition disp_view (d : disp) : disp := match d with DIdR n _ _ => DId n | _ => d end.
Definition code_view (o : operand) : operand :=
  match o with
  | ORegK n _ _ => OReg n
  | OMemK d b i sc _ => OMem (disp_view d) b i sc
  | OMem d b i sc => OMem (disp_view d) b i sc
  | OIdR n _ _ => OId n
  | ONumLbl d _ => OId d
  | _ => o
  end.

Definition instr := (string * list operand)%type.

Inductive pline :=
| PComment | PLabel (name : string) | PDirective (name : string) | PInstr (mnemonic : string) (ops : list operand).
Inductive outcome := Unmodelled | Reject (* ValueError *) | Parsed (p : pline).

(* ------------------------------------------------------------------ layout and renderer *)
(* "*" in front of a parenthesised memory reference (the grammar skips it), blanks after "*";
   opmask {[%]k}[{z}]: "%" written or not, blanks before "{", after "{", after "%", after the name, before the second "{",
   after it, after "z" *)
Record klay := mkKlay {
  lo_star : bool; w_st : string;
  lo_kpct : bool; wk1 : string; wk2 : string; wk3 : string; wk4 : string; wk5 : string; wk6 : string; wk7 : string }.
Record oplay := mkOplay {
  lo_hex : bool; lo_upper : bool; lo_omit1 : bool; lo_dollar : bool;
  w_d : string; w_lp : string; w_b : string; w_c1 : string; w_i : string; w_c2 : string; w_s : string;
  (* segment-override references: blanks before / after ":", before "@", before the sign of the offset, after "+" *)
  w_sg1 : string; w_sg2 : string; w_at : string; w_pl1 : string; w_pl2 : string;
  lo_k : klay }.
Definition default_klay := mkKlay false "" false "" "" "" "" "" "" "".
Definition default_oplay := mkOplay false false false false "" "" "" "" "" "" "" "" "" "" "" "" default_klay.
Record layout := mkLayout {
  lead : string; gap : string;
  lops : list (oplay * string * string);         (* per operand: its layout, blanks after it, blanks after the comma before it *)
  trail : string;
  comment : option (bool * string);               (* Some (true, t) = "//" ++ t ; Some (false, t) = "#" ++ t *)
  prefixes : list (bool * string) }.              (* data16 (false) / data32 (true) prefixes, each with the blanks after it *)

Definition render_N (lo : oplay) (n : N) : chars :=
  if lo_hex lo then "0" :: "x" :: chars_of_hex (lo_upper lo) (N.to_hex_uint n)
  else chars_of_dec (N.to_uint n).
Definition render_Z (lo : oplay) (z : Z) : chars :=
  (if (z <? 0)%Z then ["-"] else []) ++ render_N lo (Z.abs_N z).

Definition render_scale (z : Z) : chars := chars_of_dec (N.to_uint (Z.abs_N z)).

Definition render_paren (lo : oplay) (b i : option string) (sc : Z) : chars :=
  "(" :: L (w_lp lo)
  ++ (match b with Some r => "%" :: L r ++ L (w_b lo) | None => [] end)
  ++ (match i with
      | Some r => "," :: L (w_c1 lo) ++ "%" :: L r ++ L (w_i lo)
                  ++ (if andb (Z.eqb sc 1) (lo_omit1 lo) then [] else "," :: L (w_c2 lo) ++ render_scale sc ++ L (w_s lo))
      | None => []
      end)
  ++ [")"].

(* "-8" as written; "8" is written "+8" (after a relocation the sign separates it from the relocation name) *)
Definition render_off (lo : oplay) (t : string) : chars :=
  L (w_pl1 lo) ++ (if hd_eqb "-" (L t) then L t else "+" :: L (w_pl2 lo) ++ L t).
Definition render_sdisp (lo : oplay) (d : sdisp) : chars :=
  match d with
  | SNone => []
  | SNum t => L t
  | SId n rel off =>
      L n ++ (match rel with
              | Some a => L (w_at lo) ++ "@" :: L a ++ (match off with Some t => render_off lo t | None => [] end)
              | None => []
              end)
  end.

Definition render_mask (lo : oplay) (k : string) (z : bool) : chars :=
  let kl := lo_k lo in
  L (wk1 kl) ++ "{" :: L (wk2 kl) ++ (if lo_kpct kl then "%" :: L (wk3 kl) else []) ++ L k ++ L (wk4 kl)
  ++ "}" :: (if z then L (wk5 kl) ++ "{" :: L (wk6 kl) ++ "z" :: L (wk7 kl) ++ ["}"] else []).
Definition render_star (lo : oplay) : chars := "*" :: L (w_st (lo_k lo)).
(* disp ( base , index , scale ) with at least one of base / index *)
Definition render_mem (lo : oplay) (d : disp) (b i : option string) (sc : Z) : chars :=
  (if lo_star (lo_k lo) then render_star lo else [])
  ++ (match d with
      | DNone => []
      | DInt z => render_Z lo z ++ L (w_d lo)
      | DId n => L n ++ L (w_d lo)
      | DIdR n rel off => render_sdisp lo (SId n (Some rel) off) ++ L (w_d lo)
      end)
  ++ render_paren lo b i sc.

Definition render_op (first : bool) (lo : oplay) (o : operand) : chars :=
  match o with
  | OReg r => "%" :: L r
  | OImm z => "$" :: render_Z lo z
  | OId n => if orb (lo_dollar lo) (negb first) then "$" :: L n else L n
  | OMem d b i sc =>
      match d, b, i with
      | DInt z, None, None => render_Z lo z                      (* absolute address: bare displacement *)
      | _, _, _ => render_mem lo d b i sc
      end
  | OStar (StReg n) => render_star lo ++ "%" :: L n
  | OStar (StDisp d) => render_star lo ++ render_sdisp lo d
  | ORegK n k z => "%" :: L n ++ render_mask lo k z
  | OMemK d b i sc k => render_mem lo d b i sc ++ render_mask lo k false
  | OIdR n rel off =>
      (if orb (lo_dollar lo) (negb first) then ["$"] else []) ++ render_sdisp lo (SId n (Some rel) off)
  | ONumLbl d x => L d ++ [x]
  | OSeg sg d b i sc =>
      "%" :: L sg ++ L (w_sg1 lo) ++ ":" :: L (w_sg2 lo) ++ render_sdisp lo d
      ++ (match b, i with
          | None, None => []
          | _, _ => (match d with SNone => [] | _ => L (w_d lo) end) ++ render_paren lo b i sc
          end)
  end.

Definition nth_lay (ls : list (oplay * string * string)) : oplay * string * string :=
  match ls with [] => (default_oplay, ""%string, ""%string) | x :: _ => x end.

Fixpoint render_rest (ls : list (oplay * string * string)) (ops : list operand) : chars :=
  match ops with
  | [] => []
  | o :: ops' =>
      let '(lo, wb, wa) := nth_lay ls in
      "," :: L wa ++ render_op false lo o ++ L wb ++ render_rest (tl ls) ops'
  end.

Definition render_comment (c : option (bool * string)) : chars :=
  match c with
  | None => []
  | Some (true, t) => "/" :: "/" :: L t
  | Some (false, t) => "#" :: L t
  end.

Definition render_prefixes (ps : list (bool * string)) : chars :=
  flat_map (fun p : bool * string => L (if fst p then "data32" else "data16")%string ++ L (snd p)) ps.

Definition render_chars (lay : layout) (a : instr) : chars :=
  let (m, ops) := a in
  L (lead lay) ++ render_prefixes (prefixes lay) ++ L m
  ++ (match ops with
      | [] => []
      | o :: ops' => let '(lo, wb, _) := nth_lay (lops lay) in
                     L (gap lay) ++ render_op true lo o ++ L wb ++ render_rest (tl (lops lay)) ops'
      end)
  ++ L (trail lay) ++ render_comment (comment lay).
Definition render_line (lay : layout) (a : instr) : string := S_ (render_chars lay a).

(* other line kinds *)
Definition render_comment_line (lead : string) (slashes : bool) (text : string) : string :=
  S_ (L lead ++ render_comment (Some (slashes, text))).
Definition render_label_line (lead name w1 w2 : string) (c : option (bool * string)) : string :=
  S_ (L lead ++ L name ++ L w1 ++ ":" :: L w2 ++ render_comment c).
Definition render_directive_line (lead name rest : string) : string :=
  S_ (L lead ++ "." :: L name ++ L rest).

(* ------------------------------------------------------------------ parser *)
(* Dispatch on the next character is written with boolean tests (not deep patterns) so that the
   proofs can reason about an abstract next character through its character class. *)

(* end of the significant part of a line: nothing, or a comment ("#" | "//") whose text is made of
   printable ASCII and blanks (pyparsing: ZeroOrMore(Word(printables))). *)
Definition at_end (l : chars) : bool :=
  match l with
  | [] => true
  | c :: r => orb (Ascii.eqb c "#") (andb (Ascii.eqb c "/") (hd_eqb "/" r))
  end.
Definition end_ok (l : chars) : bool := forallb is_textc l.

(* token delimiter: what may follow an operand / the mnemonic *)
Definition delim (l : chars) : bool :=
  match l with [] => true | c :: _ => orb (is_ws c) (one_of ",#/" c) end.

Inductive numres := NumOk (z : Z) | NumBad.   (* NumBad: decimal literal that int(.,0) refuses (leading zero) *)

Definition parse_dec (l : chars) : option (option N * chars) :=
  let (d, r) := span is_digit l in
  match d with
  | [] => None
  | _ => match dec_of_chars d with
         | None => None
         | Some u => let n := N.of_uint u in
                     if orb (if list_eq_dec ascii_dec d (chars_of_dec (N.to_uint n)) then true else false) (N.eqb n 0)
                     then Some (Some n, r) else Some (None, r)
         end
  end.
Definition hex_prefix (l : chars) : bool :=
  match l with c1 :: c2 :: _ => andb (Ascii.eqb c1 "0") (Ascii.eqb c2 "x") | _ => false end.
Definition parse_unsigned (l : chars) : option (option N * chars) :=
  if hex_prefix l then
    let (h, r2) := span is_hex (tl (tl l)) in
    match h with
    | [] => parse_dec l
    | _ => match hex_of_chars h with Some d => Some (Some (N.of_hex_uint d), r2) | None => None end
    end
  else parse_dec l.
(* None: no number here *)
Definition parse_number (l : chars) : option (numres * chars) :=
  let neg := hd_eqb "-" l in
  match parse_unsigned (if neg then tl l else l) with
  | Some (Some n, r2) => Some (NumOk (if neg then - Z.of_N n else Z.of_N n), r2)
  | Some (None, r2) => Some (NumBad, r2)
  | None => None
  end.

(* l = "%" :: ... ; None = Unmodelled *)
Definition parse_reg (l : chars) : option (string * chars) :=
  if hd_eqb "%" l then
    let (n, r2) := span is_alnum (tl l) in
    match n with [] => None | _ => Some (S_ n, r2) end
  else None.

Definition parse_ident (l : chars) : option (string * chars) :=
  match l with
  | c :: r => if is_idfirst c then let (n, r2) := span is_idrest r in Some (S_ (c :: n), r2) else None
  | [] => None
  end.

Definition scale_of (d : chars) : option Z :=
  match d with
  | [c] => if Ascii.eqb c "1" then Some 1%Z else if Ascii.eqb c "2" then Some 2%Z
           else if Ascii.eqb c "4" then Some 4%Z else if Ascii.eqb c "8" then Some 8%Z else None
  | _ => None
  end.

(* after "(" and the optional base register (blanks skipped) *)
Definition paren_after_base (b : option string) (r : chars)
  : option (option string * option string * option Z * chars) :=
  if hd_eqb ")" r then
    match b with Some _ => Some (b, None, Some 1%Z, tl r) | None => None end
  else if hd_eqb "," r then
    match parse_reg (skip (tl r)) with
    | None => None
    | Some (i, r2) =>
        let r2 := skip r2 in
        if hd_eqb ")" r2 then Some (b, Some i, Some 1%Z, tl r2)
        else if hd_eqb "," r2 then
          let (d, r4) := span is_digit (skip (tl r2)) in
          match d with
          | [] => None
          | _ => let r4 := skip r4 in
                 if hd_eqb ")" r4 then Some (b, Some i, scale_of d, tl r4) else None
          end
        else None
    end
  else None.

(* l = "(" :: ... ; result: base, index, Some scale | None (digits that are not one of 1 2 4 8), rest *)
Definition parse_paren (l : chars) : option (option string * option string * option Z * chars) :=
  if hd_eqb "(" l then
    let r := skip (tl l) in
    if hd_eqb "%" r then
      match parse_reg r with
      | Some (b, r1) => paren_after_base (Some b) (skip r1)
      | None => None
      end
    else paren_after_base None r
  else None.

Inductive rop := RGood (o : operand) | RBare (n : string) | RBad.

(* the optional opmask  { [%] name } [ { z } ]  after a register / after ")" : its content is dropped by the code.
   Some rest | None: a "{" that does not open a well-formed mask (Unmodelled) *)
Definition skip_mask (allow_z : bool) (r : chars) : option chars :=
  let r1 := skip r in
  if hd_eqb "{" r1 then
    let r2 := skip (tl r1) in
    let r3 := if hd_eqb "%" r2 then skip (tl r2) else r2 in
    let (k, r4) := span is_alnum r3 in
    match k with
    | [] => None
    | _ =>
        let r5 := skip r4 in
        if hd_eqb "}" r5 then
          let r6 := tl r5 in
          if allow_z then
            let r7 := skip r6 in
            if hd_eqb "{" r7 then
              let r8 := skip (tl r7) in
              if hd_eqb "z" r8 then
                let r9 := skip (tl r8) in
                if hd_eqb "}" r9 then Some (tl r9) else None
              else None
            else Some r6
          else Some r6
        else None
    end
  else Some r.

(* d = None: a displacement literal that int(.,0) refuses;  bare: what the text before r is on its own *)
Definition with_disp (d : option disp) (bare : option rop) (r : chars) : option (rop * chars) :=
  if hd_eqb "(" (skip r) then
    match parse_paren (skip r) with
    | Some (b, i, Some sc, r3) =>
        match skip_mask false r3 with
        | Some r4 => match d with Some d' => Some (RGood (OMem d' b i sc), r4) | None => Some (RBad, r4) end
        | None => None
        end
    | Some (_, _, None, r3) => Some (RBad, r3)
    | None => None
    end
  else match bare with Some x => Some (x, r) | None => None end.

(* ---- segment-override references  %seg : ext   (memory_segmentation / segment_extension)
   The text of a number is kept as written: MatchFirst(hex_number | decimal_number) without conversion. *)
Definition scan_dec (l : chars) : option (chars * chars) :=
  let (d, r) := span is_digit l in match d with [] => None | _ => Some (d, r) end.
Definition scan_unsigned (l : chars) : option (chars * chars) :=
  if hex_prefix l then
    let (h, r2) := span is_hex (tl (tl l)) in
    match h with
    | [] => scan_dec l
    | _ => Some ("0" :: "x" :: h, r2)
    end
  else scan_dec l.
Definition scan_number (l : chars) : option (chars * chars) :=
  let neg := hd_eqb "-" l in
  match scan_unsigned (if neg then tl l else l) with
  | Some (t, r) => Some ((if neg then "-" :: t else t), r)
  | None => None
  end.

(* identifier [@relocation [[+]decimal]] ; blanks allowed before "@", before the sign and after "+" *)
Definition parse_sident (l : chars) : option (sdisp * chars) :=
  match parse_ident l with
  | None => None
  | Some (n, r) =>
      let r1 := skip r in
      if hd_eqb "@" r1 then
        let (a, r2) := span is_alpha (tl r1) in
        match a with
        | [] => None
        | _ =>
            let r3 := skip r2 in
            let plus := hd_eqb "+" r3 in
            let r4 := if plus then skip (tl r3) else r3 in
            let neg := hd_eqb "-" r4 in
            let (d, r5) := span is_digit (if neg then tl r4 else r4) in
            match d with
            | [] => if orb plus neg then None else Some (SId n (Some (S_ a)) None, r2)
            | _ => Some (SId n (Some (S_ a)) (Some (S_ (if neg then "-" :: d else d))), r5)
            end
        end
      else Some (SId n None None, r)
  end.

(* after the displacement: the optional ( base , index , scale ) *)
Definition seg_tail (sg : string) (d : sdisp) (r : chars) : option (rop * chars) :=
  let r1 := skip r in
  if hd_eqb "(" r1 then
    match parse_paren r1 with
    | Some (b, i, Some sc, r3) => Some (RGood (OSeg sg d b i sc), r3)
    | Some (_, _, None, r3) => Some (RBad, r3)
    | None => None
    end
  else match d with SNone => None | _ => Some (RGood (OSeg sg d None None 1%Z), r) end.

(* r = what follows "%seg :" , blanks skipped.  An empty extension (the grammar accepts it and leaves the
   text to the next operand slot) is not modelled. *)
Definition parse_seg (sg : string) (r : chars) : option (rop * chars) :=
  match r with
  | [] => None
  | c :: _ =>
      if Ascii.eqb c "(" then seg_tail sg SNone r
      else if orb (Ascii.eqb c "-") (is_digit c) then
        match scan_number r with Some (t, r2) => seg_tail sg (SNum (S_ t)) r2 | None => None end
      else if is_idfirst c then
        match parse_sident r with Some (d, r2) => seg_tail sg d r2 | None => None end
      else None
  end.

Definition name_of_sid (d : sdisp) : string := match d with SId n _ _ => n | _ => ""%string end.

(* after "*" and its blanks (memory_abs, or the "*" the grammar skips in front of disp(base,index,scale)) *)
Definition parse_star (r : chars) : option (rop * chars) :=
  match r with
  | [] => None
  | c :: _ =>
      if Ascii.eqb c "%" then
        match parse_reg r with
        | Some (n, r2) => if hd_eqb ":" (skip r2) then None else Some (RGood (OStar (StReg n)), r2)
        | None => None
        end
      else if Ascii.eqb c "(" then with_disp (Some DNone) None r
      else if orb (Ascii.eqb c "-") (is_digit c) then
        match scan_number r, parse_number r with
        | Some (t, r2), Some (nr, _) =>
            with_disp (match nr with NumOk z => Some (DInt z) | NumBad => None end)
                      (Some (RGood (OStar (StDisp (SNum (S_ t)))))) r2
        | _, _ => None
        end
      else if is_idfirst c then
        match parse_sident r with
        | Some (sd, r2) => with_disp (Some (DId (name_of_sid sd))) (Some (RGood (OStar (StDisp sd)))) r2
        | None => None
        end
      else None
  end.

(* l non-empty, blanks skipped; None = Unmodelled *)
Definition parse_operand (l : chars) : option (rop * chars) :=
  match l with
  | [] => None
  | c :: r =>
      if Ascii.eqb c "%" then
        match parse_reg l with
        | Some (n, r) =>
            if hd_eqb ":" (skip r) then parse_seg n (skip (tl (skip r)))
            else match skip_mask true r with Some r' => Some (RGood (OReg n), r') | None => None end
        | None => None
        end
      else if Ascii.eqb c "$" then
        match parse_number r with
        | Some (NumOk z, r2) => Some (RGood (OImm z), r2)
        | Some (NumBad, r2) => Some (RBad, r2)
        | None => match parse_sident r with Some (sd, r2) => Some (RGood (OId (name_of_sid sd)), r2) | None => None end
        end
      else if Ascii.eqb c "(" then with_disp (Some DNone) None l
      else if Ascii.eqb c "*" then parse_star (skip r)
      else if orb (Ascii.eqb c "-") (is_digit c) then
        (* numeric label  digits b|f  (numeric_identifier; the suffix is adjacent): the name is the digit string *)
        let (dg, r1) := span is_digit l in
        if andb (negb (match dg with [] => true | _ => false end))
                (match r1 with x :: _ => one_of "bBfF" x | [] => false end)
        then Some (RBare (S_ dg), tl r1)
        else
        match parse_number l with
        | Some (NumOk z, r) =>
            with_disp (Some (DInt z))
                      (* bare: an absolute address; a leading "-" is not modelled *)
                      (if Ascii.eqb c "-" then None else Some (RGood (OMem (DInt z) None None 1%Z))) r
        | Some (NumBad, r) => with_disp None None r
        | None => None
        end
      else if is_idfirst c then
        match parse_sident l with
        | Some (sd, r) => with_disp (Some (DId (name_of_sid sd))) (Some (RBare (name_of_sid sd))) r
        | None => None
        end
      else None
  end.

(* after an operand; n = operand slots left.  None = Unmodelled, Some None = Reject *)
Fixpoint parse_tail (n : nat) (l : chars) : option (option (list rop)) :=
  let l := skip l in
  if at_end l then (if end_ok l then Some (Some []) else None)
  else if hd_eqb "," l then
    match n with
    | O => Some None          (* a fifth operand: the grammar ends after operand4, parseAll fails *)
    | S n' =>
        let r := skip (tl l) in
        if orb (at_end r) (hd_eqb "," r) then None
        else match parse_operand r with
             | None => None
             | Some (o, r2) =>
                 if delim r2 then
                   match parse_tail n' r2 with
                   | None => None
                   | Some None => Some None
                   | Some (Some t) => Some (Some (o :: t))
                   end
                 else None
             end
    end
  else None.

Definition is_bad (o : rop) : bool := match o with RBad => true | _ => false end.
Definition is_bare (o : rop) : bool := match o with RBare _ => true | _ => false end.
Definition op_of (o : rop) : operand :=
  match o with RGood o => o | RBare n => OId n | RBad => OId ""%string end.

Definition mnem_ok (w : chars) : bool :=
  andb (match w with c :: _ => is_alpha c | [] => false end)
       (negb (orb (existsb (Ascii.eqb ",") w) (orb (starts (L "data16") w) (starts (L "data32") w)))).

(* ZeroOrMore(Literal("data16") | Literal("data32")) in front of the mnemonic: skipped, not recorded *)
Fixpoint strip_data (fuel : nat) (l : chars) : chars :=
  match fuel with
  | O => l
  | S f => if orb (starts (L "data16") l) (starts (L "data32") l) then strip_data f (skip (skipn 6 l)) else l
  end.

Definition parse_instr (l : chars) : outcome :=
  let l := strip_data (length l) l in
  let (w, r) := span is_mnem l in
  if negb (mnem_ok w) then Unmodelled
  else if negb (delim r) then Unmodelled
  else
    let r := skip r in
    if at_end r then (if end_ok r then Parsed (PInstr (S_ w) []) else Unmodelled)
    else if hd_eqb "," r then Unmodelled
    else match parse_operand r with
         | None => Unmodelled
         | Some (o, r2) =>
             if negb (delim r2) then Unmodelled
             else match parse_tail 3 r2 with
                  | None => Unmodelled
                  | Some None => Reject
                  | Some (Some t) =>
                      let ops := o :: t in
                      if existsb is_bad ops then Reject
                      else if existsb is_bare t then Reject
                      else Parsed (PInstr (S_ w) (map op_of ops))
                  end
         end.

(* "name :" [comment] *)
Definition label_tail (name : chars) (r : chars) : outcome :=
  (* r = what follows the ":" *)
  let r3 := skip r in
  if andb (at_end r3) (end_ok r3) then Parsed (PLabel (S_ name)) else Unmodelled.

Definition parse_directive (r : chars) : outcome :=
  (* r = what follows the "." *)
  let (dn, r4) := span is_dirname (skip r) in
  match dn with
  | [] => Reject
  | _ => if negb (end_ok r4) then Unmodelled else Parsed (PDirective (S_ dn))
  end.

Definition parse_chars (line : chars) : outcome :=
  let l := skip line in
  match l with
  | [] => Unmodelled                                   (* blank: not a line of the file *)
  | c :: r =>
      if at_end l then (if end_ok l then Parsed PComment else Unmodelled)
      else if is_lblfirst c then
        let (n, r1) := span is_lblrest r in
        if hd_eqb "@" r1 then Unmodelled
        else
          let r2 := skip r1 in
          if hd_eqb ":" r2 then
            (if hd_eqb ":" (tl r2) then Unmodelled else label_tail (c :: n) (tl r2))
          else (* not a label *)
            if Ascii.eqb c "." then parse_directive r
            else if is_alpha c then parse_instr l
            else Unmodelled
      else if is_digit c then
        let (n, r1) := span is_digit l in
        (* the optional b/f suffix must be adjacent to the number (pyparsing leaveWhitespace) *)
        let r2 := match r1 with
                  | x :: r' => if one_of "bBfF" x then r' else r1
                  | [] => r1
                  end in
        let r3 := skip r2 in
        if hd_eqb ":" r3 then label_tail n (tl r3) else Unmodelled
      else Unmodelled
  end.

Definition parse_line (s : string) : outcome := parse_chars (L s).

(* ------------------------------------------------------------------ canonical text of an outcome (harness) *)
Local Open Scope string_scope.
Definition show_N (n : N) : string := S_ (chars_of_dec (N.to_uint n)).
Definition show_Z (z : Z) : string := (if (z <? 0)%Z then "-" else "") ++ show_N (Z.abs_N z).
Definition show_opt (o : option string) : string := match o with Some s => s | None => "-" end.
Definition show_sdisp (d : sdisp) : string :=
  match d with
  | SNone => "-"
  | SNum t => "N(" ++ t ++ ")"
  | SId n rel off => "L(" ++ n ++ ";" ++ show_opt rel ++ ";" ++ show_opt off ++ ")"
  end.
Definition show_disp (d : disp) : string :=
  match d with
  | DNone => "-" | DInt z => show_Z z | DId n => "L(" ++ n ++ ")"
  | DIdR n rel off => "LR(" ++ n ++ ";" ++ rel ++ ";" ++ show_opt off ++ ")"
  end.
Definition show_op (o : operand) : string :=
  match o with
  | OReg n => "R(" ++ n ++ ")"
  | OImm z => "I(" ++ show_Z z ++ ")"
  | OId n => "L(" ++ n ++ ")"
  | OMem d b i sc =>
      "M(" ++ show_disp d ++ ";" ++ show_opt b ++ ";" ++ show_opt i ++ ";" ++ show_Z sc ++ ")"
  | OMemK d b i sc k =>
      "MK(" ++ show_disp d ++ ";" ++ show_opt b ++ ";" ++ show_opt i ++ ";" ++ show_Z sc ++ ";" ++ k ++ ")"
  | ORegK n k z => "RK(" ++ n ++ ";" ++ k ++ ";" ++ (if z then "z" else "-") ++ ")"
  | OIdR n rel off => "LR(" ++ n ++ ";" ++ rel ++ ";" ++ show_opt off ++ ")"
  | ONumLbl d x => "NL(" ++ d ++ ";" ++ String x "" ++ ")"
  | OStar (StReg n) => "*R(" ++ n ++ ")"
  | OStar (StDisp d) => "*" ++ show_sdisp d
  | OSeg sg d b i sc =>
      "S(" ++ sg ++ ";" ++ show_sdisp d ++ ";" ++ show_opt b ++ ";" ++ show_opt i ++ ";" ++ show_Z sc ++ ")"
  end.
Definition show_code_view (a : instr) : string := "I:" ++ fst a ++ ":" ++ String.concat "," (map (fun o => show_op (code_view o)) (snd a)).
Definition show_instr (a : instr) : string := "I:" ++ fst a ++ ":" ++ String.concat "," (map show_op (snd a)).
Definition show_outcome (o : outcome) : string :=
  match o with
  | Unmodelled => "U"
  | Reject => "E"
  | Parsed PComment => "C"
  | Parsed (PLabel n) => "L:" ++ n
  | Parsed (PDirective n) => "D:" ++ n
  | Parsed (PInstr m ops) => show_instr (m, ops)
  end.
