(* C08 -- ArchSemantics.assign_tp_lt (osaca/semantics/arch_semantics.py), generic in the numeric
   instance.  The matcher (C07) is NOT modelled here: the results of the look-ups that assign_tp_lt
   performs (get_instruction for the instruction itself and for its register form, each with the
   suffix fall-back; get_load_throughput / get_store_throughput for the addressing shape; the
   register-type test of every load row) are INPUTS of the model (record [lookup]); what the model
   computes is everything assign_tp_lt does with them: which row is used, multipliers, pressure
   vectors, throughput, latency, latency_wo_load, port_uops, flags.
   Every place where the Python raises is an explicit error value.  No proofs in this file. *)
From Coq Require Import ZArith List Bool String.
From OV Require Import Model.Num Model.Pressure.
Import ListNotations.

Inductive isa := X86 | A64.

(* INSTR_FLAGS that assign_tp_lt reads or writes *)
Inductive flag := F_HAS_LD | F_HAS_ST | F_LD | F_TP_UNKWN | F_LT_UNKWN | F_NOT_BOUND.

Definition flag_eqb (a b : flag) : bool :=
  match a, b with
  | F_HAS_LD, F_HAS_LD | F_HAS_ST, F_HAS_ST | F_LD, F_LD | F_TP_UNKWN, F_TP_UNKWN
  | F_LT_UNKWN, F_LT_UNKWN | F_NOT_BOUND, F_NOT_BOUND => true
  | _, _ => false
  end.

Section Costing.
  Context {T : Type} (N : NumOps T).

  (* a machine-model entry as far as costing reads it *)
  Record entry := mkentry { e_tp : option T; e_lt : option T; e_uops : @uops T }.

  (* one row returned by get_load_throughput(mem): its `dst` field, the result of
     _check_operands(dummy_reg(reg_type), RegisterOperand(name=dst)) (meaningless when dst is None),
     its micro-ops *)
  Record ldrow := mkldrow { r_dst : option string; r_ok : bool; r_uops : list (@uop T) }.

  (* InstructionForm.port_uops after costing.  PKeys n l is what `list(chain(d, l))` yields when the
     register form's port_pressure is a dict d with n alternatives: its KEYS followed by l. *)
  Inductive puops := PList (l : list (@uop T)) | PDict (alts : list (list (@uop T))) | PKeys (n : nat) (l : list (@uop T)).

  Record mach := mkmach {
    m_isa : isa;
    m_ports : list string;
    m_ld_lat : list (string * option T);              (* load_latency: reg type -> value or ~ *)
    m_ld_mult : option (list (string * T));           (* load_throughput_multiplier, if the key exists *)
    m_st_mult : option (list (string * T));
  }.

  Record lookup := mklookup {
    lk_has_ld : bool;                                 (* INSTR_FLAGS.HAS_LD in instruction_form.flags *)
    lk_has_st : bool;
    lk_suffix : bool;                                 (* x86: mnemonic ends in one of "bswlqt"; AArch64: "." in mnemonic *)
    lk_direct : option entry;                         (* get_instruction(mnemonic, operands) *)
    lk_direct_s : option entry;                       (* ... with the suffix removed *)
    lk_reg : option (entry * res string);             (* get_instruction(mnemonic, substituted operands), reg_type of the
                                                         entry operand at the wildcard position (get_reg_type may raise) *)
    lk_reg_s : option (entry * res string);
    lk_ld_rows : list ldrow;                          (* get_load_throughput(first memory operand of source+src_dst);
                                                         [] = there is no such operand (IndexError) *)
    lk_st_rows : list (list (@uop T));                (* get_store_throughput(first memory operand of destination+src_dst,
                                                         dummy_reg): micro-ops of the returned rows; [] = IndexError *)
    lk_dest_has_mem : bool;                           (* a memory operand among semantic_operands["destination"] *)
    lk_srcdst_wb : list bool;                         (* per memory operand of src_dst: post_indexed or pre_indexed *)
  }.

  Record cost := mkcost {
    c_uops : puops; c_pp : list T; c_lat : T; c_lat_wo : T; c_tp : T; c_flags : list flag;
  }.

  Definition zeros (ports : list string) : list T := map (fun _ => n0 N) ports.

  Definition assoc {A} (k : string) (l : list (string * A)) : res A :=
    match find (fun p => String.eqb (fst p) k) l with Some p => Ok (snd p) | None => Err EKey end.

  (* hw_model.get_load_latency: `tab[rt] if tab[rt] else 0` *)
  Definition load_latency (m : mach) (rt : string) : res T :=
    v <- assoc rt (m_ld_lat m) ;;
    Ok (match v with None => n0 N | Some x => if neqb N x (n0 N) then n0 N else x end).

  (* the suffix fall-back around both look-ups *)
  Definition with_fallback {A} (suffix : bool) (full stripped : option A) : option A :=
    match full with Some e => Some e | None => if suffix then stripped else None end.

  Definition typed_rows (rows : list ldrow) : list ldrow :=
    filter (fun r => match r_dst r with Some _ => r_ok r | None => false end) rows.

  (* "if multiple options, choose based on reg type": first row whose dst matches, else the first row *)
  Definition choose_load_row (rows : list ldrow) : res (list (@uop T)) :=
    match rows with
    | [] => Err EIndex
    | first :: _ => match typed_rows rows with r :: _ => Ok (r_uops r) | [] => Ok (r_uops first) end
    end.

  Definition scale_by (tab : option (list (string * T))) (rt : string) (pp : list T) : res (list T) :=
    match tab with
    | None => Ok pp
    | Some t => m <- assoc rt t ;; Ok (map (fun p => nmul N p m) pp)
    end.

  (* AArch64: no memory operand in the destination and every memory operand of src_dst is pre-/post-indexed:
     only the base register is written back, nothing is stored *)
  Definition writeback_only (i : isa) (lk : lookup) : bool :=
    match i with
    | A64 => andb (negb (lk_dest_has_mem lk)) (forallb (fun b => b) (lk_srcdst_wb lk))
    | X86 => false
    end.

  (* [sum(x) for x in zip(a, b)] *)
  Definition add2 (a b : list T) : list T := map (fun p => nsum N [fst p; snd p]) (combine a b).

  Definition pymax (a b : T) : T := if nltb N a b then b else a.     (* max(a, b) *)

  Definition mkflags (ld st isld tpu ltu nb : bool) : list flag :=
    (if ld then [F_HAS_LD] else []) ++ (if st then [F_HAS_ST] else []) ++ (if isld then [F_LD] else []) ++
    (if tpu then [F_TP_UNKWN] else []) ++ (if ltu then [F_LT_UNKWN] else []) ++ (if nb then [F_NOT_BOUND] else []).

  (* the load part: chosen row, its uniform pressure times the multiplier of the register type *)
  Definition load_part (m : mach) (lk : lookup) (rt : string) : res (list T * list (@uop T)) :=
    if lk_has_ld lk then
      us <- choose_load_row (lk_ld_rows lk) ;;
      pp <- avg_pressure_list N (m_ports m) us ;;
      pp' <- scale_by (m_ld_mult m) rt pp ;;
      Ok (pp', us)
    else Ok (zeros (m_ports m), []).

  Definition store_uops (m : mach) (lk : lookup) : res (list (@uop T)) :=
    match lk_st_rows lk with
    | [] => Err EIndex
    | st0 :: _ => Ok (if writeback_only (m_isa m) lk then [] else st0)
    end.

  (* adds the store part; third component: is HAS_ST still set *)
  Definition store_part (m : mach) (lk : lookup) (rt : string) (dpp : list T) (duops : list (@uop T))
    : res (list T * list (@uop T) * bool) :=
    if lk_has_st lk then
      st <- store_uops m lk ;;
      spp <- avg_pressure_list N (m_ports m) st ;;
      spp' <- scale_by (m_st_mult m) rt spp ;;
      Ok (add2 dpp spp', duops ++ st, negb (writeback_only (m_isa m) lk))
    else Ok (dpp, duops, false).

  (* register form found: "dynamically combine LD/ST and reg form of instruction form" *)
  Definition compose (m : mach) (lk : lookup) (e : entry) (rtr : res string) : res cost :=
    rt <- rtr ;;
    '(dpp, duops) <- load_part m lk rt ;;
    '(dpp2, duops2, st') <- store_part m lk rt dpp duops ;;
    mx <- list_max N dpp2 ;;
    tp <- match e_tp e with Some t => Ok (pymax mx t) | None => Err EType end ;;
    (* `latency += get_load_latency(..)`: the right-hand side (KeyError) is evaluated before None + x (TypeError) *)
    ll <- (if lk_has_ld lk then load_latency m rt else Ok (n0 N)) ;;
    lat0 <- match e_lt e with Some l => Ok l | None => Err EType end ;;
    let lat := nadd N (nadd N lat0 ll) (n0 N) in            (* + get_store_latency(...) = 0 *)
    rpp <- avg_pressure N (m_ports m) (e_uops e) ;;
    Ok (mkcost (match e_uops e with
                | UList l => PList (l ++ duops2)
                | UDict alts => PKeys (List.length alts) duops2
                end)
               (add2 dpp2 rpp) lat lat0 tp
               (mkflags (lk_has_ld lk) st' false false false false)).

  (* _handle_instruction_found *)
  Definition found (m : mach) (lk : lookup) (e : entry) : res cost :=
    pp <- avg_pressure N (m_ports m) (e_uops e) ;;
    let nb := andb (neqb N (nsum N pp) (n0 N)) (match e_tp e with Some _ => true | None => false end) in
    let tp := match e_tp e with Some t => t | None => n0 N end in
    let lat := match e_lt e with Some l => l | None => n0 N end in
    Ok (mkcost (match e_uops e with UList l => PList l | UDict a => PDict a end) pp lat lat tp
               (mkflags (lk_has_ld lk) (lk_has_st lk) (lk_has_ld lk)
                        (match e_tp e with None => true | _ => false end)
                        (match e_lt e with None => true | _ => false end) nb)).

  (* "mark as unknown and assume 0 cy for latency/throughput"; port_uops keeps its initial value [] *)
  Definition unknown (m : mach) (lk : lookup) : cost :=
    mkcost (PList []) (zeros (m_ports m)) (n0 N) (n0 N) (n0 N)
           (mkflags (lk_has_ld lk) (lk_has_st lk) false true true false).

  Definition regform (lk : lookup) : option (entry * res string) :=
    if orb (lk_has_ld lk) (lk_has_st lk) then with_fallback (lk_suffix lk) (lk_reg lk) (lk_reg_s lk) else None.

  Definition cost_instr (m : mach) (lk : lookup) : res cost :=
    match with_fallback (lk_suffix lk) (lk_direct lk) (lk_direct_s lk) with
    | Some e => found m lk e
    | None =>
      match regform lk with
      | Some (e, rt) => compose m lk e rt
      | None => Ok (unknown m lk)
      end
    end.

  (* a kernel line: label/comment/directive (mnemonic None) or an instruction with its look-up results *)
  Inductive line := LNoInstr | LInstr (lk : lookup).

  Definition cost_line (m : mach) (l : line) : res cost :=
    match l with
    | LNoInstr => Ok (mkcost (PList []) (zeros (m_ports m)) (n0 N) (n0 N) (n0 N) [])
    | LInstr lk => cost_instr m lk
    end.

  (* add_semantics: every line is costed by the same function of its own data *)
  Definition cost_kernel (m : mach) (k : list line) : list (res cost) := map (cost_line m) k.
End Costing.

Arguments mkentry {T}. Arguments mkldrow {T}. Arguments mkmach {T}. Arguments mklookup {T}. Arguments mkcost {T}.
Arguments PList {T}. Arguments PDict {T}. Arguments PKeys {T}.
Arguments LNoInstr {T}. Arguments LInstr {T}.
