(* C09 -- the sub-language the round-trip theorem quantifies over: which ASTs and which layouts.
   Executable (boolean) so that the harness and the Examples can evaluate them.  No proofs here. *)
From Coq Require Import String Ascii List Bool NArith ZArith.
From OV Require Import Model.ParseX86.
Import ListNotations.

Definition allc (P : ascii -> bool) (s : string) : bool := forallb P (L s).
Definition blanks (s : string) : bool := allc is_ws s.           (* spaces, tabs, CRs *)

(* %name : any non-empty alphanumeric word (all GPR widths, xmm/ymm/zmm0-31, upper or lower case, ...) *)
Definition valid_reg (n : string) : bool :=
  match L n with [] => false | l => forallb is_alnum l end.
(* label: [A-Za-z_.][A-Za-z0-9$_.+-]* *)
Definition valid_ident (n : string) : bool :=
  match L n with c :: r => andb (is_idfirst c) (forallb is_idrest r) | [] => false end.
(* mnemonic: a letter followed by letters and digits, not starting with the prefixes data16 / data32 *)
Definition valid_mnemonic (m : string) : bool :=
  match L m with
  | c :: r => andb (is_alpha c) (andb (forallb is_alnum r)
                (negb (orb (starts (L "data16") (c :: r)) (starts (L "data32") (c :: r)))))
  | [] => false
  end.
Definition valid_scale (z : Z) : bool := orb (Z.eqb z 1) (orb (Z.eqb z 2) (orb (Z.eqb z 4) (Z.eqb z 8))).
Definition opt_reg (o : option string) : bool := match o with Some n => valid_reg n | None => true end.

Definition valid_operand (o : operand) : bool :=
  match o with
  | OReg n => valid_reg n
  | OImm _ => true                                   (* any integer, any size *)
  | OId n => valid_ident n
  | OMem d b i sc =>
      andb (opt_reg b) (andb (opt_reg i) (andb (valid_scale sc)
      (andb (match d with DId n => valid_ident n | _ => true end)
      (andb (match i with None => Z.eqb sc 1 | Some _ => true end)      (* no index: scale is 1 *)
            (match b, i with
             | None, None => match d with DInt z => Z.leb 0 z | _ => false end   (* absolute address *)
             | _, _ => true
             end)))))
  end.

Definition valid_instr (a : instr) : bool :=
  andb (valid_mnemonic (fst a)) (andb (forallb valid_operand (snd a)) (Nat.leb (length (snd a)) 4)).

Definition valid_oplay (lo : oplay) : bool :=
  andb (blanks (w_d lo)) (andb (blanks (w_lp lo)) (andb (blanks (w_b lo)) (andb (blanks (w_c1 lo))
  (andb (blanks (w_i lo)) (andb (blanks (w_c2 lo)) (blanks (w_s lo))))))).
Definition valid_oplay3 (x : oplay * string * string) : bool :=
  let '(lo, wb, wa) := x in andb (valid_oplay lo) (andb (blanks wb) (blanks wa)).
Definition valid_comment (c : option (bool * string)) : bool :=
  match c with None => true | Some (_, t) => allc is_textc t end.   (* printable ASCII and blanks *)

(* every layout whose blank strings are blanks; the only non-emptiness demanded is between the
   mnemonic and the first operand *)
Definition valid_layout (lay : layout) : bool :=
  andb (blanks (lead lay)) (andb (blanks (gap lay)) (andb (negb (String.eqb (gap lay) ""))
  (andb (forallb valid_oplay3 (lops lay)) (andb (blanks (trail lay)) (valid_comment (comment lay)))))).

(* labels and directives *)
Definition valid_label (n : string) : bool :=
  match L n with c :: r => andb (is_lblfirst c) (forallb is_lblrest r) | [] => false end.
Definition valid_numlabel (n : string) : bool :=
  match L n with [] => false | l => forallb is_digit l end.
Definition valid_dirname (n : string) : bool :=
  match L n with [] => false | l => forallb is_dirname l end.
(* what follows the directive name: nothing, or a blank followed by printable text without quotes
   whose first non-blank character is not ":" (".text :" is a label) *)
Definition valid_dirrest (r : string) : bool :=
  match L r with
  | [] => true
  | c :: _ => andb (is_ws c) (andb (forallb is_textc (L r)) (andb (negb (existsb is_quote (L r)))
                   (negb (hd_eqb ":" (skip (L r))))))
  end.
