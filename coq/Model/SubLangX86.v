(* C09 -- the sub-language the round-trip theorem quantifies over: which ASTs and which layouts.
   Executable (boolean) so that the harness and the Examples can evaluate them.  No proofs here. *)
From Coq Require Import String Ascii List Bool NArith ZArith.
From OV Require Import Model.ParseX86.
Import ListNotations.

Definition allc (P : ascii -> bool) (s : string) : bool := forallb P (L s).
Definition blanks (s : string) : bool := allc is_ws s.           (* spaces, tabs, CRs *)

(* %name : any non-empty alphanumeric word (all GPR widths, xmm/ymm/zmm0-31, upper or lower case, ...) *)
Definition valid_reg (n : string) : bool :=
  match L n with [] => false | l => forallb is_alnum l end.
(* label: [A-Za-z_.][A-Za-z0-9$_.+-]* *)
Definition valid_ident (n : string) : bool :=
  match L n with c :: r => andb (is_idfirst c) (forallb is_idrest r) | [] => false end.
(* mnemonic: a letter followed by letters and digits, not starting with the prefixes data16 / data32 *)
Definition valid_mnemonic (m : string) : bool :=
  match L m with
  | c :: r => andb (is_alpha c) (andb (forallb is_alnum r)
                (negb (orb (starts (L "data16") (c :: r)) (starts (L "data32") (c :: r)))))
  | [] => false
  end.
Definition valid_scale (z : Z) : bool := orb (Z.eqb z 1) (orb (Z.eqb z 2) (orb (Z.eqb z 4) (Z.eqb z 8))).
Definition opt_reg (o : option string) : bool := match o with Some n => valid_reg n | None => true end.

(* a number as written: [-]digits+ (leading zeros allowed: the text is kept, not converted) or [-]0x hexdigits+ *)
Definition valid_numtxt (t : string) : bool :=
  let u := if hd_eqb "-" (L t) then tl (L t) else L t in
  if hex_prefix u then (match tl (tl u) with [] => false | h => forallb is_hex h end)
  else (match u with [] => false | _ => forallb is_digit u end).
(* the decimal offset after a relocation: [-]digits+ *)
Definition valid_offtxt (t : string) : bool :=
  match (if hd_eqb "-" (L t) then tl (L t) else L t) with [] => false | u => forallb is_digit u end.
Definition valid_reloc (a : string) : bool :=
  match L a with [] => false | l => forallb is_alpha l end.
Definition valid_sdisp (d : sdisp) : bool :=
  match d with
  | SNone => true
  | SNum t => valid_numtxt t
  | SId n rel off =>
      andb (valid_ident n)
           (match rel, off with
            | None, None => true
            | None, Some _ => false                   (* "+8" without a relocation is part of the name *)
            | Some a, None => valid_reloc a
            | Some a, Some t => andb (valid_reloc a) (valid_offtxt t)
            end)
  end.

Definition valid_numlabel (n : string) : bool :=
  match L n with [] => false | l => forallb is_digit l end.
Definition valid_disp (d : disp) : bool :=
  match d with
  | DId n => valid_ident n
  | DIdR n rel off => valid_sdisp (SId n (Some rel) off)
  | _ => true
  end.
(* disp(base,index,scale) with at least one register *)
Definition valid_paren_mem (d : disp) (b i : option string) (sc : Z) : bool :=
  andb (opt_reg b) (andb (opt_reg i) (andb (valid_scale sc) (andb (valid_disp d)
  (andb (match i with None => Z.eqb sc 1 | Some _ => true end)      (* no index: scale is 1 *)
        (match b, i with None, None => false | _, _ => true end))))).

(* the operands AS WRITTEN (what render can produce) *)
Definition valid_operand (o : operand) : bool :=
  match o with
  | OReg n => valid_reg n
  | OImm _ => true                                   (* any integer, any size *)
  | OId n => valid_ident n
  | OMem d b i sc =>
      match d, b, i with
      | DInt z, None, None => andb (Z.leb 0 z) (Z.eqb sc 1)           (* absolute address *)
      | _, _, _ => valid_paren_mem d b i sc
      end
  | OSeg sg d b i sc =>
      andb (valid_reg sg) (andb (opt_reg b) (andb (opt_reg i) (andb (valid_scale sc)
      (andb (valid_sdisp d)
      (andb (match i with None => Z.eqb sc 1 | Some _ => true end)
            (match b, i, d with None, None, SNone => false | _, _, _ => true end))))))   (* "%fs:" alone cannot be written *)
  | OStar (StReg n) => valid_reg n
  | OStar (StDisp d) => andb (valid_sdisp d) (match d with SNone => false | _ => true end)
  | ORegK n k _ => andb (valid_reg n) (valid_reg k)
  | OMemK d b i sc k => andb (valid_paren_mem d b i sc) (valid_reg k)
  | OIdR n rel off => valid_sdisp (SId n (Some rel) off)
  | ONumLbl d x => andb (valid_numlabel d) (one_of "bBfF" x)
  end.

(* nothing of the written operand is dropped by the code: code_view o = o *)
Definition lossless (o : operand) : bool :=
  match o with
  | ORegK _ _ _ | OMemK _ _ _ _ _ | OIdR _ _ _ | ONumLbl _ _ => false
  | OMem (DIdR _ _ _) _ _ _ => false
  | _ => true
  end.
Definition not_numlbl (o : operand) : bool := match o with ONumLbl _ _ => false | _ => true end.

(* instructions as written: a numeric label  1b / 2f  can only be the first operand *)
Definition valid_instr_w (a : instr) : bool :=
  andb (valid_mnemonic (fst a)) (andb (forallb valid_operand (snd a))
  (andb (forallb not_numlbl (tl (snd a))) (Nat.leb (length (snd a)) 4))).

(* ... of which every written part is kept by the code *)
Definition valid_instr (a : instr) : bool :=
  andb (valid_instr_w a) (forallb lossless (snd a)).

Definition valid_klay (k : klay) : bool :=
  andb (blanks (w_st k)) (andb (blanks (wk1 k)) (andb (blanks (wk2 k)) (andb (blanks (wk3 k)) (andb (blanks (wk4 k))
  (andb (blanks (wk5 k)) (andb (blanks (wk6 k)) (blanks (wk7 k)))))))).
Definition valid_oplay (lo : oplay) : bool :=
  andb (blanks (w_d lo)) (andb (blanks (w_lp lo)) (andb (blanks (w_b lo)) (andb (blanks (w_c1 lo))
  (andb (blanks (w_i lo)) (andb (blanks (w_c2 lo)) (andb (blanks (w_s lo))
  (andb (blanks (w_sg1 lo)) (andb (blanks (w_sg2 lo)) (andb (blanks (w_at lo)) (andb (blanks (w_pl1 lo)) (andb (blanks (w_pl2 lo))
  (valid_klay (lo_k lo))))))))))))).
Definition valid_oplay3 (x : oplay * string * string) : bool :=
  let '(lo, wb, wa) := x in andb (valid_oplay lo) (andb (blanks wb) (blanks wa)).
Definition valid_comment (c : option (bool * string)) : bool :=
  match c with None => true | Some (_, t) => allc is_textc t end.   (* printable ASCII and blanks *)

(* a data16 / data32 prefix is followed by at least one blank *)
Definition valid_prefix (p : bool * string) : bool := andb (blanks (snd p)) (negb (String.eqb (snd p) "")).
(* every layout whose blank strings are blanks; the only non-emptiness demanded is between the
   mnemonic and the first operand *)
Definition valid_layout (lay : layout) : bool :=
  andb (blanks (lead lay)) (andb (blanks (gap lay)) (andb (negb (String.eqb (gap lay) ""))
  (andb (forallb valid_oplay3 (lops lay)) (andb (blanks (trail lay)) (andb (valid_comment (comment lay))
  (forallb valid_prefix (prefixes lay))))))).

(* labels and directives *)
Definition valid_label (n : string) : bool :=
  match L n with c :: r => andb (is_lblfirst c) (forallb is_lblrest r) | [] => false end.
Definition valid_dirname (n : string) : bool :=
  match L n with [] => false | l => forallb is_dirname l end.
(* what follows the directive name: nothing, or a blank followed by printable text (quoted parameters included)
   whose first non-blank character is not ":" (".text :" is a label) *)
Definition valid_dirrest (r : string) : bool :=
  match L r with
  | [] => true
  | c :: _ => andb (is_ws c) (andb (forallb is_textc (L r)) (negb (hd_eqb ":" (skip (L r)))))
  end.
