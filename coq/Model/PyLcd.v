(* Prelude of the LCD / critical-path translator tools/gen_lcd.py (properties C05, C04, C14, C16): the Python
   constructs that the translated text of osaca/semantics/kernel_dg.py (check_for_loopcarried_dep,
   _paths_to_next_iteration, _extend_path, _get_node_by_lineno, get_critical_path) is written in.
   Every place where Python raises is an explicit error value.  No proofs in this file.

   Conventions of the translation (stated as trusted in notes/C05-gen.md):
   * an int is a Z, a latency is the NumOps carrier, a set is a list that is only ever tested for membership,
     a tuple is a product, a dict with str keys is an insertion-ordered association list;
   * list.sort() is the stable insertion sort w.r.t. Python's `<` (tuples and lists compare lexicographically,
     the first differing position is found with `==`); list.sort(reverse=True) is reverse . sort . reverse;
   * a graph node is `Line n` (the int n) or `Load n` (the float n + 0.1, n >= 0);
   * the objects of self.kernel live in a heap (the list of their current values); a reference is a position. *)
From Coq Require Import ZArith NArith List Bool String Ascii.
From OV Require Import Model.Num.
Import ListNotations.

(* ------------------------------------------------------------------ exceptions *)
Inductive pyerr := PIndexError | PKeyError | PValueError | PTypeError | PUnboundLocalError | PNotImplementedError.
Inductive pres (A : Type) := POk (a : A) | PErr (e : pyerr).
Arguments POk {A} a. Arguments PErr {A} e.
Definition pbind {A B} (r : pres A) (f : A -> pres B) : pres B :=
  match r with POk a => f a | PErr e => PErr e end.
Notation "x <- r ;; k" := (pbind r (fun x => k)) (at level 61, r at next level, right associativity).
Notation "' p <- r ;; k" := (pbind r (fun x => let p := x in k))
  (at level 61, p pattern, r at next level, right associativity).

(* ------------------------------------------------------------------ loops, comprehensions, variables *)
(* for x in l: s = f x s *)
Fixpoint py_for {A S} (l : list A) (s : S) (f : A -> S -> pres S) : pres S :=
  match l with [] => POk s | x :: r => s' <- f x s ;; py_for r s' f end.
(* [f x for x in l] / [x for x in l if f x] with a body that can raise *)
Fixpoint py_mapM {A B} (f : A -> pres B) (l : list A) : pres (list B) :=
  match l with [] => POk [] | x :: r => y <- f x ;; ys <- py_mapM f r ;; POk (y :: ys) end.
Fixpoint py_filterM {A} (f : A -> pres bool) (l : list A) : pres (list A) :=
  match l with [] => POk [] | x :: r => b <- f x ;; ys <- py_filterM f r ;; POk (if b then x :: ys else ys) end.
(* a local variable that is bound inside a loop and read after it: None = not (yet) bound *)
Definition py_bound {A} (o : option A) : pres A :=
  match o with Some a => POk a | None => PErr PUnboundLocalError end.

(* ------------------------------------------------------------------ lists *)
Definition py_nth {A} (l : list A) (i : nat) : pres A :=                      (* l[i], i a non-negative literal *)
  match nth_error l i with Some x => POk x | None => PErr PIndexError end.
Definition py_last {A} (l : list A) : pres A :=                               (* l[-1] *)
  match l with [] => PErr PIndexError | x :: r => POk (last r x) end.
Definition py_drop_last {A} (l : list A) : list A := removelast l.            (* l[:-1] *)
Definition py_list_insert {A} (l : list A) (i : nat) (x : A) : list A :=      (* l.insert(i, x), i a non-negative literal *)
  firstn i l ++ x :: skipn i l.
Definition py_max_list_Z (l : list Z) : pres Z :=                             (* max(l): ValueError on an empty list *)
  match l with [] => PErr PValueError | x :: r => POk (fold_left Z.max r x) end.
(* nx.utils.pairwise *)
Fixpoint py_pairwise {A} (l : list A) : list (A * A) :=
  match l with
  | a :: r => match r with b :: _ => (a, b) :: py_pairwise r | [] => [] end
  | [] => []
  end.
(* max(l, key=...): position of the FIRST item whose key is maximal (an item replaces the incumbent only if its key is `>`) *)
Fixpoint py_max_key_go {K} (gt : K -> K -> bool) (ks : list K) (i bi : nat) (bk : K) : nat :=
  match ks with
  | [] => bi
  | k :: r => if gt k bk then py_max_key_go gt r (S i) i k else py_max_key_go gt r (S i) bi bk
  end.
Definition py_max_key_idx {K} (gt : K -> K -> bool) (ks : list K) : pres nat :=
  match ks with [] => PErr PValueError | k :: r => POk (py_max_key_go gt r 1 0 k) end.
(* positions of the items satisfying f *)
Fixpoint py_filter_idx_from {A} (f : A -> bool) (l : list A) (i : nat) : list nat :=
  match l with [] => [] | x :: r => if f x then i :: py_filter_idx_from f r (S i) else py_filter_idx_from f r (S i) end.
Definition py_filter_idx {A} (f : A -> bool) (l : list A) : list nat := py_filter_idx_from f l 0.

(* ------------------------------------------------------------------ comparison of tuples and lists, sort *)
Definition py_tuple_eq {A B} (ea : A -> A -> bool) (eb : B -> B -> bool) (x y : A * B) : bool :=
  andb (ea (fst x) (fst y)) (eb (snd x) (snd y)).
Definition py_tuple_lt {A B} (ea la : A -> A -> bool) (eb lb : B -> B -> bool) (x y : A * B) : bool :=
  if ea (fst x) (fst y) then (if eb (snd x) (snd y) then false else lb (snd x) (snd y)) else la (fst x) (fst y).
Fixpoint py_list_eq {A} (e : A -> A -> bool) (a b : list A) : bool :=
  match a, b with
  | [], [] => true
  | x :: r, y :: s => andb (e x y) (py_list_eq e r s)
  | _, _ => false
  end.
Fixpoint py_list_lt {A} (e l : A -> A -> bool) (a b : list A) : bool :=
  match a, b with
  | [], [] => false
  | [], _ :: _ => true
  | _ :: _, [] => false
  | x :: r, y :: s => if e x y then py_list_lt e l r s else l x y
  end.
(* x precedes everything in l in the original order: it goes in front of the first y that is not < x *)
Fixpoint py_insert {A} (lt : A -> A -> bool) (x : A) (l : list A) : list A :=
  match l with [] => [x] | y :: r => if lt y x then y :: py_insert lt x r else x :: l end.
Definition py_sort {A} (lt : A -> A -> bool) (l : list A) : list A := fold_right (py_insert lt) [] l.
Definition py_sort_rev {A} (lt : A -> A -> bool) (l : list A) : list A := rev (py_sort lt (rev l)).

(* ------------------------------------------------------------------ sets (membership only), dicts with str keys *)
Definition py_set_mem {A} (e : A -> A -> bool) (x : A) (s : list A) : bool := existsb (e x) s.
Definition py_set_add {A} (x : A) (s : list A) : list A := x :: s.
Fixpoint py_dict_set {V} (d : list (string * V)) (k : string) (v : V) : list (string * V) :=
  match d with
  | [] => [(k, v)]
  | (k', v') :: r => if String.eqb k k' then (k', v) :: r else (k', v') :: py_dict_set r k v
  end.

(* ------------------------------------------------------------------ str(int), sep.join *)
Fixpoint dec_digits (fuel : nat) (n : N) (acc : string) : string :=
  match fuel with
  | O => acc
  | S f => let acc' := String (ascii_of_N (48 + n mod 10)) acc in
           if (n / 10 =? 0)%N then acc' else dec_digits f (n / 10)%N acc'
  end.
Definition py_str_N (n : N) : string := dec_digits (S (N.to_nat (N.log2 n))) n "".
Definition py_str_Z (z : Z) : string :=
  match z with Z0 => "0" | Zpos p => py_str_N (Npos p) | Zneg p => String "-" (py_str_N (Npos p)) end.
Fixpoint py_join (sep : string) (l : list string) : string :=
  match l with
  | [] => ""
  | x :: r => match r with [] => x | _ :: _ => x ++ sep ++ py_join sep r end
  end.

(* ------------------------------------------------------------------ graph nodes *)
Inductive node := Line (n : Z) | Load (n : Z).
Definition node_eqb (a b : node) : bool :=
  match a, b with Line x, Line y => Z.eqb x y | Load x, Load y => Z.eqb x y | _, _ => false end.
(* s == d + 0.1 *)
Definition node_is_load_of (s d : node) : bool :=
  match s, d with Load x, Line y => Z.eqb x y | _, _ => false end.
Definition node_int (a : node) : Z := match a with Line n => n | Load n => n end.          (* int(a) *)
Definition node_eq_int (a : node) (z : Z) : bool := match a with Line n => Z.eqb n z | Load _ => false end.   (* a == z *)

(* ------------------------------------------------------------------ nx.DiGraph as a container:
   nodes in insertion order, every node with its successors (and the `latency` attribute of the edge) in insertion order *)
Definition nxg (T : Type) := list (node * list (node * T)).
Section Nx.
  Context {T : Type}.
  Definition nx_empty : nxg T := [].
  Fixpoint nx_add_node (g : nxg T) (n : node) : nxg T :=
    match g with
    | [] => [(n, [])]
    | (m, a) :: r => if node_eqb m n then (m, a) :: r else (m, a) :: nx_add_node r n
    end.
  Definition nx_nodes (g : nxg T) : list node := map fst g.
  Definition nx_add_nodes_from (g : nxg T) (ns : list node) : nxg T := fold_left nx_add_node ns g.
  Fixpoint adj_set (a : list (node * T)) (v : node) (w : T) : list (node * T) :=
    match a with
    | [] => [(v, w)]
    | (v', w') :: r => if node_eqb v' v then (v', w) :: r else (v', w') :: adj_set r v w
    end.
  Fixpoint nx_set_edge (g : nxg T) (u v : node) (w : T) : nxg T :=
    match g with
    | [] => []
    | (m, a) :: r => if node_eqb m u then (m, adj_set a v w) :: r else (m, a) :: nx_set_edge r u v w
    end.
  (* G.add_edge(u, v, latency=w): both nodes are added if missing, an existing edge keeps its place and gets the new value *)
  Definition nx_add_edge (g : nxg T) (u v : node) (w : T) : nxg T :=
    nx_set_edge (nx_add_node (nx_add_node g u) v) u v w.
  (* G.edges(data="latency") *)
  Definition nx_edges_data (g : nxg T) : list (node * node * T) :=
    flat_map (fun ua => map (fun vw => (fst ua, fst vw, snd vw)) (snd ua)) g.
  (* G.out_edges(n, data="latency") *)
  Definition nx_out_edges_data (g : nxg T) (n : node) : list (node * node * T) :=
    flat_map (fun ua => if node_eqb (fst ua) n then map (fun vw => (fst ua, fst vw, snd vw)) (snd ua) else []) g.
  (* G.edges[u, v]["latency"]: KeyError when there is no such edge *)
  Fixpoint adj_get (a : list (node * T)) (v : node) : pres T :=
    match a with [] => PErr PKeyError | (v', w) :: r => if node_eqb v' v then POk w else adj_get r v end.
  Fixpoint nx_edge_latency (g : nxg T) (u v : node) : pres T :=
    match g with
    | [] => PErr PKeyError
    | (m, a) :: r => if node_eqb m u then adj_get a v else nx_edge_latency r u v
    end.
End Nx.

(* ------------------------------------------------------------------ the heap of self.kernel *)
Definition py_refs {A} (h : list A) : list nat := seq 0 (List.length h).       (* self.kernel as references *)
Definition py_deref {A} (h : list A) (r : nat) : pres A := py_nth h r.
Fixpoint py_heap_set {A} (h : list A) (r : nat) (v : A) : pres (list A) :=
  match h, r with
  | [], _ => PErr PIndexError
  | _ :: t, O => POk (v :: t)
  | x :: t, S j => t' <- py_heap_set t j v ;; POk (x :: t')
  end.
