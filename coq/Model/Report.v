(* C13: the report of osaca/frontend.py as a STRUCTURE (rows of cells, summary row, warnings, LCD list), the
   machine-readable dict, the request-dependent decisions of osaca.py:inspect, and the comparator used by the
   correspondence check.  Numbers are binary64 (Model/Num.v); cells carry the value and the number of decimals
   shown, Model/Fmt.v turns them into characters.  No proofs in this file (Proofs/Report.v). *)
From Coq Require Import ZArith QArith List Bool String Ascii Arith.
From Coq Require Import PrimFloat SpecFloat FloatOps.
From OV Require Import Model.Num Model.Fmt.
Import ListNotations.
Open Scope string_scope.

(* ------------------------------------------------------------------ inputs: the analysed kernel *)
Record flagset := { fl_tp_unkwn : bool; fl_lt_unkwn : bool; fl_not_bound : bool; fl_hidden_ld : bool;
                    fl_ld : bool; fl_has_ld : bool; fl_has_st : bool }.

Record aline := {
  l_num : Z;                 (* line_number *)
  l_press : list float;      (* port_pressure, one entry per port of the model *)
  l_used : list string;      (* ports named by the line's micro-ops (port_uops) *)
  l_tp : float;              (* throughput *)
  l_lat_cp : float;          (* latency_cp *)
  l_flags : flagset;
  l_instr : bool             (* mnemonic is not None *)
}.

Record cp_entry := { cp_num : Z; cp_lat : float }.                 (* an element of get_critical_path() *)
Record lcd_entry := { lcd_lat : float; lcd_deps : list (Z * float) }.
   (* a value of get_loopcarried_dependencies(): "latency", "dependencies" as (line number, latency);
      its key is the "-"-joined line numbers of the dependencies *)

Record analysis := {
  a_ports : list string;
  a_kernel : list aline;
  a_cp : list cp_entry;
  a_lcd : list lcd_entry;    (* dict in insertion order *)
  a_timed_out : bool
}.

Record request := {
  q_arch : option string;    (* --arch *)
  q_lines_given : bool;      (* --lines *)
  q_marker_found : bool;     (* the file contains kernel markers *)
  q_parsed : nat;            (* number of parsed (non-blank) lines of the file *)
  q_ignore_unknown : bool;
  q_cnt_x86 : nat;           (* detect_ISA's register-spelling counts *)
  q_cnt_a64 : nat;
  q_first_parse_ok : bool    (* the parser of the detected ISA accepts the file *)
}.

(* ------------------------------------------------------------------ outputs: report structure *)
Inductive cell := Blank | Shown (digits : nat) (v : float).

Record row := { r_num : Z; r_press : list cell; r_cp : option float; r_lcd : option float; r_flags : string }.
Record summary_row := { s_press : list cell; s_cp : float; s_lcd : float }.
Record warnings := { w_arch : bool; w_length : bool; w_lcd_timeout : bool; w_missing : option nat }.
Record lcd_row := { lr_first : Z; lr_lat : float; lr_members : list Z }.
Record report := { rows : list row; summary : option summary_row; warns : warnings; lcd_list : list lcd_row }.

(* the dict of full_analysis_dict (numeric part) *)
Record dline := { d_num : Z; d_press : list float; d_lat_cp : float; d_lat_lcd : float; d_flags : flagset; d_tp : float }.
Record ddict := { dd_warnings : list string; dd_kernel : list dline; dd_sum_press : list float; dd_cp : float; dd_lcd : float }.

(* ------------------------------------------------------------------ small helpers *)
Definition f_ltb_exact (a b : float) : bool := negb (Qle_bool (f_to_Q b) (f_to_Q a)).   (* a < b on exact values *)

(* Python max(dict, key=latency): the first entry with the largest latency *)
Fixpoint first_max_from (best : lcd_entry) (l : list lcd_entry) : lcd_entry :=
  match l with
  | [] => best
  | e :: r => first_max_from (if f_ltb_exact (lcd_lat best) (lcd_lat e) then e else best) r
  end.
Definition longest_lcd (l : list lcd_entry) : option lcd_entry :=
  match l with [] => None | e :: r => Some (first_max_from e r) end.

(* {line: lat for (line, lat) in deps}.get(n): the last binding wins *)
Fixpoint dict_get (n : Z) (deps : list (Z * float)) : option float :=
  match deps with
  | [] => None
  | (k, v) :: r => match dict_get n r with Some w => Some w | None => if Z.eqb k n then Some v else None end
  end.

Definition lcd_lines (a : analysis) : list (Z * float) :=
  match longest_lcd (a_lcd a) with Some e => lcd_deps e | None => [] end.
Definition lcd_sum (a : analysis) : float :=
  match longest_lcd (a_lcd a) with Some e => lcd_lat e | None => 0%float end.

Definition str_mem (s : string) (l : list string) : bool := existsb (String.eqb s) l.

(* len(str(float(v)).split(".")[0]) for |v| < 1e16: sign and integer digits ('nan', 'inf', '-inf' as spelled) *)
Definition left_len (v : float) : nat :=
  match f_decode v with
  | FD_fin s num den => (if s then 1 else 0) + String.length (int_digits (num / Zpos den))
  | FD_inf s => if s then 4 else 3
  | FD_nan => 3
  end.

(* _get_max_port_len: 4, or the longest '{:.2f}' of the column *)
Fixpoint port_len_col (i : nat) (k : list aline) (acc : nat) : nat :=
  match k with
  | [] => acc
  | l :: r => port_len_col i r (Nat.max acc (String.length (fmt_fixed 2 (nth i (l_press l) 0%float))))
  end.
Definition port_lens (a : analysis) : list nat :=
  map (fun i => port_len_col i (a_kernel a) 4) (seq 0 (List.length (a_ports a))).

(* one cell of _get_port_pressure *)
Definition press_cell (plen : nat) (used : bool) (v : float) : cell :=
  if andb (f_is_zero v) (negb used) then Blank
  else let d := (plen - left_len v - 1)%nat in Shown (match d with O => 1%nat | _ => d end) v.

Fixpoint press_cells (ports : list string) (plens : list nat) (used : list string) (vs : list float) : list cell :=
  match ports, plens, vs with
  | p :: ps, n :: ns, v :: r => press_cell n (str_mem p used) v :: press_cells ps ns used r
  | _, _, _ => []
  end.

Definition flag_symbols (f : flagset) : string :=
  let s := (if fl_not_bound f then "*" else "") ++ (if fl_tp_unkwn f then "X" else "") ++ (if fl_hidden_ld f then "P" else "") in
  match s with EmptyString => " " | _ => s end.

Definition cp_cell (cp : list cp_entry) (n : Z) : option float :=
  match find (fun e => Z.eqb (cp_num e) n) cp with Some e => Some (cp_lat e) | None => None end.

Definition row_of (a : analysis) (plens : list nat) (l : aline) : row :=
  {| r_num := l_num l;
     r_press := press_cells (a_ports a) plens (l_used l) (l_press l);
     r_cp := cp_cell (a_cp a) (l_num l);
     r_lcd := dict_get (l_num l) (lcd_lines a);
     r_flags := if l_instr l then flag_symbols (l_flags l) else " " |}.

(* ArchSemantics.get_throughput_sum: the columns of the row list, truncated to the shortest row (Python zip with star-args) *)
Fixpoint zip_cons (r : list float) (cols : list (list float)) : list (list float) :=
  match r, cols with
  | v :: r', c :: cols' => (v :: c) :: zip_cons r' cols'
  | _, _ => []
  end.
Fixpoint zip_cols (rows : list (list float)) : list (list float) :=
  match rows with
  | [] => []
  | [r] => map (fun v => [v]) r
  | r :: rest => zip_cons r (zip_cols rest)
  end.
Definition summed_lines (k : list aline) : list aline := filter (fun l => negb (f_is_zero (l_tp l))) k.
Definition throughput_sum (k : list aline) : list float :=
  map (fun col => f_round2 (f_sum col)) (zip_cols (map l_press (summed_lines k))).
Definition tp_sum (k : list aline) : list float :=      (* `get_throughput_sum(kernel) or kernel[0].port_pressure` *)
  match throughput_sum k with
  | [] => match k with l :: _ => l_press l | [] => [] end
  | s => s
  end.

Definition unknown_lines (k : list aline) : list aline := filter (fun l => fl_tp_unkwn (l_flags l)) k.

(* sorted(dep_dict.keys()): Python string order of the "-"-joined keys *)
Fixpoint join_key (l : list Z) : string :=
  match l with
  | [] => ""
  | [n] => int_digits n
  | n :: r => int_digits n ++ "-" ++ join_key r
  end.
Definition lcd_key (e : lcd_entry) : string := join_key (map fst (lcd_deps e)).
Fixpoint str_leb (a b : string) : bool :=
  match a, b with
  | EmptyString, _ => true
  | String _ _, EmptyString => false
  | String c a', String d b' =>
    let x := nat_of_ascii c in let y := nat_of_ascii d in
    if (x <? y)%nat then true else if (y <? x)%nat then false else str_leb a' b'
  end.
Fixpoint insert_by_key (e : lcd_entry) (l : list lcd_entry) : list lcd_entry :=
  match l with
  | [] => [e]
  | h :: t => if str_leb (lcd_key e) (lcd_key h) then e :: l else h :: insert_by_key e t
  end.
Definition sort_by_key (l : list lcd_entry) : list lcd_entry := fold_right insert_by_key [] l.

Definition lcd_row_of (e : lcd_entry) : lcd_row :=
  {| lr_first := match lcd_deps e with (n, _) :: _ => n | [] => 0%Z end;
     lr_lat := lcd_lat e; lr_members := map fst (lcd_deps e) |}.

(* ------------------------------------------------------------------ osaca.py:inspect decisions *)
Inductive isa := X86 | A64.
Definition detect_isa (cx ca : nat) : isa := if (cx <? ca)%nat then A64 else X86.   (* max(items)[0]: first maximum, x86 first *)
Definition default_arch (i : isa) : string := match i with X86 => "SPR" | A64 => "V2" end.
Definition other_isa (i : isa) : isa := match i with X86 => A64 | A64 => X86 end.

Definition arch_used (q : request) : string :=
  match q_arch q with
  | Some a => a
  | None => let i := detect_isa (q_cnt_x86 q) (q_cnt_a64 q) in
            default_arch (if q_first_parse_ok q then i else other_isa i)
  end.
Definition print_arch_warning (q : request) : bool := match q_arch q with Some _ => false | None => true end.
Definition print_length_warning (q : request) (klen : nat) : bool :=
  if q_lines_given q then false else andb (klen =? q_parsed q)%nat (100 <? klen)%nat.

(* ------------------------------------------------------------------ combined view + LCD list + warnings *)
Definition report_model (q : request) (a : analysis) : option report :=
  match a_kernel a with
  | [] => None                                (* kernel[-1] raises IndexError *)
  | _ =>
    let plens := port_lens a in
    let unknown := unknown_lines (a_kernel a) in
    let suppressed := andb (negb (q_ignore_unknown q)) (match unknown with [] => false | _ => true end) in
    Some {|
      rows := map (row_of a plens) (a_kernel a);
      summary := if suppressed then None
                 else Some {| s_press := press_cells (a_ports a) plens [] (tp_sum (a_kernel a));
                              s_cp := f_sum (map cp_lat (a_cp a));
                              s_lcd := lcd_sum a |};
      warns := {| w_arch := print_arch_warning q;
                  w_length := print_length_warning q (List.length (a_kernel a));
                  w_lcd_timeout := a_timed_out a;
                  w_missing := if suppressed then Some (List.length unknown) else None |};
      lcd_list := map lcd_row_of (sort_by_key (a_lcd a))
    |}
  end.

Definition dict_model (q : request) (a : analysis) : ddict :=
  {| dd_warnings := (if print_arch_warning q then ["ArchWarning"] else [])
                    ++ (if print_length_warning q (List.length (a_kernel a)) then ["LengthWarning"] else [])
                    ++ (if a_timed_out a then ["LCDWarning"] else [])
                    ++ (match unknown_lines (a_kernel a) with [] => [] | _ => ["UnknownInstrWarning"] end);
     dd_kernel := map (fun l => {| d_num := l_num l; d_press := l_press l; d_lat_cp := l_lat_cp l;
                                   d_lat_lcd := match dict_get (l_num l) (lcd_lines a) with Some v => v | None => 0%float end;
                                   d_flags := l_flags l; d_tp := l_tp l |}) (a_kernel a);
     dd_sum_press := tp_sum (a_kernel a);
     dd_cp := f_sum (map cp_lat (a_cp a));
     dd_lcd := lcd_sum a |}.

(* ------------------------------------------------------------------ what the harness observed *)
Record orow := { o_num : Z; o_cells : list string; o_cp : option float; o_lcd : option float; o_flags : string }.
Record osummary := { os_cells : list string; os_cp : float; os_lcd : float }.
Record olcd := { ol_first : Z; ol_lat : string; ol_members : list Z }.
Record otext := { ot_arch : string; ot_rows : list orow; ot_summary : option osummary; ot_missing : option string;
                  ot_w_arch : bool; ot_w_length : bool; ot_w_lcd : bool; ot_lcd : list olcd }.
Record oyline := { oy_num : Z; oy_press : list float; oy_cp : float; oy_lcd : float; oy_flags : flagset; oy_tp : float }.
Record oyaml := { oy_warnings : list string; oy_kernel : list oyline; oy_sum : list float; oy_sum_cp : float; oy_sum_lcd : float }.

Definition render_cell (c : cell) : string := match c with Blank => "" | Shown d v => fmt_fixed d v end.

Definition opt_biteq (a b : option float) : bool :=
  match a, b with Some x, Some y => f_biteq x y | None, None => true | _, _ => false end.
Fixpoint list_eqb {A} (eq : A -> A -> bool) (a b : list A) : bool :=
  match a, b with [] , [] => true | x :: r, y :: s => andb (eq x y) (list_eqb eq r s) | _, _ => false end.
Definition flagset_eqb (a b : flagset) : bool :=
  andb (Bool.eqb (fl_tp_unkwn a) (fl_tp_unkwn b)) (andb (Bool.eqb (fl_lt_unkwn a) (fl_lt_unkwn b))
  (andb (Bool.eqb (fl_not_bound a) (fl_not_bound b)) (andb (Bool.eqb (fl_hidden_ld a) (fl_hidden_ld b))
  (andb (Bool.eqb (fl_ld a) (fl_ld b)) (andb (Bool.eqb (fl_has_ld a) (fl_has_ld b)) (Bool.eqb (fl_has_st a) (fl_has_st b))))))).

Definition row_agrees (r : row) (o : orow) : bool :=
  andb (Z.eqb (r_num r) (o_num o))
  (andb (list_eqb String.eqb (map render_cell (r_press r)) (o_cells o))
  (andb (opt_biteq (r_cp r) (o_cp o)) (andb (opt_biteq (r_lcd r) (o_lcd o)) (String.eqb (r_flags r) (o_flags o))))).

Definition summary_agrees (s : option summary_row) (o : option osummary) : bool :=
  match s, o with
  | None, None => true
  | Some s, Some o => andb (list_eqb String.eqb (map render_cell (s_press s)) (os_cells o))
                           (andb (f_biteq (s_cp s) (os_cp o)) (f_biteq (s_lcd s) (os_lcd o)))
  | _, _ => false
  end.

Definition nat_string (n : nat) : string := int_digits (Z.of_nat n).
Definition missing_agrees (m : option nat) (o : option string) : bool :=
  match m, o with None, None => true | Some n, Some s => String.eqb (nat_string n) s | _, _ => false end.

Definition lcd_row_agrees (r : lcd_row) (o : olcd) : bool :=
  andb (Z.eqb (lr_first r) (ol_first o))
  (andb (String.eqb (fmt_fixed 1 (lr_lat r)) (ol_lat o)) (list_eqb Z.eqb (lr_members r) (ol_members o))).

Definition dline_agrees (d : dline) (o : oyline) : bool :=
  andb (Z.eqb (d_num d) (oy_num o))
  (andb (f_list_biteq (d_press d) (oy_press o))
  (andb (f_biteq (d_lat_cp d) (oy_cp o)) (andb (f_biteq (d_lat_lcd d) (oy_lcd o))
  (andb (flagset_eqb (d_flags d) (oy_flags o)) (f_biteq (d_tp d) (oy_tp o)))))).

(* indices (from 0) of the positions where two lists disagree; a length difference is reported as one more index *)
Fixpoint bad_at {A B} (ok : A -> B -> bool) (i : nat) (a : list A) (b : list B) : list nat :=
  match a, b with
  | [], [] => []
  | x :: r, y :: s => if ok x y then bad_at ok (S i) r s else i :: bad_at ok (S i) r s
  | _, _ => [i]
  end.

Definition tag (name : string) (ok : bool) : list string := if ok then [] else [name].
Definition tag_at (name : string) (l : list nat) : list string :=
  map (fun i => name ++ "@" ++ nat_string i) (firstn 3 l).

(* the comparator: [] iff the observed text and YAML are the model's report and dict *)
Definition report_agrees (q : request) (a : analysis) (t : otext) (y : oyaml) : list string :=
  match report_model q a with
  | None => ["model: empty kernel"]
  | Some r =>
    let d := dict_model q a in
    tag "arch" (String.eqb (arch_used q) (ot_arch t))
    ++ tag_at "row" (bad_at row_agrees 0 (rows r) (ot_rows t))
    ++ tag "summary" (summary_agrees (summary r) (ot_summary t))
    ++ tag "missing-warning" (missing_agrees (w_missing (warns r)) (ot_missing t))
    ++ tag "arch-warning" (Bool.eqb (w_arch (warns r)) (ot_w_arch t))
    ++ tag "length-warning" (Bool.eqb (w_length (warns r)) (ot_w_length t))
    ++ tag "lcd-warning" (Bool.eqb (w_lcd_timeout (warns r)) (ot_w_lcd t))
    ++ tag_at "lcd-list" (bad_at lcd_row_agrees 0 (lcd_list r) (ot_lcd t))
    ++ tag "yaml-warnings" (list_eqb String.eqb (dd_warnings d) (oy_warnings y))
    ++ tag_at "yaml-line" (bad_at dline_agrees 0 (dd_kernel d) (oy_kernel y))
    ++ tag "yaml-sum-press" (f_list_biteq (dd_sum_press d) (oy_sum y))
    ++ tag "yaml-sum-cp" (f_biteq (dd_cp d) (oy_sum_cp y))
    ++ tag "yaml-sum-lcd" (f_biteq (dd_lcd d) (oy_sum_lcd y))
  end.

(* well-formedness of an analysis, as a boolean the harness evaluates on every case *)
Fixpoint nodupb (l : list Z) : bool :=
  match l with [] => true | x :: r => andb (negb (existsb (Z.eqb x) r)) (nodupb r) end.
Fixpoint sublist_cp (cp : list cp_entry) (k : list aline) : bool :=     (* cp is a subsequence of the kernel, same latency_cp *)
  match cp, k with
  | [], _ => true
  | _ :: _, [] => false
  | e :: cp', l :: k' => if andb (Z.eqb (cp_num e) (l_num l)) (f_biteq (cp_lat e) (l_lat_cp l)) then sublist_cp cp' k' else sublist_cp cp k'
  end.
Definition wf_analysis (a : analysis) : bool :=
  andb (forallb (fun l => (List.length (l_press l) =? List.length (a_ports a))%nat) (a_kernel a))
  (andb (nodupb (map l_num (a_kernel a)))
  (andb (sublist_cp (a_cp a) (a_kernel a))
  (andb (forallb (fun l => orb (l_instr l) (negb (fl_tp_unkwn (l_flags l)))) (a_kernel a))
        (forallb (fun e => match lcd_deps e with [] => false | _ => true end) (a_lcd a))))).
