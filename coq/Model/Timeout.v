(* C19 -- executable model of the time-out handling of check_for_loopcarried_dep
   (kernel_dg.py, "for p in processes: p.start()" ... "all_paths = list(all_paths)") as a state
   machine over abstract time.  NO proofs here.

   Time is an integer (any unit).  clk i is the i-th reading of time.time() by the parent:
   clk 0 is `start_time`, clk i (i >= 1) is the reading in the i-th evaluation of the `while`
   condition; is_alive() of that iteration is observed at the same instant.  A worker is a list of
   extend blocks, each with the instant at which it has arrived in the manager's list, and the
   instant at which the process has terminated (None: it does not terminate by itself). *)
From Coq Require Import ZArith List Bool.
From OV Require Import Model.Parallel.
Import ListNotations.
Open Scope Z_scope.

Record worker := mkworker { w_blocks : list (Z * list path); w_fin : option Z }.

Definition alive (w : worker) (t : Z) : bool :=
  match w_fin w with None => true | Some f => t <? f end.
Definition all_blocks (w : worker) : list (list path) := map snd (w_blocks w).
(* what a worker has delivered when it is killed at t (or has terminated before t) *)
Definition delivered (w : worker) (t : Z) : list (list path) :=
  if alive w t then map snd (filter (fun b => fst b <? t) (w_blocks w)) else all_blocks w.
Definition any_alive (ws : list worker) (t : Z) : bool := existsb (fun w => alive w t) ws.

Inductive exit_kind :=
| ExitUntimed     (* timeout == -1: unconditional joins *)
| ExitAllDone     (* `break` after joining: no worker alive at a poll within the deadline *)
| ExitDeadline    (* `while ... else`: the condition became false *)
| Hangs           (* timeout == -1 and a worker that never terminates: join blocks for ever *)
| OutOfFuel.      (* artefact of the fuel; shown unreachable for a clock that advances *)

Record outcome := mkout {
  how : exit_kind;
  exit_poll : nat;                 (* index of the clock reading at which the loop was left *)
  timed_out : bool;                (* self.timed_out *)
  killed : list bool;              (* per worker: os.kill(pid, SIGKILL) was issued *)
  joined : list bool;              (* per worker: p.join() was called *)
  shared : list (list path) }.     (* blocks in the manager list when it is copied *)

(* when is self.timed_out set in the `while ... else:` branch?
   FlagOnExhaustion: unconditionally, as the first statement of the branch (the code as shipped);
   FlagOnKill: inside `if p.is_alive():`, i.e. only when a live worker is actually killed
   (patches/C19-fix-flag-only-when-a-worker-is-killed.diff).  checks/c19.py reads the rule off the source. *)
Inductive flag_rule := FlagOnExhaustion | FlagOnKill.
Definition flag_at (rule : flag_rule) (ws : list worker) (now : Z) : bool :=
  match rule with FlagOnExhaustion => true | FlagOnKill => any_alive ws now end.

Definition all_false (ws : list worker) : list bool := map (fun _ => false) ws.
Definition all_true (ws : list worker) : list bool := map (fun _ => true) ws.

Fixpoint poll (rule : flag_rule) (fuel : nat) (clk : nat -> Z) (T : Z) (ws : list worker) (i : nat) : outcome :=
  match fuel with
  | O => mkout OutOfFuel i false [] [] []
  | S f =>
      let now := clk i in
      if now - clk 0%nat <=? T then                             (* while time.time() - start_time <= timeout: *)
        if any_alive ws now then poll rule f clk T ws (S i)        (*   if any(p.is_alive() ...): time.sleep(0.2) *)
        else mkout ExitAllDone i false (all_false ws) (all_true ws) (flat_map all_blocks ws)  (* join; break *)
      else                                                    (* else: [timed_out = True;] kill live ones [timed_out = True]; join *)
        mkout ExitDeadline i (flag_at rule ws now) (map (fun w => alive w now) ws) (all_true ws)
              (flat_map (fun w => delivered w now) ws)
  end.

Definition fuel_for (T step : Z) : nat := Z.to_nat (T / step) + 2.
Definition terminates (w : worker) : bool := match w_fin w with Some _ => true | None => false end.

(* the parallel branch; step = the sleep between two polls (0.2 s) *)
Definition run_parallel (rule : flag_rule) (clk : nat -> Z) (step T : Z) (ws : list worker) : outcome :=
  if T =? -1 then
    if forallb terminates ws
    then mkout ExitUntimed 0 false (all_false ws) (all_true ws) (flat_map all_blocks ws)
    else mkout Hangs 0 false [] [] []
  else poll rule (fuel_for T step) clk T ws 1.

(* check_for_loopcarried_dep as a whole: (timed_out, wall time spent in the search, blocks found).
   Below the threshold the search runs in the calling process for as long as it takes (seq_work)
   and never looks at the timeout. *)
Definition analyse (rule : flag_rule) (threshold klen : Z) (clk : nat -> Z) (step T : Z) (ws : list worker) (seq_work : Z)
  : bool * Z * list (list path) :=
  if threshold <=? klen then
    let o := run_parallel rule clk step T ws in (timed_out o, clk (exit_poll o) - clk 0%nat, shared o)
  else (false, seq_work, flat_map all_blocks ws).

(* a clock that advances: at least `step` between two polls *)
Definition ClockOK (clk : nat -> Z) (step : Z) : Prop :=
  0 < step /\ clk 0%nat <= clk 1%nat /\ forall i, (1 <= i)%nat -> clk i + step <= clk (S i).

(* ------------------------------------------------------------------ the sequential branch (kernels below the threshold)
   `analyse` above treats it as a black box that takes seq_work and never reads the timeout (the code as
   shipped).  Here it is a state machine of its own, over the same kind of abstract clock.

   The enumeration `all` is what the chained all_simple_paths generators yield, in their order, when
   they are run to exhaustion.  One step of the machine = one resumption of the generator: it either
   yields the next path or reports exhaustion.  clk 0 is `start_time`; clk i (1 <= i <= length all) is
   the reading of time.time() made right after the i-th path has been yielded (the deadline test
   `timeout != -1 and time.time() - start_time > timeout` that the repaired loop evaluates BEFORE it
   appends the path); clk (S (length all)) is the instant at which the generator reports exhaustion.
   A path that is yielded at a reading beyond the deadline is not appended: the flag then says that
   a genuine path is missing from the result.

   SeqIgnoresTimeout  : the code as shipped (all_paths.extend(generator): no clock reading at all);
   SeqDeadlinePerPath : patches/C19-fix-sequential-timeout.diff.  checks/c19.py reads the rule off the source. *)
Inductive seq_rule := SeqIgnoresTimeout | SeqDeadlinePerPath.

Inductive seq_exit :=
| SeqExhausted      (* the generators ran to their end *)
| SeqCut            (* `self.timed_out = True; break` *)
| SeqOutOfFuel.     (* artefact of the fuel; shown unreachable *)

Section Sequential.
  Context {A : Type}.     (* a path; the machine never looks inside *)

  Record seq_state := mkst {
    st_n : nat;              (* paths yielded so far = clock readings made after start_time *)
    st_acc : list A;         (* all_paths *)
    st_rest : list A }.      (* what the generators would still yield *)

  Record seq_outcome := mkseq {
    s_how : seq_exit;
    s_exit : nat;            (* index of the instant (in clk) at which the loop is left *)
    s_flag : bool;           (* self.timed_out *)
    s_result : list A }.     (* all_paths when the loop is left *)

  (* timeout != -1 and time.time() - start_time > timeout, evaluated at reading i *)
  Definition late (clk : nat -> Z) (T : Z) (i : nat) : bool :=
    negb (T =? -1) && (T <? clk i - clk 0%nat).

  Definition seq_step (rule : seq_rule) (clk : nat -> Z) (T : Z) (s : seq_state) : seq_state + seq_outcome :=
    match st_rest s with
    | [] => inr (mkseq SeqExhausted (S (st_n s)) false (st_acc s))             (* StopIteration: the for loop ends *)
    | p :: r =>                                                                (* the generator yields p *)
        let i := S (st_n s) in
        match rule with
        | SeqIgnoresTimeout => inl (mkst i (st_acc s ++ [p]) r)
        | SeqDeadlinePerPath =>
            if late clk T i then inr (mkseq SeqCut i true (st_acc s))          (* self.timed_out = True; break *)
            else inl (mkst i (st_acc s ++ [p]) r)                              (* all_paths.append(path) *)
        end
    end.

  Fixpoint seq_iter (rule : seq_rule) (fuel : nat) (clk : nat -> Z) (T : Z) (s : seq_state) : seq_outcome :=
    match fuel with
    | O => mkseq SeqOutOfFuel (st_n s) false (st_acc s)
    | S f => match seq_step rule clk T s with
             | inl s' => seq_iter rule f clk T s'
             | inr o => o
             end
    end.

  Definition run_sequential (rule : seq_rule) (clk : nat -> Z) (T : Z) (all : list A) : seq_outcome :=
    seq_iter rule (S (length all)) clk T (mkst 0 [] all).
End Sequential.

(* check_for_loopcarried_dep as a whole with the sequential branch as a state machine:
   (timed_out, time spent in the search, paths handed to the post-processing).  seq_all = the complete
   enumeration of the sequential search; the parallel branch is the one of `analyse`. *)
Definition analyse_seq (rule : flag_rule) (srule : seq_rule) (threshold klen : Z) (clk : nat -> Z) (step T : Z)
           (ws : list worker) (seq_all : list path) : bool * Z * list path :=
  if threshold <=? klen then
    let o := run_parallel rule clk step T ws in (timed_out o, clk (exit_poll o) - clk 0%nat, concat (shared o))
  else
    let o := run_sequential srule clk T seq_all in (s_flag o, clk (s_exit o) - clk 0%nat, s_result o).

(* every step of the generator (yield or exhaustion) takes at most dmax *)
Definition StepsWithin (clk : nat -> Z) (dmax : Z) : Prop := forall i, clk (S i) <= clk i + dmax.
