(* C17 -- the model-cache protocol of osaca/semantics/hw_model.py as a small-step state machine.

   Anchors:  MachineModel.__init__ (non-lazy and lazy branch), _get_cached, _write_in_cache,
             utils.CACHE_DIR / DATA_DIRS.

   What is abstract
     content      the bytes of a model file (nat).  The cache key is sha256(content); the hash is modelled as the
                  identity (collision freeness of SHA-256 is a listed assumption).
     data         what a loader builds from a content:  parse g c  records the INTERNAL_VERSION of the loader (d_iv, the
                  only thing the version test can see), the identity of the loader code (d_code, invisible to the test)
                  and the content it was built from.  parse is the *free* interpretation: any concrete loader factors
                  through it, so  d = parse g c  here implies equality of the concrete data.
     bytes        a cache file is a list of chunks; chunk i is either chunk i of the pickle of some data or a
                  hole/garbage.  `decode` succeeds exactly on a complete pickle (all nch chunks of one data): a proper
                  prefix, a file with holes or a mixture never decodes (pickle.load raises).
   What is faithful
     three separate reads of the model file (hash for the probe, parse, hash for the write), probe = exists() then
     open()+pickle.load()+version test, companion before home, the write target chosen by os.access, open('wb') =
     truncate followed by chunk-wise appends at the writer's own file offset (so two in-place writers interleave the way
     two file descriptors on one inode do), crash before any step, edit of a model file at any time.
   The write discipline is a parameter:  InPlace = the code as shipped;  AtomicRename = temp file in the same directory
   + os.replace, and an unreadable cache file is a miss.

   No proofs in this file. *)
From Coq Require Import List Arith Bool.
Import ListNotations.

Definition content := nat.

Record data := mkData { d_iv : nat; d_code : nat; d_src : content }.
Record cfg := mkCfg { c_iv : nat; c_code : nat }.
Definition parse (g : cfg) (c : content) : data := mkData (c_iv g) (c_code g) c.

Definition data_eqb (a b : data) : bool :=
  (d_iv a =? d_iv b) && (d_code a =? d_code b) && (d_src a =? d_src b).

Definition bytes := list (option data).

Definition chunk_is (d : data) (x : option data) : bool :=
  match x with Some d' => data_eqb d d' | None => false end.

(* pickle.load on a file:  Some d exactly for the complete pickle of d *)
Definition decode (nch : nat) (b : bytes) : option data :=
  match b with
  | Some d :: _ => if (length b =? nch) && forallb (chunk_is d) b then Some d else None
  | _ => None
  end.

(* write chunk i at offset i (holes are filled with None, like a sparse file) *)
Fixpoint put (i : nat) (v : option data) (b : bytes) : bytes :=
  match i, b with
  | O, [] => [v]
  | O, _ :: r => v :: r
  | S j, [] => None :: put j v []
  | S j, x :: r => x :: put j v r
  end.

Record path := mkPath { p_dir : nat; p_stem : nat }.
Definition path_eqb (a b : path) : bool := (p_dir a =? p_dir b) && (p_stem a =? p_stem b).

Inductive loc :=
| Comp (dir stem : nat) (h : content)     (* <dir>/.<stem>_<sha256>.pickle *)
| Home (stem : nat) (h : content)         (* ~/.osaca/cache/<stem>_<sha256>.pickle *)
| Tmp (pid : nat).                        (* the private temp file of a writer (AtomicRename only) *)

Definition loc_eqb (a b : loc) : bool :=
  match a, b with
  | Comp d s h, Comp d' s' h' => (d =? d') && (s =? s') && (h =? h')
  | Home s h, Home s' h' => (s =? s') && (h =? h')
  | Tmp p, Tmp p' => p =? p'
  | _, _ => false
  end.

Definition keyed (l : loc) : option content :=
  match l with Comp _ _ h => Some h | Home _ h => Some h | Tmp _ => None end.

Inductive discipline := InPlace | AtomicRename.

Record env := mkEnv { e_dirw : nat -> bool;      (* os.access(<dir>, W_OK) *)
                      e_homew : bool }.          (* makedirs(~/.osaca/cache) works and the directory is writable *)

(* w_rehash: true = _write_in_cache hashes the model file again (a third read; the code before the repair
   "hash the parsed bytes"); false = the cache key is the hash of the bytes that were parsed (no third read) *)
(* the in-process cache MachineModel._runtime_cache (a per-process map path -> data, filled when a non-lazy load
   completes).  RtIgnored = the shipped rule: a hit is assigned to self._data and then always overridden by the
   content-keyed lookup or a re-parse, i.e. never served.  RtServed = a variant that serves a hit by path. *)
Inductive rtmode := RtIgnored | RtServed.
Record setup := mkSetup { w_nch : nat; w_cfg : cfg; w_disc : discipline; w_env : env; w_rehash : bool; w_rt : rtmode }.

Inductive pc :=
| PStart                                  (* hashlib.sha256(p.read_bytes())  -- read 1 *)
| PProbe (home : bool) (h : content)      (* cachefile.exists() *)
| PRead (home : bool) (h : content)       (* open, pickle.load, version test *)
| PParse                                  (* open(self._path); yaml.load      -- read 2 *)
| PWHash (d : data)                       (* _write_in_cache: key (re-read + hash when w_rehash -- read 3), os.access *)
| PTrunc (tgt : loc) (d : data)           (* open(..., 'wb') on the final name (InPlace) / the temp (AtomicRename) *)
| PWrite (tgt : loc) (d : data) (i : nat) (* append chunk i; close when i = nch *)
| PRename (tgt : loc) (d : data)          (* os.replace(tmp, final) *)
| PDone (d : data)
| PDoneLazy (c : content)                 (* header-only load: no cache involved *)
| PRaised                                 (* the load raised (UnpicklingError / EOFError / FileNotFoundError) *)
| PCrashed.

Definition terminal (c : pc) : bool :=
  match c with PDone _ | PDoneLazy _ | PRaised | PCrashed => true | _ => false end.

Definition is_whash (c : pc) : bool := match c with PWHash _ => true | _ => false end.

Record proc := mkProc { pr_path : path; pr_lazy : bool; pr_pc : pc;
                        pr_src : content;     (* ghost: the content the process' data derives from *)
                        pr_raced : bool;      (* ghost: the model file was edited during/after this load *)
                        pr_prev : option data }.  (* _runtime_cache[path] of the OS process this load runs in, at its
                                                     start: the data returned by an earlier load of the same path in
                                                     the same process (LSpawn names that load), None in a fresh process *)

Record state := mkState { yaml : path -> content; files : loc -> option bytes; procs : nat -> option proc }.

Definition updf (f : loc -> option bytes) (l : loc) (v : option bytes) : loc -> option bytes :=
  fun l' => if loc_eqb l l' then v else f l'.
Definition updp (f : nat -> option proc) (i : nat) (v : option proc) : nat -> option proc :=
  fun j => if i =? j then v else f j.
Definition updy (f : path -> content) (p : path) (c : content) : path -> content :=
  fun q => if path_eqb p q then c else f q.

Definition with_pc (p : proc) (c : pc) : proc := mkProc (pr_path p) (pr_lazy p) c (pr_src p) (pr_raced p) (pr_prev p).
Definition with_pc_src (p : proc) (c : pc) (x : content) : proc := mkProc (pr_path p) (pr_lazy p) c x (pr_raced p) (pr_prev p).

Definition set_pc (s : state) (pid : nat) (p : proc) (c : pc) : state :=
  mkState (yaml s) (files s) (updp (procs s) pid (Some (with_pc p c))).
Definition set_pc_src (s : state) (pid : nat) (p : proc) (c : pc) (x : content) : state :=
  mkState (yaml s) (files s) (updp (procs s) pid (Some (with_pc_src p c x))).
Definition set_file_pc (s : state) (l : loc) (v : option bytes) (pid : nat) (p : proc) (c : pc) : state :=
  mkState (yaml s) (updf (files s) l v) (updp (procs s) pid (Some (with_pc p c))).

Definition probe_loc (p : path) (home : bool) (h : content) : loc :=
  if home then Home (p_stem p) h else Comp (p_dir p) (p_stem p) h.
Definition miss_next (home : bool) (h : content) : pc := if home then PParse else PProbe true h.

Definition target (e : env) (p : path) (h : content) : option loc :=
  if e_dirw e (p_dir p) then Some (Comp (p_dir p) (p_stem p) h)
  else if e_homew e then Some (Home (p_stem p) h) else None.

(* where a writer's bytes go *)
Definition wloc (w : setup) (pid : nat) (tgt : loc) : loc :=
  match w_disc w with InPlace => tgt | AtomicRename => Tmp pid end.

Definition cur (s : state) (l : loc) : bytes := match files s l with Some b => b | None => [] end.

(* one step of process pid (None: the process has terminated) *)
Definition pstep (w : setup) (s : state) (pid : nat) (p : proc) : option state :=
  let pa := pr_path p in
  match pr_pc p with
  | PStart =>
      if pr_lazy p then Some (set_pc_src s pid p (PDoneLazy (yaml s pa)) (yaml s pa))
      else match w_rt w, pr_prev p with
           | RtServed, Some d => Some (set_pc s pid p (PDone d))      (* the variant: serve _runtime_cache[path] *)
           | _, _ => Some (set_pc s pid p (PProbe false (yaml s pa))) (* shipped: the hit is overridden below *)
           end
  | PProbe hm h =>
      match files s (probe_loc pa hm h) with
      | Some _ => Some (set_pc s pid p (PRead hm h))
      | None => Some (set_pc s pid p (miss_next hm h))
      end
  | PRead hm h =>
      match files s (probe_loc pa hm h) with
      | None => Some (set_pc s pid p PRaised)
      | Some b =>
          match decode (w_nch w) b with
          | Some d => if d_iv d =? c_iv (w_cfg w) then Some (set_pc_src s pid p (PDone d) h)
                      else Some (set_pc s pid p (miss_next hm h))
          | None => match w_disc w with
                    | InPlace => Some (set_pc s pid p PRaised)
                    | AtomicRename => Some (set_pc s pid p (miss_next hm h))
                    end
          end
      end
  | PParse => Some (set_pc_src s pid p (PWHash (parse (w_cfg w) (yaml s pa))) (yaml s pa))
  | PWHash d =>
      match target (w_env w) pa (if w_rehash w then yaml s pa else pr_src p) with
      | Some l => Some (set_pc s pid p (PTrunc l d))
      | None => Some (set_pc s pid p (PDone d))
      end
  | PTrunc tgt d => Some (set_file_pc s (wloc w pid tgt) (Some []) pid p (PWrite tgt d 0))
  | PWrite tgt d i =>
      if i <? w_nch w then
        Some (set_file_pc s (wloc w pid tgt) (Some (put i (Some d) (cur s (wloc w pid tgt)))) pid p (PWrite tgt d (S i)))
      else match w_disc w with
           | InPlace => Some (set_pc s pid p (PDone d))
           | AtomicRename => Some (set_pc s pid p (PRename tgt d))
           end
  | PRename tgt d =>
      match files s (Tmp pid) with
      | Some b => Some (mkState (yaml s) (updf (updf (files s) tgt (Some b)) (Tmp pid) None)
                                (updp (procs s) pid (Some (with_pc p (PDone d)))))
      | None => Some (set_pc s pid p PRaised)
      end
  | PDone _ | PDoneLazy _ | PRaised | PCrashed => None
  end.

Inductive label :=
| LStep (pid : nat)
| LCrash (pid : nat)                          (* kill -9 / power loss of one process: files stay *)
| LEdit (p : path) (c : content)
| LSpawn (pid : nat) (p : path) (lazy : bool) (prev : option nat).
   (* prev = Some q: the new load runs in the OS process that earlier ran load q of the same path, after q returned:
      its _runtime_cache[path] holds q's data *)

Definition mark_raced (pa : path) (f : nat -> option proc) : nat -> option proc :=
  fun i => match f i with
           | Some q => if path_eqb pa (pr_path q)
                       then Some (mkProc (pr_path q) (pr_lazy q) (pr_pc q) (pr_src q) true (pr_prev q)) else Some q
           | None => None
           end.

Definition step (w : setup) (s : state) (l : label) : option state :=
  match l with
  | LStep pid => match procs s pid with Some p => pstep w s pid p | None => None end
  | LCrash pid => match procs s pid with
                  | Some p => if terminal (pr_pc p) then None else Some (set_pc s pid p PCrashed)
                  | None => None
                  end
  | LEdit pa c => Some (mkState (updy (yaml s) pa c) (files s) (mark_raced pa (procs s)))
  | LSpawn pid pa lz prev =>
      match procs s pid with
      | Some _ => None
      | None =>
          match prev with
          | None => Some (mkState (yaml s) (files s)
                            (updp (procs s) pid (Some (mkProc pa lz PStart (yaml s pa) false None))))
          | Some q =>
              match procs s q with
              | Some pq =>
                  match pr_pc pq with
                  | PDone d => if path_eqb pa (pr_path pq)
                               then Some (mkState (yaml s) (files s)
                                            (updp (procs s) pid (Some (mkProc pa lz PStart (yaml s pa) false (Some d)))))
                               else None
                  | _ => None
                  end
              | None => None
              end
          end
      end
  end.

Fixpoint run (w : setup) (s : state) (ls : list label) : option state :=
  match ls with
  | [] => Some s
  | l :: r => match step w s l with Some s' => run w s' r | None => None end
  end.

(* steps that are not enabled are skipped (used to write schedules without counting steps) *)
Fixpoint run_skip (w : setup) (s : state) (ls : list label) : state :=
  match ls with
  | [] => s
  | l :: r => match step w s l with Some s' => run_skip w s' r | None => run_skip w s r end
  end.

(* an edit is quiescent when no load of that file sits between its parse and the hash it takes for the write;
   only required of code that takes that hash from a third read (w_rehash) *)
Definition edit_ok (s : state) (pa : path) : Prop :=
  forall pid q, procs s pid = Some q -> pr_path q = pa -> is_whash (pr_pc q) = false.

Fixpoint quiet (w : setup) (s : state) (ls : list label) : Prop :=
  match ls with
  | [] => True
  | l :: r => match l with LEdit pa _ => w_rehash w = true -> edit_ok s pa | _ => True end /\
              match step w s l with Some s' => quiet w s' r | None => True end
  end.

Definition no_crash (ls : list label) : bool :=
  forallb (fun l => match l with LCrash _ => false | _ => true end) ls.

(* ------------------------------------------------------------------ big steps for traces (harness) *)

Definition pc_of (s : state) (pid : nat) : pc :=
  match procs s pid with Some p => pr_pc p | None => PCrashed end.

(* run process pid alone until it terminates *)
Fixpoint solo (w : setup) (fuel : nat) (s : state) (pid : nat) : state :=
  match fuel with
  | O => s
  | S f => match step w s (LStep pid) with Some s' => solo w f s' pid | None => s end
  end.

(* run process pid alone until `stop` holds of its pc (checked before every step) *)
Fixpoint solo_until (w : setup) (stop : pc -> bool) (fuel : nat) (s : state) (pid : nat) : state :=
  match fuel with
  | O => s
  | S f => if stop (pc_of s pid) then s
           else match step w s (LStep pid) with Some s' => solo_until w stop f s' pid | None => s end
  end.

Definition fuel_of (w : setup) : nat := 12 + w_nch w.

Definition spawn (w : setup) (s : state) (pid : nat) (pa : path) (lz : bool) : state :=
  run_skip w s [LSpawn pid pa lz None].

Definition load (w : setup) (s : state) (pid : nat) (pa : path) (lz : bool) : state :=
  solo w (fuel_of w) (spawn w s pid pa lz) pid.

(* a load in an OS process that already completed load `prev` of the same path *)
Definition loadp (w : setup) (s : state) (pid : nat) (pa : path) (lz : bool) (prev : option nat) : state :=
  solo w (fuel_of w) (run_skip w s [LSpawn pid pa lz prev]) pid.

(* the process dies when k chunks of its cache file have been written (the crash hook); a process that never
   writes (cache hit) runs to completion *)
Definition wrote (k : nat) (c : pc) : bool :=
  match c with PWrite _ _ i => k <=? i | PRename _ _ => true | _ => false end.

Definition load_crash (w : setup) (s : state) (pid : nat) (pa : path) (k : nat) : state :=
  let s1 := solo_until w (wrote k) (fuel_of w) (spawn w s pid pa false) pid in
  if wrote k (pc_of s1 pid) then run_skip w s1 [LCrash pid] else s1.

Inductive outcome := ODone (d : data) | OLazy (c : content) | ORaised | OCrashed | ORunning.
Definition outcome_of (s : state) (pid : nat) : outcome :=
  match pc_of s pid with
  | PDone d => ODone d | PDoneLazy c => OLazy c | PRaised => ORaised | PCrashed => OCrashed | _ => ORunning
  end.

(* what the harness can see of a file *)
Inductive obs := OAbsent | OPartial (k : nat) | OComplete (d : data).
Definition observe (w : setup) (s : state) (l : loc) : obs :=
  match files s l with
  | None => OAbsent
  | Some b => match decode (w_nch w) b with Some d => OComplete d | None => OPartial (length b) end
  end.

Definition obs_eqb (a b : obs) : bool :=
  match a, b with
  | OAbsent, OAbsent => true
  | OPartial k, OPartial k' => k =? k'
  | OComplete d, OComplete d' => data_eqb d d'
  | _, _ => false
  end.
Definition outcome_eqb (a b : outcome) : bool :=
  match a, b with
  | ODone d, ODone d' => data_eqb d d'
  | OLazy c, OLazy c' => c =? c'
  | ORaised, ORaised => true | OCrashed, OCrashed => true | ORunning, ORunning => true
  | _, _ => false
  end.

(* one run of the command line tool = non-lazy load of the arch model, non-lazy load of the ISA model, lazy load of
   the arch model (Frontend); pids 3n, 3n+1, 3n+2.  With a crash point k the first cache write of the run dies. *)
Definition cli (w : setup) (s : state) (n : nat) (arch isa : path) (crash : option nat) : state :=
  match crash with
  | None =>
      let s1 := load w s (3 * n) arch false in
      match outcome_of s1 (3 * n) with
      | ODone _ => let s2 := load w s1 (3 * n + 1) isa false in
                   match outcome_of s2 (3 * n + 1) with
                   | ODone _ => load w s2 (3 * n + 2) arch true
                   | _ => s2
                   end
      | _ => s1
      end
  | Some k =>
      let s1 := load_crash w s (3 * n) arch k in
      match outcome_of s1 (3 * n) with
      | ODone _ => let s2 := load_crash w s1 (3 * n + 1) isa k in
                   match outcome_of s2 (3 * n + 1) with
                   | ODone _ => load w s2 (3 * n + 2) arch true
                   | _ => s2
                   end
      | _ => s1
      end
  end.

(* an analysis (osaca.run) inside an OS process whose _runtime_cache already holds the data of loads parch / pisa *)
Definition cli_after (w : setup) (s : state) (n : nat) (arch isa : path) (parch pisa : option nat) : state :=
  let s1 := loadp w s (3 * n) arch false parch in
  match outcome_of s1 (3 * n) with
  | ODone _ => let s2 := loadp w s1 (3 * n + 1) isa false pisa in
               match outcome_of s2 (3 * n + 1) with
               | ODone _ => load w s2 (3 * n + 2) arch true
               | _ => s2
               end
  | _ => s1
  end.

(* outcome of a command line run: the first of its three loads that did not complete decides *)
Definition cli_outcome (s : state) (n : nat) : outcome :=
  match outcome_of s (3 * n) with
  | ODone d => match outcome_of s (3 * n + 1) with
               | ODone _ => match outcome_of s (3 * n + 2) with OLazy _ => ODone d | o => o end
               | o => o
               end
  | o => o
  end.

(* N simultaneous cold starts of non-lazy loads of one file; three schedule families *)
Fixpoint spawn_all (w : setup) (s : state) (pids : list nat) (pa : path) : state :=
  match pids with [] => s | i :: r => spawn_all w (spawn w s i pa false) r pa end.
Fixpoint repeat_list {A} (l : list A) (n : nat) : list A :=
  match n with O => [] | S m => l ++ repeat_list l m end.
Definition race (w : setup) (s : state) (pids : list nat) (pa : path) (sched : nat) : state :=
  let s0 := spawn_all w s pids pa in
  match sched with
  | 0 => fold_left (fun st i => solo w (fuel_of w) st i) pids s0                          (* one after the other *)
  | 1 => run_skip w s0 (repeat_list (map LStep pids) (fuel_of w))                        (* round robin *)
  | _ => (* the first runs until it has written one chunk, then the others one after the other, then the first *)
         match pids with
         | [] => s0
         | i :: r => let s1 := solo_until w (wrote 1) (fuel_of w) s0 i in
                     solo w (fuel_of w) (fold_left (fun st j => solo w (fuel_of w) st j) r s1) i
         end
  end.

Inductive event :=
| EvCli (n : nat) (arch isa : path) (crash : option nat)
| EvLoad (pid : nat) (pa : path) (lz : bool)
| EvLoadP (pid : nat) (pa : path) (prev : nat)      (* non-lazy load in the OS process that ran load prev *)
| EvCliP (n : nat) (arch isa : path) (parch pisa : option nat)   (* analysis in a process that ran those loads *)
| EvEdit (pa : path) (c : content)
| EvPlant (l : loc) (k : nat) (d : data)            (* the environment puts the first k chunks of pickle(d) there *)
| EvRace (pids : list nat) (pa : path)
| EvSeeFile (l : loc) (o : obs)                     (* observations: must agree with the model *)
| EvSeeCli (n : nat) (o : outcome)
| EvSeeLoad (pid : nat) (o : outcome).

(* races: the schedule is not observable; the observation that follows must be explained by one of the families,
   so a race forks the set of candidate states *)
Definition ev_step (w : setup) (ss : list state) (e : event) : list state :=
  match e with
  | EvCli n a i c => map (fun s => cli w s n a i c) ss
  | EvLoad pid pa lz => map (fun s => load w s pid pa lz) ss
  | EvLoadP pid pa prev => map (fun s => loadp w s pid pa false (Some prev)) ss
  | EvCliP n a i pa pi => map (fun s => cli_after w s n a i pa pi) ss
  | EvEdit pa c => map (fun s => run_skip w s [LEdit pa c]) ss
  | EvPlant l k d => map (fun s => mkState (yaml s) (updf (files s) l (Some (repeat (Some d) k))) (procs s)) ss
  | EvRace pids pa => flat_map (fun s => [race w s pids pa 0; race w s pids pa 1; race w s pids pa 2]) ss
  | EvSeeFile l o => filter (fun s => obs_eqb (observe w s l) o) ss
  | EvSeeCli n o => filter (fun s => outcome_eqb (cli_outcome s n) o) ss
  | EvSeeLoad pid o => filter (fun s => outcome_eqb (outcome_of s pid) o) ss
  end.

(* index of the first event after which no candidate state is left (None: the trace is a run of the model) *)
Fixpoint trace_fail (w : setup) (ss : list state) (es : list event) (i : nat) : option nat :=
  match es with
  | [] => None
  | e :: r => match ev_step w ss e with
              | [] => Some i
              | ss' => trace_fail w ss' r (S i)
              end
  end.
Definition trace_ok (w : setup) (s : state) (es : list event) : bool :=
  match trace_fail w [s] es 0 with None => true | Some _ => false end.

Definition empty_state (y : path -> content) : state := mkState y (fun _ => None) (fun _ => None).
