(* A second bounded family for C01: kernels of length <= 2 over all forms with ONE or TWO micro-ops, every micro-op
   taking 1 cycle on a non-empty subset of 3 ports (7 + 49 forms, 56 + 3136 = 3192 kernels), evaluated with the
   bit-exact binary64 instance, and an executable Hall / support / total / non-negativity checker in exact rationals.
   No proofs in this file. *)
From Coq Require Import ZArith QArith List Bool String PrimFloat.
From OV Require Import Model.Num Model.Pressure Model.Family.
Import ListNotations.
Open Scope string_scope.

Definition form2 := list (list string).            (* the port sets of the micro-ops, 1 cycle each *)
Definition forms_1 : list form2 := map (fun s => [s]) subsets3.
Definition forms_2 : list form2 := List.concat (map (fun a => map (fun b => [a; b]) subsets3) subsets3).
Definition all_forms2 : list form2 := forms_1 ++ forms_2.
Definition family2 : list (list form2) := words all_forms2 1 ++ words all_forms2 2.

Definition instr_of2 (f : form2) : res (instr (T:=float)) :=
  let us := map (fun s => (1%float, s)) f in
  pp <- avg_pressure_list FNum fam_ports us ;; Ok (mkinstr 1%float pp (UList us)).
Fixpoint kernel_of2 (w : list form2) : res (list (instr (T:=float))) :=
  match w with [] => Ok [] | f :: r => i <- instr_of2 f ;; k <- kernel_of2 r ;; Ok (i :: k) end.

(* ---- exact checker for one instruction: port sets of its micro-ops and its pressure vector (as rationals) ---- *)
Definition in_set (p : string) (s : list string) : bool := existsb (String.eqb p) s.
Definition qsum (l : list Q) : Q := fold_left Qplus l 0%Q.
Definition pressure_on (v : list Q) (S : list string) : Q :=
  qsum (map snd (filter (fun pv => in_set (fst pv) S) (combine fam_ports v))).
Definition confined_cyc (f : form2) (S : list string) : Q :=
  inject_Z (Z.of_nat (List.length (filter (fun s => subset_of s S) f))).
Definition slack_pairs (f : form2) (S : list string) : Q :=
  inject_Z (Z.of_nat (fold_left Nat.add
     (map (fun s => if subset_of s S then O else List.length (filter (fun p => in_set p S) s)) f) O)).

Definition feasible_within (eps : Q) (f : form2) (v : list Q) : bool :=
  let total := inject_Z (Z.of_nat (List.length f)) in
  let users (p : string) := inject_Z (Z.of_nat (List.length (filter (in_set p) f))) in
  andb (Nat.eqb (List.length v) 3)
  (andb (forallb (fun pv => let '(p, x) := pv in
                            andb (Qle_bool (Qopp (Qmult eps (users p))) x)                    (* >= -eps per micro-op using p *)
                                 (orb (negb (Qeq_bool (users p) 0)) (Qeq_bool x 0)))           (* support *)
                 (combine fam_ports v))
  (andb (andb (Qle_bool (Qminus (qsum v) total) (1 # 1000000000)) (Qle_bool (Qminus total (qsum v)) (1 # 1000000000)))
        (forallb (fun S => Qle_bool (Qminus (confined_cyc f S) (Qmult eps (slack_pairs f S))) (Qplus (pressure_on v S) (1 # 1000000000)))
                 subsets3))).

Definition check_kernel (eps : Q) (w : list form2) (r : res (list (instr (T:=float)) * nat)) : bool :=
  match r with
  | Ok (k, _) => andb (Nat.eqb (List.length k) (List.length w))
                      (forallb (fun fi => feasible_within eps (fst fi) (map f_to_Q (i_pp (snd fi)))) (combine w k))
  | Err _ => false
  end.

(* uniform: exact (eps = 0); one optimisation pass: eps = 1/200 per (micro-op, port) pair *)
Definition uniform_ok (w : list form2) : bool :=
  match kernel_of2 w with Ok k => check_kernel 0 w (Ok (k, O)) | Err _ => false end.
Definition once_ok (w : list form2) : bool :=
  match kernel_of2 w with Ok k => check_kernel (1 # 200) w (balance FNum fam_ports k) | Err _ => false end.
Definition twice_ok (w : list form2) : bool :=
  match kernel_of2 w with Ok k => check_kernel (1 # 200) w (balance_cli FNum fam_ports k) | Err _ => false end.
