(* C20 -- hand-written model of the two benchmark line formats and of the insertion into the
   machine model (osaca/db_interface.py: _get_ibench_output, _get_asmbench_output,
   import_benchmark_output; osaca/semantics/hw_model.py: set_instruction_entry, set_instruction,
   get_instruction/_match_operands on DB-format operands, dump).  No proofs here.

   Parametric in the number type T, the snapping function `validate` and the operand decoder
   `decode` (both come from Gen/Import.v, translated from the source on every run) and in
   `parse_float` (Python's float(str); supplied as a table by the harness, arbitrary in theorems).

   Python exceptions are explicit: any exception aborts the import and nothing is emitted. *)
From Coq Require Import String Ascii List Bool Arith ZArith.
From OV Require Import Model.PyString Model.ImportPre.
Import ListNotations.
Open Scope string_scope.

(* ------------------------------------------------------------------ str operations (ASCII) *)
Definition is_ws (c : ascii) : bool :=
  let n := nat_of_ascii c in orb (andb (Nat.leb 9 n) (Nat.leb n 13)) (andb (Nat.leb 28 n) (Nat.leb n 32)).

(* s.split(sep) for a one-character separator: always at least one field *)
Fixpoint split_chr (sep : ascii) (s : string) : list string :=
  match s with
  | EmptyString => [EmptyString]
  | String c r =>
      if Ascii.eqb c sep then EmptyString :: split_chr sep r
      else match split_chr sep r with h :: t => String c h :: t | [] => [String c EmptyString] end
  end.

(* s.split(): maximal runs of non-whitespace *)
Fixpoint split_ws (s : string) : list string :=
  match s with
  | EmptyString => []
  | String c r =>
      if is_ws c then split_ws r
      else match r with
           | EmptyString => [String c EmptyString]
           | String c' _ =>
               if is_ws c' then String c EmptyString :: split_ws r
               else match split_ws r with h :: t => String c h :: t | [] => [String c EmptyString] end
           end
  end.

Fixpoint lstrip (s : string) : string :=
  match s with String c r => if is_ws c then lstrip r else s | EmptyString => EmptyString end.
Fixpoint rstrip (s : string) : string :=
  match s with
  | EmptyString => EmptyString
  | String c r => match rstrip r with
                  | EmptyString => if is_ws c then EmptyString else String c EmptyString
                  | r' => String c r'
                  end
  end.
Definition strip (s : string) : string := rstrip (lstrip s).

Fixpoint py_endswith (s p : string) : bool :=
  if String.eqb s p then true else match s with EmptyString => false | String _ r => py_endswith r p end.

(* ------------------------------------------------------------------ results *)
Inductive err := EIndex | EValue.
Inductive res (A : Type) := Ok (a : A) | Err (e : err).
Arguments Ok {A} a.
Arguments Err {A} e.
Definition bind {A B} (r : res A) (f : A -> res B) : res B :=
  match r with Ok a => f a | Err e => Err e end.
Fixpoint map_res {A B} (f : A -> res B) (l : list A) : res (list B) :=
  match l with
  | [] => Ok []
  | x :: r => bind (f x) (fun y => bind (map_res f r) (fun ys => Ok (y :: ys)))
  end.

(* which tree is modelled: each flag = one repair (false = the code as found) *)
Record variant := mkvariant {
  v_bounds_check : bool;      (* asmbench: a block shorter than four lines is a malformed block *)
  v_mode_by_suffix : bool;    (* ibench: TP/LT decided by the name's suffix, not by substring *)
  v_exact_match : bool        (* x86 insertion: a DB-format operand matches only an equal DB-format operand *)
}.
Definition as_found := mkvariant false false false.
Definition repaired := mkvariant true true true.

Set Implicit Arguments.
Section Model.
Variable T : Type.
Variable validate : T -> string -> option T.
Variable decode : string -> option pydict.          (* None = ValueError *)
Variable parse_float : string -> option T.          (* None = ValueError *)
Variable V : variant.

Record iform := mkform { f_mnemonic : string; f_operands : list pydict; f_tp : option T; f_lt : option T }.
Definition set_tp (e : iform) (v : option T) := mkform (f_mnemonic e) (f_operands e) v (f_lt e).
Definition set_lt (e : iform) (v : option T) := mkform (f_mnemonic e) (f_operands e) (f_tp e) v.

(* an insertion-ordered dict with string keys *)
Definition pdict := list (string * iform).
Fixpoint assoc {A} (k : string) (d : list (string * A)) : option A :=
  match d with [] => None | (k', v) :: r => if String.eqb k k' then Some v else assoc k r end.
Fixpoint assoc_set {A} (k : string) (v : A) (d : list (string * A)) : list (string * A) :=
  match d with
  | [] => [(k, v)]
  | (k', v') :: r => if String.eqb k k' then (k', v) :: r else (k', v') :: assoc_set k v r
  end.

Definition decode_ops (field : string) : res (list pydict) :=
  map_res (fun c => match decode c with Some d => Ok d | None => Err EValue end) (split_chr "_" field).

(* float(line.split()[1]) *)
Definition measurement (line : string) : res T :=
  match nth_error (split_ws line) 1 with
  | None => Err EIndex
  | Some tok => match parse_float tok with Some m => Ok m | None => Err EValue end
  end.

(* mnemonic = name.split("-")[0]; operands = name.split("-")[1].split("_") decoded *)
Definition new_entry (name : string) : res iform :=
  let fields := split_chr "-" name in
  match nth_error fields 1 with
  | None => Err EIndex
  | Some opf => bind (decode_ops opf) (fun ops => Ok (mkform (hd "" fields) ops None None))
  end.

(* ---------------------------------------------------------------- ibench *)
Inductive kind := KTP | KLT | KNone.
Record itoken := mktoken {
  t_key : string;          (* "-".join(name.split("-")[:2]) *)
  t_new : res iform;       (* the entry created if the key is new (creation may raise) *)
  t_kind : kind;
  t_meas : res T }.

Definition line_kind (instruction : string) : kind :=
  if v_mode_by_suffix V then
    (if py_endswith instruction "-TP" then KTP else if py_endswith instruction "-LT" then KLT else KNone)
  else
    (if py_substr "TP" instruction then KTP else if py_substr "LT" instruction then KLT else KNone).

Definition ibench_token (line : string) : option itoken :=
  if orb (py_substr "Using frequency" line) (Nat.eqb (String.length line) 0) then None
  else
    let instruction := hd "" (split_chr ":" line) in
    let key := String.concat "-" (firstn 2 (split_chr "-" instruction)) in
    Some (mktoken key (new_entry instruction) (line_kind instruction) (measurement line)).

Definition ibench_step (d : pdict) (t : itoken) : res pdict :=
  bind (match assoc (t_key t) d with Some e => Ok e | None => t_new t end) (fun e =>
  bind (match t_kind t with
        | KTP => bind (t_meas t) (fun m => Ok (set_tp e (validate m "tp")))
        | KLT => bind (t_meas t) (fun m => Ok (set_lt e (validate m "lt")))
        | KNone => Ok e
        end) (fun e' =>
  Ok (assoc_set (t_key t) e' d))).

Definition ibench_fold (toks : list itoken) (d : pdict) : res pdict :=
  fold_left (fun acc t => bind acc (fun d => ibench_step d t)) toks (Ok d).

Fixpoint ibench_tokens (lines : list string) : list itoken :=
  match lines with
  | [] => []
  | l :: r => match ibench_token l with Some t => t :: ibench_tokens r | None => ibench_tokens r end
  end.

Definition get_ibench_output (lines : list string) : res pdict := ibench_fold (ibench_tokens lines) [].

(* ---------------------------------------------------------------- asmbench *)
Definition asm_entry (l0 l1 l2 : string) : res (string * iform) :=
  let i_form := strip l0 in
  bind (new_entry i_form) (fun e =>
  bind (measurement l2) (fun tp =>        (* throughput is evaluated first *)
  bind (measurement l1) (fun lt =>
  Ok (i_form, mkform (f_mnemonic e) (f_operands e) (validate tp "tp") (validate lt "lt"))))).

(* for i in range(0, len(input_data), 4): `lines` is input_data[i:] *)
Fixpoint asm_go (lines : list string) (d : pdict) : res pdict :=
  match lines with
  | [] => Ok d
  | l0 :: l1 :: l2 :: l3 :: rest =>
      if negb (String.eqb (strip l3) "") then Ok d                 (* message, break *)
      else bind (asm_entry l0 l1 l2) (fun ke => asm_go rest (assoc_set (fst ke) (snd ke) d))
  | _ => if v_bounds_check V then Ok d else Err EIndex               (* input_data[i + 3] *)
  end.
Definition get_asmbench_output (lines : list string) : res pdict := asm_go lines [].

(* ---------------------------------------------------------------- insertion and dump *)
(* What the dump shows of the import: the InstructionForm objects appended to
   _data["instruction_forms"], in order.  instruction_forms_dict maps a key to references:
   RExisting n = an entry of the shipped model with n operands (its twin in the dumped list is a
   separate dict object, so overwriting it is invisible in the dump), RForm i = the i-th appended form. *)
Inductive dref := RExisting (nops : nat) | RForm (idx : nat).
Record mm := mkmm { m_forms : list iform; m_dict : list (string * list dref) }.

Fixpoint ops_eqb (a b : list pydict) : bool :=
  match a, b with
  | [], [] => true
  | x :: r, y :: s => andb (pydict_eqb x y) (ops_eqb r s)
  | _, _ => false
  end.

(* _match_operands(i_form.operands, operands) when `operands` are DB-format dicts *)
Definition matches (x86 : bool) (forms : list iform) (ops : list pydict) (r : dref) : bool :=
  let both_empty n := andb (Nat.eqb n 0) (Nat.eqb (length ops) 0) in
  match r with
  | RExisting n =>
      if andb x86 (negb (v_exact_match V)) then Nat.eqb n (length ops)    (* _compare_db_entries: return True *)
      else both_empty n
  | RForm i =>
      match nth_error forms i with
      | None => false
      | Some g =>
          if x86 then (if v_exact_match V then ops_eqb (f_operands g) ops
                       else Nat.eqb (length (f_operands g)) (length ops))
          else both_empty (length (f_operands g))
      end
  end.

Fixpoint list_set {A} (i : nat) (v : A) (l : list A) : list A :=
  match l, i with
  | [], _ => []
  | _ :: r, O => v :: r
  | x :: r, S j => x :: list_set j v r
  end.
Fixpoint dict_append (k : string) (r : dref) (d : list (string * list dref)) : list (string * list dref) :=
  match d with
  | [] => [(k, [r])]
  | (k', l) :: rest => if String.eqb k k' then (k', (l ++ [r])%list) :: rest else (k', l) :: dict_append k r rest
  end.

Definition set_instruction (x86 : bool) (m : mm) (f : iform) : mm :=
  let cands := match assoc (py_upper (f_mnemonic f)) (m_dict m) with Some l => l | None => [] end in
  match find (matches x86 (m_forms m) (f_operands f)) cands with
  | Some (RExisting _) => m
  | Some (RForm i) => mkmm (list_set i f (m_forms m)) (m_dict m)
  | None => mkmm (m_forms m ++ [f])%list (dict_append (f_mnemonic f) (RForm (length (m_forms m))) (m_dict m))
  end.

Definition insert_all (x86 : bool) (existing : list (string * list nat)) (entries : list iform) : list iform :=
  m_forms (fold_left (set_instruction x86) entries
                     (mkmm [] (map (fun p => (fst p, map RExisting (snd p))) existing))).

(* import_benchmark_output: the imported forms visible in the dumped model *)
Definition import_benchmark (x86 : bool) (ibench : bool) (existing : list (string * list nat))
           (lines : list string) : res (list iform) :=
  bind (if ibench then get_ibench_output lines else get_asmbench_output lines)
       (fun d => Ok (insert_all x86 existing (map snd d))).

End Model.

Arguments mkform {T}.
Arguments f_mnemonic {T}.
Arguments f_operands {T}.
Arguments f_tp {T}.
Arguments f_lt {T}.
