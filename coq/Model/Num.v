(* Numbers: one record of operations, two instances (DESIGN.md 0.2).
   QNum : exact rationals               -- the instance the unbounded theorems are about
   FNum : Coq primitive binary64 floats -- bit-exact with CPython 3.12 doubles, used by the
          correspondence check (and by finite vm_compute theorems).
   No proofs in this file. *)
From Coq Require Import ZArith QArith Qround List Bool String.
From Coq Require Import PrimFloat Uint63 SpecFloat FloatOps.
Import ListNotations.

Record NumOps (T : Type) := {
  n0 : T;
  nadd : T -> T -> T;
  nsub : T -> T -> T;
  nmul : T -> T -> T;
  ndiv : T -> T -> T;
  nopp : T -> T;
  nofZ : Z -> T;
  nofQ : Z -> Z -> T;          (* a decimal literal num/den, e.g. 0.01 = nofQ 1 100 *)
  nleb : T -> T -> bool;
  nltb : T -> T -> bool;
  neqb : T -> T -> bool;
  nround2 : T -> T;            (* Python round(x, 2) *)
  ntrunc : T -> Z;             (* Python int(x) *)
  nsum : list T -> T;          (* Python sum(list of floats), start 0 *)
}.
Arguments n0 {T}. Arguments nadd {T}. Arguments nsub {T}. Arguments nmul {T}. Arguments ndiv {T}.
Arguments nopp {T}. Arguments nofZ {T}. Arguments nofQ {T}. Arguments nleb {T}. Arguments nltb {T}.
Arguments neqb {T}. Arguments nround2 {T}. Arguments ntrunc {T}. Arguments nsum {T}.

(* ------------------------------------------------------------------ exact rationals *)
(* round half even of a rational to an integer *)
Definition Zround_half_even (num : Z) (den : positive) : Z :=
  let q := (num / Zpos den)%Z in
  let r := (num mod Zpos den)%Z in          (* 0 <= r < den *)
  match (2 * r ?= Zpos den)%Z with
  | Lt => q
  | Gt => (q + 1)%Z
  | Eq => if Z.even q then q else (q + 1)%Z
  end.

Definition Qround2 (x : Q) : Q :=
  Qred (Qmake (Zround_half_even (Qnum x * 100) (Qden x)) 100).

Definition Qtrunc (x : Q) : Z := Z.quot (Qnum x) (Zpos (Qden x)).

Definition Qleb (a b : Q) : bool := Qle_bool a b.
Definition Qltb (a b : Q) : bool := negb (Qle_bool b a).
Definition Qeqb (a b : Q) : bool := Qeq_bool a b.

Definition QNum : NumOps Q := {|
  n0 := 0%Q;
  nadd := fun a b => Qred (a + b);
  nsub := fun a b => Qred (a - b);
  nmul := fun a b => Qred (a * b);
  ndiv := fun a b => Qred (a / b);
  nopp := fun a => Qred (- a);
  nofZ := fun z => inject_Z z;
  nofQ := fun n d => Qred (Qmake n (Z.to_pos d));
  nleb := Qleb; nltb := Qltb; neqb := Qeqb;
  nround2 := Qround2;
  ntrunc := Qtrunc;
  nsum := fun l => fold_left (fun a b => Qred (a + b)) l 0%Q;
|}.

(* ------------------------------------------------------------------ binary64 *)
Open Scope float_scope.

Definition f_of_Z (z : Z) : float :=
  match z with
  | Z0 => 0
  | Zpos p => PrimFloat.of_uint63 (Uint63.of_Z (Zpos p))
  | Zneg p => - PrimFloat.of_uint63 (Uint63.of_Z (Zpos p))
  end.

Definition two53 : Z := 9007199254740992%Z.

(* CPython round(x, 2): the exact binary value, rounded half-even to hundredths, converted back
   with one correctly rounded division (n and 100 are exactly representable for |x| < 9e13).
   f_round2_Z is the reference definition over Z; f_round2 computes the same thing with native
   63-bit integers whenever 100 * mantissa / 2^k fits (the common case), else falls back. *)
Definition f_round2_Z (x : float) : float :=
  match Prim2SF x with
  | S754_finite s m e =>
    let n := (match e with
              | Z0 => 100 * Zpos m
              | Zpos pe => 100 * Zpos m * 2 ^ Zpos pe
              | Zneg pe => Zround_half_even (100 * Zpos m) (2 ^ pe)%positive
              end)%Z in
    if (two53 <=? n)%Z then x
    else let r := f_of_Z n / 100 in if s then - r else r
  | _ => x
  end.

Definition f_round2 (x : float) : float :=
  let ax := abs x in
  let '(f, e) := frshiftexp ax in
  (* ax = mant * 2^(e - shift - 53) with mant = normfr_mantissa f in [2^52, 2^53) (normal numbers) *)
  let mant := normfr_mantissa f in
  let top := 2154%uint63 in    (* FloatOps.shift + 53 *)
  if andb (Uint63.ltb 0 mant) (andb (Uint63.ltb (e + 12)%uint63 top) (Uint63.ltb (top - 1100)%uint63 e)) then
    (* 12 < k = top - e < 1100 : |x| < 2^41, finite, non-zero *)
    let k := (top - e)%uint63 in
    let num := (100 * mant)%uint63 in                      (* < 2^60 *)
    let n := if Uint63.leb 61 k then 0%uint63
             else let q := Uint63.lsr num k in
                  let r := Uint63.land num (Uint63.lsl 1 k - 1)%uint63 in
                  let half := Uint63.lsl 1 (k - 1)%uint63 in
                  if Uint63.ltb r half then q
                  else if Uint63.ltb half r then (q + 1)%uint63
                  else if Uint63.eqb (Uint63.land q 1) 0 then q else (q + 1)%uint63 in
    let r := PrimFloat.of_uint63 n / 100 in
    if PrimFloat.ltb x 0 then - r else if andb (PrimFloat.eqb x 0) (PrimFloat.ltb (1 / x) 0) then - r else r
  else f_round2_Z x.

Definition f_trunc (x : float) : Z :=
  match Prim2SF x with
  | S754_finite s m e =>
    let a := (match e with
              | Z0 => Zpos m
              | Zpos pe => Zpos m * 2 ^ Zpos pe
              | Zneg pe => Zpos m / Zpos (2 ^ pe)%positive
              end)%Z in
    if s then (- a)%Z else a
  | _ => 0%Z
  end.

(* CPython >= 3.12 builtin sum() over floats: Neumaier compensated summation *)
Definition f_is_finite (x : float) : bool :=
  match Prim2SF x with S754_infinity _ | S754_nan => false | _ => true end.
Definition f_is_zero (x : float) : bool :=
  match Prim2SF x with S754_zero _ => true | _ => false end.

Fixpoint f_sum_go (l : list float) (hi lo : float) : float * float :=
  match l with
  | [] => (hi, lo)
  | x :: r =>
    let t := hi + x in
    let lo' := if PrimFloat.leb (abs x) (abs hi) then lo + ((hi - t) + x) else lo + ((x - t) + hi) in
    f_sum_go r t lo'
  end.
Definition f_sum (l : list float) : float :=
  match l with
  | [] => 0        (* sum([]) is the int 0; it only ever reaches round() / comparisons *)
  | _ => let '(hi, lo) := f_sum_go l 0 0 in
         if andb (negb (f_is_zero lo)) (f_is_finite lo) then hi + lo else hi
  end.

Definition f_lit (n d : Z) : float := f_of_Z n / f_of_Z d.   (* correctly rounded decimal literal *)

Definition FNum : NumOps float := {|
  n0 := 0;
  nadd := PrimFloat.add; nsub := PrimFloat.sub; nmul := PrimFloat.mul; ndiv := PrimFloat.div;
  nopp := PrimFloat.opp;
  nofZ := f_of_Z;
  nofQ := f_lit;
  nleb := PrimFloat.leb; nltb := PrimFloat.ltb; neqb := PrimFloat.eqb;
  nround2 := f_round2;
  ntrunc := f_trunc;
  nsum := f_sum;
|}.

(* bit-level equality (distinguishes -0.0 from 0.0, equates NaNs) for the correspondence *)
Definition sf_eqb (a b : spec_float) : bool :=
  match a, b with
  | S754_zero s, S754_zero t => Bool.eqb s t
  | S754_infinity s, S754_infinity t => Bool.eqb s t
  | S754_nan, S754_nan => true
  | S754_finite s m e, S754_finite t n f => andb (Bool.eqb s t) (andb (Pos.eqb m n) (Z.eqb e f))
  | _, _ => false
  end.
Definition f_biteq (a b : float) : bool := sf_eqb (Prim2SF a) (Prim2SF b).
Fixpoint f_list_biteq (a b : list float) : bool :=
  match a, b with
  | [], [] => true
  | x :: r, y :: s => andb (f_biteq x y) (f_list_biteq r s)
  | _, _ => false
  end.

(* exact rational value of a finite double *)
Definition f_to_Q (x : float) : Q :=
  match Prim2SF x with
  | S754_finite s m e =>
    let q := match e with
             | Z0 => inject_Z (Zpos m)
             | Zpos pe => inject_Z (Zpos m * 2 ^ Zpos pe)
             | Zneg pe => Qmake (Zpos m) (2 ^ pe)%positive
             end in
    if s then Qopp q else q
  | _ => 0%Q
  end.
