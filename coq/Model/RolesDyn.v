(* Dynamically typed value universe for the translation tie (T) of property C03's glue code:
     ISASemantics.assign_src_dst / _apply_found_ISA_data / _get_regular_source_operands / _get_regular_destination_operands /
     substitute_mem_address / _create_reg_wildcard / _has_load / _has_store          (osaca/semantics/isa_semantics.py)
     KernelDG.create_DG                                                              (osaca/semantics/kernel_dg.py)
   tools/gen_roles.py -> Gen/RolesGen.v, Gen/DgGen.v; theorems PropsGen/C03roles.v, PropsGen/C03dg.v.

   Same design as Model/DepsDyn.v (which cannot be extended: its attribute / class vocabularies are closed inductives):
   every Python value is a `pv`, every expression a computation in the error monad `dres`; Python exceptions are error values.
   New here:
   * OBJECT IDENTITY.  The translated code mutates operand objects that are shared between containers
     (`new_op = operand.base; new_op.pre_indexed = ...; op_dict["src_dst"].append(new_op)`).  Objects that may be mutated carry
     their identity in the attribute A_oid (an input: the harness dumps Python's id(), the embedding numbers the objects);
     `x.a = v` is translated to `py_setattr_id (oid of x) a v` applied to EVERY live local variable (and to the not yet
     visited items of the enclosing for loops): all copies of the object change together, which is what a heap does.
     An attribute store on an object without identity is the error EUnmodelled.
   * lists and dicts are values; the translator only accepts in-place changes of containers the function owns and that are
     fresh by construction (tools/gen_roles.py, "aliasing discipline").
   * numbers of the latency model (`VNum`, any NumOps instance), graph nodes (`VInt n` / `VLoad n` = the float n + 0.1),
     nx.DiGraph as the insertion-ordered container of Model/PyLcd.v (`VGraph`).
   No proofs in this file. *)
From Coq Require Import ZArith List Bool String Ascii.
From OV Require Import Model.Num Model.PyString Model.PyLcd Model.Deps Model.Roles.
Import ListNotations.

(* ---------------------------------------------------------------- vocabulary *)
Inductive attr :=
| A_oid | A_eqkey
| A_operands | A_mnemonic | A_semantic_operands | A_flags | A_line_number | A_latency | A_latency_wo_load
| A_hidden_operands | A_breaks_dependency_on_equal_operands | A_source | A_destination
| A_name | A_prefix | A_pre_indexed | A_post_indexed | A_base | A_index | A_offset | A_scale | A_value.
Definition attr_code (a : attr) : nat :=
  match a with
  | A_oid => 0 | A_eqkey => 1 | A_operands => 2 | A_mnemonic => 3 | A_semantic_operands => 4 | A_flags => 5 | A_line_number => 6
  | A_latency => 7 | A_latency_wo_load => 8 | A_hidden_operands => 9 | A_breaks_dependency_on_equal_operands => 10
  | A_source => 11 | A_destination => 12 | A_name => 13 | A_prefix => 14 | A_pre_indexed => 15 | A_post_indexed => 16
  | A_base => 17 | A_index => 18 | A_offset => 19 | A_scale => 20 | A_value => 21
  end.
Definition attr_eqb (a b : attr) : bool := Nat.eqb (attr_code a) (attr_code b).

Inductive cls :=
| C_RegisterOperand | C_MemoryOperand | C_FlagOperand | C_ImmediateOperand | C_IdentifierOperand
| C_OtherOperand      (* any other subclass of Operand *)
| C_Operand           (* the base class: only as second argument of isinstance *)
| C_InstructionForm
| C_Other             (* an object of any other class *)
| C_dict.             (* the builtin: isinstance(x, dict) *)
Definition cls_code (c : cls) : nat :=
  match c with
  | C_RegisterOperand => 0 | C_MemoryOperand => 1 | C_FlagOperand => 2 | C_ImmediateOperand => 3 | C_IdentifierOperand => 4
  | C_OtherOperand => 5 | C_Operand => 6 | C_InstructionForm => 7 | C_Other => 8 | C_dict => 9
  end.
Definition cls_eqb (a b : cls) : bool := Nat.eqb (cls_code a) (cls_code b).
Definition is_operand_cls (c : cls) : bool :=
  match c with
  | C_RegisterOperand | C_MemoryOperand | C_FlagOperand | C_ImmediateOperand | C_IdentifierOperand | C_OtherOperand => true
  | _ => false
  end.

(* ---------------------------------------------------------------- values *)
Inductive pv (T : Type) :=
| VNone
| VBool (b : bool)
| VInt (z : Z)
| VStr (s : string)
| VNum (t : T)                                    (* a float of the latency model *)
| VTenth                                          (* the literal 0.1 (only ever added to a line number) *)
| VLoad (n : Z)                                   (* the float n + 0.1: the separate load node of line n *)
| VObj (c : cls) (fs : list (attr * pv T))
| VDict (d : list (string * pv T))
| VList (l : list (pv T))
| VTuple (l : list (pv T))
| VGraph (g : nxg T).
Arguments VNone {T}. Arguments VBool {T}. Arguments VInt {T}. Arguments VStr {T}. Arguments VNum {T}. Arguments VTenth {T}.
Arguments VLoad {T}. Arguments VObj {T}. Arguments VDict {T}. Arguments VList {T}. Arguments VTuple {T}. Arguments VGraph {T}.

Inductive derr := EAttribute | EKey | EType | EValue | EIndex | EAlias | EUnmodelled.
Inductive dres (A : Type) := DOk (a : A) | DErr (e : derr).
Arguments DOk {A}. Arguments DErr {A}.
Definition dbind {A B} (r : dres A) (f : A -> dres B) : dres B := match r with DOk a => f a | DErr e => DErr e end.
Notation "x <~ r ;; k" := (dbind r (fun x => k)) (at level 61, r at next level, right associativity).
Notation "' p <~ r ;; k" := (dbind r (fun dpat_ => let p := dpat_ in k))
  (at level 61, p pattern, r at next level, right associativity).

(* ---------------------------------------------------------------- control flow *)
Inductive ctl (S R : Type) := CNext (s : S) | CBreak (s : S) | CRet (v : R).
Arguments CNext {S R}. Arguments CBreak {S R}. Arguments CRet {S R}.
Inductive flow (J X : Type) := FNorm (j : J) | FExit (x : X).
Arguments FNorm {J X}. Arguments FExit {J X}.
Definition fbind {J J' X} (m : dres (flow J X)) (k : J -> dres (flow J' X)) : dres (flow J' X) :=
  dbind m (fun f => match f with FNorm j => k j | FExit x => DOk (FExit x) end).
Definition loop_end {S R} (f : flow S (ctl S R)) : ctl S R := match f with FNorm s => CNext s | FExit c => c end.

Section U.
Context {T : Type}.
Notation pv := (pv T).

(* for x in l: ...    The items not yet visited are part of the loop state (the body receives them and hands them back):
   an attribute store inside the body must reach them too.  n = number of items (structural fuel).
   inl s: the loop ended (exhausted or break) with state s; inr v: `return v` inside the loop *)
Fixpoint py_loop_n {S R} (n : nat) (l : list pv) (s : S) (body : pv -> list pv -> S -> dres (ctl (list pv * S) R)) : dres (S + R) :=
  match n with
  | O => DOk (inl s)
  | Datatypes.S n' =>
    match l with
    | [] => DOk (inl s)
    | x :: r =>
      dbind (body x r s) (fun c =>
        match c with
        | CNext (r', s') => py_loop_n n' r' s' body
        | CBreak (_, s') => DOk (inl s')
        | CRet v => DOk (inr v)
        end)
    end
  end.
Definition py_loop {S R} (l : list pv) (s : S) (body : pv -> list pv -> S -> dres (ctl (list pv * S) R)) : dres (S + R) :=
  py_loop_n (List.length l) l s body.

(* [e for x in l if c]: the body answers None (filtered out) or the element *)
Fixpoint py_comp (l : list pv) (f : pv -> dres (option pv)) : dres (list pv) :=
  match l with
  | [] => DOk []
  | x :: r => dbind (f x) (fun o => dbind (py_comp r f) (fun ys => DOk (match o with Some y => y :: ys | None => ys end)))
  end.

(* ---------------------------------------------------------------- prelude: Python operations *)
Fixpoint attr_assoc (fs : list (attr * pv)) (a : attr) : option pv :=
  match fs with [] => None | (b, v) :: r => if attr_eqb a b then Some v else attr_assoc r a end.
Fixpoint attr_set (fs : list (attr * pv)) (a : attr) (v : pv) : list (attr * pv) :=
  match fs with
  | [] => [(a, v)]
  | (b, w) :: r => if attr_eqb a b then (b, v) :: r else (b, w) :: attr_set r a v
  end.
Fixpoint str_assoc (d : list (string * pv)) (k : string) : option pv :=
  match d with [] => None | (k', v) :: r => if String.eqb k k' then Some v else str_assoc r k end.
Fixpoint str_set (d : list (string * pv)) (k : string) (v : pv) : list (string * pv) :=
  match d with
  | [] => [(k, v)]
  | (k', v') :: r => if String.eqb k k' then (k, v) :: r else (k', v') :: str_set r k v
  end.

Definition py_getattr (x : pv) (a : attr) : dres pv :=
  match x with
  | VObj _ fs => match attr_assoc fs a with Some v => DOk v | None => DErr EAttribute end
  | _ => DErr EAttribute
  end.
(* identity of an object that may be mutated *)
Definition py_oid (x : pv) : dres Z :=
  match x with
  | VObj _ fs => match attr_assoc fs A_oid with Some (VInt i) => DOk i | _ => DErr EUnmodelled end
  | VNone | VBool _ | VInt _ | VStr _ | VNum _ | VTenth | VLoad _ | VDict _ | VList _ | VTuple _ => DErr EAttribute   (* no such attribute can be set *)
  | VGraph _ => DErr EUnmodelled
  end.
(* the object with identity i gets attribute a := v, wherever a copy of it sits inside x *)
Fixpoint py_setattr_id (i : Z) (a : attr) (v : pv) (x : pv) {struct x} : pv :=
  match x with
  | VObj c fs =>
    let fs' := (fix go (fs : list (attr * pv)) : list (attr * pv) :=
                  match fs with [] => [] | (b, w) :: r => (b, py_setattr_id i a v w) :: go r end) fs in
    match attr_assoc fs A_oid with
    | Some (VInt j) => if Z.eqb i j then VObj c (attr_set fs' a v) else VObj c fs'
    | _ => VObj c fs'
    end
  | VDict d => VDict ((fix go (d : list (string * pv)) : list (string * pv) :=
                         match d with [] => [] | (k, w) :: r => (k, py_setattr_id i a v w) :: go r end) d)
  | VList l => VList ((fix go (l : list pv) : list pv := match l with [] => [] | w :: r => py_setattr_id i a v w :: go r end) l)
  | VTuple l => VTuple ((fix go (l : list pv) : list pv := match l with [] => [] | w :: r => py_setattr_id i a v w :: go r end) l)
  | _ => x
  end.
Definition py_setattr_ids (i : Z) (a : attr) (v : pv) (l : list pv) : list pv := map (py_setattr_id i a v) l.

Definition py_truth (x : pv) : dres bool :=
  match x with
  | VNone => DOk false
  | VBool b => DOk b
  | VInt z => DOk (negb (Z.eqb z 0))
  | VStr s => DOk (match s with EmptyString => false | _ => true end)
  | VObj _ _ => DOk true                                   (* the modelled classes define neither __bool__ nor __len__ *)
  | VDict d => DOk (match d with [] => false | _ => true end)
  | VList l => DOk (match l with [] => false | _ => true end)
  | VTuple l => DOk (match l with [] => false | _ => true end)
  | VLoad _ | VTenth => DOk true
  | VNum _ | VGraph _ => DErr EUnmodelled                  (* float zero test / len(graph): not needed *)
  end.
Definition py_is_none (x : pv) : bool := match x with VNone => true | _ => false end.
Definition py_isinstance (x : pv) (c : cls) : bool :=
  match x with
  | VObj c' _ => orb (cls_eqb c c') (andb (cls_eqb c C_Operand) (is_operand_cls c'))
  | VDict _ => cls_eqb c C_dict
  | _ => false
  end.
Definition as_int (x : pv) : option Z := match x with VInt z => Some z | VBool b => Some (Z.b2z b) | _ => None end.

(* x == y.  None, bool/int, str structurally; the operand classes' __eq__ through the ==-class key the dump / embedding carries
   (A_eqkey); lists and tuples element-wise, stopping at the first difference (Python compares the lengths first) *)
Definition obj_eq (fa fb : list (attr * pv)) : dres bool :=
  match attr_assoc fa A_eqkey, attr_assoc fb A_eqkey with
  | Some (VInt a), Some (VInt b) => DOk (Z.eqb a b)
  | _, _ => DErr EUnmodelled
  end.
Fixpoint py_eq (x y : pv) {struct x} : dres bool :=
  let fix list_eq (a b : list pv) {struct a} : dres bool :=
      match a, b with
      | [], [] => DOk true
      | p :: r, q :: s => dbind (py_eq p q) (fun e => if e then list_eq r s else DOk false)
      | _, _ => DOk false
      end in
  match x, y with
  | VNone, VNone => DOk true
  | VStr a, VStr b => DOk (String.eqb a b)
  | VObj _ fa, VObj _ fb => obj_eq fa fb
  | VObj _ _, (VNone | VBool _ | VInt _ | VStr _ | VDict _ | VList _ | VTuple _) => DOk false
  | (VNone | VBool _ | VInt _ | VStr _ | VDict _ | VList _ | VTuple _), VObj _ _ => DOk false
  | VList a, VList b => if Nat.eqb (List.length a) (List.length b) then list_eq a b else DOk false
  | VTuple a, VTuple b => if Nat.eqb (List.length a) (List.length b) then list_eq a b else DOk false
  | VList _, (VNone | VBool _ | VInt _ | VStr _ | VTuple _ | VDict _) | VTuple _, (VNone | VBool _ | VInt _ | VStr _ | VList _ | VDict _) => DOk false
  | (VNone | VBool _ | VInt _ | VStr _ | VDict _), (VList _ | VTuple _) => DOk false
  | _, _ =>
    match as_int x, as_int y with
    | Some a, Some b => DOk (Z.eqb a b)
    | Some _, None => match y with VNone | VStr _ => DOk false | _ => DErr EUnmodelled end
    | None, Some _ => match x with VNone | VStr _ => DOk false | _ => DErr EUnmodelled end
    | None, None =>
      match x, y with
      | VNone, VStr _ | VStr _, VNone => DOk false
      | _, _ => DErr EUnmodelled
      end
    end
  end.
Definition py_ne (x y : pv) : dres bool := dbind (py_eq x y) (fun b => DOk (negb b)).

(* Python's index normalisation: i in [-n, n) *)
Definition norm_index (n : nat) (i : Z) : option nat :=
  let n' := Z.of_nat n in
  if andb (Z.leb 0 i) (Z.ltb i n') then Some (Z.to_nat i)
  else if andb (Z.ltb i 0) (Z.leb (- n') i) then Some (Z.to_nat (n' + i)) else None.
(* slice bound: None -> default; clamp to [0, n] *)
Definition norm_bound (n : nat) (dflt : nat) (b : pv) : dres nat :=
  match b with
  | VNone => DOk dflt
  | VInt i => let n' := Z.of_nat n in
              DOk (if Z.ltb i 0 then Z.to_nat (Z.max 0 (n' + i)) else Z.to_nat (Z.min i n'))
  | VBool b => DOk (Nat.min n (if b then 1 else 0))
  | _ => DErr EType
  end.
Definition slice_list {A} (l : list A) (lo hi : nat) : list A := firstn (hi - lo) (skipn lo l).
Definition str_slice (s : string) (lo hi : nat) : string := of_chars (slice_list (chars s) lo hi).
(* x[lo:hi] *)
Definition py_slice (x lo hi : pv) : dres pv :=
  match x with
  | VList l => dbind (norm_bound (List.length l) 0 lo) (fun a => dbind (norm_bound (List.length l) (List.length l) hi) (fun b => DOk (VList (slice_list l a b))))
  | VTuple l => dbind (norm_bound (List.length l) 0 lo) (fun a => dbind (norm_bound (List.length l) (List.length l) hi) (fun b => DOk (VTuple (slice_list l a b))))
  | VStr s => let n := String.length s in
              dbind (norm_bound n 0 lo) (fun a => dbind (norm_bound n n hi) (fun b => DOk (VStr (str_slice s a b))))
  | VNone | VBool _ | VInt _ | VNum _ | VTenth | VLoad _ | VObj _ _ => DErr EType
  | VDict _ => DErr EKey           (* unhashable slice: TypeError in CPython >= 3.12 is KeyError-free; not reachable from the translated code *)
  | VGraph _ => DErr EUnmodelled
  end.
(* x[k] *)
Definition py_getitem (x k : pv) : dres pv :=
  match x with
  | VDict d =>
    match k with
    | VStr s => match str_assoc d s with Some v => DOk v | None => DErr EKey end
    | VNone | VBool _ | VInt _ => DErr EKey
    | VTuple _ | VNum _ | VTenth | VLoad _ => DErr EUnmodelled
    | _ => DErr EType
    end
  | VList l | VTuple l =>
    match as_int k with
    | Some i => match norm_index (List.length l) i with
                | Some n => match nth_error l n with Some v => DOk v | None => DErr EIndex end
                | None => DErr EIndex end
    | None => DErr EType
    end
  | VStr s =>
    match as_int k with
    | Some i => match norm_index (String.length s) i with
                | Some n => match nth_error (chars s) n with Some c => DOk (VStr (String c EmptyString)) | None => DErr EIndex end
                | None => DErr EIndex end
    | None => DErr EType
    end
  | VNone | VBool _ | VInt _ | VNum _ | VTenth | VLoad _ => DErr EType
  | _ => DErr EUnmodelled
  end.
Definition py_setitem (x k v : pv) : dres pv :=
  match x with
  | VDict d => match k with VStr s => DOk (VDict (str_set d s v)) | _ => DErr EUnmodelled end
  | VNone | VBool _ | VInt _ | VStr _ | VTuple _ | VNum _ | VTenth | VLoad _ => DErr EType
  | _ => DErr EUnmodelled
  end.
Definition py_dict_get (x k dflt : pv) : dres pv :=
  match x with
  | VDict d =>
    match k with
    | VStr s => match str_assoc d s with Some v => DOk v | None => DOk dflt end
    | VNone | VBool _ | VInt _ => DOk dflt
    | VTuple _ | VNum _ | VTenth | VLoad _ => DErr EUnmodelled
    | _ => DErr EType
    end
  | VNone | VBool _ | VInt _ | VStr _ | VList _ | VTuple _ | VNum _ | VTenth | VLoad _ => DErr EAttribute
  | VObj _ _ | VGraph _ => DErr EUnmodelled
  end.
Definition py_chain (a b : pv) : dres pv :=
  match a, b with
  | VList x, VList y => DOk (VList (x ++ y))
  | (VNone | VBool _ | VInt _), _ | VList _, (VNone | VBool _ | VInt _) => DErr EType
  | _, _ => DErr EUnmodelled
  end.
Definition py_iter (x : pv) : dres (list pv) :=
  match x with
  | VList l | VTuple l => DOk l
  | VNone | VBool _ | VInt _ | VNum _ | VTenth | VLoad _ => DErr EType
  | _ => DErr EUnmodelled
  end.
Definition py_enumerate (x : pv) : dres pv :=
  dbind (py_iter x) (fun l => DOk (VList (map (fun p => VTuple [VInt (Z.of_nat (fst p)); snd p]) (combine (seq 0 (List.length l)) l)))).
Definition py_unpack2 (x : pv) : dres (pv * pv) :=
  match x with
  | VTuple [a; b] | VList [a; b] => DOk (a, b)
  | VTuple _ | VList _ => DErr EValue
  | VNone | VBool _ | VInt _ | VNum _ | VTenth | VLoad _ => DErr EType
  | _ => DErr EUnmodelled
  end.
(* l.append(x) / l += m / a + b on lists (the translator guarantees that l is not shared) *)
Definition py_append (l x : pv) : dres pv :=
  match l with VList a => DOk (VList (a ++ [x])) | VNone | VBool _ | VInt _ | VStr _ | VTuple _ | VDict _ => DErr EAttribute | _ => DErr EUnmodelled end.
Definition py_extend (l m : pv) : dres pv :=
  match l with
  | VList a => dbind (py_iter m) (fun b => DOk (VList (a ++ b)))
  | _ => DErr EUnmodelled
  end.
Definition py_len (x : pv) : dres pv :=
  match x with
  | VList l | VTuple l => DOk (VInt (Z.of_nat (List.length l)))
  | VStr s => DOk (VInt (Z.of_nat (String.length s)))
  | VDict d => DOk (VInt (Z.of_nat (List.length d)))
  | VNone | VBool _ | VInt _ | VNum _ | VTenth | VLoad _ | VObj _ _ => DErr EType
  | VGraph _ => DErr EUnmodelled
  end.
(* x in c: substring test for str in str; == against the items of a list; key test for a dict *)
Definition py_in (x c : pv) : dres bool :=
  match c with
  | VStr s => match x with VStr a => DOk (py_substr a s) | _ => DErr EType end
  | VList l | VTuple l =>
    (fix go (l : list pv) : dres bool :=
       match l with [] => DOk false | y :: r => dbind (py_eq x y) (fun e => if e then DOk true else go r) end) l
  | VDict d => match x with
               | VStr k => DOk (match str_assoc d k with Some _ => true | None => false end)
               | VNone | VBool _ | VInt _ => DOk false
               | _ => DErr EUnmodelled end
  | VNone | VBool _ | VInt _ | VNum _ | VTenth | VLoad _ | VObj _ _ => DErr EType
  | VGraph _ => DErr EUnmodelled
  end.
(* s.index(sub): position of the first occurrence, ValueError when there is none *)
Fixpoint str_find (sub s : string) (i : nat) : option nat :=
  if py_startswith s sub then Some i
  else match s with EmptyString => None | String _ r => str_find sub r (Datatypes.S i) end.
Definition py_str_index (s sub : pv) : dres pv :=
  match s, sub with
  | VStr a, VStr b => match str_find b a 0 with Some i => DOk (VInt (Z.of_nat i)) | None => DErr EValue end
  | VStr _, _ => DErr EType
  | (VNone | VBool _ | VInt _ | VNum _ | VTenth | VLoad _ | VDict _), _ => DErr EAttribute
  | _, _ => DErr EUnmodelled
  end.
(* any([...]) over a list that was just built *)
Definition py_any (x : pv) : dres bool :=
  dbind (py_iter x) (fix go (l : list pv) : dres bool :=
                       match l with [] => DOk false | y :: r => dbind (py_truth y) (fun b => if b then DOk true else go r) end).

(* ---- numbers and graph nodes ---- *)
Section Arith.
  Variable N : NumOps T.
  Definition as_num (x : pv) : option T :=
    match x with VNum t => Some t | VInt z => Some (nofZ N z) | VBool b => Some (nofZ N (Z.b2z b)) | _ => None end.
  Definition py_add (x y : pv) : dres pv :=
    match x, y with
    | VStr a, VStr b => DOk (VStr (a ++ b))
    | VList a, VList b => DOk (VList (a ++ b))            (* a new list *)
    | VInt n, VTenth => if Z.leb 0 n then DOk (VLoad n) else DErr EUnmodelled
    | _, _ =>
      match as_int x, as_int y with
      | Some a, Some b => DOk (VInt (a + b))
      | _, _ =>
        match as_num x, as_num y with
        | Some a, Some b => DOk (VNum (nadd N a b))
        | _, _ => match x, y with
                  | (VNone | VStr _), _ | _, (VNone | VStr _) => DErr EType
                  | _, _ => DErr EUnmodelled
                  end
        end
      end
    end.
  (* x += y: a list is extended in place (the translator only accepts it where the list is not shared); otherwise x + y *)
  Definition py_iadd (x y : pv) : dres pv := match x with VList _ => py_extend x y | _ => py_add x y end.
  (* x += y for a local x: not accepted on containers *)
  Definition py_add_scalar (x y : pv) : dres pv :=
    match x with VList _ | VDict _ | VObj _ _ | VTuple _ | VGraph _ => DErr EUnmodelled | _ => py_add x y end.
  Definition py_sub (x y : pv) : dres pv :=
    match as_int x, as_int y with
    | Some a, Some b => DOk (VInt (a - b))
    | _, _ =>
      match as_num x, as_num y with
      | Some a, Some b => DOk (VNum (nsub N a b))
      | _, _ => match x, y with
                | (VNone | VStr _), _ | _, (VNone | VStr _) => DErr EType
                | _, _ => DErr EUnmodelled
                end
      end
    end.
  Definition as_node (x : pv) : option node :=
    match x with VInt n => Some (Line n) | VLoad n => Some (Load n) | _ => None end.
  (* nx.DiGraph() / dg.add_node(n) / dg.add_edge(u, v, latency=w) / dg.nodes[n][key] = value *)
  Definition py_digraph : pv := VGraph nx_empty.
  Definition py_add_node (g n : pv) : dres pv :=
    match g, as_node n with
    | VGraph g0, Some k => DOk (VGraph (nx_add_node g0 k))
    | _, _ => DErr EUnmodelled
    end.
  Definition py_add_edge (g u v w : pv) : dres pv :=
    match g, as_node u, as_node v, as_num w with
    | VGraph g0, Some a, Some b, Some t => DOk (VGraph (nx_add_edge g0 a b t))
    | _, _, _, _ => DErr EUnmodelled
    end.
  (* node attributes are not part of the graph value; what remains of `dg.nodes[n][key] = value` is the KeyError for a missing node *)
  Definition py_node_setattr (g n key value : pv) : dres pv :=
    match g, as_node n with
    | VGraph g0, Some k => if existsb (node_eqb k) (nx_nodes g0) then DOk g else DErr EKey
    | _, _ => DErr EUnmodelled
    end.
End Arith.

(* ---------------------------------------------------------------- structural equality (correspondence shards) *)
Section Eqb.
  Variable teq : T -> T -> bool.
  Fixpoint pv_eqb (x y : pv) {struct x} : bool :=
    let fix list_eqb (a b : list pv) {struct a} : bool :=
        match a, b with [], [] => true | p :: r, q :: s => andb (pv_eqb p q) (list_eqb r s) | _, _ => false end in
    match x, y with
    | VNone, VNone => true
    | VTenth, VTenth => true
    | VBool a, VBool b => Bool.eqb a b
    | VInt a, VInt b => Z.eqb a b
    | VLoad a, VLoad b => Z.eqb a b
    | VStr a, VStr b => String.eqb a b
    | VNum a, VNum b => teq a b
    | VObj c fa, VObj c' fb =>
      andb (cls_eqb c c')
           ((fix fs_eqb (a b : list (attr * pv)) {struct a} : bool :=
               match a, b with
               | [], [] => true
               | (k, p) :: r, (k', q) :: s => andb (attr_eqb k k') (andb (pv_eqb p q) (fs_eqb r s))
               | _, _ => false
               end) fa fb)
    | VDict da, VDict db =>
      (fix d_eqb (a b : list (string * pv)) {struct a} : bool :=
         match a, b with
         | [], [] => true
         | (k, p) :: r, (k', q) :: s => andb (String.eqb k k') (andb (pv_eqb p q) (d_eqb r s))
         | _, _ => false
         end) da db
    | VList a, VList b => list_eqb a b
    | VTuple a, VTuple b => list_eqb a b
    | VGraph a, VGraph b =>
      (fix g_eqb (a b : nxg T) {struct a} : bool :=
         match a, b with
         | [], [] => true
         | (n, sa) :: r, (m, sb) :: s =>
           andb (node_eqb n m)
                (andb ((fix a_eqb (a b : list (node * T)) {struct a} : bool :=
                          match a, b with
                          | [], [] => true
                          | (v, w) :: r, (v', w') :: s => andb (node_eqb v v') (andb (teq w w') (a_eqb r s))
                          | _, _ => false
                          end) sa sb) (g_eqb r s))
         | _, _ => false
         end) a b
    | _, _ => false
    end.
End Eqb.
Definition derr_eqb (a b : derr) : bool :=
  match a, b with
  | EAttribute, EAttribute | EKey, EKey | EType, EType | EValue, EValue | EIndex, EIndex | EAlias, EAlias
  | EUnmodelled, EUnmodelled => true
  | _, _ => false
  end.
Definition dres_eqb (teq : T -> T -> bool) (a b : dres pv) : bool :=
  match a, b with DOk x, DOk y => pv_eqb teq x y | DErr e, DErr f => derr_eqb e f | _, _ => false end.

(* ---------------------------------------------------------------- embedding of the hand model's types *)
(* Only the base register of a memory operand is ever mutated by the translated code (address write-back marks) and the
   instruction form itself; they carry an identity.  `emb_opnd k o`: k = the identity of the base register object of o. *)
Definition emb_prefix (p : string) : pv := match p with EmptyString => VNone | _ => VStr p end.
Definition reg_fields (r : regop) (pre post : pv) : list (attr * pv) :=
  [(A_name, VStr (r_name r)); (A_prefix, emb_prefix (r_prefix r)); (A_pre_indexed, pre); (A_post_indexed, post)].
(* a register without identity (never mutated): r_pidx abstracts `pre_indexed or post_indexed or isinstance(post_indexed, dict)` *)
Definition emb_reg (r : regop) : pv := VObj C_RegisterOperand (reg_fields r (VBool (r_pidx r)) (VBool false)).
(* the base register object of a memory operand: identity k, write-back marks as given *)
Definition emb_base (k : Z) (r : regop) (pre post : pv) : pv :=
  VObj C_RegisterOperand ((A_oid, VInt k) :: reg_fields r pre post).
Definition emb_obase (k : Z) (o : option regop) : pv :=
  match o with Some r => emb_base k r (VBool (r_pidx r)) (VBool false) | None => VNone end.
Definition emb_oreg (o : option regop) : pv := match o with Some r => emb_reg r | None => VNone end.
Definition emb_off (o : offs) : pv :=
  match o with
  | ONone => VNone
  | OImm v => VObj C_ImmediateOperand [(A_value, VInt v)]
  | OSym => VObj C_IdentifierOperand [(A_name, VStr "sym")]
  end.
Definition mem_fields (m : memop) (base : pv) (key : Z) : list (attr * pv) :=
  [(A_eqkey, VInt key); (A_offset, emb_off (m_off m)); (A_base, base); (A_index, emb_oreg (m_index m));
   (A_scale, VInt (m_scale m)); (A_pre_indexed, VBool (m_pre m)); (A_post_indexed, VBool (m_post m))].
(* an operand of the instruction: `key` = class of Python == among the operands (the model's popnd) *)
Definition emb_opnd_k (k : Z) (o : opnd) (key : Z) : pv :=
  match o with
  | OReg r => VObj C_RegisterOperand ((A_eqkey, VInt key) :: reg_fields r (VBool (r_pidx r)) (VBool false))
  | OFlag n => VObj C_FlagOperand [(A_eqkey, VInt key); (A_name, VStr n)]
  | OMem m => VObj C_MemoryOperand (mem_fields m (emb_obase k (m_base m)) key)
  | OOther => VObj C_OtherOperand [(A_eqkey, VInt key)]
  end.
End U.

Arguments py_loop {T S R} l s body.
Arguments py_loop_n {T S R} n l s body.
