(* C13: the critical-path column covers every line that carries a critical-path latency.  The analysed kernel is an input of
   Model/Report.v; this boolean (evaluated by the check on every real case, like wf_analysis) says that a line whose latency_cp
   is not zero is one of the lines get_critical_path() returned -- otherwise the machine-readable output would report a
   LatencyCP for a line whose CP cell in the text report is blank.  No proofs in this file. *)
From Coq Require Import ZArith List Bool.
From OV Require Import Model.Num Model.Report.
Import ListNotations.

Definition cp_covers (a : analysis) : bool :=
  forallb (fun l => orb (f_is_zero (l_lat_cp l)) (existsb (fun e => Z.eqb (cp_num e) (l_num l)) (a_cp a))) (a_kernel a).
