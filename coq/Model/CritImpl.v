(* Functional reading of KernelDG.get_critical_path as tools/gen_lcd.py translates it (Gen/KdgCrit.v), at the data level of the code:
   self.dg is an nx.DiGraph container (Model/PyLcd.nxg: nodes `Line n` / `Load n` = n + 0.1), self.kernel a heap of objects with
   line_number / latency / latency_cp, the two networkx ALGORITHMS (is_directed_acyclic_graph, dag_longest_path) are parameters.
   PropsGen/C04gen.v proves the regenerated definition equal to cp_model for every input; Proofs/CritImpl.v says what cp_model
   computes (sink graph, path fix-up, per-line latency_cp, the returned lines) and connects it with the certificate of
   Model/CritPath.v.  No proofs in this file. *)
From Coq Require Import ZArith List Bool String.
From OV Require Import Model.Num Model.PyLcd Model.LcdPost.
Import ListNotations.
Local Open Scope list_scope.

Section CritImpl.
  Context {T : Type} (N : NumOps T) {I : Type} (ln : I -> Z) (lat lcp : I -> T) (set_lcp : I -> T -> I).

  Definition sink : Z := (-1)%Z.

  (* ---- the graph handed to dag_longest_path: every instruction gets an edge to an artificial sink carrying its latency; the
     load stage of an instruction (edge n + 0.1 -> n) is merged into the edges leaving n *)
  Definition add_merged (self_dg : nxg T) (g : nxg T) (e : node * node * T) : nxg T :=
    if node_is_load_of (fst (fst e)) (snd (fst e))
    then fold_left (fun g2 e2 => nx_add_edge g2 (fst (fst e)) (snd (fst e2)) (nadd N (snd e) (snd e2))) (nx_out_edges_data self_dg (snd (fst e))) g
    else nx_add_edge g (fst (fst e)) (snd (fst e)) (snd e).
  Definition sink_graph (self_dg : nxg T) (heap : list I) : nxg T :=
    let g0 := nx_add_nodes_from nx_empty (nx_nodes self_dg) in
    let g1 := fold_left (add_merged self_dg) (nx_edges_data self_dg) g0 in
    fold_left (fun g i => nx_add_edge g (Line (ln i)) (Line sink) (lat i)) heap g1.

  (* ---- the longest path: the sink is dropped, the instruction of a leading load node is re-inserted behind it *)
  Definition fix_path (lp : list node) : pres (list node) :=
    last <- py_last lp ;;
    let lp1 := if node_eq_int last sink then py_drop_last lp else lp in
    first <- py_nth lp1 0 ;;
    POk (if negb (node_eq_int first (node_int first)) then py_list_insert lp1 1 (Line (node_int first)) else lp1).

  (* ---- latency_cp of the lines on the path *)
  Definition set_cp (heap : list I) (r : nat) (v : I -> T) : pres (list I) :=
    i <- py_deref heap r ;; py_heap_set heap r (set_lcp i (v i)).
  Definition zero_step (nd : node) (heap : list I) : pres (list I) :=
    r <- node_by_lineno ln heap (node_int nd) ;; set_cp heap r (fun _ => nofZ N 0).
  Definition acc_step (self_dg : nxg T) (sd : node * node) (st : list I * T) : pres (list I * T) :=
    r <- node_by_lineno ln (fst st) (node_int (fst sd)) ;;
    i <- py_deref (fst st) r ;;
    w <- nx_edge_latency self_dg (fst sd) (snd sd) ;;
    h <- py_heap_set (fst st) r (set_lcp i (nadd N (lcp i) w)) ;;
    POk (h, nadd N (snd st) w).

  Definition cp_model (is_dag : nxg T -> bool) (longest : nxg T -> list node) (self_dg : nxg T) (heap : list I) : pres (list nat * list I) :=
    mx <- py_max_key_idx (fun a b => nltb N b a) (map lat heap) ;;
    if is_dag self_dg then
      lp <- fix_path (longest (sink_graph self_dg heap)) ;;
      heap1 <- py_for lp heap zero_step ;;
      st <- py_for (py_pairwise lp) (heap1, n0 N) (acc_step self_dg) ;;
      last <- py_last lp ;;
      r <- node_by_lineno ln (fst st) (node_int last) ;;
      heap2 <- set_cp (fst st) r lat ;;
      i2 <- py_deref heap2 r ;;
      let path_latency := nadd N (snd st) (lat i2) in
      im <- py_deref heap2 mx ;;
      if nltb N path_latency (lat im) then
        heap3 <- set_cp heap2 mx lat ;; POk ([mx], heap3)
      else
        sel <- py_filterM (fun x => i <- py_deref heap2 x ;; POk (existsb (fun n => node_eq_int n (ln i)) lp)) (py_refs heap2) ;;
        POk (sel, heap2)
    else PErr PNotImplementedError.
End CritImpl.
