(* Critical path over the dependency DAG of Model/Deps.v (DESIGN.md C04).
   A chain is a sequence of instructions i1 -> ... -> ik joined by dependency edges; its length is the sum of
   the edge latencies plus the latency of ik, plus -- when k >= 2 -- the separately modelled load stage of i1
   (counted once: for k = 1 it is part of the instruction's latency).  No proofs in this file. *)
From Coq Require Import ZArith List Bool String.
From OV Require Import Model.Num Model.Pressure Model.Deps.
Import ListNotations.

Section CP.
  Context {T : Type} (N : NumOps T).
  Definition nmax (a b : T) : T := if nltb N a b then b else a.

  Definition loadw (g : list (edge (T:=T))) (n : nat) : T :=
    fold_left (fun m e => let '((s, isld), t, w) := e in
                          if andb isld (andb (Nat.eqb s n) (Nat.eqb t n)) then w else m) g (n0 N).
  Definition weight (g : list (edge (T:=T))) (u v : nat) : option T :=
    fold_left (fun m e => let '((s, isld), t, w) := e in
                          if andb (negb isld) (andb (Nat.eqb s u) (Nat.eqb t v)) then Some w else m) g None.

  Fixpoint lookup (l : list (nat * T)) (k : nat) : option T :=
    match l with [] => None | (k', v) :: r => if Nat.eqb k k' then Some v else lookup r k end.

  (* dynamic programme in program order.  thr: for every earlier line, the longest sum of edge latencies of a
     chain that continues after it (a leading load stage included).  *)
  Fixpoint cp_go (g : list (edge (T:=T))) (k : list (nat * T)) (thr : list (nat * T)) (best : T) : T :=
    match k with
    | [] => best
    | (n, lat) :: r =>
      let a := fold_left (fun m e => let '((s, isld), t, w) := e in
                                     if andb (negb isld) (Nat.eqb t n)
                                     then match lookup thr s with Some x => nmax m (nadd N x w) | None => m end
                                     else m) g (n0 N) in
      cp_go g r ((n, nmax a (loadw g n)) :: thr) (nmax best (nadd N a lat))
    end.
  (* k : (line number, latency) in program order *)
  Definition cp_opt (g : list (edge (T:=T))) (k : list (nat * T)) : T := cp_go g k [] (n0 N).

  (* ---- certificate: the lines reported as critical path with their CP cells ---- *)
  (* cells: (line, latency_cp).  Valid iff consecutive lines are joined by an edge, every cell but the last is
     that edge's weight (the first may additionally carry its load stage), the last is the line's latency. *)
  Fixpoint cert_ok (g : list (edge (T:=T))) (lat : nat -> option T) (first : bool) (c : list (nat * T)) : bool :=
    match c with
    | [] => false
    | [(n, x)] => match lat n with Some l => neqb N x l | None => false end
    | (n, x) :: (((m, _) :: _) as rest) =>
      match weight g n m with
      | None => false
      | Some w => andb (orb (neqb N x w) (andb first (neqb N x (nadd N (loadw g n) w)))) (cert_ok g lat false rest)
      end
    end.
  Definition cert_value (c : list (nat * T)) : T := fold_left (fun a p => nadd N a (snd p)) c (n0 N).
End CP.
