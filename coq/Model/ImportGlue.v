(* C20 -- static Python prelude of the REGENERATED benchmark-import glue (tools/gen_c20b.py ->
   <scratch>/ImportGlue.v): _get_ibench_output, _get_asmbench_output, import_benchmark_output
   (osaca/db_interface.py), MachineModel.set_instruction_entry / set_instruction / get_instruction /
   _match_operands / _check_operands / _check_x86_operands / _check_AArch64_operands
   (osaca/semantics/hw_model.py, specialised to DB-format (dict) operands on the imported side) and
   the per-entry part of MachineModel.dump.  No proofs here.

   Representation of the Python objects (stated as trusted in notes/C20-glue.md):
   * an InstructionForm created by the translated code is a heap cell (list index); the cell holds the
     four fields the import touches (Model/Import.v's iform: mnemonic, operands, throughput, latency);
     the other fields the code writes (port_pressure, uops) are statically None;
   * a Python dict with str keys is an insertion-ordered association list;
   * a reference held by MachineModel is Model/Import.v's dref: `RForm i` = the i-th InstructionForm the
     translated set_instruction allocated, `RExisting n` = an InstructionForm object of the SHIPPED model
     (twin of a dict in _data["instruction_forms"], hence not dumped) with n operands that are Operand
     class instances (`shipped n`, a Section variable of the generated file); a store through
     `RExisting` is not tracked;
   * an operand seen by the matcher is `oper`: a DB-format dict or an Operand class instance (class tag +
     opaque attribute function). *)
From Coq Require Import String Ascii List Bool Arith ZArith.
From OV Require Import Model.PyString Model.ImportPre Model.Import.
Import ListNotations.
Open Scope string_scope.

(* ------------------------------------------------------------------ exceptions *)
Inductive gerr := GIndex | GValue | GKey | GType | GAttr | GStop.
Inductive gres (A : Type) := GOk (a : A) | GErr (e : gerr).
Arguments GOk {A} a.
Arguments GErr {A} e.
Definition gbind {A B} (r : gres A) (f : A -> gres B) : gres B :=
  match r with GOk a => f a | GErr e => GErr e end.
Definition gerr_of (e : err) : gerr := match e with EIndex => GIndex | EValue => GValue end.
Definition gres_of {A} (r : res A) : gres A := match r with Ok a => GOk a | Err e => GErr (gerr_of e) end.
Definition gmap {A B} (f : A -> B) (r : gres A) : gres B := match r with GOk a => GOk (f a) | GErr e => GErr e end.
(* [f(x) for x in l] with a raising f *)
Fixpoint g_mapM {A B} (f : A -> gres B) (l : list A) : gres (list B) :=
  match l with
  | [] => GOk []
  | x :: r => gbind (f x) (fun y => gbind (g_mapM f r) (fun ys => GOk (y :: ys)))
  end.
(* a translated function that signals ValueError by None (Gen/Import.v convention) *)
Definition g_of_opt {A} (o : option A) (e : gerr) : gres A := match o with Some a => GOk a | None => GErr e end.

(* ------------------------------------------------------------------ lists, str *)
Definition py_len {A} (l : list A) : Z := Z.of_nat (List.length l).
Definition py_strlen (s : string) : Z := Z.of_nat (String.length s).
(* l[i]: a negative index counts from the end; IndexError outside *)
Definition py_getitem {A} (l : list A) (i : Z) : gres A :=
  let j := if (i <? 0)%Z then (i + py_len l)%Z else i in
  if (j <? 0)%Z then GErr GIndex
  else match nth_error l (Z.to_nat j) with Some x => GOk x | None => GErr GIndex end.
(* l[:n] for a literal n >= 0 *)
Definition py_slice_to {A} (l : list A) (n : Z) : list A := firstn (Z.to_nat n) l.
(* range(a, b, s) for a literal step s > 0 *)
Definition py_range3 (a b s : Z) : list Z :=
  map (fun k => (a + Z.of_nat k * s)%Z) (seq 0 (Z.to_nat ((b - a + s - 1) / s))).
Definition py_enumerate {A} (l : list A) : list (Z * A) := combine (map Z.of_nat (seq 0 (List.length l))) l.
(* float(s) through the table `pf`; None = ValueError *)
Definition py_float {T} (pf : string -> option T) (s : string) : gres T := g_of_opt (pf s) GValue.

(* ------------------------------------------------------------------ loops with continue / break *)
Inductive ctl (S : Type) := CNext (s : S) | CBreak (s : S).
Arguments CNext {S} s.
Arguments CBreak {S} s.
Fixpoint py_for_ctl {A S} (l : list A) (s : S) (f : A -> S -> gres (ctl S)) : gres S :=
  match l with
  | [] => GOk s
  | x :: r => match f x s with
              | GErr e => GErr e
              | GOk (CNext s') => py_for_ctl r s' f
              | GOk (CBreak s') => GOk s'
              end
  end.

(* ------------------------------------------------------------------ dicts with str keys *)
Definition py_dict_has {A} (d : list (string * A)) (k : string) : bool :=
  match assoc k d with Some _ => true | None => false end.
Definition py_dict_get {A} (d : list (string * A)) (k : string) : gres A := g_of_opt (assoc k d) GKey.
Definition py_dict_get_default {A} (d : list (string * A)) (k : string) (dflt : A) : A :=
  match assoc k d with Some v => v | None => dflt end.
Definition py_dict_keys {A} (d : list (string * A)) : list string := map fst d.
(* `a == b` for two dicts with str keys: same key set, equal values (insertion order is irrelevant) *)
Definition pd_lookup (k : string) (d : pydict) : option pyval := assoc k d.
Definition pd_sub (a b : pydict) : bool :=
  forallb (fun kv => match pd_lookup (fst kv) b with Some v => pyval_eqb (snd kv) v | None => false end) a.
Definition py_dict_eq (a b : pydict) : bool := andb (Nat.eqb (List.length a) (List.length b)) (pd_sub a b).
Definition pd_has_key (k : string) (d : pydict) : bool := match pd_lookup k d with Some _ => true | None => false end.

(* ------------------------------------------------------------------ heap of InstructionForm cells *)
Definition ref := nat.
Section Heap.
Variable T : Type.
Definition heap := list (iform T).
Definition blank_form : iform T := mkform "" [] None None.     (* InstructionForm() *)
Definition hget (h : heap) (r : ref) : iform T := nth r h blank_form.
Definition hset (h : heap) (r : ref) (v : iform T) : heap := list_set r v h.
Definition halloc (h : heap) (v : iform T) : heap * ref := ((h ++ [v])%list, List.length h).
Definition set_mn (e : iform T) (s : string) := mkform s (f_operands e) (f_tp e) (f_lt e).
Definition set_ops (e : iform T) (o : list pydict) := mkform (f_mnemonic e) o (f_tp e) (f_lt e).
(* `return db_entries`: the dict of objects as a dict of their current values *)
Definition hresolve (h : heap) (d : list (string * ref)) : list (string * iform T) :=
  map (fun p => (fst p, hget h (snd p))) d.

(* truthiness of a throughput / latency value: None and 0.0 are false *)
Variable N : NumOps T.
Definition py_truth_optnum (o : option T) : bool :=
  match o with Some x => negb (neqb N x (nofZ N 0)) | None => false end.
(* `a or b` / `a and b` on such values *)
Definition py_or_optnum (a b : option T) : option T := if py_truth_optnum a then a else b.
Definition py_and_optnum (a b : option T) : option T := if py_truth_optnum a then b else a.

(* ---------------------------------------------------------------- MachineModel side *)
Inductive okind := KRegister | KMemory | KImmediate | KIdentifier | KCondition | KPrefetch | KFlag | KOther.
Definition okind_eqb (a b : okind) : bool :=
  match a, b with
  | KRegister, KRegister | KMemory, KMemory | KImmediate, KImmediate | KIdentifier, KIdentifier
  | KCondition, KCondition | KPrefetch, KPrefetch | KFlag, KFlag | KOther, KOther => true
  | _, _ => false
  end.
Inductive oper := ODict (d : pydict) | OObj (k : okind) (attrs : string -> pyval).
Definition oper_is_dict (o : oper) : bool := match o with ODict _ => true | OObj _ _ => false end.
Definition oper_isa (o : oper) (k : okind) : bool := match o with ODict _ => false | OObj k' _ => okind_eqb k k' end.
(* o.attr (the translator only emits it under an isinstance guard for an Operand class) *)
Definition oper_attr (o : oper) (a : string) : pyval := match o with ODict _ => PNone | OObj _ f => f a end.
(* i_operand == operand for a DB-format `operand` (an Operand instance never equals a dict) *)
Definition oper_eq_dict (o : oper) (d : pydict) : bool := match o with ODict d' => py_dict_eq d' d | OObj _ _ => false end.

(* MachineModel state seen by the import: the InstructionForm cells allocated by set_instruction
   (heap), the imported tail of _data["instruction_forms"] (references, in list order) and
   _data["instruction_forms_dict"] (a defaultdict(list)) *)
Record gmm := mkgmm { g_heap : heap; g_forms : list dref; g_dict : list (string * list dref) }.
Variable shipped : nat -> list oper.
(* form.operands through a reference *)
Definition ref_operands (m : gmm) (r : dref) : list oper :=
  match r with RExisting n => shipped n | RForm i => map ODict (f_operands (hget (g_heap m) i)) end.
(* a store through a reference: cells of the shipped model are not tracked *)
Definition ref_update (m : gmm) (r : dref) (f : iform T -> iform T) : gmm :=
  match r with
  | RExisting _ => m
  | RForm i => mkgmm (hset (g_heap m) i (f (hget (g_heap m) i))) (g_forms m) (g_dict m)
  end.
Definition mm_alloc (m : gmm) : gmm * dref :=
  (mkgmm (g_heap m ++ [blank_form])%list (g_forms m) (g_dict m), RForm (List.length (g_heap m))).
Definition mm_forms_append (m : gmm) (r : dref) : gmm := mkgmm (g_heap m) (g_forms m ++ [r])%list (g_dict m).
(* self._data["instruction_forms_dict"][k].append(r) on a defaultdict(list) *)
Definition mm_dict_append (m : gmm) (k : string) (r : dref) : gmm :=
  mkgmm (g_heap m) (g_forms m) (dict_append k r (g_dict m)).
(* next(x for x in l if p(x)) with a raising p: StopIteration when exhausted *)
Fixpoint py_next_filter {A} (p : A -> gres bool) (l : list A) : gres A :=
  match l with
  | [] => GErr GStop
  | x :: r => gbind (p x) (fun b => if b then GOk x else py_next_filter p r)
  end.
(* try: r  except StopIteration: return None *)
Definition py_catch_stop {A} (r : gres A) : gres (option A) :=
  match r with GOk a => GOk (Some a) | GErr GStop => GOk None | GErr e => GErr e end.
(* the imported forms as the dump shows them *)
Definition dumped_forms (m : gmm) : list (iform T) :=
  flat_map (fun r => match r with RForm i => [hget (g_heap m) i] | RExisting _ => [] end) (g_forms m).
End Heap.

Arguments hget {T} h r.
Arguments hset {T} h r v.
Arguments halloc {T} h v.
Arguments hresolve {T} h d.
Arguments set_mn {T} e s.
Arguments set_ops {T} e o.
Arguments blank_form {T}.
Arguments g_heap {T} g.
Arguments g_forms {T} g.
Arguments g_dict {T} g.
Arguments mkgmm {T} g_heap g_forms g_dict.
Arguments ref_operands {T} shipped m r.
Arguments ref_update {T} m r f.
Arguments mm_alloc {T} m.
Arguments mm_forms_append {T} m r.
Arguments mm_dict_append {T} m k r.
Arguments dumped_forms {T} m.
Arguments py_truth_optnum {T} N o.
Arguments py_or_optnum {T} N a b.
Arguments py_and_optnum {T} N a b.
